package main

// Concurrent half of the C13 tie.  One round = one reactive Variable[int] / Set[int] / Event shared by 4-8
// goroutines: writers, subscribers (subscribing at random moments, with and without the initial-trigger flag),
// and unsubscribers.  Every subscription records its events (callback enter / exit, unsubscribe returned) stamped
// by one atomic logical clock; after all goroutines have been joined (guarded by a generous timeout that becomes
// an oracle failure) each subscription's log is printed as one request line.  The Lean driver judges the line
// with the trace predicates of Hive/Spec/Reactive.lean; judgeLogLine below evaluates the same facts directly.

import (
	"crypto/sha256"
	"encoding/json"
	"fmt"
	"os"
	"runtime"
	"sort"
	"strconv"
	"strings"
	"sync"
	"sync/atomic"
	"time"

	"verifharness/hx"

	"github.com/iotaledger/hive.go/ds"
	"github.com/iotaledger/hive.go/ds/reactive"
)

const joinTimeout = 120 * time.Second

type evRec struct {
	stamp int64
	tok   string // e:<p>:<n> | e:<added>:<deleted> | x | u
}

// subLog is one subscription.
type subLog struct {
	mu       sync.Mutex
	evs      []evRec
	unsubbed atomic.Bool // an unsubscribe call was started
	returned atomic.Bool // ... and has returned
	inside   atomic.Int32
	direct   atomic.Value // string: first violation seen from inside a callback
	unsub    func()
	lineKind string // osub | wsub | csub for the subscription variants ("" = the round's default)
	meta     string // extra fields of the line after <final> (condition code, ...)
	callNo   int    // OnUpdateWithContext: number of the running callback (callbacks never overlap)
}

type round struct {
	light bool     // callbacks do nothing but record (walk rounds: the snapshot walk is then a large part of a write)
	extra []string // further request lines of the round (reads)
	clock atomic.Int64
	mu    sync.Mutex
	subs  []*subLog
	nvar  atomic.Int32 // set rounds: counts subscriptions, every fourth goes through WithElements
}

func (rd *round) newSub() *subLog {
	s := &subLog{}
	rd.mu.Lock()
	rd.subs = append(rd.subs, s)
	rd.mu.Unlock()

	return s
}

func (s *subLog) add(st int64, tok string) {
	s.mu.Lock()
	s.evs = append(s.evs, evRec{st, tok})
	s.mu.Unlock()
}

// body is what every callback does around its own work.
func (rd *round) body(s *subLog, note string) {
	st := rd.clock.Add(1)
	if s.inside.Add(1) != 1 {
		s.direct.CompareAndSwap(nil, "overlap")
	}
	if s.returned.Load() {
		s.direct.CompareAndSwap(nil, "after-unsubscribe")
	}
	s.add(st, "e:"+note)
	if st%3 == 0 && !rd.light {
		runtime.Gosched()
	}
	if st%7 == 0 && !rd.light {
		x := 0
		for i := 0; i < 300; i++ {
			x += i
		}
		_ = x
	}
	s.inside.Add(-1)
	s.add(rd.clock.Add(1), "x")
}

func (rd *round) doUnsub(s *subLog) {
	s.unsubbed.Store(true)
	s.unsub()
	s.returned.Store(true)
	s.add(rd.clock.Add(1), "u")
}

func dally(rng *hx.Rng) {
	for n := rng.Intn(4); n > 0; n-- {
		runtime.Gosched()
	}
	if rng.Chance(1, 4) {
		x := 0
		for i := rng.Intn(2000); i > 0; i-- {
			x += i
		}
		_ = x
	}
}

// join waits for the goroutines of a round; false on timeout.
func join(wg *sync.WaitGroup) bool {
	done := make(chan struct{})
	go func() { wg.Wait(); close(done) }()
	select {
	case <-done:
		return true
	case <-time.After(joinTimeout):
		return false
	}
}

func (s *subLog) line(kind, final string) string {
	s.mu.Lock()
	evs := append([]evRec(nil), s.evs...)
	s.mu.Unlock()
	sort.Slice(evs, func(i, j int) bool { return evs[i].stamp < evs[j].stamp })
	toks := make([]string, len(evs))
	for i, e := range evs {
		toks[i] = e.tok
	}
	act := "active"
	if s.unsubbed.Load() {
		act = "unsubbed"
	}

	if s.lineKind != "" {
		kind = s.lineKind
	}
	if s.meta != "" {
		final += " " + s.meta
	}

	return strings.TrimSpace(kind + " " + act + " " + final + " " + strings.Join(toks, " "))
}

// ev records one stamped event of a subscription outside a callback body (setup, teardown, context subscription).
func (rd *round) ev(s *subLog, tok string) { s.add(rd.clock.Add(1), tok) }

// ---- the rounds ------------------------------------------------------------------------------------------------

type subscribeFn func(rd *round, s *subLog, flag bool)

// crowd, when positive, makes runRound register that many subscriptions before the writers start (crowd rounds).
var crowd int

// writes returns how many operations a writer performs in this round (fewer when every write notifies a crowd).
func writes(rng *hx.Rng) int {
	if crowd > 0 {
		return rng.Range(5, 12)
	}

	return rng.Range(10, 40)
}

// runRound starts writers / subscribers / unsubscribers and joins them.
func runRound(r *hx.Run, rng *hx.Rng, kind string, writers []func(*hx.Rng), subscribe subscribeFn, pre func(rd *round)) (*round, bool) {
	rd := &round{}
	if pre != nil {
		pre(rd)
	}
	var wg sync.WaitGroup
	start := make(chan struct{})
	handles := make(chan *subLog, 64+crowd)
	if crowd > 0 {
		// a crowd of subscriptions exists before anything is written (so the callback list is long); bystanders from
		// the middle of the list are unsubscribed while the writers run: everybody else must still see every change
		first := len(rd.subs)
		for i := 0; i < crowd; i++ {
			s := rd.newSub()
			if p := hx.Safely(func() { subscribe(rd, s, rng.Bool()) }); p != "" {
				r.Fail("panic", "OnUpdate panicked: "+p, map[string]string{"oracle": "panic", "mode": "stress", "kind": kind})

				return rd, false
			}
		}
		for i := first + 3; i < first+crowd-3; i++ {
			if rng.Chance(1, 2) {
				handles <- rd.subs[i]
			}
		}
		r.Count("stress:" + kind + ":crowd-rounds")
	}
	for _, w := range writers {
		w, wr := w, hx.NewRng(rng.U64())
		wg.Add(1)
		go func() {
			defer wg.Done()
			<-start
			if p := hx.Safely(func() { w(wr) }); p != "" {
				r.Fail("panic", "writer panicked: "+p, map[string]string{"oracle": "panic", "mode": "stress", "kind": kind})
			}
		}()
	}
	nsub := rng.Range(1, 3)
	if crowd > 0 {
		nsub = 1
	}
	var subWg sync.WaitGroup
	for i := 0; i < nsub; i++ {
		sr := hx.NewRng(rng.U64())
		wg.Add(1)
		subWg.Add(1)
		go func() {
			defer wg.Done()
			defer subWg.Done()
			<-start
			for k := sr.Range(1, 3); k > 0; k-- {
				dally(sr)
				s := rd.newSub()
				if p := hx.Safely(func() { subscribe(rd, s, sr.Bool()) }); p != "" {
					r.Fail("panic", "OnUpdate panicked: "+p, map[string]string{"oracle": "panic", "mode": "stress", "kind": kind})

					return
				}
				switch sr.Intn(4) {
				case 0: // stays subscribed
				case 1: // the subscriber unsubscribes itself, later
					dally(sr)
					rd.doUnsub(s)
				default: // another goroutine unsubscribes
					handles <- s
				}
			}
		}()
	}
	// churners subscribe and unsubscribe in a tight loop while the writers run: many registrations, so that the
	// narrow hand-off windows (registration vs. a concurrent update) are actually hit
	nchurn := rng.Range(0, 2)
	if crowd > 0 {
		nchurn = rng.Range(0, 1)
	}
	for i := 0; i < nchurn; i++ {
		cr := hx.NewRng(rng.U64())
		wg.Add(1)
		go func() {
			defer wg.Done()
			<-start
			for k := cr.Range(10, 40); k > 0; k-- {
				s := rd.newSub()
				if p := hx.Safely(func() { subscribe(rd, s, cr.Bool()) }); p != "" {
					r.Fail("panic", "OnUpdate panicked: "+p, map[string]string{"oracle": "panic", "mode": "stress", "kind": kind})

					return
				}
				if cr.Chance(1, 3) {
					runtime.Gosched()
				}
				rd.doUnsub(s)
			}
		}()
	}
	nuns := rng.Range(1, 2)
	if crowd > 0 {
		nuns = rng.Range(2, 3)
	}
	go func() { subWg.Wait(); close(handles) }()
	for i := 0; i < nuns; i++ {
		ur := hx.NewRng(rng.U64())
		wg.Add(1)
		go func() {
			defer wg.Done()
			<-start
			for s := range handles {
				dally(ur)
				rd.doUnsub(s)
				if ur.Chance(1, 5) {
					rd.doUnsubAgain(s)
				}
			}
		}()
	}
	r.CountN("stress:goroutines", len(writers)+nsub+nuns+nchurn)
	close(start)
	if !join(&wg) {
		r.Fail("timeout", fmt.Sprintf("round on a %s did not finish within %s", kind, joinTimeout),
			map[string]string{"oracle": "timeout", "mode": "stress", "kind": kind})

		return rd, false
	}

	return rd, true
}

// doUnsubAgain calls an unsubscribe function a second time (must be harmless).
func (rd *round) doUnsubAgain(s *subLog) { s.unsub() }

func stressVar(r *hx.Run, rng *hx.Rng) bool {
	v := reactive.NewVariable[int]()
	nw := rng.Range(2, 3)
	type tr struct{ prev, next int }
	trs := make([][]tr, nw)
	writers := make([]func(*hx.Rng), nw)
	for w := 0; w < nw; w++ {
		w := w
		n := writes(rng)
		writers[w] = func(wr *hx.Rng) {
			for j := 1; j <= n; j++ {
				val := (w+1)*100000 + j
				var prev int
				switch wr.Intn(5) {
				case 0:
					prev = v.Compute(func(int) int { return val })
				case 1:
					v.Compute(func(cur int) int { return cur }) // no change: nobody may be notified

					continue
				default:
					prev = v.Set(val)
				}
				trs[w] = append(trs[w], tr{prev, val})
				if wr.Chance(1, 3) {
					runtime.Gosched()
				}
			}
		}
	}
	rd0sub := func(rd *round, s *subLog, flag bool) {
		s.unsub = v.OnUpdate(func(p, n int) { rd.body(s, fmt.Sprintf("%d:%d", p, n)) }, flag)
	}
	rd, ok := runRound(r, rng, "var", writers, rd0sub, nil)
	if !ok {
		return false
	}
	// the value history from the writers' own observations
	next := map[int]int{}
	total := 0
	for _, ts := range trs {
		for _, t := range ts {
			if _, dup := next[t.prev]; dup {
				r.Fail("history", fmt.Sprintf("two writes returned the same previous value %d", t.prev),
					map[string]string{"oracle": "history", "mode": "stress", "kind": "var"})
			}
			next[t.prev] = t.next
			total++
		}
	}
	hist := []string{"0"}
	for cur, n := 0, 0; n <= total; n++ {
		nx, ok := next[cur]
		if !ok {
			break
		}
		hist = append(hist, strconv.Itoa(nx))
		cur = nx
	}
	final := v.Get()
	if len(hist) != total+1 || hist[len(hist)-1] != strconv.Itoa(final) {
		r.Fail("history", fmt.Sprintf("the writers' (previous,new) pairs do not form one chain from 0 to Get()=%d: %d of %d writes chained", final, len(hist)-1, total),
			map[string]string{"oracle": "history", "mode": "stress", "kind": "var"})
	}
	emitRound(r, "var", "vhist "+strings.Join(hist, " "), rd, "vsub", strconv.Itoa(final))

	return true
}

func stressEvent(r *hx.Run, rng *hx.Rng) bool {
	e := reactive.NewEvent()
	nw := rng.Range(2, 3)
	var firsts atomic.Int32
	writers := make([]func(*hx.Rng), nw)
	for w := 0; w < nw; w++ {
		writers[w] = func(wr *hx.Rng) {
			dally(wr)
			if wr.Chance(1, 4) {
				e.Set(false) // never changes anything
			}
			if e.Trigger() {
				firsts.Add(1)
			}
		}
	}
	sub := func(rd *round, s *subLog, flag bool) {
		if flag {
			s.unsub = e.OnTrigger(func() { rd.body(s, "0:1") })
		} else {
			s.unsub = e.OnUpdate(func(p, n bool) { rd.body(s, fmt.Sprintf("%d:%d", bi(p), bi(n))) })
		}
	}
	rd, ok := runRound(r, rng, "event", writers, sub, nil)
	if !ok {
		return false
	}
	if firsts.Load() != 1 {
		r.Fail("trigger-once", fmt.Sprintf("%d Trigger() calls reported to be the first", firsts.Load()),
			map[string]string{"oracle": "trigger-once", "mode": "stress", "kind": "event"})
	}
	emitRound(r, "event", "vhist 0 1", rd, "vsub", strconv.Itoa(bi(e.Get())))

	return true
}

func randSubset(rng *hx.Rng, u int) []int {
	var xs []int
	for e := 0; e < u; e++ {
		if rng.Chance(1, 3) {
			xs = append(xs, e)
		}
	}

	return xs
}

func stressSet(r *hx.Run, rng *hx.Rng) bool {
	const u = 6
	s := reactive.NewSet[int](randSubset(rng, u)...)
	nw := rng.Range(2, 3)
	writers := make([]func(*hx.Rng), nw)
	// arg is a (thread-safe) set that is handed to Replace while another goroutine keeps mutating it: Replace must
	// report exactly the change it makes, whatever it sees of the argument
	arg := ds.NewSet[int](randSubset(rng, u)...)
	for w := 0; w < nw; w++ {
		n := writes(rng)
		writers[w] = func(wr *hx.Rng) {
			for j := 0; j < n; j++ {
				switch wr.Intn(12) {
				case 9, 10:
					s.Replace(arg)
				case 11:
					s.Replace(arg.ReadOnly())
				case 0:
					s.Add(wr.Intn(u))
				case 1:
					s.Delete(wr.Intn(u))
				case 2:
					s.AddAll(ds.NewSet(randSubset(wr, u)...))
				case 3:
					s.DeleteAll(ds.NewSet(randSubset(wr, u)...))
				case 4, 5:
					s.Apply(mkMut(randSubset(wr, u), randSubset(wr, u)))
				case 6:
					x := wr.Intn(u)
					s.Compute(func(cur ds.ReadableSet[int]) ds.SetMutations[int] {
						if cur.Has(x) {
							return mkMut(nil, []int{x})
						}

						return mkMut([]int{x}, nil)
					})
				default:
					s.Replace(ds.NewSet(randSubset(wr, u)...))
				}
				if wr.Chance(1, 3) {
					runtime.Gosched()
				}
			}
		}
	}
	if rng.Chance(2, 3) {
		n := rng.Range(40, 160)
		writers = append(writers, func(wr *hx.Rng) {
			for j := 0; j < n; j++ {
				switch wr.Intn(4) {
				case 0:
					arg.Delete(wr.Intn(u))
				case 1:
					arg.DeleteAll(ds.NewSet(randSubset(wr, u)...))
				case 2:
					arg.AddAll(ds.NewSet(randSubset(wr, u)...))
				default:
					arg.Add(wr.Intn(u))
				}
				if wr.Chance(1, 4) {
					runtime.Gosched()
				}
			}
		})
		r.Count("stress:set:rounds-with-argument-mutator")
	}
	sub := func(rd *round, sl *subLog, flag bool) {
		if n := int(rd.nvar.Add(1)); n%4 == 0 {
			weSubscribe(rd, s, sl, (n/4)%3, (n/12)%3)

			return
		}
		sl.unsub = s.OnUpdate(func(m ds.SetMutations[int]) { rd.body(sl, showMut(m)) }, flag)
	}
	// the reference subscription is registered before any goroutine starts and stays to the end (rd.subs[0])
	rd, ok := runRound(r, rng, "set", writers, sub, func(rd *round) { sub(rd, rd.newSub(), true) })
	if !ok {
		return false
	}
	emitRound(r, "set", "", rd, "ssub", showInts(s.ToSlice()))

	return true
}

// setWrite performs one random write operation on a reactive set.
func setWrite(s reactive.Set[int], wr *hx.Rng, u int) {
	switch wr.Intn(9) {
	case 0:
		s.Add(wr.Intn(u))
	case 1:
		s.Delete(wr.Intn(u))
	case 2:
		s.AddAll(ds.NewSet(randSubset(wr, u)...))
	case 3:
		s.DeleteAll(ds.NewSet(randSubset(wr, u)...))
	case 4, 5:
		s.Apply(mkMut(randSubset(wr, u), randSubset(wr, u)))
	case 6:
		x := wr.Intn(u)
		s.Compute(func(cur ds.ReadableSet[int]) ds.SetMutations[int] {
			if cur.Has(x) {
				return mkMut(nil, []int{x})
			}

			return mkMut([]int{x}, nil)
		})
	default:
		s.Replace(ds.NewSet(randSubset(wr, u)...))
	}
}

// stressDerivedSet: subscribers of a DerivedSet that is written through its sources (inherited mutations) and
// directly, at the same time.  All these writers must notify in the order in which they changed the value.
func stressDerivedSet(r *hx.Run, rng *hx.Rng) bool {
	const u = 6
	d := reactive.NewDerivedSet[int]()
	src := []reactive.Set[int]{reactive.NewSet[int](randSubset(rng, u)...), reactive.NewSet[int](randSubset(rng, u)...)}
	d.InheritFrom(src[0], src[1])
	var writers []func(*hx.Rng)
	for w := 0; w < 2; w++ {
		w, n := w, writes(rng)
		writers = append(writers, func(wr *hx.Rng) { // through a source
			for j := 0; j < n; j++ {
				setWrite(src[w], wr, u)
				if wr.Chance(1, 3) {
					runtime.Gosched()
				}
			}
		})
	}
	for w := rng.Range(1, 2); w > 0; w-- {
		n := writes(rng)
		writers = append(writers, func(wr *hx.Rng) { // directly
			for j := 0; j < n; j++ {
				setWrite(d, wr, u)
				if wr.Chance(1, 3) {
					runtime.Gosched()
				}
			}
		})
	}
	sub := func(rd *round, sl *subLog, flag bool) {
		if n := int(rd.nvar.Add(1)); n%4 == 0 {
			weSubscribe(rd, d, sl, (n/4)%3, (n/12)%3)

			return
		}
		sl.unsub = d.OnUpdate(func(m ds.SetMutations[int]) { rd.body(sl, showMut(m)) }, flag)
	}
	rd, ok := runRound(r, rng, "dset", writers, sub, func(rd *round) { sub(rd, rd.newSub(), true) })
	if !ok {
		return false
	}
	emitRound(r, "dset", "", rd, "ssub", showInts(d.ToSlice()))

	return true
}

// stressWalk: a callback list that is kept long (30-70 resident subscriptions with callbacks that only record), one
// writer, and 2-3 churners that each keep a small pool of further subscriptions at the back of the list, adding one or
// unsubscribing a random one of them all the time, plus an unsubscriber that removes residents from the middle.  The
// snapshot walk (`registeredCallbacks.Values()`) is a large part of every write here and there are hundreds of
// removals per round with other subscriptions registered behind the removed one, so an unsubscription that is not
// atomic with respect to the walk is hit often.  Every subscription must see every change made while it is registered.
func stressWalk(r *hx.Run, rng *hx.Rng) bool {
	const kind = "walk-var"
	v := reactive.NewVariable[int]()
	rd := &round{light: true}
	sig := func(o string) map[string]string {
		return map[string]string{"oracle": o, "mode": "stress", "kind": kind}
	}
	sub := func(s *subLog) bool {
		if p := hx.Safely(func() {
			s.unsub = v.OnUpdate(func(p, nw int) { rd.body(s, strconv.Itoa(p)+":"+strconv.Itoa(nw)) })
		}); p != "" {
			r.Fail("panic", "OnUpdate panicked: "+p, sig("panic"))

			return false
		}

		return true
	}
	n := rng.Range(30, 70)
	for i := 0; i < n; i++ {
		if !sub(rd.newSub()) {
			return false
		}
	}
	residents := append([]*subLog(nil), rd.subs...)
	writes := rng.Range(200, 500)
	var wg sync.WaitGroup
	var stop atomic.Bool
	start := make(chan struct{})
	wg.Add(1)
	go func() {
		defer wg.Done()
		defer stop.Store(true)
		<-start
		if p := hx.Safely(func() {
			for j := 1; j <= writes; j++ {
				v.Set(j)
			}
		}); p != "" {
			r.Fail("panic", "writer panicked: "+p, sig("panic"))
		}
	}()
	for k := rng.Range(2, 3); k > 0; k-- {
		cr := hx.NewRng(rng.U64())
		wg.Add(1)
		go func() {
			defer wg.Done()
			<-start
			var pool []*subLog
			for ops := 0; ops < 600 && !stop.Load(); ops++ {
				if len(pool) < 4 && (len(pool) == 0 || cr.Bool()) {
					s := rd.newSub()
					if !sub(s) {
						return
					}
					pool = append(pool, s)
				} else {
					i := cr.Intn(len(pool))
					s := pool[i]
					pool = append(pool[:i], pool[i+1:]...)
					if p := hx.Safely(func() { rd.doUnsub(s) }); p != "" {
						r.Fail("panic", "unsubscribe panicked: "+p, sig("panic"))

						return
					}
				}
				if cr.Chance(1, 4) {
					runtime.Gosched()
				}
			}
		}()
	}
	ur := hx.NewRng(rng.U64())
	wg.Add(1)
	go func() {
		defer wg.Done()
		<-start
		for i := 2; i < len(residents)-32 && !stop.Load(); i++ {
			runtime.Gosched()
			if ur.Bool() {
				if p := hx.Safely(func() { rd.doUnsub(residents[i]) }); p != "" {
					r.Fail("panic", "unsubscribe panicked: "+p, sig("panic"))

					return
				}
			}
		}
	}()
	close(start)
	if !join(&wg) {
		r.Fail("timeout", fmt.Sprintf("walk round did not finish within %s", joinTimeout), sig("timeout"))

		return false
	}
	hist := make([]string, writes+1)
	for i := range hist {
		hist[i] = strconv.Itoa(i)
	}
	r.CountN("stress:walk-var:subscriptions", len(rd.subs))
	emitSparse(r, kind, "vhist "+strings.Join(hist, " "), rd, strconv.Itoa(v.Get()))

	return true
}

// stressTwin: the same unsubscribe function called by two goroutines at the same time (unsubscribing is idempotent;
// OnUpdateOnce itself does `go unsubscribe()` and hands the same function to its caller), with one or two other
// subscriptions on the object, which must go on seeing every change.  Kinds twin-var / twin-set / twin-event (the Set
// has its own OnUpdate and unsubscribe closure).
func stressTwin(r *hx.Run, rng *hx.Rng, kind string) bool {
	base := strings.TrimPrefix(kind, "twin-")
	sig := func(o string) map[string]string { return map[string]string{"oracle": o, "mode": "stress", "kind": kind} }
	for attempt := 0; attempt < attemptsPerRound(r, 40); attempt++ {
		o := newBarrierObj(base, rng)
		rd := &round{light: true}
		writes := 0
		doWrite := func() {
			if o.maxWrite > 0 && writes >= o.maxWrite {
				return
			}
			writes++
			if p := hx.Safely(func() { o.write(writes, rng) }); p != "" {
				r.Fail("panic", "writer panicked: "+p, sig("panic"))
			}
		}
		if base == "set" {
			o.sub(rd, rd.newSub(), true) // the reference subscription
		}
		b, a := rd.newSub(), rd.newSub()
		nb := rng.Range(1, 2) // bystanders
		var c *subLog
		if rng.Bool() {
			o.sub(rd, a, rng.Bool())
			o.sub(rd, b, rng.Bool())
		} else {
			o.sub(rd, b, rng.Bool())
			o.sub(rd, a, rng.Bool())
		}
		if nb == 2 {
			c = rd.newSub()
			o.sub(rd, c, rng.Bool())
		}
		if base != "event" || rng.Bool() {
			doWrite()
		}
		var ready atomic.Int32
		var wg sync.WaitGroup
		for g := 0; g < 2; g++ {
			wg.Add(1)
			go func() {
				defer wg.Done()
				ready.Add(1)
				for ready.Load() < 2 {
					runtime.Gosched()
				}
				if p := hx.Safely(func() { a.unsubbed.Store(true); a.unsub() }); p != "" {
					r.Fail("panic", "unsubscribe panicked: "+p, sig("panic"))
				}
			}()
		}
		if !join(&wg) {
			r.Fail("timeout", "two concurrent calls of one unsubscribe function did not return", sig("timeout"))

			return false
		}
		a.returned.Store(true)
		a.add(rd.clock.Add(1), "u")
		if c != nil && rng.Bool() {
			rd.doUnsub(c)
		}
		for j := rng.Range(1, 3); j > 0; j-- {
			doWrite()
		}
		before := len(r.Findings)
		emitSparseKind(r, kind, o.histLine(writes), rd, o.lineKind, o.final())
		if len(r.Findings) > before {
			return true
		}
	}

	return true
}

// emitSparse judges every log of a round with the Go oracle but prints only the first three and the failing ones
// (rounds with hundreds of subscriptions).
func emitSparse(r *hx.Run, kind, histLine string, rd *round, final string) {
	emitSparseKind(r, kind, histLine, rd, "vsub", final)
}

// emitSparseKind: lineKind = vsub (histLine = the value history) or ssub (the first subscription is the reference).
func emitSparseKind(r *hx.Run, kind, histLine string, rd *round, lineKind, final string) {
	curCtx = &judgeCtx{kind: kind}
	if histLine != "" {
		r.Line(histLine, judgeLogLine(r, histLine))
	}
	for i, s := range rd.subs {
		lk := lineKind
		if lk == "ssub" && i == 0 {
			lk = "sref"
		}
		line := s.line(lk, final)
		if d, _ := s.direct.Load().(string); d != "" {
			fail(r, kind, d, "observed from inside the callback", line)
		}
		before := len(r.Findings)
		ans := judgeLogLine(r, line)
		if i < 3 || len(r.Findings) > before {
			r.Line(line, ans)
		}
		r.Count("stress:" + kind + ":subscriptions:" + strings.Fields(line)[1])
	}
	r.Count("stress:" + kind + ":rounds")
	curCtx = &judgeCtx{}
}

// ---- emitting and judging the logs -----------------------------------------------------------------------------

// judgeCtx carries what the lines of one round refer to: the variable's value history, the reference subscription.
type judgeCtx struct {
	kind string
	hist []string // values, oldest first (variable / event)
	ref  []string // notes of the set's reference subscription
	has  bool
}

var curCtx = &judgeCtx{}

func isLogLine(op string) bool {
	f := strings.Fields(op)

	return len(f) > 0 && (f[0] == "vsub" || f[0] == "ssub" || f[0] == "sref" || f[0] == "vhist" ||
		f[0] == "osub" || f[0] == "wsub" || f[0] == "csub" || f[0] == "rread" || f[0] == "esub")
}

// sideFile, in the stress child, receives every failure as it is found (one JSON object per line).
var sideFile *os.File

// sideRec is one line of the side file: the finding and the request lines of its case so far (`op => answer`),
// the judged log line last.  If the child dies, the parent rebuilds the failing cases from these records.
type sideRec struct {
	hx.Finding
	Lines  []string `json:"lines"`
	Marker string   `json:"marker,omitempty"` // no finding: the round that is about to run (`stress <kind> <seed>`)
}

// markRound notes in the side file which round is about to run: if the process dies in it (a fatal runtime error of
// a broken protocol), the parent reports the crash with this round as its failing input.
func markRound(line string) {
	if sideFile != nil {
		if b, err := json.Marshal(sideRec{Marker: line}); err == nil {
			sideFile.Write(append(b, '\n'))
		}
	}
}

func fail(r *hx.Run, kind, oracle, detail, line string) {
	full := line
	if len(line) > 600 {
		line = line[:600] + "…"
	}
	sig := map[string]string{"oracle": oracle, "mode": "stress", "kind": kind}
	if strings.HasPrefix(kind, "dir-") {
		sig["mode"] = "directed"
	}
	r.Fail(oracle, detail+" | "+line, sig)
	if sideFile != nil {
		lines := r.CaseLines()
		if len(full) < 20000 && isLogLine(full) {
			lines = append(lines, full+" => accept")
		}
		if b, err := json.Marshal(sideRec{Finding: hx.Finding{Oracle: oracle, Detail: detail + " | " + line, Signature: sig}, Lines: lines}); err == nil {
			sideFile.Write(append(b, '\n'))
		}
	}
}

func noteTokens(evs []string) (ns []string) {
	for _, e := range evs {
		if strings.HasPrefix(e, "e:") {
			ns = append(ns, e[2:])
		}
	}

	return ns
}

// runOf reports whether xs occurs as a contiguous run in ys (as a suffix if suffix is set).
func runOf(xs, ys []string, suffix bool) bool {
	if len(xs) == 0 {
		return true
	}
	for i := 0; i+len(xs) <= len(ys); i++ {
		if suffix && i+len(xs) != len(ys) {
			continue
		}
		ok := true
		for j := range xs {
			if xs[j] != ys[i+j] {
				ok = false

				break
			}
		}
		if ok {
			return true
		}
	}

	return false
}

// judgeLogLine evaluates the property on one recorded line, directly.  The answer column is the constant
// "accept": a failure is reported through r.Fail (and the Lean driver's "reject" then shows up as a mismatch).
func judgeLogLine(r *hx.Run, line string) string {
	f := strings.Fields(line)
	c := curCtx
	if f[0] == "vhist" {
		c.hist, c.has = f[1:], true

		return "ok"
	}
	switch f[0] {
	case "osub", "wsub", "csub", "rread":
		judgeVariantLine(r, c, f, line)

		return "accept"
	case "esub":
		k := c.kind
		if k == "" {
			k = "set"
		}
		judgeWeLine(r, k, f, line)

		return "accept"
	}
	if len(f) < 3 {
		return "bad-op"
	}
	kind := c.kind
	if kind == "" {
		kind = map[string]string{"vsub": "var", "ssub": "set", "sref": "set"}[f[0]]
	}
	active, final, evs := f[1] == "active", f[2], f[3:]
	// exclusivity, completion, nothing after unsubscribe returned
	inside, seenU := false, false
	for _, e := range evs {
		switch {
		case strings.HasPrefix(e, "e:"):
			if inside {
				fail(r, kind, "overlap", "two callbacks of one subscription ran concurrently", line)

				return "accept"
			}
			if seenU {
				fail(r, kind, "after-unsubscribe", "a callback started after unsubscribe() had returned", line)

				return "accept"
			}
			inside = true
		case e == "x":
			if !inside {
				fail(r, kind, "overlap", "callback exit without enter", line)

				return "accept"
			}
			inside = false
		case e == "u":
			seenU = true
		}
	}
	if inside {
		fail(r, kind, "unfinished", "a callback was still running after all goroutines were joined", line)

		return "accept"
	}
	ns := noteTokens(evs)
	switch f[0] {
	case "vsub":
		prev := "0"
		for _, n := range ns {
			pn := strings.SplitN(n, ":", 2)
			if pn[0] != prev {
				fail(r, kind, "chain", fmt.Sprintf("note (%s) follows a note whose new value was %s", n, prev), line)

				return "accept"
			}
			prev = pn[1]
		}
		if active && prev != final {
			fail(r, kind, "last-is-final", fmt.Sprintf("last reported value %s, Get() = %s", prev, final), line)

			return "accept"
		}
		if c.has {
			var ps []string
			for i := 0; i+1 < len(c.hist); i++ {
				ps = append(ps, c.hist[i]+":"+c.hist[i+1])
			}
			if !runOf(ns, ps, false) && !(len(ns) > 0 && runOf(ns[1:], ps, false)) {
				fail(r, kind, "exactly-once", "the notes are not a contiguous run of the variable's history", line)
			}
		}
	case "ssub", "sref":
		fold := map[int]bool{}
		for _, n := range ns {
			ad := strings.SplitN(n, ":", 2)
			added := map[int]bool{}
			for _, x := range parseInts(ad[0]) {
				// every note is a true difference in the order the changes happened: what it adds was absent ...
				if fold[x] {
					fail(r, kind, "true-difference", fmt.Sprintf("note %s adds %d, which the notes before it had already added", n, x), line)

					return "accept"
				}
				added[x] = true
			}
			for x := range added {
				fold[x] = true
			}
			for _, x := range parseInts(ad[1]) {
				// ... and what it deletes was present (e.g. never "delete 7" before "add 7")
				if !fold[x] {
					fail(r, kind, "true-difference", fmt.Sprintf("note %s deletes %d, which the notes before it never added", n, x), line)

					return "accept"
				}
				delete(fold, x)
			}
		}
		var fl []int
		for x := range fold {
			fl = append(fl, x)
		}
		if active && showInts(fl) != final {
			fail(r, kind, "set-fold", fmt.Sprintf("folding the notes gives {%s}, ToSlice() = {%s}", showInts(fl), final), line)

			return "accept"
		}
		if f[0] == "sref" {
			c.ref, c.has = ns, true
		} else if c.has {
			if !runOf(ns, c.ref, active) && !(len(ns) > 0 && runOf(ns[1:], c.ref, active)) {
				fail(r, kind, "exactly-once", "the notes are not a contiguous run (suffix, if still subscribed) of what the reference subscription saw", line)
			}
		}
	}

	return "accept"
}

func emitRound(r *hx.Run, kind, histLine string, rd *round, lineKind, final string) {
	curCtx = &judgeCtx{kind: kind}
	var all []string
	if histLine != "" {
		r.Line(histLine, judgeLogLine(r, histLine))
	}
	mid := false
	for i, s := range rd.subs {
		lk := lineKind
		if (kind == "set" || kind == "dset") && i == 0 {
			lk = "sref"
		}
		line := s.line(lk, final)
		if d, _ := s.direct.Load().(string); d != "" {
			fail(r, kind, d, "observed from inside the callback", line)
		}
		r.Line(line, judgeLogLine(r, line))
		all = append(all, line)
		ns := noteTokens(strings.Fields(line)[3:])
		if s.lineKind == "esub" {
			r.Count("stress:" + kind + ":withelements-subscriptions")
			r.CountN("stress:"+kind+":withelements-calls", len(strings.Fields(line))-5)
		}
		r.CountN("stress:"+kind+":notes", len(ns))
		r.Count("stress:" + kind + ":subscriptions:" + strings.Fields(line)[1])
		if !((kind == "set" || kind == "dset") && i == 0) && len(ns) >= 2 && (kind != "var" || !strings.HasSuffix(ns[0], ":0") && strings.HasPrefix(ns[0], "0:")) {
			mid = true
		}
	}
	for _, line := range rd.extra {
		r.Line(line, judgeLogLine(r, line))
	}
	r.Count("stress:" + kind + ":rounds")
	if mid {
		r.Count("stress:" + kind + ":rounds-with-midstream-subscription")
		h := sha256.Sum256([]byte(strings.Join(all, "\n")))
		r.Nontrivial(string(h[:8]))
	}
	curCtx = &judgeCtx{}
}

func stressOne(r *hx.Run, kind string, seed uint64) bool {
	rng := hx.NewRng(seed)
	switch kind {
	case "var":
		return stressVar(r, rng)
	case "set":
		return stressSet(r, rng)
	case "event":
		return stressEvent(r, rng)
	case "dset":
		return stressDerivedSet(r, rng)
	case "varx":
		return stressVarx(r, rng)
	case "walk-var":
		return stressWalk(r, rng)
	case "twin-var", "twin-set", "twin-event":
		return stressTwin(r, rng, kind)
	case "barrier-var", "barrier-set", "barrier-event":
		return stressBarrier(r, rng, kind)
	case "window-var", "window-set", "window-event":
		return stressWindow(r, rng, kind)
	case "crowd-var", "crowd-set", "crowd-event", "crowd-dset":
		crowd = rng.Range(40, 80)
		defer func() { crowd = 0 }()

		return stressOne2(r, strings.TrimPrefix(kind, "crowd-"), rng)
	}

	return true
}

func stressOne2(r *hx.Run, kind string, rng *hx.Rng) bool {
	switch kind {
	case "var":
		return stressVar(r, rng)
	case "set":
		return stressSet(r, rng)
	case "event":
		return stressEvent(r, rng)
	case "dset":
		return stressDerivedSet(r, rng)
	}

	return true
}

// runStressLines re-runs the round a `stress <kind> <seed>` line describes (replay).
func runStressLines(r *hx.Run, op string) {
	f := strings.Fields(op)
	if len(f) < 3 {
		r.Line(op, "bad-op")

		return
	}
	seed, _ := strconv.ParseUint(f[2], 10, 64)
	r.Line(op, "ok")
	stressOne(r, f[1], seed)
}

// attemptsPerRound: rounds that consist of several fresh objects (twin, barrier) make a quarter of the attempts per round
// in the thorough tier, which has 10 times the rounds and runs under the race detector.
func attemptsPerRound(r *hx.Run, quick int) int {
	if r.Scale > 1 {
		return (quick + 3) / 4
	}

	return quick
}

func runStress(r *hx.Run) {
	runDirPart(r)
	rounds := 4000 * r.Scale
	if r.Scale > 1 {
		rounds = rounds * 2 / 5 // thorough: 32 000 rounds under the race detector (the tier has to fit into 20 minutes)
	}
	// the barrier and window rounds come first: their failing inputs are on file before a broken list / hand-off can crash or
	// hang a later round
	kinds := []string{"barrier-var", "barrier-set", "barrier-event", "window-var", "window-set", "window-event", "var", "set", "dset", "var", "crowd-var", "set", "event", "dset", "crowd-set", "var", "set", "crowd-event",
		"var", "set", "dset", "crowd-var", "event", "set", "crowd-dset", "var", "varx", "varx", "varx", "varx", "varx", "walk-var", "twin-var", "twin-set", "twin-event"}
	for i := 0; i < rounds; i++ {
		seed := r.Rng.U64()
		kind := kinds[i%len(kinds)]
		r.Case(seed)
		markRound(fmt.Sprintf("stress %s %d", kind, seed))
		r.Line(fmt.Sprintf("stress %s %d", kind, seed), "ok")
		if !stressOne(r, kind, seed) {
			return // a timed-out round leaves goroutines behind: stop here, the failure is recorded
		}
		if i < 2 {
			ls := r.CaseLines()
			for j := range ls {
				if len(ls[j]) > 300 {
					ls[j] = ls[j][:300] + "…"
				}
			}
			r.Sample(ls)
		}
	}
}
