package main

import "verifharness/hx"

func runStressLines(r *hx.Run, op string)       {}
func isLogLine(op string) bool                  { return false }
func judgeLogLine(r *hx.Run, op string) string  { return "accept" }
func runStress(r *hx.Run)                       {}
