package main

// Sequential `newvarx` cases: one real reactive.Variable[int] with subscribers of every variant
// (OnUpdateOnce, WithValue / WithNonEmptyValue, OnUpdateWithContext), the reader Read and the writers Set, Compute,
// DefaultTo, Init, ToggleValue(+reset), DeriveValueFrom(+teardown).  The answer to every op lists the events the
// variant subscribers produced, in order; the Lean model (Hive/Model/ReactiveVariantsSeq.lean) must print the same.
// The property oracle below is independent of Lean: exactly-once for OnUpdateOnce (the first matching note, never a
// second call), strict setup/teardown alternation for WithValue, "previous context torn down before the next
// callback and at unsubscribe" for OnUpdateWithContext.

import (
	"fmt"
	"log/slog"
	"strconv"
	"strings"

	"verifharness/hx"

	"github.com/iotaledger/hive.go/ds/reactive"
)

func onceCond(c int) func(p, n int) bool {
	switch c {
	case 1:
		return func(_, n int) bool { return n%2 == 1 }
	case 2:
		return func(p, n int) bool { return n > p }
	}

	return nil
}

func wvCond(c int) func(v int) bool {
	switch c {
	case 1:
		return func(v int) bool { return v%2 == 1 }
	case 2:
		return func(v int) bool { return v >= 2 }
	case 3:
		return func(v int) bool { return v != 0 }
	}

	return nil
}

type xSub struct {
	kind  string // once | wv | ctx | log
	unsub func()
	dead  bool
	// once
	cond   func(p, n int) bool
	stream [][2]int // the notes the inner subscription must have been handed (kept by the harness from Get())
	calls  [][2]int
	// wv
	vcond  func(v int) bool
	active *int
	// ctx
	callNo int
	open   []string
	last   int // new value of the last call
	// log
	logger *fakeLogReceiver
}

// fakeLogReceiver is the VariableLogReceiver handed to LogUpdates: one log level that the harness activates and
// deactivates.  Contract (variable.go): the setup runs when the level becomes active, the shutdown function it
// returned when the level is deactivated (or the subscription to the level is cancelled).
type fakeLogReceiver struct {
	w        *xWorld
	i        int
	active   bool
	setup    func() func()
	shutdown func()
	gone     bool
	logged   int  // value of the last message since the level was activated
	any      bool // ... if there was one
}

func (l *fakeLogReceiver) OnLogLevelActive(_ slog.Level, setup func() (shutdown func())) (unsubscribe func()) {
	l.setup = setup
	if l.active {
		l.shutdown = setup()
	}

	return func() {
		l.gone = true
		if l.shutdown != nil {
			l.shutdown()
			l.shutdown = nil
		}
	}
}

func (l *fakeLogReceiver) LogAttrs(msg string, _ slog.Level, args ...slog.Attr) {
	if l.gone || !l.active {
		l.w.violate("after-unsubscribe", fmt.Sprintf("LogUpdates %d logged %v although its level is inactive or it was unsubscribed", l.i, args))
	}
	val := ""
	if len(args) == 1 && args[0].Key == "set" {
		val = args[0].Value.String()
	}
	if n, err := strconv.Atoi(strings.TrimPrefix(val, "s")); err == nil {
		l.logged, l.any = n, true
	}
	l.w.toks = append(l.w.toks, fmt.Sprintf("l%d=%s", l.i, val))
}

func (l *fakeLogReceiver) setLevel(active bool) {
	if l.gone || active == l.active {
		return
	}
	l.active = active
	if active {
		l.any = false
		l.shutdown = l.setup()
	} else if l.shutdown != nil {
		l.shutdown()
		l.shutdown = nil
	}
}

func (w *xWorld) addLog(active, stringer bool) {
	s := &xSub{kind: "log", logger: &fakeLogReceiver{w: w, i: len(w.subs), active: active}}
	w.subs = append(w.subs, s)
	if stringer {
		s.unsub = w.v.LogUpdates(s.logger, slog.LevelInfo, "v", func(v int) string { return "s" + strconv.Itoa(v) })
	} else {
		s.unsub = w.v.LogUpdates(s.logger, slog.LevelInfo, "v")
	}
}

type xWorld struct {
	v        reactive.Variable[int]
	subs     []*xSub
	toks     []string
	resets   []func()
	in       reactive.Variable[int]
	dv       reactive.DerivedVariable[int]
	undo     func()
	detached bool
	dvBefore int
	viol     []string // violations seen from inside callbacks: "oracle: detail"
}

func (w *xWorld) violate(oracle, detail string) { w.viol = append(w.viol, oracle+"\x00"+detail) }

func (w *xWorld) addOnce(c int) {
	i := len(w.subs)
	s := &xSub{kind: "once", cond: onceCond(c)}
	w.subs = append(w.subs, s)
	if cur := w.v.Get(); cur != 0 {
		s.stream = append(s.stream, [2]int{0, cur})
	}
	cb := func(p, n int) {
		s.calls = append(s.calls, [2]int{p, n})
		if len(s.calls) > 1 {
			w.violate("once-twice", fmt.Sprintf("OnUpdateOnce callback %d called again with (%d,%d) after %v", i, p, n, s.calls[0]))
		}
		if s.dead {
			w.violate("after-unsubscribe", fmt.Sprintf("OnUpdateOnce callback %d called after its unsubscribe returned", i))
		}
		w.toks = append(w.toks, fmt.Sprintf("o%d:%d:%d", i, p, n))
	}
	if s.cond == nil {
		s.unsub = w.v.OnUpdateOnce(cb)
	} else {
		s.unsub = w.v.OnUpdateOnce(cb, s.cond)
	}
}

func (w *xWorld) addWithValue(c int, nonEmpty bool) {
	i := len(w.subs)
	s := &xSub{kind: "wv", vcond: wvCond(c)}
	if nonEmpty {
		s.vcond = func(v int) bool { return v != 0 }
	}
	w.subs = append(w.subs, s)
	setup := func(v int) func() {
		if s.active != nil {
			w.violate("withvalue-alternation", fmt.Sprintf("WithValue %d: setup(%d) while the setup for %d has not been torn down", i, v, *s.active))
		}
		if s.dead {
			w.violate("after-unsubscribe", fmt.Sprintf("WithValue %d: setup(%d) after its teardown function returned", i, v))
		}
		if s.vcond != nil && !s.vcond(v) {
			w.violate("withvalue-condition", fmt.Sprintf("WithValue %d: setup(%d) although the condition does not hold", i, v))
		}
		vv := v
		s.active = &vv
		w.toks = append(w.toks, fmt.Sprintf("w%d+%d", i, v))
		torn := false

		return func() {
			if torn || s.active == nil || *s.active != v {
				w.violate("withvalue-alternation", fmt.Sprintf("WithValue %d: teardown(%d) called twice or out of turn", i, v))
			}
			torn = true
			s.active = nil
			w.toks = append(w.toks, fmt.Sprintf("w%d-%d", i, v))
		}
	}
	switch {
	case nonEmpty:
		s.unsub = w.v.WithNonEmptyValue(setup)
	case wvCond(c) == nil:
		s.unsub = w.v.WithValue(setup)
	default:
		s.unsub = w.v.WithValue(setup, wvCond(c))
	}
}

func (w *xWorld) addCtx(flag bool) {
	i := len(w.subs)
	s := &xSub{kind: "ctx"}
	w.subs = append(w.subs, s)
	s.unsub = w.v.OnUpdateWithContext(func(p, n int, within func(func() func())) {
		if len(s.open) != 0 {
			w.violate("context-torn-down", fmt.Sprintf("OnUpdateWithContext %d: callback (%d,%d) starts while %v of the previous callback are not torn down", i, p, n, s.open))
		}
		if s.dead {
			w.violate("after-unsubscribe", fmt.Sprintf("OnUpdateWithContext %d: callback after its unsubscribe returned", i))
		}
		if p != s.last {
			w.violate("chain", fmt.Sprintf("OnUpdateWithContext %d: callback (%d,%d) after one whose new value was %d", i, p, n, s.last))
		}
		s.last = n
		k := s.callNo
		s.callNo++
		w.toks = append(w.toks, fmt.Sprintf("c%d!%d:%d", i, p, n))
		for j := 0; j < n%3; j++ {
			id := fmt.Sprintf("%d.%d", k, j)
			if n == 4 && j == 0 {
				within(func() func() {
					w.toks = append(w.toks, fmt.Sprintf("c%d~%s", i, id))

					return nil
				})

				continue
			}
			within(func() func() {
				w.toks = append(w.toks, fmt.Sprintf("c%d+%s", i, id))
				s.open = append(s.open, id)

				return func() {
					if len(s.open) == 0 || s.open[0] != id {
						w.violate("context-torn-down", fmt.Sprintf("OnUpdateWithContext %d: teardown %s out of turn (open %v)", i, id, s.open))
					} else {
						s.open = s.open[1:]
					}
					w.toks = append(w.toks, fmt.Sprintf("c%d-%s", i, id))
				}
			})
		}
	}, flag)
}

// oracle: evaluated after every op on the real objects.
func (w *xWorld) oracle(r *hx.Run, op string, before, after int) {
	opk := strings.Fields(op)[0]
	for _, v := range w.viol {
		p := strings.SplitN(v, "\x00", 2)
		r.Fail(p[0], fmt.Sprintf("after %q: %s", op, p[1]), map[string]string{"oracle": p[0], "op": opk, "mode": "seqx"})
	}
	w.viol = nil
	direct := func(oracle, detail string) {
		r.Fail(oracle, fmt.Sprintf("after %q: %s", op, detail), map[string]string{"oracle": oracle, "op": opk, "mode": "seqx"})
	}
	switch opk {
	case "reset":
		if after != 0 {
			direct("toggle-reset", fmt.Sprintf("the reset function of ToggleValue left the value at %d, not at the zero value", after))
		}
	case "toggle", "init", "set":
		if want := atoi(strings.Fields(op)[1]); after != want {
			direct("writer", fmt.Sprintf("value is %d, not %d", after, want))
		}
	case "derive", "feed":
		if w.detached {
			if after != before {
				direct("derive-teardown", fmt.Sprintf("the value followed the source (%d -> %d) after DeriveValueFrom's teardown had been called", before, after))
			}
		} else if w.dv != nil && (opk == "derive" || w.dvBefore != w.dv.Get()) && after != w.dv.Get() {
			direct("derive-follows", fmt.Sprintf("source is %d but the deriving variable is %d", w.dv.Get(), after))
		}
	}
	for i, s := range w.subs {
		switch s.kind {
		case "once":
			if !s.dead && before != after && opk != "once" {
				s.stream = append(s.stream, [2]int{before, after})
			}
			var want *[2]int
			for k := range s.stream {
				if s.cond == nil || s.cond(s.stream[k][0], s.stream[k][1]) {
					want = &s.stream[k]

					break
				}
			}
			switch {
			case want == nil && len(s.calls) > 0:
				r.Fail("once-wrong", fmt.Sprintf("after %q: OnUpdateOnce %d called with %v although no note %v satisfies the condition", op, i, s.calls[0], s.stream),
					map[string]string{"oracle": "once-wrong", "op": opk, "mode": "seqx"})
				s.stream = nil
			case want != nil && len(s.calls) == 0:
				r.Fail("once-missed", fmt.Sprintf("after %q: OnUpdateOnce %d not called although %v of %v satisfies the condition", op, i, *want, s.stream),
					map[string]string{"oracle": "once-missed", "op": opk, "mode": "seqx"})
				s.calls = append(s.calls, *want)
			case want != nil && s.calls[0] != *want:
				r.Fail("once-wrong", fmt.Sprintf("after %q: OnUpdateOnce %d called with %v, the first matching note of %v is %v", op, i, s.calls[0], s.stream, *want),
					map[string]string{"oracle": "once-wrong", "op": opk, "mode": "seqx"})
				s.calls[0] = *want
			}
		case "wv":
			if s.dead {
				if s.active != nil {
					r.Fail("withvalue-alternation", fmt.Sprintf("after %q: WithValue %d still set up for %d after its teardown function returned", op, i, *s.active),
						map[string]string{"oracle": "withvalue-closed", "op": opk, "mode": "seqx"})
					s.active = nil
				}

				continue
			}
			want := s.vcond == nil || s.vcond(after)
			if want != (s.active != nil) || (want && *s.active != after) {
				r.Fail("withvalue-current", fmt.Sprintf("after %q: WithValue %d: value %d, condition %v, but active setup %v", op, i, after, want, showPtr(s.active)),
					map[string]string{"oracle": "withvalue-current", "op": opk, "mode": "seqx"})
				if want {
					a := after
					s.active = &a
				} else {
					s.active = nil
				}
			}
		case "log":
			// while the level is active the last message is the current value (none yet only while the value is zero)
			if l := s.logger; !s.dead && l.active && (l.any && l.logged != after || !l.any && after != 0) {
				r.Fail("last-is-final", fmt.Sprintf("after %q: LogUpdates %d: last logged value %d (any: %v), Get() = %d", op, i, l.logged, l.any, after),
					map[string]string{"oracle": "last-is-final", "op": opk, "mode": "seqx"})
				l.logged, l.any = after, true
			}
		case "ctx":
			if s.dead && len(s.open) != 0 {
				r.Fail("context-torn-down", fmt.Sprintf("after %q: OnUpdateWithContext %d: %v still open after unsubscribe returned", op, i, s.open),
					map[string]string{"oracle": "context-closed", "op": opk, "mode": "seqx"})
				s.open = nil
			}
			if !s.dead && s.callNo > 0 && s.last != after {
				r.Fail("last-is-final", fmt.Sprintf("after %q: OnUpdateWithContext %d last saw %d, Get() = %d", op, i, s.last, after),
					map[string]string{"oracle": "last-is-final", "op": opk, "mode": "seqx"})
				s.last = after
			}
		}
	}
}

func showPtr(p *int) string {
	if p == nil {
		return "none"
	}

	return strconv.Itoa(*p)
}

func (w *xWorld) exec(r *hx.Run, op string) (ans string) {
	f := strings.Fields(op)
	w.toks = w.toks[:0]
	num := func(i int) int {
		if i < len(f) {
			n, _ := strconv.Atoi(f[i])

			return n
		}

		return 0
	}
	before := w.v.Get()
	var ret string
	if p := hx.Safely(func() { ret = w.exec1(f, num) }); p != "" {
		r.Fail("panic", fmt.Sprintf("op %q panicked: %s", op, p), map[string]string{"oracle": "panic", "op": f[0], "mode": "seqx"})

		return "panic"
	}
	if ret == "bad-op" {
		return ret
	}
	w.oracle(r, op, before, w.v.Get())
	ans = ret + " |"
	for _, t := range w.toks {
		ans += " " + t
	}

	return ans
}

func (w *xWorld) exec1(f []string, num func(int) int) string {
	switch f[0] {
	case "set":
		return strconv.Itoa(w.v.Set(num(1)))
	case "compute":
		k := num(1)

		return strconv.Itoa(w.v.Compute(func(v int) int { return (2*v + k) % 5 }))
	case "defaultto":
		nv, upd := w.v.DefaultTo(num(1))

		return strconv.Itoa(nv) + " " + b2s(upd)
	case "init":
		w.v.Init(num(1))

		return "ok"
	case "toggle":
		w.resets = append(w.resets, w.v.ToggleValue(num(1)))

		return "ok"
	case "reset":
		if len(w.resets) == 0 {
			return "bad-op"
		}
		w.resets[len(w.resets)-1]()
		w.resets = w.resets[:len(w.resets)-1]

		return "ok"
	case "derive":
		if w.dv != nil {
			return "bad-op"
		}
		k := num(1)
		w.in = reactive.NewVariable[int]()
		w.dv = reactive.NewDerivedVariable[int](func(_ int, x int) int { return (x + k) % 5 }, w.in)
		w.undo = w.v.DeriveValueFrom(w.dv)

		return strconv.Itoa(w.dv.Get())
	case "feed":
		if w.dv == nil {
			return "bad-op"
		}
		w.dvBefore = w.dv.Get()
		w.in.Set(num(1))

		return strconv.Itoa(w.dv.Get())
	case "underive":
		if w.dv == nil {
			return "bad-op"
		}
		if w.detached {
			w.dv.Unsubscribe() // a further call, directly on the DerivedVariable: sync.Once, nothing happens
		} else {
			w.undo()
		}
		w.detached = true

		return "ok"
	case "read":
		var seen int
		w.v.Read(func(cur int) { seen = cur })

		return strconv.Itoa(seen)
	case "once":
		w.addOnce(num(1))

		return "ok"
	case "withvalue":
		w.addWithValue(num(1), false)

		return "ok"
	case "nonempty":
		w.addWithValue(0, true)

		return "ok"
	case "ctx":
		w.addCtx(num(1) == 1)

		return "ok"
	case "log":
		w.addLog(num(1) == 1, num(2) == 1)

		return "ok"
	case "level":
		i := num(1)
		if len(f) < 3 || i < 0 || i >= len(w.subs) || w.subs[i].kind != "log" {
			return "bad-op"
		}
		if !w.subs[i].dead {
			w.subs[i].logger.setLevel(num(2) == 1)
		}

		return "ok"
	case "unsub":
		i := num(1)
		if len(f) < 2 || i < 0 || i >= len(w.subs) {
			return "bad-op"
		}
		w.subs[i].unsub()
		w.subs[i].dead = true

		return "ok"
	case "state":
		out := strconv.Itoa(w.v.Get())
		w.toks = w.toks[:0]
		for _, s := range w.subs {
			switch {
			case s.dead:
				w.toks = append(w.toks, "x")
			case s.kind == "once":
				w.toks = append(w.toks, "o"+strconv.Itoa(bi(len(s.calls) > 0)))
			case s.kind == "log":
				w.toks = append(w.toks, "l"+strconv.Itoa(bi(s.logger.active)))
			case s.kind == "wv":
				if s.active == nil {
					w.toks = append(w.toks, "w-")
				} else {
					w.toks = append(w.toks, "w"+strconv.Itoa(*s.active))
				}
			default:
				w.toks = append(w.toks, "c"+strconv.Itoa(len(s.open)))
			}
		}

		return out
	}

	return "bad-op"
}

func genSeqxCase(rng *hx.Rng, n int) []string {
	ops := []string{"newvarx"}
	nsubs, toggles, derived := 0, 0, 0
	var logs []int
	for i := 0; i < n; i++ {
		switch x := rng.Intn(100); {
		case x < 22:
			ops = append(ops, fmt.Sprintf("set %d", rng.Intn(5)))
		case x < 32:
			ops = append(ops, fmt.Sprintf("compute %d", rng.Intn(5)))
		case x < 36:
			ops = append(ops, fmt.Sprintf("defaultto %d", rng.Intn(5)))
		case x < 39:
			ops = append(ops, fmt.Sprintf("init %d", rng.Intn(5)))
		case x < 44:
			toggles++
			ops = append(ops, fmt.Sprintf("toggle %d", rng.Intn(5)))
		case x < 48:
			if toggles > 0 {
				toggles--
				ops = append(ops, "reset")
			}
		case x < 52:
			if derived == 0 {
				derived = 1
				ops = append(ops, fmt.Sprintf("derive %d", rng.Intn(5)))
			} else {
				ops = append(ops, fmt.Sprintf("feed %d", rng.Intn(5)))
			}
		case x < 58:
			if derived > 0 {
				ops = append(ops, fmt.Sprintf("feed %d", rng.Intn(5)))
			}
		case x < 60:
			if derived > 0 {
				ops = append(ops, "underive")
			}
		case x < 68:
			nsubs++
			ops = append(ops, fmt.Sprintf("once %d", rng.Intn(3)))
		case x < 75:
			nsubs++
			ops = append(ops, fmt.Sprintf("withvalue %d", rng.Intn(3)))
		case x < 79:
			nsubs++
			ops = append(ops, "nonempty")
		case x < 84:
			nsubs++
			ops = append(ops, fmt.Sprintf("ctx %d", rng.Intn(2)))
		case x < 91:
			if len(logs) == 0 || rng.Chance(1, 3) {
				logs = append(logs, nsubs)
				nsubs++
				ops = append(ops, fmt.Sprintf("log %d %d", rng.Intn(2), rng.Intn(2)))
			} else {
				ops = append(ops, fmt.Sprintf("level %d %d", logs[rng.Intn(len(logs))], rng.Intn(2)))
			}
		case x < 95:
			if nsubs > 0 {
				ops = append(ops, fmt.Sprintf("unsub %d", rng.Intn(nsubs)))
			}
		case x < 97:
			ops = append(ops, "read")
		default:
			ops = append(ops, "state")
		}
	}
	ops = append(ops, "state")

	return ops
}
