package main

// Stress rounds `varx`: one Variable[int], 8 writers (Set / Compute / Init / ToggleValue / DefaultTo, unique values),
// a reader (Read / Get) and subscribers of every variant — OnUpdate, OnUpdateOnce, WithValue, WithNonEmptyValue,
// OnUpdateWithContext — subscribing, unsubscribing and churning while the writers run.  Oracles: exactly-once (and
// first-match) for OnUpdateOnce, strict setup/teardown alternation and completeness for WithValue, "context torn
// down before the next callback and at unsubscribe" for OnUpdateWithContext, nothing after unsubscribe returned,
// reads in history order.

import (
	"fmt"
	"runtime"
	"strconv"
	"strings"
	"sync/atomic"

	"verifharness/hx"

	"github.com/iotaledger/hive.go/ds/reactive"
)

func stressOnceCond(c int) func(p, n int) bool {
	switch c {
	case 1:
		return func(_, n int) bool { return n%3 == 0 }
	case 2:
		return func(p, n int) bool { return n > p }
	}

	return nil
}

func stressWvCond(c int) func(v int) bool {
	switch c {
	case 1:
		return func(v int) bool { return v%3 == 0 }
	case 3:
		return func(v int) bool { return v != 0 }
	}

	return nil
}

func stressVarx(r *hx.Run, rng *hx.Rng) bool {
	v := reactive.NewVariable[int]()
	const nw = 8
	writers := make([]func(*hx.Rng), nw)
	for w := 0; w < nw; w++ {
		w, n := w, rng.Range(5, 14)
		writers[w] = func(wr *hx.Rng) {
			for j := 1; j <= n; j++ {
				val := (w+1)*100000 + j
				switch wr.Intn(8) {
				case 0:
					v.Compute(func(int) int { return val })
				case 1:
					v.Compute(func(cur int) int { return cur })
				case 2:
					v.Init(val)
				case 3:
					v.ToggleValue(val)
				case 4:
					v.DefaultTo(val)
				default:
					v.Set(val)
				}
				if wr.Chance(1, 3) {
					runtime.Gosched()
				}
			}
		}
	}
	var reads []string
	writers = append(writers, func(wr *hx.Rng) { // the reader
		for i := wr.Range(20, 60); i > 0; i-- {
			if i%2 == 0 {
				v.Read(func(cur int) { reads = append(reads, strconv.Itoa(cur)) })
			} else {
				reads = append(reads, strconv.Itoa(v.Get()))
			}
			if wr.Chance(1, 2) {
				runtime.Gosched()
			}
		}
	})
	var variant atomic.Int64
	sub := func(rd *round, s *subLog, flag bool) {
		k := int(variant.Add(1))
		after := func() {
			if s.returned.Load() {
				s.direct.CompareAndSwap(nil, "after-unsubscribe")
			}
		}
		switch k % 6 {
		case 0:
			s.unsub = v.OnUpdate(func(p, n int) { rd.body(s, fmt.Sprintf("%d:%d", p, n)) }, flag)
		case 1, 2:
			c := (k / 6) % 3
			s.lineKind = "osub"
			cb := func(p, n int) { rd.body(s, fmt.Sprintf("%d:%d", p, n)) }
			if cond := stressOnceCond(c); cond != nil {
				s.unsub = v.OnUpdateOnce(cb, cond)
			} else {
				s.unsub = v.OnUpdateOnce(cb)
			}
			s.meta = fmt.Sprintf("%d %d", c, v.Get())
		case 3, 4:
			c := []int{0, 1, 3}[(k/6)%3]
			s.lineKind, s.meta = "wsub", strconv.Itoa(c)
			setup := func(val int) func() {
				after()
				rd.ev(s, fmt.Sprintf("s:%d", val))
				if val%5 == 0 {
					runtime.Gosched()
				}

				return func() { rd.ev(s, fmt.Sprintf("t:%d", val)) }
			}
			switch {
			case c == 3:
				s.unsub = v.WithNonEmptyValue(setup)
			case c == 0:
				s.unsub = v.WithValue(setup)
			default:
				s.unsub = v.WithValue(setup, stressWvCond(c))
			}
		default:
			s.lineKind = "csub"
			s.unsub = v.OnUpdateWithContext(func(p, n int, within func(func() func())) {
				st := rd.clock.Add(1)
				if s.inside.Add(1) != 1 {
					s.direct.CompareAndSwap(nil, "overlap")
				}
				after()
				s.add(st, fmt.Sprintf("e:%d:%d", p, n))
				call := s.callNo
				s.callNo++
				for j := 0; j < n%3; j++ {
					id := fmt.Sprintf("%d.%d", call, j)
					if n%7 == 0 && j == 0 {
						within(func() func() { rd.ev(s, "~"+id); return nil })

						continue
					}
					within(func() func() {
						rd.ev(s, "+"+id)

						return func() { rd.ev(s, "-"+id) }
					})
				}
				if st%3 == 0 {
					runtime.Gosched()
				}
				s.inside.Add(-1)
				s.add(rd.clock.Add(1), "x")
			}, flag)
		}
	}
	// the reference: a plain subscription that exists before anything is written; its notes are the history
	rd, ok := runRound(r, rng, "varx", writers, sub, func(rd *round) {
		ref := rd.newSub()
		ref.unsub = v.OnUpdate(func(p, n int) { rd.body(ref, fmt.Sprintf("%d:%d", p, n)) }, false)
	})
	if !ok {
		return false
	}
	hist := []string{"0"}
	for _, n := range noteTokens(strings.Fields(rd.subs[0].line("vsub", "0"))[3:]) {
		hist = append(hist, strings.SplitN(n, ":", 2)[1])
	}
	rd.extra = append(rd.extra, strings.TrimSpace("rread "+strings.Join(reads, " ")))
	emitRound(r, "varx", "vhist "+strings.Join(hist, " "), rd, "vsub", strconv.Itoa(v.Get()))

	return true
}

// judgeVariantLine evaluates the variant predicates directly on one recorded line (osub / wsub / csub / rread).
func judgeVariantLine(r *hx.Run, c *judgeCtx, f []string, line string) {
	kind := c.kind
	if kind == "" {
		kind = "varx"
	}
	pos := map[string]int{}
	for i, h := range c.hist {
		pos[h] = i
	}
	if f[0] == "rread" {
		last := 0
		for _, v := range f[1:] {
			p, ok := pos[v]
			if !ok || p < last {
				fail(r, kind, "read", "Read/Get saw "+v+", which is not a value of the history at or after the previously read one", line)

				return
			}
			last = p
		}

		return
	}
	if len(f) < 3 {
		return
	}
	active, final := f[1] == "active", f[2]
	var evs []string
	switch f[0] {
	case "osub":
		if len(f) < 5 {
			return
		}
		evs = f[5:]
	case "wsub":
		if len(f) < 4 {
			return
		}
		evs = f[4:]
	default:
		evs = f[3:]
	}
	// nothing after unsubscribe returned
	seenU := false
	for _, e := range evs {
		if e == "u" {
			seenU = true
		} else if seenU {
			fail(r, kind, "after-unsubscribe", "event "+e+" after the unsubscribe function had returned", line)

			return
		}
	}
	switch f[0] {
	case "osub":
		cond := stressOnceCond(atoi(f[3]))
		var calls []string
		inside := false
		for _, e := range evs {
			switch {
			case strings.HasPrefix(e, "e:"):
				if inside {
					fail(r, kind, "overlap", "OnUpdateOnce callbacks overlap", line)

					return
				}
				inside = true
				calls = append(calls, e[2:])
			case e == "x":
				inside = false
			}
		}
		if len(calls) > 1 {
			fail(r, kind, "once-twice", fmt.Sprintf("OnUpdateOnce called back %d times", len(calls)), line)

			return
		}
		matches := func(i int) bool { // the change hist[i] -> hist[i+1]
			return cond == nil || cond(atoi(c.hist[i]), atoi(c.hist[i+1]))
		}
		from, known := pos[f[4]]
		if !known {
			from = len(c.hist)
		}
		if len(calls) == 0 {
			for i := from; active && i+1 < len(c.hist); i++ {
				if matches(i) {
					fail(r, kind, "once-missed", fmt.Sprintf("never called although the change %s->%s after registration satisfies the condition", c.hist[i], c.hist[i+1]), line)

					return
				}
			}

			return
		}
		pn := strings.SplitN(calls[0], ":", 2)
		if cond != nil && !cond(atoi(pn[0]), atoi(pn[1])) {
			fail(r, kind, "once-wrong", "called with a note that does not satisfy the condition", line)

			return
		}
		at, isChange := pos[pn[0]]
		if !isChange || at+1 >= len(c.hist) || c.hist[at+1] != pn[1] {
			if _, ok := pos[pn[1]]; pn[0] != "0" || !ok {
				fail(r, kind, "once-wrong", "called with a note that is neither a change of the history nor an initial note", line)
			}

			return
		}
		for i := from; i < at; i++ {
			if matches(i) {
				fail(r, kind, "once-wrong", fmt.Sprintf("called with (%s) although the earlier change %s->%s, after registration, satisfies the condition", calls[0], c.hist[i], c.hist[i+1]), line)

				return
			}
		}
	case "wsub":
		cond := stressWvCond(atoi(f[3]))
		act := ""
		var setups []string
		for _, e := range evs {
			switch {
			case strings.HasPrefix(e, "s:"):
				if act != "" {
					fail(r, kind, "withvalue-alternation", "setup("+e[2:]+") while the setup for "+act+" has not been torn down", line)

					return
				}
				act = e[2:]
				setups = append(setups, act)
			case strings.HasPrefix(e, "t:"):
				if act != e[2:] {
					fail(r, kind, "withvalue-alternation", "teardown("+e[2:]+") out of turn (active: "+act+")", line)

					return
				}
				act = ""
			}
		}
		if seenU && act != "" {
			fail(r, kind, "withvalue-alternation", "still set up for "+act+" after the teardown function returned", line)

			return
		}
		last := -1
		for _, sv := range setups {
			p, ok := pos[sv]
			if !ok || p <= last || (cond != nil && !cond(atoi(sv))) {
				fail(r, kind, "withvalue-setups", "setup("+sv+") is not a later value of the history that satisfies the condition", line)

				return
			}
			last = p
		}
		if active && !seenU {
			want := ""
			if cond == nil || cond(atoi(final)) {
				want = final
			}
			if act != want {
				fail(r, kind, "withvalue-setups", fmt.Sprintf("at quiescence set up for %q, but the value is %s", act, final), line)

				return
			}
			if len(setups) > 0 {
				var all []string
				for _, h := range c.hist[pos[setups[0]]:] {
					if cond == nil || cond(atoi(h)) {
						all = append(all, h)
					}
				}
				if strings.Join(all, " ") != strings.Join(setups, " ") {
					fail(r, kind, "withvalue-setups", "a value that satisfies the condition was never set up for", line)
				}
			}
		}
	case "csub":
		var open []string
		prev, inside := "0", false
		for _, e := range evs {
			switch {
			case strings.HasPrefix(e, "e:"):
				if inside {
					fail(r, kind, "overlap", "OnUpdateWithContext callbacks overlap", line)

					return
				}
				inside = true
				if len(open) != 0 {
					fail(r, kind, "context-torn-down", fmt.Sprintf("callback (%s) starts while %v of the previous callback are not torn down", e[2:], open), line)

					return
				}
				pn := strings.SplitN(e[2:], ":", 2)
				if pn[0] != prev {
					fail(r, kind, "chain", "callback ("+e[2:]+") follows one whose new value was "+prev, line)

					return
				}
				prev = pn[1]
			case e == "x":
				inside = false
			case strings.HasPrefix(e, "+"):
				open = append(open, e[1:])
			case strings.HasPrefix(e, "-"):
				if len(open) == 0 || open[0] != e[1:] {
					fail(r, kind, "context-torn-down", "teardown "+e[1:]+" out of turn", line)

					return
				}
				open = open[1:]
			}
		}
		if seenU && len(open) != 0 {
			fail(r, kind, "context-torn-down", fmt.Sprintf("%v still open after unsubscribe returned", open), line)

			return
		}
		if active && !seenU && prev != final {
			fail(r, kind, "last-is-final", "last callback saw "+prev+", Get() = "+final, line)
		}
	}
}

func atoi(s string) int {
	n, _ := strconv.Atoi(s)

	return n
}
