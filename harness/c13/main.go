// C13 harness: reactive subscribers see every change exactly once, in order.
//
// (i) sequential differential (seq.go): op lines over the real reactive Set / Variable / Event, answered line by
// line by the Lean model; (ii) stress (stress.go): real goroutines (writers, subscribers, unsubscribers), every
// subscription's event log (callback enter/exit stamped by an atomic logical clock, unsubscribe-returned) is
// printed as one request line which the Lean driver accepts or rejects with the trace predicates the C13
// theorems are about.  The property oracle on the real code is evaluated here, independently of Lean.
package main

import (
	"crypto/sha256"
	"strings"

	"verifharness/hx"
)

func runSeqCase(r *hx.Run, sub uint64, ops []string) {
	r.Case(sub)
	w := &seqWorld{}
	delivered, subs := 0, 0
	for i := 0; i < len(ops); i++ {
		op := ops[i]
		f := strings.Fields(op)
		if len(f) > 0 && f[0] == "stress" {
			// a stress request inside a replay file: re-run it (its recorded log lines are skipped)
			runStressLines(r, op)
			for i+1 < len(ops) && isLogLine(ops[i+1]) {
				i++
			}

			continue
		}
		if isLogLine(op) {
			// a recorded log replayed on its own: the Go oracle and the Lean driver judge the same line
			r.Line(op, judgeLogLine(r, op))

			continue
		}
		ans := w.exec(r, op)
		r.Line(op, ans)
		if len(f) > 0 {
			r.Count("op:" + w.kind + ":" + f[0])
		}
		af := strings.Fields(ans)
		if len(af) >= 2 && af[len(af)-2] != "none" && af[len(af)-1] != "0" && f[0] != "state" {
			delivered++
			r.Count("delivered")
		}
		if len(f) > 0 && (f[0] == "sub" || f[0] == "ontrigger") {
			subs++
		}
	}
	if delivered >= 3 && subs >= 1 {
		h := sha256.Sum256([]byte(strings.Join(ops, "\n")))
		r.Nontrivial(string(h[:8]))
	}
	r.Sample(r.CaseLines())
}

var seqCorpus = [][]string{
	// DESIGN.md section 7: Replace({2,3}) on {1,2} with a folding subscriber
	{"newset 1,2", "sub 0", "replace 2,3", "state"},
	{"newset 1,2", "sub 1", "replace 1,2", "replace -", "replace 0,4", "state"},
	{"newset -", "sub 0", "sub 1", "apply 1,2 2,3", "compute - -", "apply - -", "toggle 1", "unsub 0", "addall 0,1", "delall 1,4", "state"},
	{"newvar", "sub 0", "sub 1", "set 3", "set 3", "compute 1", "defaultto 2", "set 0", "defaultto 2", "unsub 0", "unsub 0", "set 4", "sub 0", "state"},
	{"newevent", "ontrigger", "sub 1", "set 0", "trigger", "trigger", "ontrigger", "sub 0", "unsub 1", "state"},
}

func main() {
	r := hx.Start()
	r.MaxSamples = 4
	r.Rule = "sequential: random histories over reactive Set[int] (universe 0..4: add/del/addall/delall/apply/compute/toggle/replace), " +
		"Variable[int] (set/compute/defaultto) and Event (trigger/set/ontrigger) with sub/unsub/state; non-trivial = at least one " +
		"subscription and three delivered notes, distinct by sha256 of the op lines. stress: 4-8 goroutines per round (writers, " +
		"subscribers with/without initial trigger, unsubscribers) on one Variable / Set / Event; non-trivial = a round in which some " +
		"subscription received a writer's note after its initial one while another goroutine was writing, distinct by sha256 of the logs"
	if lines := r.ReplayLines(); lines != nil {
		runSeqCase(r, 0, lines)
		r.Finish()

		return
	}
	for _, c := range seqCorpus {
		runSeqCase(r, 0, c)
	}
	n := 8000 * r.Scale
	for i := 0; i < n; i++ {
		rng, sub := r.Rng.Fork()
		runSeqCase(r, sub, genSeqCase(rng, 28))
	}
	runStress(r)
	r.Finish()
}
