// C13 harness: reactive subscribers see every change exactly once, in order.
//
// (i) sequential differential (seq.go): op lines over the real reactive Set / Variable / Event, answered line by
// line by the Lean model; (ii) stress (stress.go): real goroutines (writers, subscribers, unsubscribers), every
// subscription's event log (callback enter/exit stamped by an atomic logical clock, unsubscribe-returned) is
// printed as one request line which the Lean driver accepts or rejects with the trace predicates the C13
// theorems are about.  The property oracle on the real code is evaluated here, independently of Lean.
package main

import (
	"bufio"
	"crypto/sha256"
	"encoding/json"
	"flag"
	"fmt"
	"os"
	"os/exec"
	"path/filepath"
	"strconv"
	"strings"
	"time"

	"verifharness/hx"

	"github.com/iotaledger/hive.go/ds/reactive"
)

// The stress rounds run in a child process of the harness: a broken hand-off protocol can end in a Go *fatal*
// error ("sync: unlock of unlocked mutex", "all goroutines are asleep"), which no recover() catches.  The child
// appends every oracle failure to a side file as it happens, so that the parent can still report the failing logs
// (and the crash itself) as property-oracle failures.
var stressChild = flag.Bool("stress-child", false, "internal: run only the stress rounds")

const childTimeout = 90 * time.Minute

// replayAttempts bounds how often a replayed stress round is repeated.
const replayAttempts = 400

func runStressInChild(r *hx.Run) {
	dir := filepath.Join(r.OutDir, "stress")
	cmd := exec.Command(os.Args[0], "--seed", strconv.FormatUint(r.Rng.U64(), 10), "--tier", r.Tier, "--out", dir, "--stress-child")
	var stderr strings.Builder
	cmd.Stderr = &tailWriter{b: &stderr}
	done := make(chan error, 1)
	if err := cmd.Start(); err != nil {
		r.Fail("crash", "cannot start the stress child: "+err.Error(), map[string]string{"oracle": "crash", "mode": "stress"})

		return
	}
	go func() { done <- cmd.Wait() }()
	var err error
	select {
	case err = <-done:
	case <-time.After(childTimeout):
		_ = cmd.Process.Kill()
		err = fmt.Errorf("killed after %s", childTimeout)
	}
	if err != nil {
		lastRound := "" // the round the child was in when it died
		// the side file has what was observed before the process died: the failing cases are rebuilt from it (a
		// `stress <kind> <seed>` line followed by the logs judged so far), so that every finding keeps its failing input
		if f, e := os.Open(filepath.Join(dir, "findings.jsonl")); e == nil {
			sc := bufio.NewScanner(f)
			sc.Buffer(make([]byte, 1<<20), 1<<26)
			var order []string
			groups := map[string][]sideRec{}
			for sc.Scan() {
				var rec sideRec
				if json.Unmarshal(sc.Bytes(), &rec) != nil {
					continue
				}
				if rec.Marker != "" {
					lastRound = rec.Marker

					continue
				}
				key := ""
				if len(rec.Lines) > 0 {
					key = rec.Lines[0]
				}
				if _, seen := groups[key]; !seen {
					order = append(order, key)
				}
				groups[key] = append(groups[key], rec)
			}
			f.Close()
			for n, key := range order {
				recs := groups[key]
				if key != "" && n < 200 {
					var seed uint64
					if kf := strings.Fields(key); len(kf) >= 3 && kf[0] == "stress" {
						seed, _ = strconv.ParseUint(kf[2], 10, 64)
					}
					r.Case(seed)
					emitted := map[string]bool{}
					for _, rec := range recs {
						for _, l := range rec.Lines {
							if i := strings.LastIndex(l, " => "); i > 0 && !emitted[l] {
								emitted[l] = true
								r.Line(l[:i], l[i+4:])
							}
						}
					}
				}
				for _, rec := range recs {
					r.Fail(rec.Oracle, rec.Detail, rec.Signature)
				}
			}
		}
		msg := stderr.String()
		kind := "crash"
		if strings.Contains(msg, "unlock of unlocked mutex") {
			kind = "crash-unlock-of-unlocked-mutex"
		} else if strings.Contains(msg, "deadlock") || strings.Contains(msg, "asleep") {
			kind = "crash-deadlock"
		}
		sig := map[string]string{"oracle": kind, "mode": "stress"}
		if lf := strings.Fields(lastRound); len(lf) >= 3 {
			// the crash gets the round it happened in as its failing input
			seed, _ := strconv.ParseUint(lf[2], 10, 64)
			r.Case(seed)
			r.Line(lastRound, "ok")
			sig["kind"] = lf[1]
		}
		r.Fail("crash", fmt.Sprintf("the stress rounds died (%v) in round %q: %s", err, lastRound, firstLines(msg, 6)), sig)

		return
	}
	// merge the child's streams, its findings (attached to the case they belong to) and its statistics
	byCase := map[int][]hx.Finding{}
	var fds []hx.Finding
	if b, e := os.ReadFile(filepath.Join(dir, "oracle.json")); e == nil && json.Unmarshal(b, &fds) == nil {
		for _, fd := range fds {
			byCase[fd.Case] = append(byCase[fd.Case], fd)
		}
	}
	ops := readLines(filepath.Join(dir, "ops.txt"))
	impl := readLines(filepath.Join(dir, "impl.txt"))
	childCase := 0
	flush := func() {
		for _, fd := range byCase[childCase] {
			r.Fail(fd.Oracle, fd.Detail, fd.Signature)
		}
		delete(byCase, childCase)
	}
	for i := 0; i < len(ops) && i < len(impl); i++ {
		if strings.HasPrefix(ops[i], "#") {
			flush()
			childCase++
			f := strings.Fields(ops[i])
			sub, _ := strconv.ParseUint(f[len(f)-1], 10, 64)
			r.Case(sub)

			continue
		}
		r.Line(ops[i], impl[i])
	}
	flush()
	for _, rest := range byCase {
		for _, fd := range rest {
			r.Fail(fd.Oracle, fd.Detail, fd.Signature)
		}
	}
	var st struct {
		Nontrivial int            `json:"distinct_nontrivial"`
		Samples    []any          `json:"samples"`
		Hist       map[string]int `json:"histogram"`
	}
	if b, e := os.ReadFile(filepath.Join(dir, "stats.json")); e == nil && json.Unmarshal(b, &st) == nil {
		for k, v := range st.Hist {
			r.CountN(k, v)
		}
		for i := 0; i < st.Nontrivial; i++ {
			r.Nontrivial("stress-round-" + strconv.Itoa(i))
		}
		for _, s := range st.Samples {
			r.Sample(s)
		}
	}
	os.RemoveAll(dir)
}

type tailWriter struct{ b *strings.Builder }

func (t *tailWriter) Write(p []byte) (int, error) {
	if t.b.Len() < 1<<16 {
		t.b.Write(p)
	}

	return len(p), nil
}

func firstLines(s string, n int) string {
	ls := strings.Split(strings.TrimSpace(s), "\n")
	if len(ls) > n {
		ls = ls[:n]
	}

	return strings.Join(ls, " / ")
}

func readLines(p string) []string {
	b, err := os.ReadFile(p)
	if err != nil {
		return nil
	}
	ls := strings.Split(string(b), "\n")
	if len(ls) > 0 && ls[len(ls)-1] == "" {
		ls = ls[:len(ls)-1]
	}

	return ls
}

func runSeqCase(r *hx.Run, sub uint64, ops []string) {
	r.Case(sub)
	w := &seqWorld{}
	var xw *xWorld
	var sw *sxWorld
	delivered, subs := 0, 0
	var rerun []string
	for i := 0; i < len(ops); i++ {
		op := ops[i]
		f := strings.Fields(op)
		if len(f) > 0 && f[0] == "stress" {
			// a stress request inside a replay file: the log lines recorded after it are the evidence of the run
			// that wrote the file; a replay is about the tree as it is now, so the round is run again (same seed and
			// neighbouring seeds, a fresh schedule each time) until the property fails or the attempts are used up
			r.Line(op, "ok")
			for i+1 < len(ops) && isLogLine(ops[i+1]) {
				i++
			}
			rerun = append(rerun, op)

			continue
		}
		if isLogLine(op) {
			// a recorded log replayed on its own: the Go oracle and the Lean driver judge the same line
			r.Line(op, judgeLogLine(r, op))

			continue
		}
		if len(f) > 0 && f[0] == "newdir" {
			runDirLines(r, ops[i:])

			return
		}
		if len(f) > 0 && f[0] == "newvarx" {
			xw = &xWorld{v: reactive.NewVariable[int]()}
			r.Line(op, "ok")

			continue
		}
		if len(f) == 2 && f[0] == "newsetx" {
			sw = &sxWorld{s: reactive.NewSet[int](parseInts(f[1])...)}
			r.Line(op, "ok")

			continue
		}
		if sw != nil {
			ans := sw.exec(r, op)
			r.Line(op, ans)
			if len(f) > 0 {
				r.Count("op:setx:" + f[0])
			}
			if i := strings.Index(ans, " | "); i >= 0 && len(f) > 0 && f[0] != "state" {
				n := len(strings.Fields(ans[i+3:]))
				delivered += n
				r.CountN("setx:variant-events", n)
				subs++
			}

			continue
		}
		if xw != nil {
			ans := xw.exec(r, op)
			r.Line(op, ans)
			if len(f) > 0 {
				r.Count("op:varx:" + f[0])
			}
			if n := len(strings.Fields(ans)); n > 2 && len(f) > 0 && f[0] != "state" {
				delivered += n - 2
				r.CountN("varx:variant-events", n-2)
				subs++
			}

			continue
		}
		ans := w.exec(r, op)
		r.Line(op, ans)
		if len(f) > 0 {
			r.Count("op:" + w.kind + ":" + f[0])
		}
		af := strings.Fields(ans)
		if len(af) >= 2 && af[len(af)-2] != "none" && af[len(af)-1] != "0" && f[0] != "state" {
			delivered++
			r.Count("delivered")
		}
		if len(f) > 0 && (f[0] == "sub" || f[0] == "ontrigger") {
			subs++
		}
	}
	if delivered >= 3 && subs >= 1 {
		h := sha256.Sum256([]byte(strings.Join(ops, "\n")))
		r.Nontrivial(string(h[:8]))
	}
	r.Sample(r.CaseLines())
	for _, op := range rerun {
		f := strings.Fields(op)
		if len(f) < 3 {
			continue
		}
		seed, _ := strconv.ParseUint(f[2], 10, 64)
		for attempt := uint64(0); attempt < replayAttempts; attempt++ {
			before := len(r.Findings)
			r.Case(seed + attempt)
			runStressLines(r, fmt.Sprintf("stress %s %d", f[1], seed+attempt))
			if len(r.Findings) > before {
				break
			}
		}
	}
}

var seqCorpus = [][]string{
	// every subscription variant and every writer of Variable
	{"newvarx", "withvalue 3", "once 1", "ctx 1", "set 2", "set 4", "set 3", "read", "derive 2", "feed 1", "underive", "feed 4",
		"toggle 1", "reset", "unsub 0", "unsub 2", "state"},
	{"newvarx", "init 3", "once 0", "once 2", "nonempty", "withvalue 1", "ctx 0", "defaultto 2", "set 0", "defaultto 2", "compute 1",
		"unsub 3", "unsub 3", "unsub 4", "set 4", "state"},
	// WithElements: condition, setup returning nil, element added and deleted by one Apply, second unsubscribe call
	{"newsetx 1,2", "withelements 0 0", "withelements 1 1", "add 3", "apply 4,5 4", "withelements 2 2", "replace 2,3,5", "del 2", "unsub 1",
		"unsub 1", "toggle 1", "compute 0,2 1", "unsub 0", "add 4", "state"},
	// LogUpdates: level inactive at first, activated on a non-zero value, deactivated, unsubscribed; with a stringer
	{"newvarx", "log 0 0", "set 3", "level 0 1", "set 4", "log 1 1", "set 0", "level 0 0", "set 2", "level 0 1", "unsub 0", "level 0 1", "set 1",
		"unsub 1", "set 3", "state"},
	// DESIGN.md section 7: Replace({2,3}) on {1,2} with a folding subscriber
	{"newset 1,2", "sub 0", "replace 2,3", "state"},
	// 2^32-1 calls without effect between two changes: the id of the second change must still differ from the first
	{"newset 1", "sub 0", "uid", "add 1", "uid", "idle 4294967295", "uid", "add 2", "state", "idle 65535", "del 1", "idle 255", "add 3", "uid", "state"},
	{"newset -", "sub 1", "add 1", "idle 4294967296", "sub 0", "idle 4294967295", "toggle 1", "uid", "state"},
	{"newvar", "uid", "set 3", "set 3", "uid", "sub 0", "compute 1", "uid", "state"},
	{"newevent", "uid", "set 0", "trigger", "trigger", "uid", "state"},
	{"newset 1,2", "sub 1", "replace 1,2", "replace -", "replace 0,4", "state"},
	// Replace whose argument is the set itself / a view of it: must be a no-op that says so
	{"newset 1,2", "sub 0", "replace-self", "state", "replace-view", "state", "add 3", "replace-self", "state"},
	{"newset -", "sub 0", "sub 1", "apply 1,2 2,3", "compute - -", "apply - -", "toggle 1", "unsub 0", "addall 0,1", "delall 1,4", "state"},
	{"newvar", "sub 0", "sub 1", "set 3", "set 3", "compute 1", "defaultto 2", "set 0", "defaultto 2", "unsub 0", "unsub 0", "set 4", "sub 0", "state"},
	{"newevent", "ontrigger", "sub 1", "set 0", "trigger", "trigger", "ontrigger", "sub 0", "unsub 1", "state"},
}

func main() {
	r := hx.Start()
	r.MaxSamples = 5
	r.Rule = "sequential: random histories over reactive Set[int] (universe 0..4: add/del/addall/delall/apply/compute/toggle/replace/replace-self/replace-view), " +
		"Variable[int] (set/compute/defaultto) and Event (trigger/set/ontrigger) with sub/unsub/state; non-trivial = at least one " +
		"subscription and three delivered notes, distinct by sha256 of the op lines; newvarx cases: Variable[int] with OnUpdateOnce / WithValue / " +
		"WithNonEmptyValue / OnUpdateWithContext subscribers, Read, and Set/Compute/DefaultTo/Init/ToggleValue+reset/DeriveValueFrom+teardown. stress: 4-8 goroutines per round (writers, " +
		"subscribers with/without initial trigger, unsubscribers) on one Variable / Set / Event; non-trivial = a round in which some " +
		"subscription received a writer's note after its initial one while another goroutine was writing, distinct by sha256 of the logs"
	if *stressChild {
		if f, err := os.Create(filepath.Join(r.OutDir, "findings.jsonl")); err == nil {
			sideFile = f
		}
		r.MaxSamples = 2
		runStress(r)
		r.Finish()

		return
	}
	if lines := r.ReplayLines(); lines != nil {
		runSeqCase(r, 0, lines)
		r.Finish()

		return
	}
	for _, c := range seqCorpus {
		runSeqCase(r, 0, c)
	}
	// the concurrent part first: it runs in a child process, so whatever a broken tree does to it (fatal error, hang) its
	// findings are on file before the sequential cases run in this process (where a panic in a goroutine the library
	// itself starts - OnUpdateOnce's `go unsubscribe()` - cannot be recovered)
	runStressInChild(r)
	n := 8000 * r.Scale
	if r.Scale > 1 {
		n = n * 3 / 4 // thorough: 120 000 + 30 000 + 30 000 sequential cases (race detector on; the tier has to fit into 20 minutes)
	}
	for i := 0; i < n; i++ {
		rng, sub := r.Rng.Fork()
		runSeqCase(r, sub, genSeqCase(rng, 28))
		if i%4 == 0 {
			rng, sub := r.Rng.Fork()
			runSeqCase(r, sub, genSeqxCase(rng, 30))
		}
		if i%4 == 2 {
			rng, sub := r.Rng.Fork()
			runSeqCase(r, sub, genSeqsCase(rng, 26))
		}
	}
	r.Finish()
}
