package main

// Sequential half of the C13 tie: an interpreter of op lines over the real reactive.Set[int] (universe 0..4),
// reactive.Variable[int] and reactive.Event, with subscribers that record every note they are handed.  The
// canonical answers are reproduced line by line by the Lean model (Hive/Model/ReactiveSeq.lean); the property
// oracle (chain / last = Get / fold = ToSlice / same note to every live subscriber) is evaluated here.

import (
	"fmt"
	"reflect"
	"sort"
	"strconv"
	"strings"
	"unsafe"

	"verifharness/hx"

	"github.com/iotaledger/hive.go/ds"
	"github.com/iotaledger/hive.go/ds/reactive"
)

// ---- canonical printing ---------------------------------------------------------------------------------------

func showInts(xs []int) string {
	if len(xs) == 0 {
		return "-"
	}
	ys := append([]int(nil), xs...)
	sort.Ints(ys)
	parts := make([]string, len(ys))
	for i, y := range ys {
		parts[i] = strconv.Itoa(y)
	}

	return strings.Join(parts, ",")
}

func parseInts(s string) []int {
	if s == "-" || s == "" {
		return nil
	}
	var out []int
	for _, p := range strings.Split(s, ",") {
		n, err := strconv.Atoi(p)
		if err != nil {
			panic("bad int list " + s)
		}
		out = append(out, n)
	}

	return out
}

func showMut(m ds.SetMutations[int]) string {
	return showInts(m.AddedElements().ToSlice()) + ":" + showInts(m.DeletedElements().ToSlice())
}

func mkMut(added, deleted []int) ds.SetMutations[int] {
	return ds.NewSetMutations[int](added...).WithDeletedElements(ds.NewSet(deleted...))
}

func b2s(b bool) string {
	if b {
		return "true"
	}

	return "false"
}

// ---- the update-id counter ---------------------------------------------------------------------------------------

// uidCounter finds the object's `uniqueUpdateID` field (through the embedded readableVariable / readableSet / the
// Variable[bool] inside an Event) and returns it as a settable value of its declared width.
func uidCounter(obj any) (reflect.Value, bool) {
	var find func(v reflect.Value, depth int) (reflect.Value, bool)
	find = func(v reflect.Value, depth int) (reflect.Value, bool) {
		if depth > 6 || !v.IsValid() {
			return reflect.Value{}, false
		}
		switch v.Kind() {
		case reflect.Ptr, reflect.Interface:
			if v.IsNil() {
				return reflect.Value{}, false
			}

			return find(v.Elem(), depth+1)
		case reflect.Struct:
			if f := v.FieldByName("uniqueUpdateID"); f.IsValid() && f.CanAddr() && f.Kind() >= reflect.Uint && f.Kind() <= reflect.Uint64 {
				return reflect.NewAt(f.Type(), unsafe.Pointer(f.UnsafeAddr())).Elem(), true
			}
			for i := 0; i < v.NumField(); i++ {
				if v.Type().Field(i).Anonymous {
					if f, ok := find(v.Field(i), depth+1); ok {
						return f, true
					}
				}
			}
		}

		return reflect.Value{}, false
	}

	return find(reflect.ValueOf(obj), 0)
}

func (w *seqWorld) obj() any {
	switch w.kind {
	case "set":
		return w.set
	case "var":
		return w.vr
	case "event":
		return w.ev
	}

	return nil
}

// idle stands for n calls of a mutating method that change nothing (Add of a present element / Delete of an absent
// one): each consumes one update id and notifies nobody.  The first few are really made (and checked to do exactly
// that); the rest is what they amount to: the counter advanced by their number, in the counter's own arithmetic.
func (w *seqWorld) idle(r *hx.Run, op string, n uint64) string {
	c, ok := uidCounter(w.set)
	if !ok {
		return "no-counter"
	}
	real := uint64(20)
	if n < real {
		real = n
	}
	for i := uint64(0); i < real; i++ {
		before := c.Uint()
		var changed bool
		if cur := w.set.ToSlice(); len(cur) > 0 {
			changed = w.set.Add(cur[0])
		} else {
			changed = w.set.Delete(0)
		}
		mask := ^uint64(0) >> (64 - uint(c.Type().Bits()))
		if changed || len(w.delivered) != 0 || c.Uint() != (before+1)&mask {
			r.Fail("idle-call", fmt.Sprintf("op %q: a call without effect reported a change / notified somebody / did not consume exactly one update id (%d -> %d)", op, before, c.Uint()),
				map[string]string{"oracle": "idle-call", "op": "idle", "mode": "seq"})

			return "diverge"
		}
	}
	c.SetUint(c.Uint() + (n - real)) // SetUint truncates to the counter's width: the arithmetic of n-real increments

	return "ok"
}

// ---- subscribers ----------------------------------------------------------------------------------------------

type seqSub struct {
	unsub    func()
	dead     bool
	notes    []string     // canonical notes in delivery order
	fold     map[int]bool // set subscribers: the folded contents
	prev     int          // variable subscribers: new value of the last note (0 before the first)
	broken   string       // first chain / true-difference violation seen by the callback itself
	spurious string       // first note that reports no change (other than an initial one)
}

type seqWorld struct {
	kind string // set | var | event
	set  reactive.Set[int]
	vr   reactive.Variable[int]
	ev   reactive.Event
	subs []*seqSub
	// notes delivered during the current op, in order: (subscriber index, note)
	delivered []struct {
		sub  int
		note string
	}
}

func (w *seqWorld) setCallback(i int) func(ds.SetMutations[int]) {
	return func(m ds.SetMutations[int]) {
		s := w.subs[i]
		n := showMut(m)
		s.notes = append(s.notes, n)
		// the reported mutation is a true difference: what is added was absent, what is deleted was present
		m.AddedElements().Range(func(e int) {
			if s.fold[e] && s.broken == "" {
				s.broken = fmt.Sprintf("note %s reports %d as added although the subscriber already holds it", n, e)
			}
		})
		m.DeletedElements().Range(func(e int) {
			if !s.fold[e] && !m.AddedElements().Has(e) && s.broken == "" {
				s.broken = fmt.Sprintf("note %s reports %d as deleted although the subscriber does not hold it", n, e)
			}
		})
		// fold exactly the way ds.Set.Apply applies mutations: additions first, then deletions
		m.AddedElements().Range(func(e int) { s.fold[e] = true })
		m.DeletedElements().Range(func(e int) { delete(s.fold, e) })
		w.delivered = append(w.delivered, struct {
			sub  int
			note string
		}{i, n})
	}
}

func (w *seqWorld) varCallback(i int) func(int, int) {
	return func(p, n int) {
		s := w.subs[i]
		if p != s.prev && s.broken == "" {
			s.broken = fmt.Sprintf("note (%d,%d) after a note whose new value was %d", p, n, s.prev)
		}
		if p == n && len(s.notes) > 0 && s.spurious == "" {
			s.spurious = fmt.Sprintf("note (%d,%d) reports no change", p, n)
		}
		s.prev = n
		note := fmt.Sprintf("%d:%d", p, n)
		s.notes = append(s.notes, note)
		w.delivered = append(w.delivered, struct {
			sub  int
			note string
		}{i, note})
	}
}

func bi(b bool) int {
	if b {
		return 1
	}

	return 0
}

// deliveredSummary prints the note of the current op and the number of subscribers that received it.
func (w *seqWorld) deliveredSummary(r *hx.Run, op string) string {
	if len(w.delivered) == 0 {
		return "none 0"
	}
	first := w.delivered[0].note
	seen := map[int]bool{}
	for _, d := range w.delivered {
		if d.note != first {
			r.Fail("same-note", fmt.Sprintf("op %q delivered %s to subscriber %d but %s to subscriber %d", op, first, w.delivered[0].sub, d.note, d.sub),
				map[string]string{"oracle": "same-note", "op": strings.Fields(op)[0], "mode": "seq"})

			return "diverge " + strconv.Itoa(len(w.delivered))
		}
		if seen[d.sub] {
			r.Fail("exactly-once", fmt.Sprintf("op %q delivered twice to subscriber %d", op, d.sub),
				map[string]string{"oracle": "twice", "op": strings.Fields(op)[0], "mode": "seq"})
		}
		seen[d.sub] = true
	}

	return first + " " + strconv.Itoa(len(w.delivered))
}

func (w *seqWorld) contents() []int {
	switch w.kind {
	case "set":
		return w.set.ToSlice()
	}

	return nil
}

func (w *seqWorld) value() int {
	if w.kind == "event" {
		return bi(w.ev.Get())
	}

	return w.vr.Get()
}

// oracle evaluates the property on the real objects after every operation.
func (w *seqWorld) oracle(r *hx.Run, op string) {
	opk := strings.Fields(op)[0]
	for i, s := range w.subs {
		if s.dead {
			continue
		}
		if w.kind == "set" {
			var f []int
			for e := range s.fold {
				f = append(f, e)
			}
			if showInts(f) != showInts(w.contents()) {
				r.Fail("set-fold", fmt.Sprintf("after %q subscriber %d folds its notes %v to {%s} but ToSlice() is {%s}", op, i, s.notes, showInts(f), showInts(w.contents())),
					map[string]string{"oracle": "set-fold", "op": opk, "mode": "seq"})
				// resynchronise, so that a later, different defect is still reported with its own operation
				s.fold = map[int]bool{}
				for _, e := range w.contents() {
					s.fold[e] = true
				}
			}
			if s.broken != "" {
				r.Fail("true-difference", fmt.Sprintf("after %q subscriber %d: %s (notes %v)", op, i, s.broken, s.notes),
					map[string]string{"oracle": "true-difference", "op": opk, "mode": "seq"})
				s.broken = ""
			}
		} else {
			if s.broken != "" {
				r.Fail("chain", fmt.Sprintf("after %q subscriber %d: %s (notes %v)", op, i, s.broken, s.notes),
					map[string]string{"oracle": "chain", "op": opk, "mode": "seq"})
				s.broken = ""
			}
			if s.spurious != "" {
				r.Fail("spurious-note", fmt.Sprintf("after %q subscriber %d: %s (notes %v)", op, i, s.spurious, s.notes),
					map[string]string{"oracle": "spurious-note", "op": opk, "mode": "seq"})
				s.spurious = ""
			}
			if s.prev != w.value() {
				r.Fail("last-is-final", fmt.Sprintf("after %q subscriber %d last saw %d but Get() is %d (notes %v)", op, i, s.prev, w.value(), s.notes),
					map[string]string{"oracle": "last-is-final", "op": opk, "mode": "seq"})
				s.prev = w.value()
			}
		}
	}
}

func (w *seqWorld) exec(r *hx.Run, op string) (ans string) {
	f := strings.Fields(op)
	if len(f) == 0 {
		return "bad-op"
	}
	w.delivered = w.delivered[:0]
	arg := func(i int) string {
		if i < len(f) {
			return f[i]
		}

		return "-"
	}
	num := func(i int) int {
		n, err := strconv.Atoi(arg(i))
		if err != nil {
			return 0
		}

		return n
	}
	if p := hx.Safely(func() { ans = w.exec1(r, op, f, arg, num) }); p != "" {
		r.Fail("panic", fmt.Sprintf("op %q panicked: %s", op, p), map[string]string{"oracle": "panic", "op": f[0], "mode": "seq"})

		return "panic"
	}
	if w.kind != "" && ans != "bad-op" {
		w.oracle(r, op)
	}

	return ans
}

func (w *seqWorld) exec1(r *hx.Run, op string, f []string, arg func(int) string, num func(int) int) string {
	switch f[0] {
	case "newset":
		w.kind, w.set, w.subs = "set", reactive.NewSet[int](parseInts(arg(1))...), nil

		return "ok"
	case "newvar":
		w.kind, w.vr, w.subs = "var", reactive.NewVariable[int](), nil

		return "ok"
	case "newevent":
		w.kind, w.ev, w.subs = "event", reactive.NewEvent(), nil

		return "ok"
	case "unsub":
		i := num(1)
		if w.kind == "" || i < 0 || i >= len(w.subs) {
			return "bad-op"
		}
		w.subs[i].unsub()
		w.subs[i].dead = true

		return "ok"
	case "uid":
		c, ok := uidCounter(w.obj())
		if !ok {
			return "no-counter"
		}

		return strconv.FormatUint(c.Uint(), 10)
	case "idle":
		n, err := strconv.ParseUint(arg(1), 10, 64)
		if w.kind != "set" || err != nil {
			return "bad-op"
		}

		return w.idle(r, op, n)
	}
	switch w.kind {
	case "set":
		switch f[0] {
		case "add":
			ret := w.set.Add(num(1))

			return b2s(ret) + " " + w.deliveredSummary(r, op)
		case "del":
			ret := w.set.Delete(num(1))

			return b2s(ret) + " " + w.deliveredSummary(r, op)
		case "addall":
			ret := w.set.AddAll(ds.NewSet(parseInts(arg(1))...))

			return showInts(ret.ToSlice()) + " " + w.deliveredSummary(r, op)
		case "delall":
			ret := w.set.DeleteAll(ds.NewSet(parseInts(arg(1))...))

			return showInts(ret.ToSlice()) + " " + w.deliveredSummary(r, op)
		case "apply":
			ret := w.set.Apply(mkMut(parseInts(arg(1)), parseInts(arg(2))))

			return showMut(ret) + " " + w.deliveredSummary(r, op)
		case "compute":
			ret := w.set.Compute(func(ds.ReadableSet[int]) ds.SetMutations[int] {
				return mkMut(parseInts(arg(1)), parseInts(arg(2)))
			})

			return showMut(ret) + " " + w.deliveredSummary(r, op)
		case "toggle":
			x := num(1)
			ret := w.set.Compute(func(s ds.ReadableSet[int]) ds.SetMutations[int] {
				if s.Has(x) {
					return mkMut(nil, []int{x})
				}

				return mkMut([]int{x}, nil)
			})

			return showMut(ret) + " " + w.deliveredSummary(r, op)
		case "replace":
			ret := w.set.Replace(ds.NewSet(parseInts(arg(1))...))

			return showInts(ret.ToSlice()) + " " + w.deliveredSummary(r, op)
		case "replace-self":
			// the argument is the set itself: Replace must work on a private snapshot of its argument
			ret := w.set.Replace(w.set)

			return showInts(ret.ToSlice()) + " " + w.deliveredSummary(r, op)
		case "replace-view":
			// ... or a read-only view of it
			ret := w.set.Replace(w.set.ReadOnly())

			return showInts(ret.ToSlice()) + " " + w.deliveredSummary(r, op)
		case "sub":
			i := len(w.subs)
			w.subs = append(w.subs, &seqSub{fold: map[int]bool{}})
			w.subs[i].unsub = w.set.OnUpdate(w.setCallback(i), num(1) == 1)

			return w.deliveredSummary(r, op)
		case "state":
			out := showInts(w.contents()) + " |"
			for _, s := range w.subs {
				if s.dead {
					out += " x"

					continue
				}
				var fl []int
				for e := range s.fold {
					fl = append(fl, e)
				}
				out += " " + showInts(fl)
			}

			return out
		}
	case "var", "event":
		switch f[0] {
		case "set":
			if w.kind == "event" {
				return strconv.Itoa(bi(w.ev.Set(num(1) != 0))) + " " + w.deliveredSummary(r, op)
			}

			return strconv.Itoa(w.vr.Set(num(1))) + " " + w.deliveredSummary(r, op)
		case "compute":
			if w.kind == "event" {
				return "bad-op"
			}
			k := num(1)
			ret := w.vr.Compute(func(v int) int { return (2*v + k) % 5 })

			return strconv.Itoa(ret) + " " + w.deliveredSummary(r, op)
		case "defaultto":
			if w.kind == "event" {
				return "bad-op"
			}
			nv, upd := w.vr.DefaultTo(num(1))

			return strconv.Itoa(nv) + " " + b2s(upd) + " " + w.deliveredSummary(r, op)
		case "trigger":
			if w.kind != "event" {
				return "bad-op"
			}

			return b2s(w.ev.Trigger()) + " " + w.deliveredSummary(r, op)
		case "sub":
			i := len(w.subs)
			w.subs = append(w.subs, &seqSub{})
			if w.kind == "event" {
				cb := w.varCallback(i)
				w.subs[i].unsub = w.ev.OnUpdate(func(p, n bool) { cb(bi(p), bi(n)) }, num(1) == 1)
			} else {
				w.subs[i].unsub = w.vr.OnUpdate(w.varCallback(i), num(1) == 1)
			}

			return w.deliveredSummary(r, op)
		case "ontrigger":
			if w.kind != "event" {
				return "bad-op"
			}
			i := len(w.subs)
			w.subs = append(w.subs, &seqSub{})
			cb := w.varCallback(i)
			// OnTrigger hands no values to the handler: by its contract it reports the change false -> true
			w.subs[i].unsub = w.ev.OnTrigger(func() { cb(0, 1) })

			return w.deliveredSummary(r, op)
		case "state":
			out := strconv.Itoa(w.value()) + " |"
			for _, s := range w.subs {
				if s.dead {
					out += " x"

					continue
				}
				out += " " + strconv.Itoa(s.prev)
			}

			return out
		}
	}

	return "bad-op"
}

// ---- generator -------------------------------------------------------------------------------------------------

func genSubset(rng *hx.Rng, maxN int) string {
	var xs []int
	for e := 0; e < 5; e++ {
		if len(xs) < maxN && rng.Chance(2, 5) {
			xs = append(xs, e)
		}
	}

	return showInts(xs)
}

func genSeqCase(rng *hx.Rng, n int) []string {
	var ops []string
	nsubs := 0
	subOrUnsub := func() string {
		if nsubs > 0 && rng.Chance(1, 3) {
			return fmt.Sprintf("unsub %d", rng.Intn(nsubs))
		}
		nsubs++

		return fmt.Sprintf("sub %d", rng.Intn(2))
	}
	switch k := rng.Intn(100); {
	case k < 55:
		ops = append(ops, "newset "+genSubset(rng, 5))
		for i := 0; i < n; i++ {
			switch x := rng.Intn(100); {
			case x < 10:
				ops = append(ops, fmt.Sprintf("add %d", rng.Intn(5)))
			case x < 18:
				ops = append(ops, fmt.Sprintf("del %d", rng.Intn(5)))
			case x < 25:
				ops = append(ops, "addall "+genSubset(rng, 5))
			case x < 32:
				ops = append(ops, "delall "+genSubset(rng, 5))
			case x < 47:
				ops = append(ops, "apply "+genSubset(rng, 5)+" "+genSubset(rng, 5))
			case x < 57:
				ops = append(ops, "compute "+genSubset(rng, 5)+" "+genSubset(rng, 5))
			case x < 63:
				ops = append(ops, fmt.Sprintf("toggle %d", rng.Intn(5)))
			case x < 67:
				ops = append(ops, "replace-self")
			case x < 70:
				ops = append(ops, "replace-view")
			case x < 78:
				ops = append(ops, "replace "+genSubset(rng, 5))
			case x < 91:
				ops = append(ops, subOrUnsub())
			case x < 93:
				// calls without effect, also as many as it takes to wrap a counter of 8 / 16 / 32 bits
				ops = append(ops, fmt.Sprintf("idle %d", hx.Pick(rng, []uint64{1, 2, 3, 21, 255, 256, 65535, 65536, 4294967295, 4294967295, 4294967296})))
			case x < 96:
				ops = append(ops, "uid")
			default:
				ops = append(ops, "state")
			}
		}
	case k < 88:
		ops = append(ops, "newvar")
		for i := 0; i < n; i++ {
			switch x := rng.Intn(100); {
			case x < 35:
				ops = append(ops, fmt.Sprintf("set %d", rng.Intn(5)))
			case x < 55:
				ops = append(ops, fmt.Sprintf("compute %d", rng.Intn(5)))
			case x < 63:
				ops = append(ops, fmt.Sprintf("defaultto %d", rng.Intn(5)))
			case x < 90:
				ops = append(ops, subOrUnsub())
			case x < 94:
				ops = append(ops, "uid")
			default:
				ops = append(ops, "state")
			}
		}
	default:
		ops = append(ops, "newevent")
		for i := 0; i < n/2; i++ {
			switch x := rng.Intn(100); {
			case x < 20:
				ops = append(ops, "trigger")
			case x < 35:
				ops = append(ops, fmt.Sprintf("set %d", rng.Intn(2)))
			case x < 55:
				nsubs++
				ops = append(ops, "ontrigger")
			case x < 85:
				ops = append(ops, subOrUnsub())
			case x < 92:
				ops = append(ops, "uid")
			default:
				ops = append(ops, "state")
			}
		}
	}
	ops = append(ops, "uid", "state")

	return ops
}
