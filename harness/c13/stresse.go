package main

// WithElements subscriptions in the concurrent Set / DerivedSet rounds (`esub` lines): one subscription in four of a
// set round is registered through ReadableSet.WithElements instead of OnUpdate.  Its log is the sequence of setup
// (`s:<x>`) and teardown (`t:<x>`) calls stamped by the round's logical clock, `u` = the function WithElements
// returned has returned.  Line: `esub <active|unsubbed> <final contents> <cond> <hasTd> ev…`, judged by the Lean
// driver (`judgeWe`: the scanner of Hive/Spec/ReactiveElements.lean) and, independently, here.

import (
	"fmt"
	"strconv"
	"strings"

	"verifharness/hx"

	"github.com/iotaledger/hive.go/ds/reactive"
)

// weSubscribe registers sl through WithElements (condition code c, teardown code h).
func weSubscribe(rd *round, set reactive.ReadableSet[int], sl *subLog, c, h int) {
	sl.lineKind, sl.meta = "esub", strconv.Itoa(c)+" "+strconv.Itoa(h)
	call := func(tok string) {
		st := rd.clock.Add(1)
		if sl.inside.Add(1) != 1 {
			sl.direct.CompareAndSwap(nil, "overlap")
		}
		if sl.returned.Load() {
			sl.direct.CompareAndSwap(nil, "after-unsubscribe")
		}
		sl.add(st, tok)
		sl.inside.Add(-1)
	}
	setup := func(x int) func() {
		call("s:" + strconv.Itoa(x))
		if !weHasTd(h, x) {
			return nil
		}

		return func() { call("t:" + strconv.Itoa(x)) }
	}
	if cond := weCond(c); cond == nil {
		sl.unsub = set.WithElements(setup)
	} else {
		sl.unsub = set.WithElements(setup, cond)
	}
}

// judgeWeLine is the Go oracle for an esub line.
func judgeWeLine(r *hx.Run, kind string, f []string, line string) {
	if len(f) < 5 {
		return
	}
	active, final := f[1] == "active", map[int]bool{}
	for _, x := range parseInts(f[2]) {
		final[x] = true
	}
	c, _ := strconv.Atoi(f[3])
	h, _ := strconv.Atoi(f[4])
	cond := weCond(c)
	pending := map[int]bool{}
	seenU := false
	for _, e := range f[5:] {
		if e == "u" {
			seenU = true

			continue
		}
		if seenU {
			fail(r, kind, "after-unsubscribe", "WithElements: "+e+" after the returned teardown function had returned", line)

			return
		}
		x, err := strconv.Atoi(e[strings.Index(e, ":")+1:])
		if err != nil {
			return
		}
		switch e[0] {
		case 's':
			if cond != nil && !cond(x) {
				fail(r, kind, "withelements-condition", fmt.Sprintf("setup(%d) although the condition does not hold", x), line)

				return
			}
			if pending[x] {
				fail(r, kind, "withelements-order", fmt.Sprintf("setup(%d) while the teardown of an earlier setup(%d) is pending", x, x), line)

				return
			}
			if weHasTd(h, x) {
				pending[x] = true
			}
		case 't':
			if !pending[x] {
				fail(r, kind, "withelements-order", fmt.Sprintf("teardown of %d without a pending setup", x), line)

				return
			}
			delete(pending, x)
		}
	}
	if seenU {
		if len(pending) != 0 {
			fail(r, kind, "withelements-closed", fmt.Sprintf("%d teardown functions still pending after the returned teardown function ran", len(pending)), line)
		}

		return
	}
	if active {
		for x := 0; x < 8; x++ {
			want := final[x] && (cond == nil || cond(x)) && weHasTd(h, x)
			if want != pending[x] {
				fail(r, kind, "withelements-current", fmt.Sprintf("at quiescence element %d: in the set=%v, set up=%v", x, final[x], pending[x]), line)

				return
			}
		}
	}
}
