package main

// Barrier rounds: a directed scenario for the atomicity of the callback list against *concurrent unsubscriptions*.
//
// A short list of subscriptions (8-24) is registered on one Variable / Event / Set.  A window of 2-8 subscriptions that
// are neighbours in registration order is unsubscribed by as many goroutines, all released from one spin barrier, while
// a writer released from the same barrier changes the object (its snapshot walk `Values()` runs through the window).
// Afterwards, sequentially: optionally one more subscription is registered at the back, optionally some unsubscribe
// functions of the window are called a second time (late second call: must be a no-op whoever came and went in
// between), and one to three more writes are made.  The subscriptions registered behind the window (and in front of
// it) are bystanders: each must be handed the full chain / the full reference run, whatever the unsubscribers did to
// the links of the list.  Unlinking two neighbours at the same time, or unlinking under a walk, leaves the forward
// chain pointing into a removed element, so everything behind the window drops out of all later snapshots: the
// sequential writes after the join then make the loss certain instead of a matter of timing.
//
// One round = up to `barrierAttempts` fresh objects, stopping at the first property failure.  Every log is judged by
// judgeLogLine (Go oracle); the history line, the first three logs and every failing log are printed as request lines
// for the Lean driver.

import (
	"fmt"
	"runtime"
	"strconv"
	"strings"
	"sync"
	"sync/atomic"

	"verifharness/hx"

	"github.com/iotaledger/hive.go/ds"
	"github.com/iotaledger/hive.go/ds/reactive"
)

const barrierAttempts = 30

// barrierObj is the object of one attempt, reduced to what the scenario needs.
type barrierObj struct {
	sub      func(rd *round, s *subLog, flag bool)
	write    func(j int, rng *hx.Rng) // the j-th change (j >= 1); always changes the object
	final    func() string
	histLine func(writes int) string // "" for a Set (the reference subscription is the history)
	lineKind string
	maxWrite int // 0 = unbounded
}

func newBarrierObj(base string, rng *hx.Rng) *barrierObj {
	switch base {
	case "var":
		v := reactive.NewVariable[int]()

		return &barrierObj{
			sub: func(rd *round, s *subLog, flag bool) {
				s.unsub = v.OnUpdate(func(p, n int) { rd.body(s, strconv.Itoa(p)+":"+strconv.Itoa(n)) }, flag)
			},
			write: func(j int, wr *hx.Rng) {
				if wr.Bool() {
					v.Set(j)
				} else {
					v.Compute(func(int) int { return j })
				}
			},
			final: func() string { return strconv.Itoa(v.Get()) },
			histLine: func(writes int) string {
				h := make([]string, writes+1)
				for i := range h {
					h[i] = strconv.Itoa(i)
				}

				return "vhist " + strings.Join(h, " ")
			},
			lineKind: "vsub",
		}
	case "event":
		e := reactive.NewEvent()

		return &barrierObj{
			sub: func(rd *round, s *subLog, flag bool) {
				if flag {
					s.unsub = e.OnTrigger(func() { rd.body(s, "0:1") })
				} else {
					s.unsub = e.OnUpdate(func(p, n bool) { rd.body(s, fmt.Sprintf("%d:%d", bi(p), bi(n))) })
				}
			},
			write:    func(int, *hx.Rng) { e.Trigger() },
			final:    func() string { return strconv.Itoa(bi(e.WasTriggered())) },
			histLine: func(int) string { return "vhist 0 1" },
			lineKind: "vsub",
			maxWrite: 1,
		}
	}
	const u = 6
	s := reactive.NewSet[int]()

	return &barrierObj{
		sub: func(rd *round, sl *subLog, flag bool) {
			sl.unsub = s.OnUpdate(func(m ds.SetMutations[int]) { rd.body(sl, showMut(m)) }, flag)
		},
		write: func(j int, wr *hx.Rng) { // toggles one element: every write is a change
			x := j % u
			switch wr.Intn(4) {
			case 0:
				if !s.Add(x) {
					s.Delete(x)
				}
			case 1:
				s.Compute(func(cur ds.ReadableSet[int]) ds.SetMutations[int] {
					if cur.Has(x) {
						return mkMut(nil, []int{x})
					}

					return mkMut([]int{x}, nil)
				})
			case 2:
				cur := s.ToSlice() // single writer: nobody changes the contents in between
				var next []int
				has := false
				for _, y := range cur {
					if y == x {
						has = true
					} else {
						next = append(next, y)
					}
				}
				if !has {
					next = append(next, x)
				}
				s.Replace(ds.NewSet(next...))
			default:
				if s.Has(x) {
					s.Apply(mkMut(nil, []int{x}))
				} else {
					s.Apply(mkMut([]int{x}, nil))
				}
			}
		},
		final:    func() string { return showInts(s.ToSlice()) },
		histLine: func(int) string { return "" },
		lineKind: "ssub",
	}
}

// spinBarrier releases all parties at (as nearly as possible) the same moment.
type spinBarrier struct {
	ready atomic.Int32
	total int32
}

func (b *spinBarrier) wait() {
	b.ready.Add(1)
	for b.ready.Load() < b.total {
		runtime.Gosched()
	}
}

func stressBarrier(r *hx.Run, rng *hx.Rng, kind string) bool {
	base := strings.TrimPrefix(kind, "barrier-")
	for attempt := 0; attempt < attemptsPerRound(r, barrierAttempts); attempt++ {
		before := len(r.Findings)
		if !barrierOnce(r, rng, kind, base) {
			return false
		}
		r.Count("stress:" + kind + ":attempts")
		if len(r.Findings) > before {
			return true
		}
	}

	return true
}

func barrierOnce(r *hx.Run, rng *hx.Rng, kind, base string) bool {
	sig := func(o string) map[string]string { return map[string]string{"oracle": o, "mode": "stress", "kind": kind} }
	o := newBarrierObj(base, rng)
	rd := &round{light: true}
	writes := 0
	doWrite := func(wr *hx.Rng) bool {
		if o.maxWrite > 0 && writes >= o.maxWrite {
			return true
		}
		writes++
		if p := hx.Safely(func() { o.write(writes, wr) }); p != "" {
			r.Fail("panic", "writer panicked: "+p, sig("panic"))

			return false
		}

		return true
	}
	subscribe := func() bool {
		s := rd.newSub()
		if p := hx.Safely(func() { o.sub(rd, s, base == "set" && len(rd.subs) == 1 || rng.Bool()) }); p != "" {
			r.Fail("panic", "OnUpdate panicked: "+p, sig("panic"))

			return false
		}

		return true
	}
	if base == "set" {
		if !subscribe() { // the reference subscription, in front of everything
			return true
		}
	}
	if base != "event" && rng.Bool() {
		if !doWrite(rng) { // subscriptions start from a non-zero state
			return true
		}
	}
	// two shapes: one goroutine per subscription of the window, or ("strided") 2-3 goroutines that each unsubscribe every
	// 2nd / 3rd subscription of a longer window back to back - neighbours are then unlinked by different goroutines over
	// a longer stretch of time, so the unlink operations overlap much more often than with a single release
	strided := rng.Bool()
	n, k := rng.Range(8, 24), rng.Range(2, 8)
	if strided {
		k = rng.Range(6, 16)
		n = k + rng.Range(4, 12)
		r.Count("stress:" + kind + ":strided")
	}
	for i := 0; i < n; i++ {
		if !subscribe() {
			return true
		}
	}
	first := len(rd.subs) - n
	if k > n-3 {
		k = n - 3
	}
	m := first + rng.Range(1, n-k-2) // at least one bystander in front of the window, two behind it
	window := rd.subs[m : m+k]
	r.CountN("stress:"+kind+":window", k)
	r.CountN("stress:"+kind+":behind", len(rd.subs)-(m+k))

	concurrentWrites := rng.Range(0, 3)
	var groups [][]*subLog
	if strided {
		g := rng.Range(2, 3)
		groups = make([][]*subLog, g)
		for i, s := range window {
			groups[i%g] = append(groups[i%g], s)
		}
	} else {
		order := make([]int, k)
		for i := range order {
			order[i] = i
		}
		for i := k - 1; i > 0; i-- {
			j := rng.Intn(i + 1)
			order[i], order[j] = order[j], order[i]
		}
		for _, i := range order {
			groups = append(groups, []*subLog{window[i]})
		}
	}
	bar := &spinBarrier{total: int32(len(groups))}
	if concurrentWrites > 0 {
		bar.total++
	}
	var wg sync.WaitGroup
	for _, grp := range groups {
		grp := grp
		wg.Add(1)
		go func() {
			defer wg.Done()
			bar.wait()
			for _, s := range grp {
				if p := hx.Safely(func() { rd.doUnsub(s) }); p != "" {
					r.Fail("panic", "unsubscribe panicked: "+p, sig("panic"))
				}
			}
		}()
	}
	if concurrentWrites > 0 {
		wr := hx.NewRng(rng.U64())
		wg.Add(1)
		go func() {
			defer wg.Done()
			bar.wait()
			for j := 0; j < concurrentWrites; j++ {
				if !doWrite(wr) {
					return
				}
			}
		}()
	}
	if !join(&wg) {
		r.Fail("timeout", fmt.Sprintf("barrier round did not finish within %s", joinTimeout), sig("timeout"))

		return false
	}
	// sequentially: a newcomer at the back, late second calls of unsubscribe functions of the window, more writes
	if rng.Bool() {
		if !subscribe() {
			return true
		}
		r.Count("stress:" + kind + ":newcomer")
	}
	for _, s := range window {
		if rng.Chance(1, 3) {
			if p := hx.Safely(func() { rd.doUnsubAgain(s) }); p != "" {
				r.Fail("panic", "second call of an unsubscribe function panicked: "+p, sig("panic"))

				return true
			}
			r.Count("stress:" + kind + ":late-second-unsubscribe")
		}
	}
	for j := rng.Range(1, 3); j > 0; j-- {
		if !doWrite(rng) {
			return true
		}
	}
	emitSparseKind(r, kind, o.histLine(writes), rd, o.lineKind, o.final())

	return true
}
