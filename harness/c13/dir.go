package main

// Directed schedules (third part of the C13 tie).  A director runs real goroutines on one reactive Variable /
// Event / Set: every goroutine performs ONE call (a write, OnUpdate, an unsubscribe function); chosen callback
// invocations are gated (the k-th invocation of subscription c blocks inside the callback until `release c`).
// After every director action the harness waits until every goroutine has finished, stands at a gate, or is parked
// in a mutex — read off runtime.Stack(all), which stops the world and is therefore a consistent snapshot that does
// not depend on timing: a goroutine that is `running`/`runnable` is simply waited for — and prints one status per
// goroutine (`d` done, `g<c>` at the gate of subscription c, `b` parked in a mutex).  `logs` prints the event log of
// every subscription.  Hive/Model/ReactiveDir.lean performs the same actions on the protocol model (threads moved
// by `step`, a gated invocation = a thread kept between `enter` and `exit`) and must print the same lines.
//
// The generator is online (it looks at the statuses) and keeps the runs deterministic: it starts a call that can
// park only while no goroutine is parked, so that no two goroutines ever wait for the same mutex.
//
// Property oracle (independent of Lean): in-callback overlap / after-unsubscribe detectors, and at the end the
// chain / fold / last-is-final / bracket predicates of judgeLogLine on every log; a goroutine still parked after
// `finish` is a deadlock.

import (
	"bytes"
	"fmt"
	"runtime"
	"strconv"
	"strings"
	"sync"
	"sync/atomic"
	"time"

	"verifharness/hx"

	"github.com/iotaledger/hive.go/ds"
	"github.com/iotaledger/hive.go/ds/reactive"
)

const dirSettleTimeout = 20 * time.Second

type dirThread struct {
	goid atomic.Int64
	done atomic.Bool
}

type dirSub struct {
	subLog
	idx      int
	owner    int // thread that calls OnUpdate
	enters   atomic.Int32
	gmu      sync.Mutex
	pending  map[int]bool // invocation numbers that are gated
	standing []*dirGate   // the gates invocations of this subscription stand at (more than one only if callbacks overlap)
	unsubs   int          // unsubscribe calls started
	reported bool
}

// dirGate is one gated invocation.
type dirGate struct {
	ch   chan struct{}
	id   int64 // goroutine id of the invocation
	left atomic.Bool
}

// open lets the invocation go on and waits until it has left the gate.
func (g *dirGate) open() {
	close(g.ch)
	for !g.left.Load() {
		runtime.Gosched()
	}
}

func (s *dirSub) held() bool {
	s.gmu.Lock()
	defer s.gmu.Unlock()

	return len(s.standing) > 0
}

func (s *dirSub) standsAt(goroutine int64) bool {
	s.gmu.Lock()
	defer s.gmu.Unlock()
	for _, g := range s.standing {
		if g.id == goroutine {
			return true
		}
	}

	return false
}

// takeGate removes the oldest standing gate.
func (s *dirSub) takeGate() *dirGate {
	s.gmu.Lock()
	defer s.gmu.Unlock()
	if len(s.standing) == 0 {
		return nil
	}
	g := s.standing[0]
	s.standing = s.standing[1:]

	return g
}

type dirWorld struct {
	kind    string
	v       reactive.Variable[int]
	e       reactive.Event
	s       reactive.Set[int]
	clock   atomic.Int64
	threads []*dirThread
	subs    []*dirSub
	status  []string
	broken  string // settle gave up (the case is dropped) / a panic
	panics  []string
	pmu     sync.Mutex
}

func goid() int64 {
	var buf [64]byte
	n := runtime.Stack(buf[:], false)
	f := bytes.Fields(buf[:n])
	if len(f) < 2 {
		return -1
	}
	id, _ := strconv.ParseInt(string(f[1]), 10, 64)

	return id
}

// goroutineStates parses runtime.Stack(all): goroutine id -> wait reason / state.
func goroutineStates() map[int64]string {
	buf := make([]byte, 1<<17)
	for {
		n := runtime.Stack(buf, true)
		if n < len(buf) {
			buf = buf[:n]

			break
		}
		buf = make([]byte, 2*len(buf))
	}
	out := map[int64]string{}
	for _, line := range bytes.Split(buf, []byte("\n")) {
		if !bytes.HasPrefix(line, []byte("goroutine ")) {
			continue
		}
		rest := line[len("goroutine "):]
		sp := bytes.IndexByte(rest, ' ')
		if sp < 0 {
			continue
		}
		id, err := strconv.ParseInt(string(rest[:sp]), 10, 64)
		if err != nil {
			continue
		}
		lb, rb := bytes.IndexByte(rest, '['), bytes.IndexByte(rest, ']')
		if lb < 0 || rb < lb {
			continue
		}
		st := string(rest[lb+1 : rb])
		if c := strings.IndexByte(st, ','); c >= 0 {
			st = st[:c]
		}
		out[id] = st
	}

	return out
}

func parkedInMutex(state string) bool {
	switch state {
	// not "semacquire": a goroutine that starts a GC cycle waits for the world semaphore in that state
	case "sync.Mutex.Lock", "sync.RWMutex.Lock", "sync.RWMutex.RLock":
		return true
	}

	return false
}

// settle waits until no goroutine of the case can move and returns their statuses.
func (w *dirWorld) settle() bool {
	deadline := time.Now().Add(dirSettleTimeout)
	for spin := 0; ; spin++ {
		st := make([]string, len(w.threads))
		need := false
		for i, t := range w.threads {
			if t.done.Load() {
				st[i] = "d"
			} else {
				need = true
			}
		}
		settled := true
		if need {
			states := goroutineStates()
			for i, t := range w.threads {
				if st[i] != "" {
					continue
				}
				id := t.goid.Load()
				state, ok := states[id]
				if id == 0 || !ok {
					settled = false

					break
				}
				gate := -1
				for _, s := range w.subs {
					if s.standsAt(id) {
						gate = s.idx
					}
				}
				switch {
				case gate >= 0 && state == "chan receive":
					st[i] = "g" + strconv.Itoa(gate)
				case gate < 0 && parkedInMutex(state):
					st[i] = "b"
				default:
					settled = false
				}
				if !settled {
					break
				}
			}
		}
		if settled {
			w.status = st

			return true
		}
		if time.Now().After(deadline) {
			w.broken = "unsettled"

			return false
		}
		if spin < 50 {
			runtime.Gosched()
		} else {
			time.Sleep(50 * time.Microsecond)
		}
	}
}

func (w *dirWorld) statuses() string {
	if len(w.status) == 0 {
		return "-"
	}

	return strings.Join(w.status, " ")
}

func (w *dirWorld) spawn(f func()) {
	t := &dirThread{}
	w.threads = append(w.threads, t)
	go func() {
		t.goid.Store(goid())
		if p := hx.Safely(f); p != "" {
			w.pmu.Lock()
			w.panics = append(w.panics, p)
			w.pmu.Unlock()
		}
		t.done.Store(true)
	}()
}

// body is the callback of subscription s.
func (w *dirWorld) body(s *dirSub, note string) {
	st := w.clock.Add(1)
	if s.inside.Add(1) != 1 {
		s.direct.CompareAndSwap(nil, "overlap")
	}
	if s.returned.Load() {
		s.direct.CompareAndSwap(nil, "after-unsubscribe")
	}
	k := int(s.enters.Add(1)) - 1
	s.add(st, "e:"+note)
	s.gmu.Lock()
	gated := s.pending[k]
	delete(s.pending, k)
	s.gmu.Unlock()
	if gated {
		g := &dirGate{ch: make(chan struct{}), id: goid()}
		s.gmu.Lock()
		s.standing = append(s.standing, g)
		s.gmu.Unlock()
		<-g.ch
		g.left.Store(true)
	}
	s.inside.Add(-1)
	s.add(w.clock.Add(1), "x")
}

func (w *dirWorld) heldSubs() (hs []int) {
	for _, s := range w.subs {
		if s.held() {
			hs = append(hs, s.idx)
		}
	}

	return hs
}

func (w *dirWorld) allDone() bool {
	for _, t := range w.threads {
		if !t.done.Load() {
			return false
		}
	}

	return true
}

func newDirWorld(f []string) *dirWorld {
	w := &dirWorld{}
	switch {
	case len(f) == 2 && f[1] == "var":
		w.kind, w.v = "var", reactive.NewVariable[int]()
	case len(f) == 2 && f[1] == "event":
		w.kind, w.e = "event", reactive.NewEvent()
	case len(f) == 3 && f[1] == "set":
		w.kind, w.s = "set", reactive.NewSet[int](parseInts(f[2])...)
	default:
		return nil
	}

	return w
}

// writeFn translates a write request into a call on the real object.
func (w *dirWorld) writeFn(f []string) func() {
	num := func(i int) (int, bool) {
		if i >= len(f) {
			return 0, false
		}
		n, err := strconv.Atoi(f[i])

		return n, err == nil && n >= 0
	}
	set := func(i int) ([]int, bool) {
		if i >= len(f) {
			return nil, false
		}
		var xs []int
		ok := hx.Safely(func() { xs = parseInts(f[i]) }) == ""

		return xs, ok
	}
	if len(f) == 0 {
		return nil
	}
	switch w.kind {
	case "var":
		switch {
		case f[0] == "set" && len(f) == 2:
			if k, ok := num(1); ok {
				return func() { w.v.Set(k) }
			}
		case f[0] == "same" && len(f) == 1:
			return func() { w.v.Compute(func(c int) int { return c }) }
		case f[0] == "compute" && len(f) == 2:
			if k, ok := num(1); ok {
				return func() { w.v.Compute(func(c int) int { return (2*c + k) % 5 }) }
			}
		case f[0] == "defaultto" && len(f) == 2:
			if k, ok := num(1); ok {
				return func() { w.v.DefaultTo(k) }
			}
		}
	case "event":
		switch {
		case f[0] == "trigger" && len(f) == 1:
			return func() { w.e.Trigger() }
		case f[0] == "set" && len(f) == 2:
			if k, ok := num(1); ok {
				return func() { w.e.Set(k != 0) }
			}
		}
	case "set":
		switch {
		case f[0] == "add" && len(f) == 2:
			if x, ok := num(1); ok {
				return func() { w.s.Add(x) }
			}
		case f[0] == "del" && len(f) == 2:
			if x, ok := num(1); ok {
				return func() { w.s.Delete(x) }
			}
		case f[0] == "addall" && len(f) == 2:
			if xs, ok := set(1); ok {
				return func() { w.s.AddAll(ds.NewSet(xs...)) }
			}
		case f[0] == "delall" && len(f) == 2:
			if xs, ok := set(1); ok {
				return func() { w.s.DeleteAll(ds.NewSet(xs...)) }
			}
		case (f[0] == "apply" || f[0] == "compute") && len(f) == 3:
			a, ok1 := set(1)
			d, ok2 := set(2)
			if ok1 && ok2 {
				if f[0] == "apply" {
					return func() { w.s.Apply(mkMut(a, d)) }
				}

				return func() { w.s.Compute(func(ds.ReadableSet[int]) ds.SetMutations[int] { return mkMut(a, d) }) }
			}
		case f[0] == "toggle" && len(f) == 2:
			if x, ok := num(1); ok {
				return func() {
					w.s.Compute(func(cur ds.ReadableSet[int]) ds.SetMutations[int] {
						if cur.Has(x) {
							return mkMut(nil, []int{x})
						}

						return mkMut([]int{x}, nil)
					})
				}
			}
		case f[0] == "replace" && len(f) == 2:
			if xs, ok := set(1); ok {
				return func() { w.s.Replace(ds.NewSet(xs...)) }
			}
		case f[0] == "replace-self" && len(f) == 1:
			return func() { w.s.Replace(w.s) }
		}
	}

	return nil
}

func (w *dirWorld) subscribe(s *dirSub, flag bool) func() {
	switch w.kind {
	case "var":
		return w.v.OnUpdate(func(p, n int) { w.body(s, fmt.Sprintf("%d:%d", p, n)) }, flag)
	case "event":
		return w.e.OnUpdate(func(p, n bool) { w.body(s, fmt.Sprintf("%d:%d", bi(p), bi(n))) }, flag)
	default:
		return w.s.OnUpdate(func(m ds.SetMutations[int]) { w.body(s, showMut(m)) }, flag)
	}
}

func (w *dirWorld) state() string {
	res := make(chan string, 1)
	go func() {
		switch w.kind {
		case "var":
			res <- strconv.Itoa(w.v.Get())
		case "event":
			res <- strconv.Itoa(bi(w.e.Get()))
		default:
			res <- showInts(w.s.ToSlice())
		}
	}()
	select {
	case s := <-res:
		return s
	case <-time.After(dirSettleTimeout):
		w.broken = "reader-blocked"

		return "timeout"
	}
}

func (w *dirWorld) exec(op string) string {
	f := strings.Fields(op)
	if len(f) == 0 || w.broken != "" {
		return "bad-op"
	}
	after := func() string {
		if !w.settle() {
			return "unsettled"
		}

		return w.statuses()
	}
	switch {
	case f[0] == "go" && len(f) >= 3 && f[1] == "write":
		fn := w.writeFn(f[2:])
		if fn == nil {
			return "bad-op"
		}
		w.spawn(fn)

		return after()
	case f[0] == "go" && len(f) == 4 && f[1] == "sub":
		pending := map[int]bool{}
		if f[3] != "-" {
			for _, p := range strings.Split(f[3], ",") {
				k, err := strconv.Atoi(p)
				if err != nil || k < 0 {
					return "bad-op"
				}
				pending[k] = true
			}
		}
		s := &dirSub{idx: len(w.subs), owner: len(w.threads), pending: pending}
		w.subs = append(w.subs, s)
		flag := f[2] == "1"
		w.spawn(func() {
			un := w.subscribe(s, flag)
			s.gmu.Lock()
			s.unsub = un
			s.gmu.Unlock()
		})

		return after()
	case f[0] == "go" && len(f) == 3 && f[1] == "unsub":
		c, err := strconv.Atoi(f[2])
		if err != nil || c < 0 || c >= len(w.subs) || !w.threads[w.subs[c].owner].done.Load() {
			return "bad-op"
		}
		s := w.subs[c]
		s.gmu.Lock()
		un := s.unsub
		s.gmu.Unlock()
		if un == nil {
			return "bad-op"
		}
		s.unsubs++
		s.unsubbed.Store(true)
		w.spawn(func() {
			un()
			s.returned.Store(true)
			s.add(w.clock.Add(1), "u")
		})

		return after()
	case f[0] == "release" && len(f) == 2:
		c, err := strconv.Atoi(f[1])
		if err != nil || c < 0 || c >= len(w.subs) {
			return "bad-op"
		}
		g := w.subs[c].takeGate()
		if g == nil {
			return "bad-op"
		}
		g.open() // the statuses are read only after the invocation has left the gate

		return after()
	case f[0] == "finish" && len(f) == 1:
		for _, s := range w.subs {
			s.gmu.Lock()
			s.pending = map[int]bool{}
			s.gmu.Unlock()
		}
		for {
			for _, s := range w.subs {
				for g := s.takeGate(); g != nil; g = s.takeGate() {
					g.open()
				}
			}
			ans := after()
			if !strings.Contains(ans, "g") {
				return ans
			}
		}
	case f[0] == "get" && len(f) == 1:
		return w.state()
	case f[0] == "logs" && len(f) == 1:
		var b strings.Builder
		for _, s := range w.subs {
			ln := strings.Fields(s.line("k", "f"))
			fmt.Fprintf(&b, "c%d=[%s] ", s.idx, strings.Join(ln[3:], " "))
		}

		return b.String() + "| " + w.state()
	}

	return "bad-op"
}

// cleanup releases everything so that no goroutine of the case stays behind.
func (w *dirWorld) cleanup() {
	for _, s := range w.subs {
		s.gmu.Lock()
		s.pending = map[int]bool{}
		s.gmu.Unlock()
		for g := s.takeGate(); g != nil; g = s.takeGate() {
			close(g.ch)
		}
	}
}

// judge evaluates the property on the logs of a finished case (Go oracle) and prints them as vsub / ssub lines.
func (w *dirWorld) judge(r *hx.Run) {
	kind := "dir-" + w.kind
	sig := func(o string) map[string]string {
		return map[string]string{"oracle": o, "mode": "directed", "kind": kind}
	}
	for _, p := range w.panics {
		r.Fail("panic", "a call panicked in a directed schedule: "+p, sig("panic"))
	}
	for _, s := range w.subs {
		if d, _ := s.direct.Load().(string); d != "" {
			fail(r, kind, d, "observed from inside the callback (directed schedule)", s.line("sub", "-"))
		}
	}
	if !w.allDone() {
		return
	}
	final := w.state()
	lk := "vsub"
	if w.kind == "set" {
		lk = "ssub"
	}
	curCtx = &judgeCtx{kind: kind}
	for _, s := range w.subs {
		line := s.line(lk, final)
		r.Line(line, judgeLogLine(r, line))
		r.CountN("dir:notes", len(noteTokens(strings.Fields(line)[3:])))
	}
	curCtx = &judgeCtx{}
}

// runDirLines executes the op lines of one directed case (corpus / replay); the header is lines[0].
func runDirLines(r *hx.Run, lines []string) {
	w := newDirWorld(strings.Fields(lines[0]))
	if w == nil {
		r.Line(lines[0], "bad-op")

		return
	}
	r.Line(lines[0], "ok")
	defer w.cleanup()
	for _, op := range lines[1:] {
		if isLogLine(op) {
			continue // recorded logs of the run that wrote a replay file: `logs` prints them again
		}
		ans := w.exec(op)
		if w.broken != "" {
			r.Count("dir:dropped:" + w.broken)
			dirDropped(r, w)

			return
		}
		r.Line(op, ans)
		r.Count("dir:op:" + strings.Join(firstN(strings.Fields(op), 2), "-"))
		dirCheck(r, w, op, ans)
		if op == "logs" {
			w.judge(r)
		}
	}
}

func firstN(f []string, n int) []string {
	if len(f) > 0 && f[0] != "go" {
		n = 1
	}
	if len(f) > n {
		return f[:n]
	}

	return f
}

var dirDrops int

// dirDropped: a case whose goroutines did not come to rest within the (generous) time limit is dropped; it becomes a
// finding only when it happens persistently.
func dirDropped(r *hx.Run, w *dirWorld) {
	dirDrops++
	if dirDrops >= 3 {
		r.Fail("timeout", fmt.Sprintf("directed schedules: the goroutines of %d cases did not come to rest within %s (%s)", dirDrops, dirSettleTimeout, w.broken),
			map[string]string{"oracle": "timeout", "mode": "directed", "kind": "dir-" + w.kind})
	}
}

// dirCheck: what the Go side knows without Lean after an action.
func dirCheck(r *hx.Run, w *dirWorld, op, ans string) {
	kind := "dir-" + w.kind
	if op == "finish" && strings.Contains(ans, "b") {
		r.Fail("deadlock", "after every gate was released a goroutine is still parked in a mutex: "+ans,
			map[string]string{"oracle": "deadlock", "mode": "directed", "kind": kind})
	}
	for _, s := range w.subs {
		if d, _ := s.direct.Load().(string); d != "" && !s.reported {
			s.reported = true
			fail(r, kind, d, "observed from inside the callback (directed schedule, after `"+op+"`)", s.line("sub", "-"))
		}
	}
}

// ---- the online generator ------------------------------------------------------------------------------------------

func genDirWrite(rng *hx.Rng, kind string) string {
	const u = 4
	switch kind {
	case "var":
		switch rng.Intn(8) {
		case 0:
			return "same"
		case 1:
			return "set 0"
		case 2:
			return fmt.Sprintf("compute %d", rng.Intn(5))
		case 3:
			return fmt.Sprintf("defaultto %d", rng.Range(1, 4))
		default:
			return fmt.Sprintf("set %d", rng.Range(1, 4))
		}
	case "event":
		if rng.Chance(1, 4) {
			return fmt.Sprintf("set %d", rng.Intn(2))
		}

		return "trigger"
	default:
		switch rng.Intn(10) {
		case 0:
			return fmt.Sprintf("add %d", rng.Intn(u))
		case 1:
			return fmt.Sprintf("del %d", rng.Intn(u))
		case 2:
			return "addall " + showInts(randSubset(rng, u))
		case 3:
			return "delall " + showInts(randSubset(rng, u))
		case 4:
			return "apply " + showInts(randSubset(rng, u)) + " " + showInts(randSubset(rng, u))
		case 5:
			return "compute " + showInts(randSubset(rng, u)) + " " + showInts(randSubset(rng, u))
		case 6:
			return fmt.Sprintf("toggle %d", rng.Intn(u))
		case 7:
			return "replace-self"
		default:
			return "replace " + showInts(randSubset(rng, u))
		}
	}
}

// genDirCase generates and runs one directed case.
func genDirCase(r *hx.Run, rng *hx.Rng) {
	kind := []string{"var", "set", "var", "set", "event"}[rng.Intn(5)]
	hdr := "newdir " + kind
	if kind == "set" {
		hdr += " " + showInts(randSubset(rng, 4))
	}
	w := newDirWorld(strings.Fields(hdr))
	r.Line(hdr, "ok")
	defer w.cleanup()
	do := func(op string) bool {
		ans := w.exec(op)
		if w.broken != "" {
			r.Count("dir:dropped:" + w.broken)
			dirDropped(r, w)

			return false
		}
		r.Line(op, ans)
		r.Count("dir:op:" + strings.Join(firstN(strings.Fields(op), 2), "-"))
		for _, st := range w.status {
			r.Count("dir:status:" + st[:1])
		}
		dirCheck(r, w, op, ans)

		return true
	}
	steps := rng.Range(6, 16)
	gatedSeen, parkedSeen := false, false
	for i := 0; i < steps; i++ {
		parked := 0
		for _, st := range w.status {
			if st == "b" {
				parked++
			}
		}
		held := w.heldSubs()
		if len(held) > 0 {
			gatedSeen = true
		}
		if parked > 0 {
			parkedSeen = true
		}
		var op string
		for op == "" {
			switch c := rng.Intn(12); {
			case c < 3: // OnUpdate, with gates on some of its first invocations
				if len(w.subs) >= 5 {
					continue
				}
				var gs []string
				for k := 0; k < 3; k++ {
					if rng.Chance(1, 3) {
						gs = append(gs, strconv.Itoa(k))
					}
				}
				g := "-"
				if len(gs) > 0 {
					g = strings.Join(gs, ",")
				}
				op = fmt.Sprintf("go sub %d %s", bi(rng.Chance(2, 3)), g)
			case c < 6: // a write: may park (update-order mutex / an execution lock)
				if parked > 0 || len(w.threads) >= 14 || len(w.subs) == 0 {
					continue
				}
				op = "go write " + genDirWrite(rng, kind)
			case c < 8: // unsubscribe: parks iff the subscription is executing (then only if nobody is parked)
				var cands []int
				for _, s := range w.subs {
					if !w.threads[s.owner].done.Load() {
						continue // OnUpdate has not returned the unsubscribe function yet
					}
					if s.held() && parked > 0 {
						continue
					}
					if s.unsubs >= 2 {
						continue
					}
					cands = append(cands, s.idx)
				}
				if len(cands) == 0 || len(w.threads) >= 14 {
					continue
				}
				op = fmt.Sprintf("go unsub %d", hx.Pick(rng, cands))
			case c < 11:
				if len(held) == 0 {
					continue
				}
				op = fmt.Sprintf("release %d", hx.Pick(rng, held))
			default:
				op = "get"
			}
		}
		if !do(op) {
			return
		}
	}
	if !do("finish") || !do("logs") {
		return
	}
	w.judge(r)
	if gatedSeen && parkedSeen {
		r.Nontrivial("dir:" + strings.Join(r.CaseLines(), "\n"))
		r.Count("dir:cases-with-a-gated-and-a-parked-goroutine")
	}
	r.Count("dir:cases:" + kind)
}

// dirCorpus: hand-written directed schedules (each is a deterministic failing input for one kind of breakage).
var dirCorpus = [][]string{
	// a subscription is unsubscribed between the writer's snapshot and its turn: everybody behind it still gets the note
	{"newdir set 1,2", "go sub 1 1", "go sub 1 -", "go sub 1 -", "go write replace 2,3", "go unsub 1", "release 0", "finish", "logs"},
	{"newdir set -", "go sub 1 1", "go sub 0 -", "go sub 0 -", "go write apply 1,2 -", "go unsub 1", "release 0", "go write toggle 1", "finish", "logs"},
	{"newdir var", "go sub 1 1", "go sub 1 -", "go sub 0 -", "go write set 3", "go unsub 1", "release 0", "go write set 0", "finish", "logs"},
	// zero value, initial trigger requested: a write during the initial callback waits for it
	{"newdir var", "go sub 1 0", "go write set 3", "get", "release 0", "finish", "logs"},
	{"newdir set -", "go sub 1 0", "go write add 1", "get", "release 0", "finish", "logs"},
	{"newdir event", "go sub 1 0", "go write trigger", "get", "release 0", "finish", "logs"},
	// non-zero value: the same
	{"newdir var", "go write set 2", "go sub 0 0", "go write set 3", "go sub 1 -", "release 0", "finish", "logs"},
	// a subscription registered while a writer is notifying: initial note = the new value, the running update is not delivered to it
	{"newdir var", "go sub 0 0", "go write set 4", "go sub 0 -", "go sub 1 -", "release 0", "go write compute 1", "finish", "logs"},
	// unsubscribe while the subscription's own callback runs: returns only afterwards; a second writer waits for the first
	{"newdir var", "go sub 0 0,1", "go sub 0 -", "go write set 1", "go unsub 0", "release 0", "go write set 2", "finish", "logs"},
	{"newdir set 0", "go sub 1 1", "go write del 0", "go write add 3", "release 0", "go unsub 0", "go unsub 0", "go write add 0", "finish", "logs"},
}

func runDirPart(r *hx.Run) {
	for _, c := range dirCorpus {
		r.Case(0)
		runDirLines(r, c)
	}
	n := 1200 * r.Scale
	if r.Scale > 1 {
		n = 6000
	}
	for i := 0; i < n && dirDrops < 3; i++ {
		rng, sub := r.Rng.Fork()
		r.Case(sub)
		genDirCase(r, rng)
	}
}
