package main

// Window rounds: the hand-off between registering a callback and a concurrent update, forced through the `verif` hook
// reactive.VerifOnUpdateWindow (called by Variable.OnUpdate / Set.OnUpdate after the callback was registered, the
// current state was read and the value mutex was released, before the initial invocation).
//
// A subscriber S is parked inside that window.  A writer W then changes the object once or twice; the round waits until
// W has finished or is parked in a mutex (read off the goroutine dump - not a matter of timing; on the code as it is W
// stands at S's execution lock after having notified the earlier subscribers), then lets S go on.  S must see its
// initial note (the state at subscription time) first and W's changes after it, in order; the earlier subscribers and
// the reference subscription see W's changes as always.  Kinds window-var / window-set / window-event.  The logs are
// judged like those of every other round (chain / exactly-once / true-difference / fold / last = final, by the Go
// oracle and by the Lean driver); in addition the writer must not get through while S is parked (oracle `handoff`).  If the
// hook is not reached (a build without it) the round still runs, unparked.

import (
	"strings"
	"sync"
	"sync/atomic"
	"time"

	"verifharness/hx"

	"github.com/iotaledger/hive.go/ds/reactive"
)

const windowSettle = 20 * time.Second

func stressWindow(r *hx.Run, rng *hx.Rng, kind string) bool {
	base := strings.TrimPrefix(kind, "window-")
	sig := func(o string) map[string]string { return map[string]string{"oracle": o, "mode": "stress", "kind": kind} }
	o := newBarrierObj(base, rng)
	rd := &round{light: true}
	writes := 0
	doWrite := func(wr *hx.Rng) {
		if o.maxWrite > 0 && writes >= o.maxWrite {
			return
		}
		writes++
		if p := hx.Safely(func() { o.write(writes, wr) }); p != "" {
			r.Fail("panic", "writer panicked: "+p, sig("panic"))
		}
	}
	if base == "set" {
		o.sub(rd, rd.newSub(), true) // the reference subscription
	}
	if base != "event" && rng.Bool() {
		doWrite(rng) // the parked subscriber starts from a non-zero state
	}
	for i := rng.Range(0, 3); i > 0; i-- {
		o.sub(rd, rd.newSub(), rng.Bool())
	}

	var parkID, writerID atomic.Int64
	parkID.Store(-1)
	parked, gate := make(chan struct{}), make(chan struct{})
	var once sync.Once
	reactive.VerifOnUpdateWindow = func() {
		if goid() == parkID.Load() {
			once.Do(func() { close(parked) })
			<-gate
		}
	}
	defer func() { reactive.VerifOnUpdateWindow = nil }()

	var wg sync.WaitGroup
	s := rd.newSub()
	flag := rng.Bool()
	wg.Add(1)
	go func() {
		defer wg.Done()
		parkID.Store(goid())
		if p := hx.Safely(func() { o.sub(rd, s, flag) }); p != "" {
			r.Fail("panic", "OnUpdate panicked: "+p, sig("panic"))
		}
	}()
	reached := false
	select {
	case <-parked:
		reached = true
		r.Count("stress:" + kind + ":parked-in-the-window")
	case <-time.After(windowSettle):
		r.Count("stress:" + kind + ":window-not-reached")
	}
	var wdone atomic.Bool
	wr := hx.NewRng(rng.U64())
	nw := rng.Range(1, 2)
	wg.Add(1)
	go func() {
		defer wg.Done()
		defer wdone.Store(true)
		writerID.Store(goid())
		for j := 0; j < nw; j++ {
			doWrite(wr)
		}
	}()
	if reached {
		// wait until the writer has finished or stands at a mutex
		deadline := time.Now().Add(windowSettle)
		time.Sleep(50 * time.Microsecond)
		for !wdone.Load() && time.Now().Before(deadline) {
			if id := writerID.Load(); id != 0 && parkedInMutex(goroutineStates()[id]) {
				r.Count("stress:" + kind + ":writer-waits-for-the-subscriber")

				break
			}
			time.Sleep(100 * time.Microsecond) // a goroutine dump stops the world: do not take them back to back
		}
		if wdone.Load() {
			// the writer changed the object after S was registered, so it owes S the change - after S's initial note, which
			// S has not been handed yet: a writer that is through has either notified S ahead of its initial state or
			// passed it over.  Reported here, before S goes on (in a broken hand-off S may end in a fatal unlock)
			r.Count("stress:" + kind + ":writer-finished-in-the-window")
			fail(r, kind, "handoff", "a writer that changed the object finished while a subscriber registered before the change "+
				"was still waiting for its initial invocation (parked in the OnUpdate window)", s.line(o.lineKind, o.final()))
		}
	}
	close(gate)
	if !join(&wg) {
		r.Fail("timeout", "window round did not finish within "+joinTimeout.String(), sig("timeout"))

		return false
	}
	for j := rng.Range(0, 2); j > 0; j-- {
		doWrite(rng)
	}
	if rng.Bool() && s.unsub != nil {
		rd.doUnsub(s)
		doWrite(rng)
	}
	emitSparseKind(r, kind, o.histLine(writes), rd, o.lineKind, o.final())

	return true
}
