package main

// Sequential `newsetx` cases: a reactive Set[int] (universe 0..5) with `WithElements` subscribers, the subscription
// variant of the Set.  Ops: add x | del x | apply a d | compute a d | toggle x | replace xs | withelements c h |
// unsub i | state.  The answer of a write is `<applied mutations> | <setup / teardown calls of the subscribers>`
// (`w<i>+x` = subscriber i's setup(x), `w<i>-x` = the teardown function that setup(x) returned); within one
// subscriber's handling of one note the setups and the teardowns are each printed in ascending element order (the
// iteration order of a ds.Set is not part of the model; that all setups precede all teardowns is checked here).
// Hive/Model/ReactiveElementsSeq.lean answers the same lines with the machine the C13_withelements_* theorems are about.
//
// Property oracle (independent of Lean), after every op and from inside the callbacks: a live subscriber is set up
// (teardown function pending) for exactly the elements of ToSlice() that satisfy its condition and for which its
// setup returns a teardown function; setup(x) is never called while the teardown of an earlier setup(x) is pending;
// a teardown function runs at most once; setup is never called for an element that fails the condition; after the
// function WithElements returned has run, nothing is pending and nothing is called any more.

import (
	"fmt"
	"sort"
	"strconv"
	"strings"

	"verifharness/hx"

	"github.com/iotaledger/hive.go/ds"
	"github.com/iotaledger/hive.go/ds/reactive"
)

func weCond(c int) func(int) bool {
	switch c {
	case 1:
		return func(x int) bool { return x%2 == 1 }
	case 2:
		return func(x int) bool { return x < 3 }
	}

	return nil
}

func weHasTd(h, x int) bool {
	switch h {
	case 1:
		return x != 2
	case 2:
		return x%2 == 0
	}

	return true
}

type sxEv struct {
	sub, kind, x int // kind 0 = setup, 1 = teardown
}

type sxSub struct {
	c, h    int
	pending map[int]bool
	unsub   func()
	dead    bool
}

type sxWorld struct {
	s    reactive.Set[int]
	subs []*sxSub
	evs  []sxEv
	viol []string
}

func (w *sxWorld) violate(oracle, detail string) { w.viol = append(w.viol, oracle+"\x00"+detail) }

func (w *sxWorld) addWithElements(c, h int) {
	i := len(w.subs)
	s := &sxSub{c: c, h: h, pending: map[int]bool{}}
	w.subs = append(w.subs, s)
	cond := weCond(c)
	setup := func(x int) func() {
		if s.dead {
			w.violate("after-unsubscribe", fmt.Sprintf("WithElements %d: setup(%d) after its teardown function returned", i, x))
		}
		if cond != nil && !cond(x) {
			w.violate("withelements-condition", fmt.Sprintf("WithElements %d: setup(%d) although the condition does not hold", i, x))
		}
		if s.pending[x] {
			w.violate("withelements-order", fmt.Sprintf("WithElements %d: setup(%d) while the teardown of an earlier setup(%d) is pending", i, x, x))
		}
		for _, e := range w.evs {
			if e.sub == i && e.kind == 1 {
				w.violate("withelements-order", fmt.Sprintf("WithElements %d: setup(%d) after a teardown of the same note", i, x))
			}
		}
		w.evs = append(w.evs, sxEv{i, 0, x})
		if !weHasTd(h, x) {
			return nil
		}
		s.pending[x] = true
		torn := false

		return func() {
			if torn || !s.pending[x] {
				w.violate("withelements-order", fmt.Sprintf("WithElements %d: the teardown of setup(%d) called twice or without a pending setup", i, x))
			}
			torn = true
			delete(s.pending, x)
			w.evs = append(w.evs, sxEv{i, 1, x})
		}
	}
	if cond == nil {
		s.unsub = w.s.WithElements(setup)
	} else {
		s.unsub = w.s.WithElements(setup, cond)
	}
}

func (w *sxWorld) events() string {
	evs := w.evs
	w.evs = nil
	sort.SliceStable(evs, func(a, b int) bool {
		if evs[a].sub != evs[b].sub {
			return evs[a].sub < evs[b].sub
		}
		if evs[a].kind != evs[b].kind {
			return evs[a].kind < evs[b].kind
		}

		return evs[a].x < evs[b].x
	})
	var toks []string
	for _, e := range evs {
		toks = append(toks, fmt.Sprintf("w%d%c%d", e.sub, "+-"[e.kind], e.x))
	}
	if len(toks) == 0 {
		return " |"
	}

	return " | " + strings.Join(toks, " ")
}

func (w *sxWorld) oracle(r *hx.Run, op string) {
	f := strings.Fields(op)
	sig := func(o string) map[string]string { return map[string]string{"oracle": o, "mode": "seqs", "op": f[0]} }
	for _, v := range w.viol {
		p := strings.SplitN(v, "\x00", 2)
		r.Fail(p[0], fmt.Sprintf("after %q: %s", op, p[1]), sig(p[0]))
	}
	w.viol = nil
	cur := map[int]bool{}
	for _, x := range w.s.ToSlice() {
		cur[x] = true
	}
	for i, s := range w.subs {
		if s.dead {
			if len(s.pending) != 0 {
				r.Fail("withelements-closed", fmt.Sprintf("after %q: WithElements %d still has %d teardown functions pending after its teardown function returned", op, i, len(s.pending)), sig("withelements-closed"))
				s.pending = map[int]bool{}
			}

			continue
		}
		cond := weCond(s.c)
		for x := 0; x < 6; x++ {
			want := cur[x] && (cond == nil || cond(x)) && weHasTd(s.h, x)
			if want != s.pending[x] {
				r.Fail("withelements-current", fmt.Sprintf("after %q: WithElements %d (cond %d, teardowns %d): element %d in the set=%v, set up=%v", op, i, s.c, s.h, x, cur[x], s.pending[x]), sig("withelements-current"))

				break
			}
		}
	}
}

func (w *sxWorld) exec(r *hx.Run, op string) (ans string) {
	if p := hx.Safely(func() { ans = w.exec1(strings.Fields(op)) }); p != "" {
		r.Fail("panic", fmt.Sprintf("%q panicked: %s", op, p), map[string]string{"oracle": "panic", "mode": "seqs", "op": strings.Fields(op)[0]})

		return "panic"
	}
	if ans != "bad-op" {
		w.oracle(r, op)
	}

	return ans
}

func (w *sxWorld) exec1(f []string) string {
	num := func(i int) int {
		n, err := strconv.Atoi(f[i])
		if err != nil || n < 0 {
			return -1
		}

		return n
	}
	switch {
	case len(f) == 2 && f[0] == "add" && num(1) >= 0:
		x := num(1)
		if w.s.Add(x) {
			return strconv.Itoa(x) + ":-" + w.events()
		}

		return "-:-" + w.events()
	case len(f) == 2 && f[0] == "del" && num(1) >= 0:
		x := num(1)
		if w.s.Delete(x) {
			return "-:" + strconv.Itoa(x) + w.events()
		}

		return "-:-" + w.events()
	case len(f) == 3 && f[0] == "apply":
		return showMut(w.s.Apply(mkMut(parseInts(f[1]), parseInts(f[2])))) + w.events()
	case len(f) == 3 && f[0] == "compute":
		m := mkMut(parseInts(f[1]), parseInts(f[2]))

		return showMut(w.s.Compute(func(ds.ReadableSet[int]) ds.SetMutations[int] { return m })) + w.events()
	case len(f) == 2 && f[0] == "toggle" && num(1) >= 0:
		x := num(1)

		return showMut(w.s.Compute(func(cur ds.ReadableSet[int]) ds.SetMutations[int] {
			if cur.Has(x) {
				return mkMut(nil, []int{x})
			}

			return mkMut([]int{x}, nil)
		})) + w.events()
	case len(f) == 2 && f[0] == "replace":
		// the answer is the note: what Replace returns (the deleted elements) is half of it, the other half is
		// reconstructed from the contents before and after
		before := map[int]bool{}
		for _, x := range w.s.ToSlice() {
			before[x] = true
		}
		removed := w.s.Replace(ds.NewSet(parseInts(f[1])...))
		var added []int
		for _, x := range w.s.ToSlice() {
			if !before[x] {
				added = append(added, x)
			}
		}

		return showInts(added) + ":" + showInts(removed.ToSlice()) + w.events()
	case len(f) == 3 && f[0] == "withelements" && num(1) >= 0 && num(2) >= 0:
		w.addWithElements(num(1), num(2))

		return "ok" + w.events()
	case len(f) == 2 && f[0] == "unsub" && num(1) >= 0 && num(1) < len(w.subs):
		s := w.subs[num(1)]
		s.unsub()
		s.dead = true

		return "ok" + w.events()
	case len(f) == 1 && f[0] == "state":
		out := showInts(w.s.ToSlice()) + " |"
		for _, s := range w.subs {
			if s.dead {
				out += " x"

				continue
			}
			var xs []int
			for x := range s.pending {
				xs = append(xs, x)
			}
			out += " " + showInts(xs)
		}

		return out
	}

	return "bad-op"
}

func genSeqsCase(rng *hx.Rng, n int) []string {
	const u = 6
	sub := func() string {
		xs := randSubset(rng, u)

		return showInts(xs)
	}
	ops := []string{"newsetx " + sub()}
	nsubs := 0
	for i := 0; i < n; i++ {
		switch x := rng.Intn(100); {
		case x < 14:
			ops = append(ops, fmt.Sprintf("add %d", rng.Intn(u)))
		case x < 26:
			ops = append(ops, fmt.Sprintf("del %d", rng.Intn(u)))
		case x < 40:
			ops = append(ops, "apply "+sub()+" "+sub())
		case x < 47:
			ops = append(ops, "compute "+sub()+" "+sub())
		case x < 55:
			ops = append(ops, fmt.Sprintf("toggle %d", rng.Intn(u)))
		case x < 68:
			ops = append(ops, "replace "+sub())
		case x < 84:
			nsubs++
			ops = append(ops, fmt.Sprintf("withelements %d %d", rng.Intn(3), rng.Intn(3)))
		case x < 94:
			if nsubs > 0 {
				ops = append(ops, fmt.Sprintf("unsub %d", rng.Intn(nsubs)))
			}
		default:
			ops = append(ops, "state")
		}
	}
	ops = append(ops, "state")

	return ops
}
