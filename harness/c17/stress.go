package main

import (
	"fmt"
	"runtime"
	"sort"
	"strings"
	"sync"
	"sync/atomic"
	"time"

	"verifharness/hx"

	"github.com/iotaledger/hive.go/runtime/syncutils"
)

// detector is the in-critical-section overlap detector of one entity (independent Go oracle).
type detector struct {
	w, r atomic.Int32
}

func (d *detector) enterW() bool { return d.w.Add(1) == 1 && d.r.Load() == 0 }
func (d *detector) leaveW()      { d.w.Add(-1) }
func (d *detector) enterR() bool { d.r.Add(1); return d.w.Load() == 0 }
func (d *detector) leaveR()      { d.r.Add(-1) }

func dwell(rng *hx.Rng) {
	switch rng.Intn(4) {
	case 0:
	case 1:
		runtime.Gosched()
	default:
		for i := rng.Intn(200); i > 0; i-- {
			_ = i
		}
	}
}

// recoverStress turns a panic of the code under test inside a stress goroutine into an oracle failure.
func recoverStress(r *hx.Run, what string) {
	if e := recover(); e != nil {
		r.Fail("unexpected-panic", fmt.Sprintf("%s panicked under correct use in the stress run: %v", what, e),
			sig("api", what, "oracle", "stress-panic"))
	}
}

func waitOrStall(r *hx.Run, wg *sync.WaitGroup, what string) bool {
	done := make(chan struct{})
	go func() { wg.Wait(); close(done) }()
	select {
	case <-done:
		return true
	case <-time.After(20 * time.Second):
		stalls.Add(2)
		r.Fail("stall", what+": goroutines did not finish within 20s (lost wake-up or deadlock)", sig("api", what, "oracle", "stress-stall"))

		return false
	}
}

func emitTrace(r *hx.Run, logs [][]wev, what string) {
	var all []wev
	for _, l := range logs {
		all = append(all, l...)
	}
	sort.Slice(all, func(i, j int) bool { return all[i].seq < all[j].seq })
	toks := make([]string, len(all))
	for i, e := range all {
		toks[i] = e.s
	}
	r.Line("tr "+strings.Join(toks, " "), "accept")
	r.CountN(what+"-stress-events", len(toks))
	r.Count(what + "-stress-trace")
}

func stressSM(r *hx.Run, rng *hx.Rng, sub uint64, g, iters, writePct int) {
	r.Case(sub)
	mu := syncutils.NewStarvingMutex()
	var det detector
	var seq atomic.Uint64
	logs := make([][]wev, g)
	var wg sync.WaitGroup
	var overlaps atomic.Int64
	for i := 0; i < g; i++ {
		wg.Add(1)
		grng, _ := rng.Fork()
		go func(i int) {
			defer wg.Done()
			defer recoverStress(r, "StarvingMutex")
			for k := 0; k < iters; k++ {
				if grng.Intn(100) < writePct {
					mu.Lock()
					logs[i] = append(logs[i], wev{seq.Add(1), "+w0"})
					if !det.enterW() {
						overlaps.Add(1)
					}
					dwell(grng)
					det.leaveW()
					logs[i] = append(logs[i], wev{seq.Add(1), "-w0"})
					mu.Unlock()
				} else {
					mu.RLock()
					logs[i] = append(logs[i], wev{seq.Add(1), "+r0"})
					if !det.enterR() {
						overlaps.Add(1)
					}
					dwell(grng)
					det.leaveR()
					logs[i] = append(logs[i], wev{seq.Add(1), "-r0"})
					mu.RUnlock()
				}
			}
		}(i)
	}
	if waitOrStall(r, &wg, "StarvingMutex") {
		if s := mu.String(); !strings.Contains(s, "WriterActive: false") || !strings.Contains(s, "ReadersActive: 0") || !strings.Contains(s, "PendingWriters: 0") {
			r.Fail("counters", "after the stress run the mutex is not back to its zero state: "+s, sig("api", "StarvingMutex", "oracle", "counters-not-zero"))
		}
	}
	if n := overlaps.Load(); n > 0 {
		r.Fail("exclusion", fmt.Sprintf("StarvingMutex: %d overlapping critical sections (writer together with another holder)", n),
			sig("api", "StarvingMutex", "oracle", "overlap"))
	}
	emitTrace(r, logs, "sm")
	r.Nontrivial(fmt.Sprintf("smstress:%d", sub))
}

func stressDag(r *hx.Run, rng *hx.Rng, sub uint64, g, iters, nEnt int) {
	r.Case(sub)
	d := syncutils.NewDAGMutex[int]()
	dets := make([]detector, nEnt)
	var seq atomic.Uint64
	logs := make([][]wev, g)
	var wg sync.WaitGroup
	var overlaps atomic.Int64
	for i := 0; i < g; i++ {
		wg.Add(1)
		grng, _ := rng.Fork()
		go func(i int) {
			defer wg.Done()
			defer recoverStress(r, "DAGMutex")
			for k := 0; k < iters; k++ {
				// a vertex x and a subset of its "parents" (larger numbers): acquisitions follow the order
				x := grng.Intn(nEnt)
				var parents []int
				for y := x + 1; y < nEnt; y++ {
					if grng.Chance(1, 2) {
						parents = append(parents, y)
					}
				}
				write := grng.Chance(2, 5)
				if write {
					d.Lock(x)
					logs[i] = append(logs[i], wev{seq.Add(1), fmt.Sprintf("+w%d", x)})
					if !dets[x].enterW() {
						overlaps.Add(1)
					}
				} else {
					parents = append([]int{x}, parents...)
				}
				if len(parents) > 0 {
					d.RLock(parents...)
					for _, y := range parents {
						logs[i] = append(logs[i], wev{seq.Add(1), fmt.Sprintf("+r%d", y)})
						if !dets[y].enterR() {
							overlaps.Add(1)
						}
					}
				}
				dwell(grng)
				if len(parents) > 0 {
					for _, y := range parents {
						dets[y].leaveR()
						logs[i] = append(logs[i], wev{seq.Add(1), fmt.Sprintf("-r%d", y)})
					}
					d.RUnlock(parents...)
				}
				if write {
					dets[x].leaveW()
					logs[i] = append(logs[i], wev{seq.Add(1), fmt.Sprintf("-w%d", x)})
					d.Unlock(x)
				}
			}
		}(i)
	}
	// misusers (in two of three runs): goroutines that unlock what is not held, concurrently with the correct users,
	// and recover the panic.  Unlock(e) / RUnlock(x, e) with e never registered (x = an entity the others are using:
	// the lookup must fail before anything of x is touched), and once RLock(p); Unlock(p) on a private entity p (wrong
	// mode: registration and read lock stay, p's mutex stays usable — the RUnlock(p) that follows must go through).  The
	// correct users must not notice any of it.
	misusers := rng.Intn(3)
	frozen := 0
	for i := 0; i < misusers; i++ {
		wg.Add(1)
		grng, _ := rng.Fork()
		private := nEnt + 10 + i
		go func() {
			defer wg.Done()
			misuse := func(what string, call func()) {
				if p := hx.Safely(call); p == "" {
					r.Fail("missing-panic", "DAGMutex."+what+" did not panic in the stress run although the entity is not held in that mode",
						sig("api", "DAGMutex", "oracle", "stress-missing-panic", "call", what))
				}
			}
			for k := 0; k < iters/4; k++ {
				switch grng.Intn(3) {
				case 0:
					misuse("Unlock(unregistered)", func() { d.Unlock(nEnt + 5) })
				case 1:
					x := grng.Intn(nEnt)
					misuse("RUnlock(x, unregistered)", func() { d.RUnlock(x, nEnt+5) })
				case 2:
					misuse("RUnlock(unregistered, x)", func() { d.RUnlock(nEnt+5, grng.Intn(nEnt)) })
				}
				if k == iters/8 {
					d.RLock(private)
					misuse("Unlock(read-locked)", func() { d.Unlock(private) })
					if p := hx.Safely(func() { d.RUnlock(private) }); p != "" {
						r.Fail("unexpected-panic", "DAGMutex: the holder's own RUnlock after a recovered wrong-mode Unlock panicked: "+p,
							sig("api", "DAGMutex", "oracle", "stress-panic-after-misuse"))
					}
				}
				dwell(grng)
			}
		}()
	}
	r.Count(fmt.Sprintf("dagstress-misusers:%d", misusers))
	if waitOrStall(r, &wg, "DAGMutex") {
		w := &dagWorld{d: d, nEnt: nEnt}
		if o := w.obs(); strings.ContainsAny(strings.TrimSpace(o), "123456789") || w.mutexes().Size() != frozen || w.counts().Size() != frozen {
			r.Fail("registry", fmt.Sprintf("after the stress run (%d misusers) the DAGMutex still has registered entities: %s, %d mutexes, %d counters",
				misusers, o, w.mutexes().Size(), w.counts().Size()), sig("api", "DAGMutex", "oracle", "registry-not-empty"))
		}
	}
	if n := overlaps.Load(); n > 0 {
		r.Fail("exclusion", fmt.Sprintf("DAGMutex: %d overlapping critical sections", n), sig("api", "DAGMutex", "oracle", "overlap"))
	}
	emitTrace(r, logs, "dag")
	r.Nontrivial(fmt.Sprintf("dagstress:%d", sub))
}
