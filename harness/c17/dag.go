package main

import (
	"fmt"
	"sort"
	"strconv"
	"strings"
	"sync"
	"time"

	"verifharness/hx"

	"github.com/iotaledger/hive.go/ds/shrinkingmap"
	"github.com/iotaledger/hive.go/runtime/syncutils"
)

// dagWorld drives one real DAGMutex[int] through a scripted arrival order.
type dagWorld struct {
	r       *hx.Run
	d       *syncutils.DAGMutex[int]
	nEnt    int
	actors  []*actor
	pending []*arrival
	held    []map[int]byte // per goroutine: entity -> 'w' | 'r' (returned grants not yet released)
	ops     []int
	blocked bool
	dead    bool
}

func newDagWorld(r *hx.Run, n, nEnt int) *dagWorld {
	w := &dagWorld{r: r, d: syncutils.NewDAGMutex[int](), nEnt: nEnt, pending: make([]*arrival, n), ops: make([]int, n)}
	for i := 0; i < n; i++ {
		w.actors = append(w.actors, newActor())
		w.held = append(w.held, map[int]byte{})
	}

	return w
}

func (w *dagWorld) mutexes() *shrinkingmap.ShrinkingMap[int, *syncutils.StarvingMutex] {
	return *(**shrinkingmap.ShrinkingMap[int, *syncutils.StarvingMutex])(fieldPtr(w.d, "mutexes"))
}

func (w *dagWorld) counts() *shrinkingmap.ShrinkingMap[int, int] {
	return *(**shrinkingmap.ShrinkingMap[int, int])(fieldPtr(w.d, "consumerCounter"))
}

// waiters sums the goroutines parked on the condition variables of all registered entity mutexes.
func (w *dagWorld) waiters() int {
	if !tryLockFor(&w.d.Mutex, time.Second) {
		stalls.Add(1)

		return -1
	}
	defer w.d.Mutex.Unlock()
	n := 0
	w.mutexes().ForEach(func(_ int, m *syncutils.StarvingMutex) bool {
		n += condWaiters((*sync.Cond)(fieldPtr(m, "readerCond"))) + condWaiters((*sync.Cond)(fieldPtr(m, "writerCond")))

		return true
	})

	return n
}

func (w *dagWorld) obs() string {
	if !tryLockFor(&w.d.Mutex, time.Second) {
		stalls.Add(1)

		return statuses(w.actors) + " d-stuck"
	}
	defer w.d.Mutex.Unlock()
	cs := make([]string, w.nEnt)
	present := make([]byte, w.nEnt)
	for x := 0; x < w.nEnt; x++ {
		c, _ := w.counts().Get(x)
		cs[x] = strconv.Itoa(c)
		present[x] = '0'
		if w.mutexes().Has(x) {
			present[x] = '1'
		}
	}

	return statuses(w.actors) + " " + strings.Join(cs, ",") + " " + string(present)
}

func parseEnts(s string) []int {
	if s == "-" || s == "" {
		return nil
	}
	var out []int
	for _, f := range strings.Split(s, ",") {
		x, _ := strconv.Atoi(f)
		out = append(out, x)
	}

	return out
}

func joinEnts(xs []int) string {
	if len(xs) == 0 {
		return "-"
	}
	ss := make([]string, len(xs))
	for i, x := range xs {
		ss[i] = strconv.Itoa(x)
	}

	return strings.Join(ss, ",")
}

// holders of entity x among the other goroutines: returned grants, plus read locks a blocked RLock(xs...)
// may already have taken on its way.
func (w *dagWorld) holders(x int, except int) (writers, readers, maybeReaders int) {
	for i := range w.actors {
		if i == except {
			continue
		}
		switch w.held[i][x] {
		case 'w':
			writers++
		case 'r':
			readers++
		}
		if p := w.pending[i]; p != nil && p.op == "rlock" {
			for _, y := range parseEnts(p.arg) {
				if y == x {
					maybeReaders++
				}
			}
		}
	}

	return
}

func (w *dagWorld) arrive(a arrival) string {
	act := w.actors[a.t]
	xs := parseEnts(a.arg)
	d := w.d
	switch a.op {
	case "lock":
		act.call(func() { d.Lock(xs[0]) })
	case "unlock":
		w.release(a.t, xs[0], 'w')
		act.call(func() { d.Unlock(xs[0]) })
	case "rlock":
		act.call(func() { d.RLock(xs...) })
	case "runlock":
		for _, x := range xs {
			w.release(a.t, x, 'r')
		}
		act.call(func() { d.RUnlock(xs...) })
	}
	aa := a
	w.pending[a.t] = &aa
	w.ops[a.t]++
	if !settle(w.actors, w.waiters) {
		w.dead = true
		w.r.Fail("stall", fmt.Sprintf("DAGMutex: no quiescence %v after %s %s by goroutine %d; statuses=%s", settleTimeout, a.op, a.arg, a.t, statuses(w.actors)),
			sig("api", "DAGMutex."+a.op, "oracle", "stall"))
	}
	for i, ac := range w.actors {
		p := w.pending[i]
		if p == nil {
			continue
		}
		switch ac.state.Load() {
		case stIdle:
			for _, x := range parseEnts(p.arg) {
				wr, rd, _ := w.holders(x, i)
				switch p.op {
				case "lock":
					if wr+rd > 0 {
						w.r.Fail("exclusion", fmt.Sprintf("Lock(%d) granted to goroutine %d while %d writers / %d readers hold it", x, i, wr, rd),
							sig("api", "DAGMutex.Lock", "oracle", "two-holders"))
					}
					w.held[i][x] = 'w'
				case "rlock":
					if wr > 0 {
						w.r.Fail("exclusion", fmt.Sprintf("RLock(%d) granted to goroutine %d while a writer holds it", x, i),
							sig("api", "DAGMutex.RLock", "oracle", "two-holders"))
					}
					w.held[i][x] = 'r'
				}
			}
			w.pending[i] = nil
		case stPanicked:
			w.dead = true
			w.r.Fail("unexpected-panic", fmt.Sprintf("%s %s by goroutine %d panicked: %s", p.op, p.arg, i, ac.panicMsg),
				sig("api", "DAGMutex."+p.op, "oracle", "unexpected-panic"))
			w.pending[i] = nil
		}
	}
	for i := range w.actors {
		p := w.pending[i]
		if p == nil || w.dead {
			continue
		}
		w.blocked = true
		switch p.op {
		case "lock", "rlock":
			reason := false
			for _, x := range parseEnts(p.arg) {
				wr, rd, mr := w.holders(x, i)
				if wr+rd+mr > 0 {
					reason = true
				}
			}
			if !reason {
				w.r.Fail("lost-wakeup", fmt.Sprintf("goroutine %d still blocked in %s(%s) at quiescence although nobody holds any of these entities", i, p.op, p.arg),
					sig("api", "DAGMutex."+p.op, "oracle", "lost-wakeup"))
			}
		default:
			w.dead = true
			w.r.Fail("stall", fmt.Sprintf("goroutine %d blocked inside %s(%s)", i, p.op, p.arg), sig("api", "DAGMutex."+p.op, "oracle", "stall"))
		}
	}

	return w.obs()
}

// release: goroutine t gives up a lock on x in mode m — its own, or (hand-off: "one goroutine may RLock (Lock) an
// entity and then arrange for another goroutine to RUnlock (Unlock) it") the one of another goroutine.
func (w *dagWorld) release(t, x int, m byte) {
	if w.held[t][x] == m {
		delete(w.held[t], x)

		return
	}
	for u := range w.held {
		if w.held[u][x] == m {
			delete(w.held[u], x)

			return
		}
	}
}

// handoffs lists the unlocks goroutine t (idle) can issue for what the other goroutines hold.
func (w *dagWorld) handoffs(t int) []arrival {
	if !w.idle(t) {
		return nil
	}
	var out []arrival
	for u := range w.held {
		if u == t {
			continue
		}
		for x, m := range w.held[u] {
			if m == 'w' {
				out = append(out, arrival{t: t, op: "unlock", arg: strconv.Itoa(x)})
			} else if w.held[t][x] == 0 {
				out = append(out, arrival{t: t, op: "runlock", arg: strconv.Itoa(x)})
			}
		}
	}
	sort.Slice(out, func(i, j int) bool { return out[i].op+out[i].arg < out[j].op+out[j].arg })

	return out
}

func (w *dagWorld) idle(t int) bool { return w.pending[t] == nil && w.actors[t].state.Load() == stIdle }

// legal lists ordered acquisitions (only entities above everything held) and releases of what is held.
func (w *dagWorld) legal(t int, maxOps int) []arrival {
	if !w.idle(t) {
		return nil
	}
	var out []arrival
	top := -1
	var rs []int
	for x, m := range w.held[t] {
		if x > top {
			top = x
		}
		if m == 'w' {
			out = append(out, arrival{t: t, op: "unlock", arg: strconv.Itoa(x)})
		} else {
			rs = append(rs, x)
		}
	}
	sort.Ints(rs)
	for i, x := range rs {
		out = append(out, arrival{t: t, op: "runlock", arg: strconv.Itoa(x)})
		for _, y := range rs[i+1:] {
			out = append(out, arrival{t: t, op: "runlock", arg: joinEnts([]int{y, x})}) // any order
		}
	}
	if w.ops[t] < maxOps {
		for x := top + 1; x < w.nEnt; x++ {
			out = append(out, arrival{t: t, op: "lock", arg: strconv.Itoa(x)})
			out = append(out, arrival{t: t, op: "rlock", arg: strconv.Itoa(x)})
			for y := x + 1; y < w.nEnt; y++ {
				out = append(out, arrival{t: t, op: "rlock", arg: joinEnts([]int{x, y})})
			}
		}
	}
	sort.Slice(out, func(i, j int) bool { return out[i].op+out[i].arg < out[j].op+out[j].arg })

	return out
}

func (w *dagWorld) closeOut(emit func(a arrival, obs string)) {
	for guard := 0; guard < 128 && !w.dead; guard++ {
		done := true
		for t := range w.actors {
			if !w.idle(t) || len(w.held[t]) == 0 {
				continue
			}
			var xs []int
			for x := range w.held[t] {
				xs = append(xs, x)
			}
			sort.Ints(xs)
			x := xs[len(xs)-1]
			a := arrival{t: t, op: "runlock", arg: strconv.Itoa(x)}
			if w.held[t][x] == 'w' {
				a.op = "unlock"
			}
			emit(a, w.arrive(a))
			done = false

			break
		}
		if done {
			break
		}
	}
	if w.dead {
		return
	}
	for t := range w.actors {
		if p := w.pending[t]; p != nil {
			w.r.Fail("lost-wakeup", fmt.Sprintf("goroutine %d still blocked in %s(%s) after every lock was released", t, p.op, p.arg),
				sig("api", "DAGMutex."+p.op, "oracle", "blocked-at-end"))
		}
	}
	if w.obs() != strings.Repeat("i", len(w.actors))+" "+strings.TrimSuffix(strings.Repeat("0,", w.nEnt), ",")+" "+strings.Repeat("0", w.nEnt) {
		w.r.Fail("registry", "after every lock was released the DAGMutex still has registered entities: "+w.obs(),
			sig("api", "DAGMutex", "oracle", "registry-not-empty"))
	}
}

// dagHeader: every second case is checked against the composed model (registry of StarvingMutex monitors, `dagc`),
// the others against the abstract-lock model (`dag`).
var dagCases int

func dagHeader(n, nEnt int) string {
	dagCases++
	if dagCases%2 == 1 {
		return fmt.Sprintf("dagc %d %d", n, nEnt)
	}

	return fmt.Sprintf("dag %d %d", n, nEnt)
}

func runDagCase(r *hx.Run, sub uint64, n, nEnt int, prefix []arrival, maxOps int, wantNext bool) (next []arrival) {
	r.Case(sub)
	w := newDagWorld(r, n, nEnt)
	defer retire(w.actors)
	hdr := dagHeader(n, nEnt)
	r.Line(hdr, "ok")
	r.Count("dag-model:" + strings.Fields(hdr)[0])
	var key []string
	emit := func(a arrival, obs string) {
		r.Line(fmt.Sprintf("d %d %s %s %s", a.t, a.op, a.arg, obs), "ok")
		r.Count("dag-op:" + a.op)
		key = append(key, fmt.Sprintf("%d%s%s", a.t, a.op, a.arg))
	}
	for _, a := range prefix {
		if w.dead {
			break
		}
		if !w.idle(a.t) {
			continue
		}
		emit(a, w.arrive(a))
	}
	if wantNext && !w.dead {
		used := 0
		for t := range w.actors {
			if w.ops[t] > 0 {
				used = t + 1
			}
		}
		for t := 0; t < n && t <= used; t++ {
			next = append(next, w.legal(t, maxOps)...)
		}
	}
	w.closeOut(emit)
	r.Count(fmt.Sprintf("dag-goroutines:%d", n))
	if w.blocked {
		r.Count("dag-case-with-blocking")
		r.Nontrivial(fmt.Sprintf("dag%d/%d:%s", n, nEnt, strings.Join(key, ",")))
	}
	r.Sample(r.CaseLines())

	return next
}

func exploreDag(r *hx.Run, n, nEnt, maxOps, budget int, sample bool) {
	work := [][]arrival{nil}
	cases := 0
	for len(work) > 0 && cases < budget && !giveUp() {
		i := len(work) - 1
		if sample {
			i = r.Rng.Intn(len(work))
		}
		prefix := work[i]
		work[i] = work[len(work)-1]
		work = work[:len(work)-1]
		next := runDagCase(r, 0, n, nEnt, prefix, maxOps, len(prefix) < n*maxOps*2)
		cases++
		for _, a := range next {
			if len(work) < 2000000 {
				work = append(work, append(append([]arrival(nil), prefix...), a))
			}
		}
	}
	r.Extra[fmt.Sprintf("dag_exhaustive_n%d_e%d_ops%d", n, nEnt, maxOps)] = map[string]any{"cases": cases, "frontier_left": len(work), "complete": len(work) == 0}
	r.CountN(fmt.Sprintf("dag-exhaustive-n%d-e%d-ops%d", n, nEnt, maxOps), cases)
}

func randomDag(r *hx.Run, rng *hx.Rng, sub uint64) {
	n := rng.Range(2, 4)
	nEnt := rng.Range(1, 3)
	r.Case(sub)
	w := newDagWorld(r, n, nEnt)
	defer retire(w.actors)
	hdr := dagHeader(n, nEnt)
	r.Line(hdr, "ok")
	r.Count("dag-model:" + strings.Fields(hdr)[0])
	var key []string
	emit := func(a arrival, obs string) {
		r.Line(fmt.Sprintf("d %d %s %s %s", a.t, a.op, a.arg, obs), "ok")
		r.Count("dag-op:" + a.op)
		key = append(key, fmt.Sprintf("%d%s%s", a.t, a.op, a.arg))
	}
	steps := rng.Range(3, 4*n)
	for s := 0; s < steps && !w.dead; s++ {
		var cands []arrival
		for t := 0; t < n; t++ {
			cands = append(cands, w.legal(t, 3)...)
		}
		if len(cands) == 0 {
			break
		}
		a := hx.Pick(rng, cands)
		if rng.Chance(1, 6) {
			// hand-off: a goroutine releases what another one holds (the lock is not associated with a goroutine)
			var hs []arrival
			for t := 0; t < n; t++ {
				hs = append(hs, w.handoffs(t)...)
			}
			if len(hs) > 0 {
				a = hx.Pick(rng, hs)
				r.Count("dag-op:handoff")
			}
		}
		emit(a, w.arrive(a))
	}
	w.closeOut(emit)
	r.Count(fmt.Sprintf("dag-goroutines:%d", n))
	r.Count(fmt.Sprintf("dag-entities:%d", nEnt))
	if w.blocked {
		r.Count("dag-case-with-blocking")
		r.Nontrivial(fmt.Sprintf("dag%d/%d:%s", n, nEnt, strings.Join(key, ",")))
	}
	r.Sample(r.CaseLines())
}
