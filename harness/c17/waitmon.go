package main

import (
	"fmt"
	"math"
	"reflect"
	"runtime"
	"sort"
	"strconv"
	"strings"
	"sync"
	"sync/atomic"
	"time"
	"unsafe"

	"verifharness/hx"

	"github.com/iotaledger/hive.go/runtime/syncutils"
)

// monitor is what the scripted wait cases need from Counter and Stack.
type monitor interface {
	kind() string
	value() int
	waiters() int
	// call returns the function executing op on the real object; res receives PopOrWait/Pop results, out the
	// popped elements (Stack) or the return values of Set/Update (Counter)
	call(op string, arg int, res *[]byte, cb *[]byte, out *[]int) func()
	ops() []string
	// extra is the data part of the observation that is not per goroutine (Counter: the subscriber's notifications)
	extra() string
}

type counterMon struct {
	c      *syncutils.Counter
	ci, cd *sync.Cond
	logMu  sync.Mutex
	log    []string // notifications "old>new" in the order the subscribers received them
	bad    string   // first disagreement between the two subscribers
	hook   atomic.Pointer[func()] // one-shot: run by the first subscriber inside the value lock (arriveQueued)
}

func newCounterMon(v int) *counterMon {
	c := syncutils.NewCounter()
	c.Set(v)
	m := &counterMon{c: c, ci: *(**sync.Cond)(fieldPtr(c, "valueIncreasedCond")), cd: *(**sync.Cond)(fieldPtr(c, "valueDecreasedCond"))}
	// two subscriptions (the second one with two callbacks): all of them see every change, in subscription order
	var order []byte
	last := v
	c.Subscribe(func(o, n int) {
		m.logMu.Lock()
		// independent oracle: the notifications form a chain of real changes ending at the current value
		if (o != last || o == n || n != *(*int)(fieldPtr(c, "value"))) && m.bad == "" {
			m.bad = fmt.Sprintf("notification %d>%d after the value was %d (current value %d)", o, n, last, *(*int)(fieldPtr(c, "value")))
		}
		last = n
		m.log = append(m.log, fmt.Sprintf("%d>%d", o, n))
		order = append(order[:0], 'a')
		m.logMu.Unlock()
		if h := m.hook.Swap(nil); h != nil {
			(*h)()
		}
	})
	second := func(tag byte) func(o, n int) {
		return func(o, n int) {
			m.logMu.Lock()
			order = append(order, tag)
			if last := m.log[len(m.log)-1]; last != fmt.Sprintf("%d>%d", o, n) && m.bad == "" {
				m.bad = fmt.Sprintf("subscriber %c saw %d>%d, the first subscriber %s", tag, o, n, last)
			}
			if want := map[byte]string{'b': "ab", 'c': "abc"}[tag]; string(order) != want && m.bad == "" {
				m.bad = fmt.Sprintf("subscribers called in order %s, want prefix %s", order, want)
			}
			m.logMu.Unlock()
		}
	}
	c.Subscribe(second('b'), second('c'))

	return m
}

func (m *counterMon) extra() string {
	m.logMu.Lock()
	defer m.logMu.Unlock()
	if len(m.log) == 0 {
		return "-"
	}

	return strings.Join(m.log, ",")
}

func (m *counterMon) kind() string { return "counter" }
func (m *counterMon) value() int   { return m.c.Get() }
func (m *counterMon) waiters() int { return condWaiters(m.ci) + condWaiters(m.cd) }
func (m *counterMon) ops() []string {
	return []string{"add", "add", "set", "below", "below", "above", "above"}
}
func (m *counterMon) call(op string, arg int, _ *[]byte, _ *[]byte, out *[]int) func() {
	switch op {
	case "add":
		switch arg {
		case 1:
			return func() { *out = append(*out, m.c.Increase()) } // Increase is Update(1)
		case -1:
			return func() { *out = append(*out, m.c.Decrease()) }
		}

		return func() { *out = append(*out, m.c.Update(arg)) }
	case "set":
		return func() { *out = append(*out, m.c.Set(arg)) }
	case "below":
		if arg == 1 {
			return m.c.WaitIsZero // WaitIsZero is WaitIsBelow(1)
		}

		return func() { m.c.WaitIsBelow(arg) }
	case "above":
		return func() { m.c.WaitIsAbove(arg) }
	}
	panic("bad counter op " + op)
}

type stackMon struct {
	s      *syncutils.Stack[int]
	ca, cr *sync.Cond
	next   int
}

func newStackMon(v int) *stackMon {
	s := syncutils.NewStack[int]()
	m := &stackMon{s: s, ca: *(**sync.Cond)(fieldPtr(s, "elementAdded")), cr: *(**sync.Cond)(fieldPtr(s, "elementRemoved"))}
	for i := 0; i < v; i++ {
		s.Push(m.next)
		m.next++
	}

	return m
}

func (m *stackMon) kind() string  { return "stack" }
func (m *stackMon) extra() string { return "" }
func (m *stackMon) value() int   { return m.s.Size() }
func (m *stackMon) waiters() int { return condWaiters(m.ca) + condWaiters(m.cr) }
func (m *stackMon) ops() []string {
	return []string{"add", "add", "add", "trypop", "poporwait", "poporwait", "below", "above", "shutdown"}
}
func (m *stackMon) call(op string, arg int, res *[]byte, cb *[]byte, out *[]int) func() {
	switch op {
	case "add":
		x := m.next
		m.next++

		return func() { m.s.Push(x) }
	case "trypop":
		return func() {
			x, ok := m.s.Pop()
			*res = append(*res, b01(ok))
			if ok {
				*out = append(*out, x)
			}
		}
	case "poporwait":
		return func() {
			x, ok := m.s.PopOrWait(func() bool {
				*cb = append(*cb, '1') // the answers are part of the observation the model has to explain

				return true
			})
			*res = append(*res, b01(ok))
			if ok {
				*out = append(*out, x)
			}
		}
	case "below":
		if arg == 1 {
			return m.s.WaitIsEmpty
		}

		return func() { m.s.WaitSizeIsBelow(arg) }
	case "above":
		return func() { m.s.WaitSizeIsAbove(arg) }
	case "shutdown":
		return m.s.SignalShutdown
	}
	panic("bad stack op " + op)
}

func b01(b bool) byte {
	if b {
		return '1'
	}

	return '0'
}

type wmWorld struct {
	r       *hx.Run
	m       monitor
	actors  []*actor
	pending []*arrival
	res     [][]byte
	cb      [][]byte // answers given by each goroutine's PopOrWait wait condition
	out     [][]int  // per goroutine: elements taken from the Stack / return values of Counter.Set and Update
	blocked bool
	dead    bool
}

func mustWait(op string, thr, v int) bool {
	switch op {
	case "below":
		return thr <= v
	case "above":
		return v <= thr
	case "poporwait":
		return v <= 0
	}

	return false
}

func (w *wmWorld) obs() string {
	rs := make([]string, len(w.actors))
	cs := make([]string, len(w.actors))
	for i := range w.actors {
		rs[i], cs[i] = "-", "-"
		if len(w.res[i]) > 0 {
			rs[i] = string(w.res[i])
		}
		if len(w.cb[i]) > 0 {
			cs[i] = string(w.cb[i])
		}
	}

	if w.out == nil {
		w.out = make([][]int, len(w.actors))
	}
	os := make([]string, len(w.actors))
	for i := range w.actors {
		os[i] = "-"
		if len(w.out[i]) > 0 {
			var b []string
			for _, x := range w.out[i] {
				b = append(b, strconv.Itoa(x))
			}
			os[i] = strings.Join(b, ",")
		}
	}
	data := strings.Join(os, " ")
	if e := w.m.extra(); e != "" {
		data += " | " + e
	}
	if cm, ok := w.m.(*counterMon); ok {
		cm.logMu.Lock()
		bad := cm.bad
		cm.bad = ""
		cm.logMu.Unlock()
		if bad != "" {
			w.r.Fail("subscribers", "Counter: "+bad, sig("api", "Counter.Subscribe", "oracle", "subscriber-order"))
		}
	}

	return fmt.Sprintf("%s %d %s %s | %s", statuses(w.actors), w.m.value(), strings.Join(rs, " "), strings.Join(cs, " "), data)
}

func opLine(a arrival) string {
	switch a.op {
	case "trypop", "poporwait", "shutdown":
		return a.op
	}

	return a.op + " " + a.arg
}

func (w *wmWorld) arrive(a arrival) string {
	arg, _ := strconv.Atoi(a.arg)
	before := w.m.value()
	if w.out == nil {
		w.out = make([][]int, len(w.actors))
	}
	w.actors[a.t].call(w.m.call(a.op, arg, &w.res[a.t], &w.cb[a.t], &w.out[a.t]))
	aa := a
	w.pending[a.t] = &aa
	api := w.m.kind() + "." + a.op
	if !settle(w.actors, w.m.waiters) {
		w.dead = true
		w.r.Fail("stall", fmt.Sprintf("%s: no quiescence after %s by goroutine %d; statuses=%s", w.m.kind(), opLine(a), a.t, statuses(w.actors)),
			sig("api", api, "oracle", "stall"))
	}
	// the value right after the arriving mutation, before any woken PopOrWait took something
	mid := before
	switch a.op {
	case "add":
		if w.m.kind() == "stack" {
			mid = before + 1
		} else {
			mid = before + arg
		}
	case "set":
		mid = arg
	}
	now := w.m.value()
	w.dataOracles(a, before, arg)
	for i, act := range w.actors {
		p := w.pending[i]
		if p == nil {
			continue
		}
		thr, _ := strconv.Atoi(p.arg)
		switch act.state.Load() {
		case stIdle:
			// a wait that returned must have seen its condition at one of the values of this step
			if (p.op == "below" || p.op == "above") && mustWait(p.op, thr, before) && mustWait(p.op, thr, mid) && mustWait(p.op, thr, now) {
				w.r.Fail("wait-early", fmt.Sprintf("%s %s returned although the value went %d -> %d -> %d", w.m.kind(), opLine(*p), before, mid, now),
					sig("api", w.m.kind()+"."+p.op, "oracle", "returned-without-condition"))
			}
			w.pending[i] = nil
		case stPanicked:
			w.dead = true
			w.r.Fail("unexpected-panic", fmt.Sprintf("%s %s panicked: %s", w.m.kind(), opLine(*p), act.panicMsg), sig("api", api, "oracle", "unexpected-panic"))
			w.pending[i] = nil
		default:
			w.blocked = true
			if !mustWait(p.op, thr, now) && !w.dead {
				w.r.Fail("wait-lost-wakeup", fmt.Sprintf("%s %s still blocked at quiescence although the value is %d", w.m.kind(), opLine(*p), now),
					sig("api", w.m.kind()+"."+p.op, "oracle", "lost-wakeup"))
			}
		}
	}

	return w.obs()
}

// dataOracles: independent of the model.  Counter: Set returns the value it replaced, Update the value it installed
// (calls are issued at quiescence, so the value before the call is known).  Stack: at quiescence the elements taken so
// far are exactly the oldest ones (ids 0..k-1 for k = pushes - size): elements leave in push order, each exactly once.
func (w *wmWorld) dataOracles(a arrival, before, arg int) {
	switch m := w.m.(type) {
	case *counterMon:
		if w.actors[a.t].state.Load() != stIdle || len(w.out[a.t]) == 0 {
			return
		}
		got := w.out[a.t][len(w.out[a.t])-1]
		if a.op == "set" && got != before {
			w.r.Fail("return-value", fmt.Sprintf("Counter.Set(%d) returned %d, the value before the call was %d", arg, got, before),
				sig("api", "Counter.Set", "oracle", "return-value"))
		}
		if a.op == "add" && got != before+arg {
			w.r.Fail("return-value", fmt.Sprintf("Counter.Update(%d) returned %d, the value before the call was %d", arg, got, before),
				sig("api", "Counter.Update", "oracle", "return-value"))
		}
	case *stackMon:
		if busyCount(w.actors) != 0 && w.m.waiters() != busyCount(w.actors) {
			return
		}
		k := m.next - w.m.value()
		seen := map[int]int{}
		total := 0
		for _, o := range w.out {
			for _, x := range o {
				seen[x]++
				total++
			}
		}
		ok := total == k
		for x := 0; x < k && ok; x++ {
			ok = seen[x] == 1
		}
		if !ok {
			w.r.Fail("stack-fifo", fmt.Sprintf("Stack: %d elements pushed, size %d, but the elements taken are %v (per goroutine) instead of exactly 0..%d", m.next, w.m.value(), w.out, k-1),
				sig("api", "Stack.Pop", "oracle", "not-the-oldest-elements"))
		}
	}
}

func randomWM(r *hx.Run, rng *hx.Rng, sub uint64) {
	n := rng.Range(2, 4)
	v0 := rng.Range(0, 2)
	var m monitor
	if rng.Bool() {
		m = newCounterMon(v0)
	} else {
		m = newStackMon(v0)
	}
	r.Case(sub)
	w := &wmWorld{r: r, m: m, pending: make([]*arrival, n), res: make([][]byte, n), cb: make([][]byte, n)}
	for i := 0; i < n; i++ {
		w.actors = append(w.actors, newActor())
	}
	defer retire(w.actors)
	r.Line(fmt.Sprintf("wm %d %d %s", n, v0, m.kind()), "ok")
	var key []string
	steps := rng.Range(4, 12)
	for s := 0; s < steps && !w.dead; s++ {
		var idle []int
		for t := range w.actors {
			if w.pending[t] == nil && w.actors[t].state.Load() == stIdle {
				idle = append(idle, t)
			}
		}
		if len(idle) == 0 {
			break
		}
		if m.kind() == "stack" && len(idle) >= 2 && m.value() == 0 && rng.Chance(1, 6) {
			// SignalShutdown arriving while PopOrWait is inside its wait-condition callback
			ai := rng.Intn(len(idle))
			bi := (ai + 1 + rng.Intn(len(idle)-1)) % len(idle)
			obs := w.arriveGap(idle[ai], idle[bi])
			r.Line(fmt.Sprintf("wg %d %d | %s", idle[ai], idle[bi], obs), "ok")
			r.Count("stack-op:shutdown-inside-callback")
			key = append(key, fmt.Sprintf("%dgap%d", idle[ai], idle[bi]))

			continue
		}
		a := arrival{t: hx.Pick(rng, idle), op: hx.Pick(rng, m.ops())}
		switch a.op {
		case "add":
			a.arg = "1"
			if m.kind() == "counter" {
				ds := []int{-2, -1, -1, 0, 1, 1, 2}
				// the model has unbounded integers: keep Update away from the wrap-around of the code's int
				if v := m.value(); v > math.MaxInt/2 {
					ds = []int{-2, -1, 0}
				} else if v < math.MinInt/2 {
					ds = []int{0, 1, 2}
				}
				a.arg = strconv.Itoa(hx.Pick(rng, ds))
			}
		case "set":
			a.arg = strconv.Itoa(rng.Range(-3, 3))
			if rng.Chance(1, 3) {
				// extreme values: the distance to the old value does not fit an int
				a.arg = strconv.Itoa(hx.Pick(rng, []int{math.MaxInt, math.MinInt, math.MinInt + 2, math.MaxInt - 1}))
				r.Count("counter-op:set-extreme")
			}
		case "below", "above":
			a.arg = strconv.Itoa(rng.Range(0, 2))
			if m.kind() == "counter" {
				a.arg = strconv.Itoa(rng.Range(-2, 2))
			}
			if a.op == "below" && (rng.Chance(1, 2) || (m.kind() == "stack" && a.arg == "0")) {
				a.arg = "1" // WaitIsZero / WaitIsEmpty (a stack never gets below 0)
			}
			if rng.Chance(1, 6) {
				// corner thresholds of every Wait*: WaitIsAbove(MaxInt) / WaitIsBelow(MinInt) can never return, their
				// neighbours return only at the very end of the range, the opposite ends return at once
				a.arg = strconv.Itoa(hx.Pick(rng, []int{math.MaxInt, math.MinInt, math.MaxInt - 1, math.MinInt + 1}))
				r.Count(m.kind() + "-op:wait-extreme-threshold")
			}
		}
		if len(idle) == 1 && (a.op == "below" || a.op == "above" || a.op == "poporwait") && rng.Chance(2, 3) {
			a.op, a.arg = "add", "1" // keep a mutator available
			if m.kind() == "counter" && m.value() > math.MaxInt/2 {
				a.arg = "-1" // not over the end of the code's int range (the model's integers are unbounded)
			}
		}
		obs := w.arrive(a)
		r.Line(fmt.Sprintf("w %d %s | %s", a.t, opLine(a), obs), "ok")
		r.Count(m.kind() + "-op:" + a.op)
		key = append(key, fmt.Sprintf("%d%s%s", a.t, a.op, a.arg))
	}
	// release whoever still waits: drive the value to both extremes
	if !w.dead {
		w.releaseAll(r)
	}
	if w.blocked {
		r.Count(m.kind() + "-case-with-blocking")
		r.Nontrivial(fmt.Sprintf("%s%d/%d:%s", m.kind(), n, v0, strings.Join(key, ",")))
	}
	r.Sample(r.CaseLines())
}

// arrivePushWait: goroutine t does Push x m immediately followed by WaitIsEmpty; after its pushes it lets goroutine
// u (if u >= 0) call WaitSizeIsBelow(thr).  The consumers parked in PopOrWait by earlier arrivals race with both.
// At quiescence nobody may still wait for a condition that holds.
func (w *wmWorld) arrivePushWait(t, m, u, thr int) string {
	st := w.m.(*stackMon)
	vals := make([]int, m)
	for i := range vals {
		vals[i] = st.next
		st.next++
	}
	w.actors[t].call(func() {
		for _, x := range vals {
			st.s.Push(x)
		}
		if u >= 0 {
			w.actors[u].call(func() { st.s.WaitSizeIsBelow(thr) })
		}
		st.s.WaitIsEmpty()
	})
	w.pending[t] = &arrival{t: t, op: "below", arg: "1"}
	if u >= 0 {
		w.pending[u] = &arrival{t: u, op: "below", arg: strconv.Itoa(thr)}
	}
	if !settle(w.actors, w.m.waiters) {
		w.dead = true
		w.r.Fail("stall", "stack: no quiescence after Push followed by WaitIsEmpty; statuses="+statuses(w.actors),
			sig("api", "Stack.WaitIsEmpty", "oracle", "stall"))
	}
	now := w.m.value()
	for i, act := range w.actors {
		p := w.pending[i]
		if p == nil {
			continue
		}
		pthr, _ := strconv.Atoi(p.arg)
		switch act.state.Load() {
		case stIdle:
			w.pending[i] = nil
		case stPanicked:
			w.dead = true
			w.r.Fail("unexpected-panic", fmt.Sprintf("stack %s panicked: %s", opLine(*p), act.panicMsg), sig("api", "stack."+p.op, "oracle", "unexpected-panic"))
			w.pending[i] = nil
		default:
			w.blocked = true
			if !mustWait(p.op, pthr, now) && !w.dead {
				w.r.Fail("wait-lost-wakeup", fmt.Sprintf("stack %s still blocked at quiescence although the size is %d (consumers parked in PopOrWait took the pushed elements)", opLine(*p), now),
					sig("api", "stack."+p.op, "oracle", "lost-wakeup", "schedule", "push-then-wait"))
			}
		}
	}

	return w.obs()
}

// pushWaitCase: k consumers parked in PopOrWait (each confirmed parked: registered on elementAdded), then the
// push-then-wait arrival under the given GOMAXPROCS.
func pushWaitCase(r *hx.Run, rng *hx.Rng, sub uint64, procs int) {
	k := rng.Range(1, 3)
	m := rng.Range(1, 2)
	u, thr := -1, 0
	n := k + 1
	if k <= 2 && rng.Chance(2, 3) {
		u, thr = k+1, rng.Range(1, 2)
		n = k + 2
	}
	r.Case(sub)
	w := &wmWorld{r: r, m: newStackMon(0), pending: make([]*arrival, n), res: make([][]byte, n), cb: make([][]byte, n)}
	for i := 0; i < n; i++ {
		w.actors = append(w.actors, newActor())
	}
	defer retire(w.actors)
	r.Line(fmt.Sprintf("wm %d 0 stack", n), "ok")
	for c := 0; c < k && !w.dead; c++ {
		a := arrival{t: c, op: "poporwait"}
		r.Line(fmt.Sprintf("w %d %s | %s", a.t, opLine(a), w.arrive(a)), "ok")
	}
	if !w.dead {
		prev := runtime.GOMAXPROCS(procs)
		obs := w.arrivePushWait(k, m, u, thr)
		runtime.GOMAXPROCS(prev)
		us, ts := "-", "0"
		if u >= 0 {
			us, ts = strconv.Itoa(u), strconv.Itoa(thr)
		}
		r.Line(fmt.Sprintf("wq %d %d %s %s | %s", k, m, us, ts, obs), "ok")
	}
	r.Count(fmt.Sprintf("stack-op:push-then-wait/procs=%d", procs))
	r.Nontrivial(fmt.Sprintf("pushwait:%d/%d/%d/%d/%d", k, m, u, thr, procs))
	if !w.dead {
		w.releaseAll(r)
	}
	r.Sample(r.CaseLines())
}

// arriveQueued: goroutine a.t makes a call that changes the value; the subscriber notified of that change — it runs
// inside the value lock — starts the calls of `queued` one after the other, each confirmed queued on the value mutex
// (writer queue of the RWMutex) before the next one starts, keeps the lock a little longer (beyond the millisecond
// after which sync.Mutex hands over strictly in arrival order) and returns.  Every queued call has then executed
// whatever it does *before* taking the lock while the value was still the one a installed, and the calls pass the lock
// in their arrival order: a read of the value outside the lock is stale by the time the lock is taken.
func (w *wmWorld) arriveQueued(a arrival, queued []arrival) string {
	m := w.m.(*counterMon)
	if w.out == nil {
		w.out = make([][]int, len(w.actors))
	}
	rw := (*sync.RWMutex)(fieldPtr(m.c, "valueMutex"))
	m.logMu.Lock()
	log0 := len(m.log)
	m.logMu.Unlock()
	before := w.m.value()
	notQueued := atomic.Int32{}
	hook := func() {
		for _, q := range queued {
			n0 := mutexWaiters(rw)
			arg, _ := strconv.Atoi(q.arg)
			qq := q
			w.pending[q.t] = &qq
			w.actors[q.t].call(w.m.call(q.op, arg, &w.res[q.t], &w.cb[q.t], &w.out[q.t]))
			deadline := time.Now().Add(200 * time.Millisecond)
			for mutexWaiters(rw) <= n0 && time.Now().Before(deadline) {
				time.Sleep(20 * time.Microsecond)
			}
			if mutexWaiters(rw) <= n0 {
				notQueued.Add(1)
			}
		}
		time.Sleep(1500 * time.Microsecond)
	}
	m.hook.Store(&hook)
	arg, _ := strconv.Atoi(a.arg)
	aa := a
	w.pending[a.t] = &aa
	w.actors[a.t].call(w.m.call(a.op, arg, &w.res[a.t], &w.cb[a.t], &w.out[a.t]))
	if !settle(w.actors, w.m.waiters) {
		w.dead = true
		w.r.Fail("stall", fmt.Sprintf("counter: no quiescence after calls queued behind the subscriber callback of %s; statuses=%s", opLine(a), statuses(w.actors)),
			sig("api", "Counter."+a.op, "oracle", "stall"))
	}
	if m.hook.Swap(nil) != nil {
		w.r.Count("counter-queued:hook-not-reached")
	}
	if notQueued.Load() > 0 {
		w.r.Count("counter-queued:not-confirmed-queued")
	}
	// every value the counter had during this step (the notifications are the exact history of the value)
	m.logMu.Lock()
	vals := []int{before}
	for _, e := range m.log[log0:] {
		if i := strings.IndexByte(e, '>'); i >= 0 {
			v, _ := strconv.Atoi(e[i+1:])
			vals = append(vals, v)
		}
	}
	m.logMu.Unlock()
	now := w.m.value()
	for i, act := range w.actors {
		p := w.pending[i]
		if p == nil {
			continue
		}
		thr, _ := strconv.Atoi(p.arg)
		switch act.state.Load() {
		case stIdle:
			if p.op == "below" || p.op == "above" {
				held := false
				for _, v := range vals {
					held = held || !mustWait(p.op, thr, v)
				}
				if !held {
					w.r.Fail("wait-early", fmt.Sprintf("counter %s returned although the value only went through %v", opLine(*p), vals),
						sig("api", "counter."+p.op, "oracle", "returned-without-condition", "schedule", "queued-behind-callback"))
				}
			}
			w.pending[i] = nil
		case stPanicked:
			w.dead = true
			w.r.Fail("unexpected-panic", fmt.Sprintf("counter %s panicked: %s", opLine(*p), act.panicMsg), sig("api", "counter."+p.op, "oracle", "unexpected-panic"))
			w.pending[i] = nil
		default:
			w.blocked = true
			if !mustWait(p.op, thr, now) && !w.dead {
				w.r.Fail("wait-lost-wakeup", fmt.Sprintf("counter %s still blocked at quiescence although the value is %d (values of this step: %v; the calls were queued on the value lock behind the subscriber callback of %s)", opLine(*p), now, vals, opLine(a)),
					sig("api", "counter."+p.op, "oracle", "lost-wakeup", "schedule", "queued-behind-callback"))
			}
		}
	}

	return w.obs()
}

// queuedCase: a Counter, some sleepers, then a change whose subscriber callback lets 2..4 further calls queue up on the
// value lock (mutators and waits), then further plain arrivals.
func queuedCase(r *hx.Run, rng *hx.Rng, sub uint64, fixed []arrival) {
	n := 5
	v0 := rng.Range(-2, 2)
	if fixed != nil {
		v0 = 0
	}
	m := newCounterMon(v0)
	r.Case(sub)
	w := &wmWorld{r: r, m: m, pending: make([]*arrival, n), res: make([][]byte, n), cb: make([][]byte, n)}
	for i := 0; i < n; i++ {
		w.actors = append(w.actors, newActor())
	}
	defer retire(w.actors)
	r.Line(fmt.Sprintf("wm %d %d counter", n, v0), "ok")
	var first arrival
	var queued []arrival
	if fixed != nil {
		first, queued = fixed[0], fixed[1:]
	} else {
		// an optional sleeper before the step
		if rng.Bool() {
			a := arrival{t: 4, op: hx.Pick(rng, []string{"below", "above"}), arg: strconv.Itoa(rng.Range(-3, 6))}
			r.Line(fmt.Sprintf("w %d %s | %s", a.t, opLine(a), w.arrive(a)), "ok")
		}
		cur := m.value()
		nv := cur
		for nv == cur {
			nv = rng.Range(-3, 6)
		}
		first = arrival{t: 0, op: "set", arg: strconv.Itoa(nv)}
		if rng.Chance(1, 3) {
			first = arrival{t: 0, op: "add", arg: strconv.Itoa(hx.Pick(rng, []int{-2, -1, 1, 2}))}
		}
		if w.pending[4] != nil && w.actors[4].state.Load() == stIdle {
			w.pending[4] = nil
		}
		k := rng.Range(2, 3)
		for t := 1; t <= k; t++ {
			q := arrival{t: t}
			switch rng.Intn(4) {
			case 0:
				q.op, q.arg = "set", strconv.Itoa(rng.Range(-3, 8))
			case 1:
				q.op, q.arg = "add", strconv.Itoa(hx.Pick(rng, []int{-2, -1, -1, 1, 1, 2}))
			case 2:
				q.op, q.arg = "below", strconv.Itoa(rng.Range(-2, 8))
			default:
				q.op, q.arg = "above", strconv.Itoa(rng.Range(-3, 7))
			}
			queued = append(queued, q)
		}
		// the last one is a mutator: it passes the lock after the waits queued before it
		queued[len(queued)-1].op = "add"
		queued[len(queued)-1].arg = strconv.Itoa(hx.Pick(rng, []int{-2, -1, -1, 1, 1, 2}))
	}
	toks := []string{fmt.Sprintf("%d %s", first.t, opLine(first))}
	key := []string{opLine(first)}
	for _, q := range queued {
		toks = append(toks, fmt.Sprintf("%d %s", q.t, opLine(q)))
		key = append(key, opLine(q))
	}
	obs := w.arriveQueued(first, queued)
	r.Line(fmt.Sprintf("wu %s | %s", strings.Join(toks, " / "), obs), "ok")
	r.Count("counter-queued-behind-callback")
	if !w.dead {
		w.releaseAll(r)
	}
	r.Nontrivial("queued:" + strings.Join(key, ","))
	r.Sample(r.CaseLines())
}

// mutexWaiters reads the number of goroutines queued on a sync.RWMutex's writer mutex (rw.w.state >> 3);
// -1 when the layout is not the expected one.
func mutexWaiters(rw *sync.RWMutex) int {
	wf := reflect.ValueOf(rw).Elem().FieldByName("w")
	if !wf.IsValid() {
		return -1
	}
	st := wf.FieldByName("state")
	if !st.IsValid() || st.Kind() != reflect.Int32 {
		return -1
	}

	return int(atomic.LoadInt32((*int32)(unsafe.Pointer(st.UnsafeAddr()))) >> 3)
}

// arriveGap: goroutine a calls PopOrWait on the empty stack; its wait condition, on its first evaluation,
// lets goroutine b call SignalShutdown, waits until that call has returned or is queued on the stack mutex
// (bounded), and answers true — it read the shutdown flag before the shutdown.  Later evaluations answer
// "not shut down" truthfully.  On the code as it is SignalShutdown cannot pass before PopOrWait is registered
// as a waiter, so PopOrWait is woken, re-evaluates the condition and returns false.
func (w *wmWorld) arriveGap(a, b int) string {
	st := w.m.(*stackMon)
	if w.out == nil {
		w.out = make([][]int, len(w.actors))
	}
	rw := (*sync.RWMutex)(fieldPtr(st.s, "mutex"))
	var shut atomic.Bool
	bDone := make(chan struct{})
	calls := 0
	cond := func() bool {
		calls++
		if calls > 1 {
			ans := !shut.Load()
			w.cb[a] = append(w.cb[a], b01(ans))

			return ans
		}
		w.actors[b].call(func() {
			shut.Store(true)
			st.s.SignalShutdown()
			close(bDone)
		})
		deadline := time.Now().Add(100 * time.Millisecond)
	wait:
		for time.Now().Before(deadline) {
			select {
			case <-bDone:
				break wait
			default:
			}
			if mutexWaiters(rw) > 0 {
				time.Sleep(200 * time.Microsecond) // queued on the mutex we hold: it cannot pass before our Wait

				break
			}
			time.Sleep(20 * time.Microsecond)
		}
		w.cb[a] = append(w.cb[a], '1')

		return true
	}
	w.actors[a].call(func() {
		x, ok := st.s.PopOrWait(cond)
		w.res[a] = append(w.res[a], b01(ok))
		if ok {
			w.out[a] = append(w.out[a], x)
		}
	})
	pa := arrival{t: a, op: "poporwait"}
	w.pending[a] = &pa
	if !settle(w.actors, w.m.waiters) {
		w.dead = true
		w.r.Fail("stall", "stack: no quiescence after SignalShutdown inside the PopOrWait wait condition; statuses="+statuses(w.actors),
			sig("api", "Stack.PopOrWait", "oracle", "stall"))
	}
	if w.actors[a].state.Load() == stIdle {
		w.pending[a] = nil
	} else if !w.dead {
		w.blocked = true
		select {
		case <-bDone:
			w.r.Fail("wait-lost-wakeup", fmt.Sprintf("Stack.PopOrWait still sleeps after SignalShutdown returned although the shutdown arrived while its wait condition was being evaluated (the condition answered %s)", string(w.cb[a])),
				sig("api", "Stack.PopOrWait", "oracle", "shutdown-inside-wait-condition"))
		default:
		}
	}

	return w.obs()
}

// releaseAll makes every pending wait return (not part of the compared trace) so that no goroutine leaks,
// and checks that they do return.
// neverReleased: how many of the pending waits releaseAll cannot release (a bound): WaitIsAbove(MaxInt) and
// WaitIsBelow(MinInt) of a Counter never return; a Stack driven between 0 and size+4 elements does not release
// WaitSizeIsBelow(thr <= 0) nor WaitSizeIsAbove(thr >= 4).  Their goroutines are left behind, as they have to be.
func (w *wmWorld) neverReleased() int {
	n := 0
	for i, p := range w.pending {
		if p == nil || w.actors[i].state.Load() != stBusy {
			continue
		}
		thr, _ := strconv.Atoi(p.arg)
		switch {
		case w.m.kind() == "counter" && p.op == "above" && thr == math.MaxInt,
			w.m.kind() == "counter" && p.op == "below" && thr == math.MinInt,
			w.m.kind() == "stack" && p.op == "below" && thr <= 0,
			w.m.kind() == "stack" && p.op == "above" && thr >= 4:
			n++
		}
	}

	return n
}

func (w *wmWorld) releaseAll(r *hx.Run) {
	deadline := time.Now().Add(settleTimeout)
	for busyCount(w.actors) > w.neverReleased() && time.Now().Before(deadline) {
		switch m := w.m.(type) {
		case *counterMon:
			m.c.Set(math.MaxInt)
			time.Sleep(30 * time.Microsecond)
			m.c.Set(math.MinInt)
		case *stackMon:
			for i := 0; i < 4; i++ {
				m.s.Push(-1)
			}
			time.Sleep(30 * time.Microsecond)
			for {
				if _, ok := m.s.Pop(); !ok {
					break
				}
			}
		}
		time.Sleep(20 * time.Microsecond)
	}
	if busyCount(w.actors) > w.neverReleased() {
		stalls.Add(1)
		r.Fail("wait-lost-wakeup", w.m.kind()+": a waiter did not return although its condition was made true repeatedly; statuses="+statuses(w.actors),
			sig("api", w.m.kind(), "oracle", "blocked-at-end"))
	}
}

// ---- stress: Counter waits against the exact order of value changes (Subscribe runs inside the lock)

type wev struct {
	seq uint64
	s   string
}

func stressCounter(r *hx.Run, rng *hx.Rng, sub uint64, waitersN, mutators, iters int) {
	r.Case(sub)
	c := syncutils.NewCounter()
	var seq atomic.Uint64
	var vmu sync.Mutex // the subscriber is called with the value lock held; this only guards the slice
	var vlog []wev
	c.Subscribe(func(_, nv int) {
		vmu.Lock()
		vlog = append(vlog, wev{seq.Add(1), fmt.Sprintf("v:%d", nv)})
		vmu.Unlock()
	})
	logs := make([][]wev, waitersN)
	var wg sync.WaitGroup
	var early atomic.Int64
	for g := 0; g < waitersN; g++ {
		wg.Add(1)
		grng, _ := rng.Fork()
		go func(g int) {
			defer wg.Done()
			for k := 0; k < iters; k++ {
				id := g*100000 + k
				thr := grng.Range(-2, 3)
				if grng.Bool() {
					if thr == 1 && grng.Bool() {
						logs[g] = append(logs[g], wev{seq.Add(1), fmt.Sprintf("c:%d:below:1", id)})
						c.WaitIsZero()
					} else {
						logs[g] = append(logs[g], wev{seq.Add(1), fmt.Sprintf("c:%d:below:%d", id, thr)})
						c.WaitIsBelow(thr)
					}
				} else {
					logs[g] = append(logs[g], wev{seq.Add(1), fmt.Sprintf("c:%d:above:%d", id, thr)})
					c.WaitIsAbove(thr)
				}
				logs[g] = append(logs[g], wev{seq.Add(1), fmt.Sprintf("r:%d:1", id)})
			}
		}(g)
	}
	var mg sync.WaitGroup
	for m := 0; m < mutators; m++ {
		mg.Add(1)
		mrng, _ := rng.Fork()
		go func() {
			defer mg.Done()
			for k := 0; k < iters*4; k++ {
				switch mrng.Intn(5) {
				case 0:
					c.Set(mrng.Range(-3, 4))
				case 1:
					c.Increase()
				case 2:
					c.Decrease()
				default:
					d := mrng.Range(-2, 2)
					if c.Get() > 3 {
						d = -2
					} else if c.Get() < -3 {
						d = 2
					}
					c.Update(d)
				}
			}
		}()
	}
	mg.Wait()
	done := make(chan struct{})
	go func() { wg.Wait(); close(done) }()
	deadline := time.After(20 * time.Second)
sweep:
	for {
		select {
		case <-done:
			break sweep
		case <-deadline:
			stalls.Add(2)
			r.Fail("wait-lost-wakeup", "Counter: waiters did not finish although the value was swept over the whole range for 20s",
				sig("api", "Counter.Wait", "oracle", "stress-stall"))

			break sweep
		default:
			c.Set(10)
			time.Sleep(50 * time.Microsecond)
			c.Set(-10)
			time.Sleep(50 * time.Microsecond)
		}
	}
	all := append([]wev(nil), vlog...)
	for _, l := range logs {
		all = append(all, l...)
	}
	sort.Slice(all, func(i, j int) bool { return all[i].seq < all[j].seq })
	toks := make([]string, len(all))
	for i, e := range all {
		toks[i] = e.s
	}
	// independent oracle: every returned wait saw its condition at some value between call and return
	cur := 0
	type ow struct {
		op  string
		thr int
		met bool
	}
	open := map[string]*ow{}
	for _, t := range toks {
		f := strings.Split(t, ":")
		switch f[0] {
		case "v":
			cur, _ = strconv.Atoi(f[1])
			for _, o := range open {
				o.met = o.met || !mustWait(o.op, o.thr, cur)
			}
		case "c":
			thr, _ := strconv.Atoi(f[3])
			open[f[1]] = &ow{f[2], thr, !mustWait(f[2], thr, cur)}
		case "r":
			if o := open[f[1]]; o != nil && !o.met {
				early.Add(1)
				r.Fail("wait-early", fmt.Sprintf("Counter wait %s %d returned although its condition never held between call and return", o.op, o.thr),
					sig("api", "Counter."+o.op, "oracle", "returned-without-condition"))
			}
			delete(open, f[1])
		}
	}
	r.Line("wt 0 "+strings.Join(toks, " "), "accept")
	r.CountN("counter-stress-events", len(toks))
	r.Count("counter-stress-trace")
	r.Nontrivial(fmt.Sprintf("cstress:%d", sub))
}

// stressStack: producers and PopOrWait consumers; every element is taken exactly once and WaitIsEmpty
// returns; consumers are released by repeated SignalShutdown.
func stressStack(r *hx.Run, rng *hx.Rng, sub uint64, producers, consumers, per int) {
	s := syncutils.NewStack[int]()
	var stop atomic.Bool
	total := producers * per
	taken := make([]atomic.Int32, total)
	var got atomic.Int64
	var cg, pg sync.WaitGroup
	for c := 0; c < consumers; c++ {
		cg.Add(1)
		go func() {
			defer cg.Done()
			for {
				x, ok := s.PopOrWait(func() bool { return !stop.Load() })
				if !ok {
					return
				}
				if x < 0 || x >= total || taken[x].Add(1) != 1 {
					r.Fail("stack-conservation", fmt.Sprintf("PopOrWait returned element %d twice or out of range", x), sig("api", "Stack.PopOrWait", "oracle", "duplicate"))
				}
				got.Add(1)
			}
		}()
	}
	for p := 0; p < producers; p++ {
		pg.Add(1)
		go func(p int) {
			defer pg.Done()
			for i := 0; i < per; i++ {
				s.Push(p*per + i)
			}
		}(p)
	}
	pg.Wait()
	emptied := make(chan struct{})
	go func() { s.WaitIsEmpty(); close(emptied) }()
	select {
	case <-emptied:
	case <-time.After(20 * time.Second):
		stalls.Add(2)
		r.Fail("wait-lost-wakeup", fmt.Sprintf("Stack.WaitIsEmpty did not return; size=%d taken=%d/%d", s.Size(), got.Load(), total),
			sig("api", "Stack.WaitIsEmpty", "oracle", "stress-stall"))
	}
	stop.Store(true)
	done := make(chan struct{})
	go func() { cg.Wait(); close(done) }()
	deadline := time.After(20 * time.Second)
loop:
	for {
		select {
		case <-done:
			break loop
		case <-deadline:
			stalls.Add(2)
			r.Fail("stall", "Stack consumers did not exit after shutdown", sig("api", "Stack.SignalShutdown", "oracle", "stress-stall"))

			break loop
		default:
			s.SignalShutdown()
			time.Sleep(50 * time.Microsecond)
		}
	}
	if got.Load() != int64(total) {
		r.Fail("stack-conservation", fmt.Sprintf("%d of %d pushed elements were taken", got.Load(), total), sig("api", "Stack.PopOrWait", "oracle", "lost-element"))
	}
	r.CountN("stack-stress-elements", total)
	_ = rng
	_ = sub
}
