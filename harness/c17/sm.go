package main

import (
	"fmt"
	"strconv"
	"strings"
	"sync"
	"time"

	"verifharness/hx"

	"github.com/iotaledger/hive.go/runtime/debug"
	"github.com/iotaledger/hive.go/runtime/syncutils"
)

type arrival struct {
	t   int
	op  string
	arg string // DAG: entity list; wait monitor: operand
}

// smWorld drives one real StarvingMutex through a scripted arrival order.
type smWorld struct {
	r      *hx.Run
	mu     *syncutils.StarvingMutex
	im     *sync.Mutex
	rc, wc *sync.Cond
	actors []*actor
	// harness-side bookkeeping, independent of the Lean model
	pending []string // operation the actor is inside ("" = none)
	holdW   []bool
	holdR   []int
	ops     []int // calls issued per actor
	blocked bool  // some goroutine was observed blocked at quiescence in this case
	dead    bool  // a goroutine panicked or the case stalled: nothing further can be issued
}

func newSMWorld(r *hx.Run, n int) *smWorld {
	w := &smWorld{r: r, mu: syncutils.NewStarvingMutex(), pending: make([]string, n), holdW: make([]bool, n),
		holdR: make([]int, n), ops: make([]int, n)}
	w.im = (*sync.Mutex)(fieldPtr(w.mu, "mutex"))
	w.rc = (*sync.Cond)(fieldPtr(w.mu, "readerCond"))
	w.wc = (*sync.Cond)(fieldPtr(w.mu, "writerCond"))
	for i := 0; i < n; i++ {
		w.actors = append(w.actors, newActor())
	}

	return w
}

func (w *smWorld) waiters() int { return condWaiters(w.rc) + condWaiters(w.wc) }

func (w *smWorld) gw() bool {
	for _, h := range w.holdW {
		if h {
			return true
		}
	}

	return false
}

func (w *smWorld) gr() int {
	n := 0
	for _, h := range w.holdR {
		n += h
	}

	return n
}

// counters reads writerActive/readersActive/pendingWriters inside the mutex's own critical section.
func (w *smWorld) counters() string {
	if !tryLockFor(w.im, time.Second) {
		stalls.Add(1)

		return "m-stuck"
	}
	defer w.im.Unlock()
	wa := *(*bool)(fieldPtr(w.mu, "writerActive"))
	ra := *(*int)(fieldPtr(w.mu, "readersActive"))
	pw := *(*int)(fieldPtr(w.mu, "pendingWriters"))
	b := 0
	if wa {
		b = 1
	}

	return fmt.Sprintf("%d %d %d", b, ra, pw)
}

func sig(kv ...string) map[string]string {
	m := map[string]string{}
	for i := 0; i+1 < len(kv); i += 2 {
		m[kv[i]] = kv[i+1]
	}

	return m
}

// arrive lets actor t call op (owner = whose hold a cross-goroutine unlock gives back), waits for
// quiescence, updates the bookkeeping and evaluates the property oracles.  Returns the observation.
func (w *smWorld) arrive(t int, op string, owner int) string {
	a := w.actors[t]
	mu := w.mu
	switch op {
	case "lock":
		a.call(mu.Lock)
	case "rlock":
		a.call(mu.RLock)
	case "unlock":
		w.holdW[owner] = false // released from the moment Unlock is called
		a.call(mu.Unlock)
	case "runlock":
		if w.holdR[owner] > 0 {
			w.holdR[owner]--
		}
		a.call(mu.RUnlock)
	}
	w.pending[t] = op
	w.ops[t]++
	if !settle(w.actors, w.waiters) {
		w.dead = true
		w.r.Fail("stall", fmt.Sprintf("StarvingMutex: no quiescence %v after %s by goroutine %d; statuses=%s", settleTimeout, op, t, statuses(w.actors)),
			sig("api", "StarvingMutex."+op, "oracle", "stall"))
	}
	// grants
	for i, act := range w.actors {
		if w.pending[i] == "" {
			continue
		}
		switch act.state.Load() {
		case stIdle:
			switch w.pending[i] {
			case "lock":
				if w.gw() || w.gr() > 0 {
					w.r.Fail("exclusion", fmt.Sprintf("Lock granted to goroutine %d while holders exist (writer=%v readers=%d)", i, w.gw(), w.gr()),
						sig("api", "StarvingMutex.Lock", "oracle", "two-holders"))
				}
				w.holdW[i] = true
			case "rlock":
				if w.gw() {
					w.r.Fail("exclusion", fmt.Sprintf("RLock granted to goroutine %d while a writer holds the lock", i),
						sig("api", "StarvingMutex.RLock", "oracle", "two-holders"))
				}
				w.holdR[i]++
			}
			w.pending[i] = ""
		case stPanicked:
			w.dead = true
			w.r.Fail("unexpected-panic", fmt.Sprintf("%s by goroutine %d panicked: %s", w.pending[i], i, act.panicMsg),
				sig("api", "StarvingMutex."+w.pending[i], "oracle", "unexpected-panic"))
			w.pending[i] = ""
		}
	}
	// who is still blocked must be blocked by a current holder
	writerQueued := false
	for i := range w.actors {
		if w.pending[i] == "lock" {
			writerQueued = true
		}
	}
	for i := range w.actors {
		switch w.pending[i] {
		case "lock":
			w.blocked = true
			if !w.gw() && w.gr() == 0 && !w.dead {
				w.r.Fail("lost-wakeup", fmt.Sprintf("goroutine %d still blocked in Lock at quiescence although nobody holds the lock", i),
					sig("api", "StarvingMutex.Lock", "oracle", "lost-wakeup"))
			}
		case "rlock":
			w.blocked = true
			if !w.gw() && !(w.gr() > 0 && writerQueued) && !w.dead {
				w.r.Fail("lost-wakeup", fmt.Sprintf("goroutine %d still blocked in RLock at quiescence although no writer holds the lock (readers=%d, writer queued=%v)", i, w.gr(), writerQueued),
					sig("api", "StarvingMutex.RLock", "oracle", "lost-wakeup"))
			}
		case "unlock", "runlock":
			if !w.dead {
				w.dead = true
				w.r.Fail("stall", fmt.Sprintf("goroutine %d blocked inside %s", i, w.pending[i]),
					sig("api", "StarvingMutex."+w.pending[i], "oracle", "stall"))
			}
		}
	}

	return statuses(w.actors) + " " + w.counters()
}

// legal lists the calls goroutine t may issue now without breaking the bracket discipline.
func (w *smWorld) legal(t int, maxOps int) []string {
	if w.pending[t] != "" || w.actors[t].state.Load() != stIdle {
		return nil
	}
	var out []string
	if w.holdW[t] {
		return []string{"unlock"}
	}
	if w.holdR[t] > 0 {
		out = append(out, "runlock")
	}
	if w.ops[t] < maxOps {
		if w.holdR[t] == 0 {
			out = append(out, "lock")
		}
		if w.holdR[t] < 2 {
			out = append(out, "rlock")
		}
	}

	return out
}

// closeOut releases everything that is held until every goroutine is idle again.
func (w *smWorld) closeOut(emit func(a arrival, obs string)) {
	for guard := 0; guard < 64 && !w.dead; guard++ {
		done := true
		for t := range w.actors {
			if w.pending[t] != "" || w.actors[t].state.Load() != stIdle {
				continue
			}
			if w.holdW[t] {
				emit(arrival{t: t, op: "unlock"}, w.arrive(t, "unlock", t))
				done = false

				break
			}
			if w.holdR[t] > 0 {
				emit(arrival{t: t, op: "runlock"}, w.arrive(t, "runlock", t))
				done = false

				break
			}
		}
		if done {
			break
		}
	}
	if w.dead {
		return
	}
	for t := range w.actors {
		if w.pending[t] != "" {
			w.r.Fail("lost-wakeup", fmt.Sprintf("goroutine %d still blocked in %s after every lock was released", t, w.pending[t]),
				sig("api", "StarvingMutex."+w.pending[t], "oracle", "blocked-at-end"))
		}
	}
}

// runSMCase executes a scripted arrival order on a fresh mutex and returns, for tree exploration, the
// legal continuations of the prefix (before the closing releases).
func runSMCase(r *hx.Run, sub uint64, n int, prefix []arrival, maxOps int, wantNext bool) (next []arrival) {
	r.Case(sub)
	w := newSMWorld(r, n)
	defer retire(w.actors)
	r.Line(fmt.Sprintf("sm %d", n), "ok")
	var key []string
	emit := func(a arrival, obs string) {
		r.Line(fmt.Sprintf("a %d %s %s", a.t, a.op, obs), "ok")
		r.Count("sm-op:" + a.op)
		key = append(key, fmt.Sprintf("%d%s", a.t, a.op))
	}
	for _, a := range prefix {
		if w.dead {
			break
		}
		owner := a.t
		if a.arg != "" { // cross-goroutine unlock: arg names the owner of the hold
			owner, _ = strconv.Atoi(a.arg)
		}
		if w.pending[a.t] != "" || w.actors[a.t].state.Load() != stIdle {
			continue // replayed order no longer applicable: the goroutine is blocked
		}
		emit(a, w.arrive(a.t, a.op, owner))
	}
	if wantNext && !w.dead {
		used := 0
		for t := range w.actors {
			if w.ops[t] > 0 {
				used = t + 1
			}
		}
		for t := 0; t < n && t <= used; t++ { // goroutines are interchangeable: introduce them in order
			for _, op := range w.legal(t, maxOps) {
				if op == "runlock" || op == "unlock" || w.ops[t] < maxOps {
					next = append(next, arrival{t: t, op: op})
				}
			}
		}
	}
	w.closeOut(emit)
	r.Count(fmt.Sprintf("sm-goroutines:%d", n))
	if w.blocked {
		r.Count("sm-case-with-blocking")
		r.Nontrivial(fmt.Sprintf("sm%d:%s", n, strings.Join(key, ",")))
	}
	r.Sample(r.CaseLines())

	return next
}

// exploreSM runs every arrival order of n goroutines with at most maxOps acquisitions each (releases are
// free), up to budget cases; beyond the budget the remaining frontier is sampled.
func exploreSM(r *hx.Run, n, maxOps, budget int, sample bool) {
	work := [][]arrival{nil}
	cases := 0
	for len(work) > 0 && cases < budget && !giveUp() {
		i := len(work) - 1
		if sample { // the tree does not fit the budget: visit a random part of the frontier instead of one corner
			i = r.Rng.Intn(len(work))
		}
		prefix := work[i]
		work[i] = work[len(work)-1]
		work = work[:len(work)-1]
		next := runSMCase(r, 0, n, prefix, maxOps, len(prefix) < n*maxOps*2)
		cases++
		for _, a := range next {
			if len(work) < 2000000 {
				work = append(work, append(append([]arrival(nil), prefix...), a))
			}
		}
	}
	r.Extra[fmt.Sprintf("sm_exhaustive_n%d_ops%d", n, maxOps)] = map[string]any{"cases": cases, "frontier_left": len(work), "complete": len(work) == 0}
	r.CountN(fmt.Sprintf("sm-exhaustive-n%d-ops%d", n, maxOps), cases)
}

// randomSM runs one random arrival order (15% of them with cross-goroutine unlocks).
func randomSM(r *hx.Run, rng *hx.Rng, sub uint64) {
	n := rng.Range(2, 4)
	maxOps := 3
	cross := rng.Chance(15, 100)
	r.Case(sub)
	w := newSMWorld(r, n)
	defer retire(w.actors)
	hdr := fmt.Sprintf("sm %d", n)
	if rng.Chance(1, 8) {
		// debug mode: Lock/RLock start a deadlock-detector goroutine per call; the protocol must be the same
		debug.SetEnabled(true)
		defer debug.SetEnabled(false)
		hdr += " debug"
		r.Count("sm-case:debug-enabled")
	}
	r.Line(hdr, "ok")
	var key []string
	emit := func(a arrival, obs string) {
		line := fmt.Sprintf("a %d %s %s", a.t, a.op, obs)
		r.Line(line, "ok")
		r.Count("sm-op:" + a.op)
		key = append(key, fmt.Sprintf("%d%s%s", a.t, a.op, a.arg))
	}
	steps := rng.Range(3, 4*n)
	for s := 0; s < steps && !w.dead; s++ {
		var cands []arrival
		for t := 0; t < n; t++ {
			for _, op := range w.legal(t, maxOps) {
				cands = append(cands, arrival{t: t, op: op})
			}
			if cross && w.pending[t] == "" && w.actors[t].state.Load() == stIdle && !w.holdW[t] && w.holdR[t] == 0 {
				for o := 0; o < n; o++ {
					if o != t && w.holdW[o] && w.pending[o] == "" {
						cands = append(cands, arrival{t: t, op: "unlock", arg: strconv.Itoa(o)})
					}
					if o != t && w.holdR[o] > 0 && w.pending[o] == "" {
						cands = append(cands, arrival{t: t, op: "runlock", arg: strconv.Itoa(o)})
					}
				}
			}
		}
		if len(cands) == 0 {
			break
		}
		a := hx.Pick(rng, cands)
		owner := a.t
		if a.arg != "" {
			owner, _ = strconv.Atoi(a.arg)
			r.Count("sm-cross-goroutine-unlock")
		}
		emit(a, w.arrive(a.t, a.op, owner))
	}
	w.closeOut(emit)
	r.Count(fmt.Sprintf("sm-goroutines:%d", n))
	if w.blocked {
		r.Count("sm-case-with-blocking")
		r.Nontrivial(fmt.Sprintf("sm%d:%s", n, strings.Join(key, ",")))
	}
	r.Sample(r.CaseLines())
}
