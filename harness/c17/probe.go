package main

import (
	"reflect"
	"runtime"
	"sync"
	"sync/atomic"
	"time"
	"unsafe"

	"verifharness/hx"
)

// fieldPtr returns the address of an (unexported) field of the struct obj points to.
func fieldPtr(obj any, name string) unsafe.Pointer {
	v := reflect.ValueOf(obj).Elem().FieldByName(name)
	if !v.IsValid() {
		panic("harness: no field " + name)
	}

	return unsafe.Pointer(v.UnsafeAddr())
}

// condWaiters is the number of goroutines registered on c by Wait and not yet notified
// (sync.notifyList: wait - notify).
func condWaiters(c *sync.Cond) int {
	nl := reflect.ValueOf(c).Elem().FieldByName("notify")
	wait := (*uint32)(unsafe.Pointer(nl.Field(0).UnsafeAddr()))
	notify := (*uint32)(unsafe.Pointer(nl.Field(1).UnsafeAddr()))

	return int(atomic.LoadUint32(wait) - atomic.LoadUint32(notify))
}

// tryLockFor acquires l unless it stays locked for the whole duration (a panicking method of the code
// under test leaves its internal mutex locked).
func tryLockFor(l interface{ TryLock() bool }, d time.Duration) bool {
	deadline := time.Now().Add(d)
	for i := 0; ; i++ {
		if l.TryLock() {
			return true
		}
		if time.Now().After(deadline) {
			return false
		}
		if i < 200 {
			runtime.Gosched()
		} else {
			time.Sleep(10 * time.Microsecond)
		}
	}
}

const (
	stIdle int32 = iota
	stBusy
	stPanicked
)

// actor is one goroutine of a scripted case; calls are handed to it one at a time.
type actor struct {
	cmd      chan func()
	state    atomic.Int32
	panicMsg string
}

func newActor() *actor {
	a := &actor{cmd: make(chan func())}
	go func() {
		for f := range a.cmd {
			if p := hx.Safely(f); p != "" {
				a.panicMsg = p
				a.state.Store(stPanicked)
			} else {
				a.state.Store(stIdle)
			}
		}
	}()

	return a
}

func (a *actor) call(f func()) {
	a.state.Store(stBusy)
	a.cmd <- f
}

func (a *actor) status() byte {
	switch a.state.Load() {
	case stBusy:
		return 'b'
	case stPanicked:
		return 'd'
	}

	return 'i'
}

func busyCount(actors []*actor) int {
	n := 0
	for _, a := range actors {
		if a.state.Load() == stBusy {
			n++
		}
	}

	return n
}

// settleTimeout bounds every wait for quiescence; reaching it is an oracle failure ("stall").
const settleTimeout = 3 * time.Second

// stalls counts watchdog expiries; once a few have been reported the remaining cases of the run are skipped
// (a broken tree must not turn the check into hours of timeouts).
var stalls atomic.Int32

func giveUp() bool { return stalls.Load() >= 4 }

// settle waits until every goroutine that is inside a call is registered on a condition variable
// (waiters() counts those) — i.e. nobody is in flight any more.  Busy goroutines are always at least as
// many as registered waiters, equality means quiescence.
func settle(actors []*actor, waiters func() int) bool {
	deadline := time.Now().Add(settleTimeout)
	for i := 0; ; i++ {
		b := busyCount(actors)
		if b == 0 || b == waiters() {
			runtime.Gosched()
			if busyCount(actors) == b && (b == 0 || waiters() == b) {
				return true
			}
		}
		if time.Now().After(deadline) {
			stalls.Add(1)

			return false
		}
		if i < 300 {
			runtime.Gosched()
		} else {
			time.Sleep(5 * time.Microsecond)
		}
	}
}

func statuses(actors []*actor) string {
	b := make([]byte, len(actors))
	for i, a := range actors {
		b[i] = a.status()
	}

	return string(b)
}

// retire lets the goroutines of idle actors end; blocked ones (only after a stall) are abandoned.
func retire(actors []*actor) {
	for _, a := range actors {
		if a.state.Load() != stBusy {
			close(a.cmd)
		}
	}
}
