// C17 correspondence harness: StarvingMutex, DAGMutex and the Counter/Stack wait primitives of
// runtime/syncutils.
//
//  1. scripted arrival orders: every call is issued only after the previous one has returned or its
//     goroutine is parked on a condition variable (observed through the sync.Cond notify lists of the
//     object under test); after every arrival the set of blocked goroutines and the object's counters are
//     reported, and the Lean driver checks that this is an admissible quiescent outcome of the protocol
//     model for that arrival order;
//  2. heavy-contention stress with an in-critical-section overlap detector (Go oracle) and the recorded
//     grant/release trace checked by the Lean exclusion predicate;
//  3. the unlock-of-unheld panic matrix (sequential differential run against the model);
//  4. Counter/Stack waits: scripted arrivals against the monitor model, and stress traces in which every
//     value change is logged inside the Counter's lock (Subscribe).
package main

import (
	"fmt"
	"math"
	"os"
	"runtime"
	"strconv"
	"strings"
	"time"

	"verifharness/hx"

	"github.com/iotaledger/hive.go/runtime/debug"
)

func replay(r *hx.Run, lines []string) {
	r.Case(0)
	var sm *smWorld
	var dg *dagWorld
	var wm *wmWorld
	defer func() {
		if sm != nil {
			retire(sm.actors)
		}
		if dg != nil {
			retire(dg.actors)
		}
		if wm != nil {
			retire(wm.actors)
		}
	}()
	for _, l := range lines {
		f := strings.Fields(l)
		if len(f) == 0 {
			continue
		}
		switch f[0] {
		case "sm":
			n, _ := strconv.Atoi(f[1])
			sm = newSMWorld(r, n)
			debug.SetEnabled(len(f) > 2 && f[2] == "debug")
			defer debug.SetEnabled(false)
			r.Line(l, "ok")
		case "a":
			t, _ := strconv.Atoi(f[1])
			if sm == nil || t >= len(sm.actors) || sm.pending[t] != "" || sm.actors[t].state.Load() != stIdle {
				r.Line(l, "not-applicable")

				continue
			}
			owner := t
			if f[2] == "unlock" && !sm.holdW[t] {
				for o := range sm.holdW {
					if sm.holdW[o] {
						owner = o
					}
				}
			}
			if f[2] == "runlock" && sm.holdR[t] == 0 {
				for o := range sm.holdR {
					if sm.holdR[o] > 0 {
						owner = o
					}
				}
			}
			r.Line(fmt.Sprintf("a %d %s %s", t, f[2], sm.arrive(t, f[2], owner)), "ok")
		case "dag", "dagc":
			n, _ := strconv.Atoi(f[1])
			e, _ := strconv.Atoi(f[2])
			dg = newDagWorld(r, n, e)
			r.Line(l, "ok")
		case "d":
			t, _ := strconv.Atoi(f[1])
			if dg == nil || t >= len(dg.actors) || !dg.idle(t) {
				r.Line(l, "not-applicable")

				continue
			}
			a := arrival{t: t, op: f[2], arg: f[3]}
			r.Line(fmt.Sprintf("d %d %s %s %s", t, a.op, a.arg, dg.arrive(a)), "ok")
		case "wm":
			n, _ := strconv.Atoi(f[1])
			v, _ := strconv.Atoi(f[2])
			wm = &wmWorld{r: r, pending: make([]*arrival, n), res: make([][]byte, n), cb: make([][]byte, n)}
			if len(f) > 3 && f[3] == "stack" {
				wm.m = newStackMon(v)
			} else {
				wm.m = newCounterMon(v)
			}
			for i := 0; i < n; i++ {
				wm.actors = append(wm.actors, newActor())
			}
			r.Line(l, "ok")
		case "w":
			t, _ := strconv.Atoi(f[1])
			if wm == nil || t >= len(wm.actors) || wm.pending[t] != nil || wm.actors[t].state.Load() != stIdle {
				r.Line(l, "not-applicable")

				continue
			}
			a := arrival{t: t, op: f[2]}
			if len(f) > 3 && f[3] != "|" {
				a.arg = f[3]
			}
			r.Line(fmt.Sprintf("w %d %s | %s", t, opLine(a), wm.arrive(a)), "ok")
		case "wg":
			a, _ := strconv.Atoi(f[1])
			b, _ := strconv.Atoi(f[2])
			if wm == nil || wm.m.kind() != "stack" || wm.m.value() != 0 || a >= len(wm.actors) || b >= len(wm.actors) || a == b ||
				wm.pending[a] != nil || wm.pending[b] != nil || wm.actors[a].state.Load() != stIdle || wm.actors[b].state.Load() != stIdle {
				r.Line(l, "not-applicable")

				continue
			}
			r.Line(fmt.Sprintf("wg %d %d | %s", a, b, wm.arriveGap(a, b)), "ok")
		case "wq":
			t, _ := strconv.Atoi(f[1])
			m, _ := strconv.Atoi(f[2])
			u, thr := -1, 0
			if f[3] != "-" {
				u, _ = strconv.Atoi(f[3])
				thr, _ = strconv.Atoi(f[4])
			}
			ok := wm != nil && wm.m.kind() == "stack" && t < len(wm.actors) && u < len(wm.actors) && u != t &&
				wm.pending[t] == nil && wm.actors[t].state.Load() == stIdle
			if ok && u >= 0 {
				ok = wm.pending[u] == nil && wm.actors[u].state.Load() == stIdle
			}
			if !ok {
				r.Line(l, "not-applicable")

				continue
			}
			// replayed under both scheduler settings would need two runs; a single P is the decisive one
			prev := runtime.GOMAXPROCS(1)
			obs := wm.arrivePushWait(t, m, u, thr)
			runtime.GOMAXPROCS(prev)
			r.Line(fmt.Sprintf("wq %s %s %s %s | %s", f[1], f[2], f[3], f[4], obs), "ok")
		case "wu":
			// wu T0 op [arg] / T1 op [arg] / … | obs
			var as []arrival
			okq := wm != nil && wm.m.kind() == "counter"
			cur := []string{}
			flush := func() {
				if len(cur) >= 2 {
					t, _ := strconv.Atoi(cur[0])
					a := arrival{t: t, op: cur[1]}
					if len(cur) > 2 {
						a.arg = cur[2]
					}
					okq = okq && t < len(wm.actors) && wm.pending[t] == nil && wm.actors[t].state.Load() == stIdle
					as = append(as, a)
				}
				cur = cur[:0]
			}
			for _, tok := range f[1:] {
				if tok == "|" {
					break
				}
				if tok == "/" {
					if okq {
						flush()
					}

					continue
				}
				cur = append(cur, tok)
			}
			if okq {
				flush()
			}
			if !okq || len(as) < 2 {
				r.Line(l, "not-applicable")

				continue
			}
			toks := make([]string, len(as))
			for i, a := range as {
				toks[i] = fmt.Sprintf("%d %s", a.t, opLine(a))
			}
			r.Line(fmt.Sprintf("wu %s | %s", strings.Join(toks, " / "), wm.arriveQueued(as[0], as[1:])), "ok")
		case "seq":
			var ans string
			if f[1] == "sm" {
				ans = execSeqSM(r, f[2:])
			} else {
				ans = execSeqDag(r, f[2:], f[1] == "dagc")
			}
			r.Line(l, ans)
		case "tr", "wt":
			r.Line(l, "accept") // a recorded history: only the Lean verdict is recomputed
		default:
			r.Line(l, "bad-op")
		}
	}
	if wm != nil && !wm.dead {
		wm.releaseAll(r)
	}
}

// gapCorpus: SignalShutdown arriving while PopOrWait evaluates its wait condition — alone, with a second
// PopOrWait already parked, and after the stack has been used.
func gapCorpus(r *hx.Run) {
	for variant := 0; variant < 3; variant++ {
		r.Case(0)
		n := 3
		w := &wmWorld{r: r, m: newStackMon(0), pending: make([]*arrival, n), res: make([][]byte, n), cb: make([][]byte, n)}
		for i := 0; i < n; i++ {
			w.actors = append(w.actors, newActor())
		}
		r.Line("wm 3 0 stack", "ok")
		pre := [][]arrival{nil, {{t: 2, op: "poporwait"}}, {{t: 2, op: "add", arg: "1"}, {t: 2, op: "trypop"}}}[variant]
		for _, a := range pre {
			r.Line(fmt.Sprintf("w %d %s | %s", a.t, opLine(a), w.arrive(a)), "ok")
		}
		r.Line(fmt.Sprintf("wg 0 1 | %s", w.arriveGap(0, 1)), "ok")
		r.Count("stack-op:shutdown-inside-callback")
		r.Nontrivial(fmt.Sprintf("stackgap:%d", variant))
		if !w.dead {
			w.releaseAll(r)
		}
		retire(w.actors)
		r.Sample(r.CaseLines())
	}
}

// extremeCounterCorpus: Set to the ends of the int range from a value of the opposite sign, with sleepers whose
// conditions become true (the distance between old and new value does not fit an int).
func extremeCounterCorpus(r *hx.Run) {
	type sc struct {
		v0    int
		waits []arrival
		sets  []int
	}
	for i, c := range []sc{
		{-3, []arrival{{t: 0, op: "above", arg: "0"}, {t: 1, op: "above", arg: "2"}}, []int{math.MaxInt}},
		{3, []arrival{{t: 0, op: "below", arg: "1"}, {t: 1, op: "below", arg: "0"}}, []int{math.MinInt}},
		{5, []arrival{{t: 0, op: "below", arg: "1"}, {t: 1, op: "below", arg: "-2"}}, []int{math.MinInt + 2}},
		{-5, []arrival{{t: 0, op: "above", arg: "1"}, {t: 1, op: "above", arg: "-1"}}, []int{math.MaxInt - 1}},
		{math.MaxInt, []arrival{{t: 0, op: "below", arg: "1"}, {t: 1, op: "below", arg: "-1"}}, []int{math.MinInt}},
		{math.MinInt, []arrival{{t: 0, op: "above", arg: "0"}, {t: 1, op: "above", arg: "2"}}, []int{math.MaxInt}},
		// corner thresholds: nothing is above MaxInt or below MinInt (these two waits can never return) ...
		{0, []arrival{{t: 0, op: "above", arg: strconv.Itoa(math.MaxInt)}, {t: 1, op: "below", arg: strconv.Itoa(math.MinInt)}}, []int{math.MaxInt, math.MinInt, 0}},
		// ... their neighbours return only at the very ends of the range ...
		{0, []arrival{{t: 0, op: "above", arg: strconv.Itoa(math.MaxInt - 1)}, {t: 1, op: "below", arg: strconv.Itoa(math.MinInt + 1)}}, []int{math.MaxInt - 1, math.MaxInt, math.MinInt + 1, math.MinInt}},
		// ... and the opposite ends hold everywhere but at the end itself
		{math.MaxInt, []arrival{{t: 0, op: "below", arg: strconv.Itoa(math.MaxInt)}, {t: 1, op: "above", arg: strconv.Itoa(math.MinInt)}}, []int{math.MaxInt - 1}},
		{math.MinInt, []arrival{{t: 0, op: "above", arg: strconv.Itoa(math.MinInt)}, {t: 1, op: "below", arg: strconv.Itoa(math.MaxInt)}}, []int{math.MinInt + 1}},
	} {
		r.Case(0)
		n := 3
		w := &wmWorld{r: r, m: newCounterMon(c.v0), pending: make([]*arrival, n), res: make([][]byte, n), cb: make([][]byte, n)}
		for j := 0; j < n; j++ {
			w.actors = append(w.actors, newActor())
		}
		r.Line(fmt.Sprintf("wm 3 %d counter", c.v0), "ok")
		as := c.waits
		for _, v := range c.sets {
			as = append(as, arrival{t: 2, op: "set", arg: strconv.Itoa(v)})
		}
		for _, a := range as {
			r.Line(fmt.Sprintf("w %d %s | %s", a.t, opLine(a), w.arrive(a)), "ok")
		}
		r.Count("counter-op:set-extreme")
		r.Nontrivial(fmt.Sprintf("counter-extreme:%d", i))
		if !w.dead {
			w.releaseAll(r)
		}
		retire(w.actors)
		r.Sample(r.CaseLines())
	}
}

// corpus: hand-written arrival orders that run first (the ones the statement names, and past findings).
func corpus(r *hx.Run) {
	sm := func(n int, s string) {
		var as []arrival
		for _, f := range strings.Fields(s) {
			t, _ := strconv.Atoi(f[:1])
			as = append(as, arrival{t: t, op: map[byte]string{'L': "lock", 'U': "unlock", 'R': "rlock", 'r': "runlock"}[f[1]]})
		}
		runSMCase(r, 0, n, as, 3, false)
	}
	sm(4, "0L 1L 2L 3R 0U")        // a reader queued behind two writers
	sm(4, "0R 1L 2R 3L 0r 2r")     // writers behind readers, readers keep arriving
	sm(3, "0L 1R 2R 0U")           // broadcast must reach both readers
	sm(3, "0R 1R 2L 0r 1r")        // last reader signals the writer
	sm(4, "0L 1R 2L 0U 2U")        // reader served only after the writer queue drained
	sm(2, "0R 0R 1L 0r 0r")        // recursive read lock with a pending writer
	seqCase(r, "sm", []string{"unlock"})
	seqCase(r, "sm", []string{"lock", "unlock", "unlock"})
	seqCase(r, "sm", []string{"rlock", "unlock"})
	seqCase(r, "sm", []string{"runlock"})
	seqCase(r, "dag", []string{"unlock:1"})
	seqCase(r, "dag", []string{"rlock:7", "unlock:7"})
	seqCase(r, "dag", []string{"lock:7", "runlock:7"})
	seqCase(r, "dag", []string{"rlock:1,2", "runlock:2,1", "runlock:1"})
	seqCase(r, "dagc", []string{"rlock:7", "unlock:7"})
	seqCase(r, "dagc", []string{"lock:7", "runlock:7"})
	seqCase(r, "dagc", []string{"rlock:1,2", "runlock:2,1", "runlock:1"})
	// after a recovered misuse panic: the state the panic leaves behind, and what is granted afterwards
	seqCase(r, "sm", []string{"rlock", "runlock", "runlock"})
	seqCase(r, "sm", []string{"rlock", "unlock"})
	seqCase(r, "dagc", []string{"rlock:1", "runlock:1,2", "lock:1"})       // former finding (fixed fdd3faa): entity 1 stays registered, Lock(1) blocks
	seqCase(r, "dagc", []string{"rlock:1", "unlock:1", "lock:1"})          // former finding: the wrong-mode panic leaves registration and read lock; Lock(1) blocks
	seqCase(r, "dagc", []string{"lock:1", "runlock:1", "rlock:1"})         // the same for RUnlock of a write-locked entity
	seqCase(r, "dagc", []string{"rlock:1", "runlock:2", "lock:1"})         // nothing unregistered: Lock(1) stays blocked
	seqCase(r, "dagc", []string{"rlock:1,1", "runlock:1,1,1", "lock:1"})   // duplicates: validated with multiplicity, nothing unregistered
	seqCase(r, "dagc", []string{"unlock:1", "lock:1"})                     // Unlock's lookup panic releases d.Mutex first: Lock(1) is granted
	// wrong mode at the 2nd id: entity 1 released, entity 3 (write-locked) untouched, entity 2 still read-locked, all
	// registrations in place; afterwards Lock(1), RLock(2) and the holder's Unlock(3) go through
	seqCase(r, "dagc", []string{"rlock:1,2", "lock:3", "runlock:1,3,2", "lock:1", "rlock:2", "unlock:3"})
	seqCase(r, "dagc", []string{"rlock:1,2", "lock:3", "runlock:1,3,2", "lock:2"}) // … and Lock(2) blocks behind the read lock
	gapCorpus(r)
	extremeCounterCorpus(r)
	// Set(5) holds the value lock in its subscriber callback while Set(30), WaitIsBelow(30) and Update(-1) queue up: the
	// Update passes last, 30 -> 29, and has to wake the sleeper although 29 is above the value it saw before the lock
	queuedCase(r, r.Rng, 0, []arrival{{t: 0, op: "set", arg: "5"}, {t: 1, op: "set", arg: "30"}, {t: 2, op: "below", arg: "30"}, {t: 3, op: "add", arg: "-1"}})
	queuedCase(r, r.Rng, 0, []arrival{{t: 0, op: "set", arg: "5"}, {t: 1, op: "set", arg: "-30"}, {t: 2, op: "above", arg: "-30"}, {t: 3, op: "add", arg: "1"}})
	dg := func(n, e int, as ...arrival) { runDagCase(r, 0, n, e, as, 3, false) }
	dg(3, 3, arrival{0, "lock", "0"}, arrival{1, "lock", "1"}, arrival{2, "rlock", "0,1"}, arrival{0, "unlock", "0"}, arrival{1, "unlock", "1"}) // the example of dagmutex.go
	dg(3, 2, arrival{0, "rlock", "0,1"}, arrival{1, "lock", "1"}, arrival{2, "rlock", "1"}, arrival{0, "runlock", "1,0"})
}

// quickDiv: the thorough tier multiplies the random volumes by Scale/4 (the exhaustive part grows instead).
func quickDiv(r *hx.Run) int {
	if r.Tier == "thorough" {
		return 4
	}

	return 1
}

func main() {
	r := hx.Start()
	r.MaxSamples = 4
	r.Rule = "scripted arrival orders of Lock/Unlock/RLock/RUnlock by 2..4 goroutines (<=3 acquisitions each; 1 StarvingMutex or a DAGMutex with 1..3 entities), " +
		"Counter/Stack monitor arrivals, stress traces, sequential panic matrix; non-trivial = an arrival case in which some goroutine was observed blocked at quiescence, " +
		"a sequence that ends in a panic, or a stress trace; distinct by the sequence of calls"
	if lines := r.ReplayLines(); lines != nil {
		replay(r, lines)
		r.Finish()

		return
	}
	t0 := time.Now()
	if os.Getenv("C17_ONLY") == "stressdag" { // development aid
		for i := 0; i < 200; i++ {
			rng, sub := r.Rng.Fork()
			stressDag(r, rng, sub, rng.Range(4, 16), 300, rng.Range(2, 5))
			fmt.Println("stressdag", i, len(r.Findings))
		}
		r.Finish()

		return
	}
	corpus(r)
	// (3) panic matrix: exhaustive over short sequential histories
	enumSeq(r, "sm", []string{"lock", "unlock", "rlock", "runlock"}, 4)
	enumSeq(r, "dag", []string{"lock:1", "unlock:1", "rlock:1", "runlock:1", "rlock:1,2", "runlock:1,2", "runlock:2", "unlock:2"}, 3)
	enumSeq(r, "dagc", []string{"lock:1", "unlock:1", "rlock:1", "runlock:1", "rlock:1,2", "runlock:1,2", "runlock:2", "unlock:2", "runlock:1,1"}, 3)
	tSeq := time.Since(t0)
	// (1) arrival orders
	thorough := r.Tier == "thorough"
	if thorough {
		exploreSM(r, 2, 3, 1<<30, false)
		exploreSM(r, 3, 2, 1<<30, false)
		exploreSM(r, 4, 1, 1<<30, false)
		exploreSM(r, 3, 3, 250000, true)
		exploreSM(r, 4, 2, 250000, true)
		exploreSM(r, 4, 3, 150000, true)
		exploreDag(r, 2, 2, 2, 1<<30, false)
		exploreDag(r, 2, 3, 2, 1<<30, false)
		exploreDag(r, 3, 2, 1, 1<<30, false)
		exploreDag(r, 3, 3, 1, 250000, true)
		exploreDag(r, 2, 3, 3, 150000, true)
		exploreDag(r, 4, 3, 3, 100000, true)
	} else {
		exploreSM(r, 2, 3, 1<<30, false)
		exploreSM(r, 3, 2, 1<<30, false)
		exploreSM(r, 4, 1, 1<<30, false)
		exploreSM(r, 4, 2, 6000, true)
		exploreDag(r, 2, 2, 2, 1<<30, false)
		exploreDag(r, 3, 2, 1, 1<<30, false)
		exploreDag(r, 3, 3, 1, 5000, true)
	}
	tExh := time.Since(t0)
	for i := 0; i < 12000*r.Scale/quickDiv(r) && !giveUp(); i++ {
		rng, sub := r.Rng.Fork()
		randomSM(r, rng, sub)
	}
	for i := 0; i < 12000*r.Scale/quickDiv(r) && !giveUp(); i++ {
		rng, sub := r.Rng.Fork()
		randomDag(r, rng, sub)
	}
	for i := 0; i < 12000*r.Scale/quickDiv(r) && !giveUp(); i++ {
		rng, sub := r.Rng.Fork()
		randomWM(r, rng, sub)
	}
	// push-then-wait family: consumers parked in PopOrWait, Push x m immediately followed by WaitIsEmpty
	for i := 0; i < 150*r.Scale/quickDiv(r) && !giveUp(); i++ {
		for _, procs := range []int{1, 4, runtime.NumCPU()} {
			rng, sub := r.Rng.Fork()
			pushWaitCase(r, rng, sub, procs)
		}
	}
	// calls queued on the Counter's value lock behind a subscriber callback (everything a call does before taking the
	// lock happens while the value is still the old one)
	for i := 0; i < 400*r.Scale/quickDiv(r) && !giveUp(); i++ {
		rng, sub := r.Rng.Fork()
		queuedCase(r, rng, sub, nil)
	}
	tArr := time.Since(t0)
	// (2) stress
	for i := 0; i < 40*r.Scale/quickDiv(r) && (i == 0 || !giveUp()); i++ {
		rng, sub := r.Rng.Fork()
		stressSM(r, rng, sub, rng.Range(4, 16), 400, hx.Pick(rng, []int{10, 30, 50, 90}))
		rng, sub = r.Rng.Fork()
		stressDag(r, rng, sub, rng.Range(4, 16), 300, rng.Range(2, 5))
	}
	// (4) wait stress
	for i := 0; i < 20*r.Scale/quickDiv(r) && (i == 0 || !giveUp()); i++ {
		rng, sub := r.Rng.Fork()
		stressCounter(r, rng, sub, rng.Range(2, 8), rng.Range(1, 4), 150)
		rng, sub = r.Rng.Fork()
		stressStack(r, rng, sub, rng.Range(1, 4), rng.Range(1, 6), 500)
	}
	fmt.Printf("c17 harness: seq %.1fs exhaustive %.1fs random arrivals %.1fs stress %.1fs\n", tSeq.Seconds(), (tExh - tSeq).Seconds(), (tArr - tExh).Seconds(), (time.Since(t0) - tArr).Seconds())
	if giveUp() {
		fmt.Println("c17 harness: several watchdogs expired; the remaining cases were skipped")
		r.Extra["gave_up_after_stalls"] = stalls.Load()
	}
	r.Extra["timings_s"] = map[string]float64{"seq": tSeq.Seconds(), "exhaustive": (tExh - tSeq).Seconds(),
		"random_arrivals": (tArr - tExh).Seconds(), "stress": (time.Since(t0) - tArr).Seconds()}
	r.Finish()
}
