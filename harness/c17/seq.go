package main

import (
	"fmt"
	"strings"

	"verifharness/hx"

	"github.com/iotaledger/hive.go/runtime/syncutils"
)

// One goroutine, sequential calls on a fresh object, until the first panic: the unlock-of-unheld matrix.
// The expected answers come from the plain holder bookkeeping below (independent of Lean).

func execSeqSM(r *hx.Run, ops []string) string {
	mu := syncutils.NewStarvingMutex()
	w, rd := false, 0
	var ans []string
	for _, op := range ops {
		var f func()
		expectPanic := false
		switch op {
		case "lock":
			if w || rd > 0 {
				return strings.Join(append(ans, "block"), " ")
			}
			f = mu.Lock
		case "rlock":
			if w {
				return strings.Join(append(ans, "block"), " ")
			}
			f = mu.RLock
		case "unlock":
			expectPanic = !w || rd > 0
			f = mu.Unlock
		case "runlock":
			expectPanic = rd == 0 || w
			f = mu.RUnlock
		default:
			return "bad-op"
		}
		p := hx.Safely(f)
		state := fmt.Sprintf("writer=%v readers=%d", w, rd)
		if p != "" {
			ans = append(ans, "panic")
			if !expectPanic {
				r.Fail("unexpected-panic", fmt.Sprintf("StarvingMutex.%s panicked (%s) with %s", op, p, state),
					sig("api", "StarvingMutex."+op, "oracle", "unexpected-panic", "state", state))
			}
			r.Count("seq-sm-panic:" + op)

			break
		}
		ans = append(ans, "ok")
		if expectPanic {
			r.Fail("missing-panic", fmt.Sprintf("StarvingMutex.%s did not panic with %s (sequence %v)", op, state, ops),
				sig("api", "StarvingMutex."+op, "oracle", "missing-panic", "state", state))
		}
		switch op {
		case "lock":
			w = true
		case "rlock":
			rd++
		case "unlock":
			w = false
		case "runlock":
			if rd > 0 {
				rd--
			}
		}
	}

	return strings.Join(ans, " ")
}

func execSeqDag(r *hx.Run, ops []string) string {
	d := syncutils.NewDAGMutex[int]()
	w := map[int]bool{}
	rd := map[int]int{}
	var ans []string
	for _, tok := range ops {
		f := strings.SplitN(tok, ":", 2)
		if len(f) != 2 {
			return "bad-op"
		}
		op, xs := f[0], parseEnts(f[1])
		var call func()
		expectPanic := false
		state := ""
		switch op {
		case "lock":
			if w[xs[0]] || rd[xs[0]] > 0 {
				return strings.Join(append(ans, "block"), " ")
			}
			call = func() { d.Lock(xs[0]) }
		case "rlock":
			for _, x := range xs {
				if w[x] {
					return strings.Join(append(ans, "block"), " ")
				}
			}
			call = func() { d.RLock(xs...) }
		case "unlock":
			expectPanic = !w[xs[0]]
			state = fmt.Sprintf("writer=%v readers=%d", w[xs[0]], rd[xs[0]])
			call = func() { d.Unlock(xs[0]) }
		case "runlock":
			left := map[int]int{}
			for _, x := range xs {
				if _, ok := left[x]; !ok {
					left[x] = rd[x]
				}
				if left[x] == 0 {
					expectPanic = true
					state = fmt.Sprintf("writer=%v readers=%d", w[x], rd[x])
				}
				left[x]--
			}
			call = func() { d.RUnlock(xs...) }
		default:
			return "bad-op"
		}
		p := hx.Safely(call)
		if p != "" {
			ans = append(ans, "panic")
			if !expectPanic {
				r.Fail("unexpected-panic", fmt.Sprintf("DAGMutex.%s(%s) panicked (%s); sequence %v", op, f[1], p, ops),
					sig("api", "DAGMutex."+op, "oracle", "unexpected-panic"))
			}
			r.Count("seq-dag-panic:" + op)

			break
		}
		ans = append(ans, "ok")
		if expectPanic {
			r.Fail("missing-panic", fmt.Sprintf("DAGMutex.%s(%s) did not panic although the entity is not held in that mode (%s); sequence %v", op, f[1], state, ops),
				sig("api", "DAGMutex."+op, "oracle", "missing-panic", "state", state))
		}
		switch op {
		case "lock":
			w[xs[0]] = true
		case "rlock":
			for _, x := range xs {
				rd[x]++
			}
		case "unlock":
			w[xs[0]] = false
		case "runlock":
			for _, x := range xs {
				if rd[x] > 0 {
					rd[x]--
				}
			}
		}
	}

	return strings.Join(ans, " ")
}

func seqCase(r *hx.Run, kind string, ops []string) {
	r.Case(0)
	var ans string
	if kind == "sm" {
		ans = execSeqSM(r, ops)
	} else {
		ans = execSeqDag(r, ops) // "dag": abstract-lock model, "dagc": composed model
	}
	r.Line("seq "+kind+" "+strings.Join(ops, " "), ans)
	r.Count("seq-" + kind)
	if strings.HasSuffix(ans, "panic") {
		r.Nontrivial("seq:" + kind + ":" + strings.Join(ops, " "))
	}
}

// enumerate all sequences over the alphabet up to the given length that do not block and stop at the
// first panic (a sequence is emitted when it ends in a panic or reaches the maximal length).
func enumSeq(r *hx.Run, kind string, alphabet []string, maxLen int) {
	var rec func(prefix []string)
	rec = func(prefix []string) {
		if len(prefix) > 0 {
			// dry run to learn whether the prefix blocks / panics (fresh object each time)
			probe := &hx.Run{Hist: map[string]int{}}
			var ans string
			if kind == "sm" {
				ans = execSeqSM(probe, prefix)
			} else {
				ans = execSeqDag(probe, prefix)
			}
			if strings.HasSuffix(ans, "block") {
				return
			}
			if strings.HasSuffix(ans, "panic") || len(prefix) == maxLen {
				seqCase(r, kind, prefix)

				return
			}
		}
		for _, a := range alphabet {
			rec(append(append([]string(nil), prefix...), a))
		}
	}
	rec(nil)
}
