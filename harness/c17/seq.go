package main

import (
	"fmt"
	"strings"
	"sync"
	"sync/atomic"
	"time"

	"verifharness/hx"

	"github.com/iotaledger/hive.go/ds/shrinkingmap"
	"github.com/iotaledger/hive.go/runtime/syncutils"
)

// One goroutine, sequential calls on a fresh object, until the first panic: the unlock-of-unheld matrix.
// The expected answers come from the plain holder bookkeeping below (independent of Lean).

// smFields reads the lock state without taking the internal mutex (only used when no call is in flight).
func smFields(mu *syncutils.StarvingMutex) (int, int, int) {
	wa := 0
	if *(*bool)(fieldPtr(mu, "writerActive")) {
		wa = 1
	}

	return wa, *(*int)(fieldPtr(mu, "readersActive")), *(*int)(fieldPtr(mu, "pendingWriters"))
}

// grantedWithin runs call in its own goroutine and reports whether it returned within d (a call that does not
// return leaves its goroutine behind: only used for calls that must not be granted).
func grantedWithin(call func(), d time.Duration) (granted bool, panicked string) {
	done := make(chan string, 1)
	go func() { done <- hx.Safely(call) }()
	select {
	case p := <-done:
		return true, p
	case <-time.After(d):
		return false, ""
	}
}

const probeWait = 40 * time.Millisecond

// seqStalls counts the calls that blocked after a recovered misuse panic although they had to return.
var seqStalls atomic.Int32

func execSeqSM(r *hx.Run, ops []string) string {
	mu := syncutils.NewStarvingMutex()
	im := (*sync.Mutex)(fieldPtr(mu, "mutex"))
	w, rd := false, 0
	var ans []string
	for _, op := range ops {
		var f func()
		expectPanic := false
		switch op {
		case "lock":
			if w || rd > 0 {
				return strings.Join(append(ans, "block"), " ")
			}
			f = mu.Lock
		case "rlock":
			if w {
				return strings.Join(append(ans, "block"), " ")
			}
			f = mu.RLock
		case "unlock":
			expectPanic = !w || rd > 0
			f = mu.Unlock
		case "runlock":
			expectPanic = rd == 0 || w
			f = mu.RUnlock
		default:
			return "bad-op"
		}
		w0, r0, p0 := smFields(mu)
		p := hx.Safely(f)
		state := fmt.Sprintf("writer=%v readers=%d", w, rd)
		if p != "" {
			if !expectPanic {
				r.Fail("unexpected-panic", fmt.Sprintf("StarvingMutex.%s panicked (%s) with %s", op, p, state),
					sig("api", "StarvingMutex."+op, "oracle", "unexpected-panic", "state", state))
			}
			r.Count("seq-sm-panic:" + op)
			// "panics instead of corrupting state": the lock state is what it was before the call ...
			w1, r1, p1 := smFields(mu)
			if w1 != w0 || r1 != r0 || p1 != p0 {
				r.Fail("panic-corrupts-state", fmt.Sprintf("StarvingMutex.%s panicked (%s) but changed the lock state from writer=%d readers=%d pending=%d to writer=%d readers=%d pending=%d (sequence %v)",
					op, p, w0, r0, p0, w1, r1, p1, ops), sig("api", "StarvingMutex."+op, "oracle", "panic-corrupts-state"))
			}
			ans = append(ans, "panic", fmt.Sprint(w1), fmt.Sprint(r1), fmt.Sprint(p1))
			// ... the internal mutex is free again, and whatever the mutex grants afterwards still respects the holders.
			if !im.TryLock() {
				ans = append(ans, "frozen")
				r.Count("seq-sm-after-panic:frozen")
				r.Fail("panic-corrupts-state", fmt.Sprintf("StarvingMutex.%s panicked (%s) and left the internal mutex locked: every later call blocks for ever, the holders can never release (sequence %v)",
					op, p, ops), sig("api", "StarvingMutex."+op, "oracle", "panic-corrupts-state", "trigger", "internal-mutex-left-locked"))

				break
			}
			im.Unlock()
			ans = append(ans, "live")
			r.Count("seq-sm-after-panic:live")
			smProbeAfterPanic(r, mu, op, w, rd, ops)

			break
		}
		ans = append(ans, "ok")
		if expectPanic {
			r.Fail("missing-panic", fmt.Sprintf("StarvingMutex.%s did not panic with %s (sequence %v)", op, state, ops),
				sig("api", "StarvingMutex."+op, "oracle", "missing-panic", "state", state))
		}
		switch op {
		case "lock":
			w = true
		case "rlock":
			rd++
		case "unlock":
			w = false
		case "runlock":
			if rd > 0 {
				rd--
			}
		}
	}

	return strings.Join(ans, " ")
}

// smProbeAfterPanic: the misuse panic was recovered and the mutex is still usable.  With the holders the harness
// knows of (w, rd — the failed call released nothing): a reader must still be admitted only without a writer, and a
// writer only when nobody holds the lock.
func smProbeAfterPanic(r *hx.Run, mu *syncutils.StarvingMutex, misused string, w bool, rd int, ops []string) {
	fail := func(what string) {
		r.Fail("exclusion", fmt.Sprintf("after the recovered panic of StarvingMutex.%s: %s (sequence %v)", misused, what, ops),
			sig("api", "StarvingMutex."+misused, "oracle", "granted-after-misuse-panic"))
	}
	if w {
		if g, _ := grantedWithin(mu.RLock, probeWait); g {
			fail("RLock was granted while the write lock is held")
		}

		return
	}
	if rd == 0 {
		g, p := grantedWithin(mu.RLock, 2*time.Second)
		if !g || p != "" {
			fail("RLock on the unheld mutex was not granted (" + p + ")")

			return
		}
	}
	// at least one read lock is held now
	if g, _ := grantedWithin(mu.Lock, probeWait); g {
		fail("Lock was granted while a read lock is held")
	}
}

// dagReg renders consumer counts, registry bits and the lock state (writerActive readersActive, "-" without a mutex)
// of the entities 0..7 (the driver's `compReg`).  Only used when no call is in flight.
func dagReg(d *syncutils.DAGMutex[int]) string {
	counts := *(**shrinkingmap.ShrinkingMap[int, int])(fieldPtr(d, "consumerCounter"))
	mutexes := *(**shrinkingmap.ShrinkingMap[int, *syncutils.StarvingMutex])(fieldPtr(d, "mutexes"))
	cs := make([]string, 8)
	present := make([]byte, 8)
	locks := make([]string, 8)
	for x := 0; x < 8; x++ {
		c, _ := counts.Get(x)
		cs[x] = fmt.Sprint(c)
		present[x] = b01(mutexes.Has(x))
		locks[x] = "-"
		if mu, ok := mutexes.Get(x); ok {
			wa, ra, _ := smFields(mu)
			locks[x] = fmt.Sprintf("%d/%d", wa, ra)
		}
	}

	return strings.Join(cs, ",") + ":" + string(present) + ":" + strings.Join(locks, ",")
}

// dagLockedInternal returns an entity (0..7) whose StarvingMutex has its internal mutex locked although no call is in
// flight, or -1.
func dagLockedInternal(d *syncutils.DAGMutex[int]) int {
	mutexes := *(**shrinkingmap.ShrinkingMap[int, *syncutils.StarvingMutex])(fieldPtr(d, "mutexes"))
	for x := 0; x < 8; x++ {
		if mu, ok := mutexes.Get(x); ok {
			im := (*sync.Mutex)(fieldPtr(mu, "mutex"))
			if !im.TryLock() {
				return x
			}
			im.Unlock()
		}
	}

	return -1
}

// dagBook is the plain holder bookkeeping of the sequential DAGMutex runs (independent of Lean): who holds what and how
// often an entity is registered.  A panic changes none of it (a StarvingMutex method that panics releases its internal
// mutex first), except that a wrong mode at the k-th id of RUnlock has released the k-1 read locks before it.
type dagBook struct {
	w   map[int]bool
	rd  map[int]int
	reg map[int]int
}

// expect: what the call must do given the bookkeeping — "ok", "block", "panic:lookup" (not registered often enough:
// nothing may change) or "panic:wrong-mode" (the entity's mutex is not held in that mode: the registry may not change,
// the read locks of the ids before the offending one are released) — and the bookkeeping after the call.
func (b *dagBook) expect(op string, xs []int) string {
	switch op {
	case "lock":
		x := xs[0]
		b.reg[x]++
		if b.w[x] || b.rd[x] > 0 {
			return "block"
		}
		b.w[x] = true
	case "rlock":
		for _, x := range xs {
			b.reg[x]++
		}
		for _, x := range xs {
			if b.w[x] {
				return "block"
			}
			b.rd[x]++
		}
	case "unlock":
		x := xs[0]
		if b.reg[x] == 0 {
			return "panic:lookup"
		}
		if !b.w[x] || b.rd[x] > 0 {
			return "panic:wrong-mode"
		}
		b.w[x] = false
		b.reg[x]--
	case "runlock":
		needed := map[int]int{}
		for _, x := range xs {
			needed[x]++
			if needed[x] > b.reg[x] {
				return "panic:lookup"
			}
		}
		for _, x := range xs {
			if b.rd[x] == 0 || b.w[x] {
				return "panic:wrong-mode"
			}
			b.rd[x]--
		}
		for _, x := range xs {
			b.reg[x]--
		}
	}

	return "ok"
}

// lockState renders the bookkeeping as dagReg renders the lock state of the real mutexes.
func (b *dagBook) lockState() string {
	locks := make([]string, 8)
	for x := 0; x < 8; x++ {
		locks[x] = "-"
		if b.reg[x] > 0 {
			locks[x] = fmt.Sprintf("%c/%d", b01(b.w[x]), b.rd[x])
		}
	}

	return strings.Join(locks, ",")
}

// execSeqDag: cont = go on after a recovered misuse panic when the registry mutex is free again (composed model).
func execSeqDag(r *hx.Run, ops []string, cont bool) string {
	d := syncutils.NewDAGMutex[int]()
	b := &dagBook{w: map[int]bool{}, rd: map[int]int{}, reg: map[int]int{}}
	var ans []string
	misused := "" // the call whose panic was recovered ...
	trigger := "" // ... and where it struck
	for _, tok := range ops {
		f := strings.SplitN(tok, ":", 2)
		if len(f) != 2 {
			return "bad-op"
		}
		op, xs := f[0], parseEnts(f[1])
		var call func()
		switch op {
		case "lock":
			call = func() { d.Lock(xs[0]) }
		case "rlock":
			call = func() { d.RLock(xs...) }
		case "unlock":
			call = func() { d.Unlock(xs[0]) }
		case "runlock":
			call = func() { d.RUnlock(xs...) }
		default:
			return "bad-op"
		}
		state := ""
		if op == "unlock" || op == "runlock" {
			state = fmt.Sprintf("writer=%v readers=%d", b.w[xs[0]], b.rd[xs[0]])
			for _, x := range xs {
				if b.rd[x] == 0 || b.w[x] {
					state = fmt.Sprintf("writer=%v readers=%d", b.w[x], b.rd[x])

					break
				}
			}
		}
		want := b.expect(op, xs)
		expectPanic := strings.HasPrefix(want, "panic")
		if want == "block" {
			if misused == "" {
				return strings.Join(append(ans, "block"), " ")
			}
			// after a recovered misuse panic the call is really issued: it must not be granted
			g, p := grantedWithin(call, probeWait)
			if !g {
				return strings.Join(append(ans, "block"), " ")
			}
			if p != "" {
				r.Fail("unexpected-panic", fmt.Sprintf("after the recovered panic of DAGMutex.%s: %s(%s) panicked (%s) although it has to block; sequence %v", misused, op, f[1], p, ops),
					sig("api", "DAGMutex."+op, "oracle", "panic-instead-of-block-after-misuse-panic", "misuse", "DAGMutex."+misused, "trigger", trigger))

				return strings.Join(append(ans, "panic"), " ")
			}
			r.Fail("exclusion", fmt.Sprintf("after the recovered panic of DAGMutex.%s: %s(%s) returned although the entity is still held (the failed call released nothing); sequence %v", misused, op, f[1], ops),
				sig("api", "DAGMutex."+misused, "oracle", "granted-after-misuse-panic", "trigger", trigger))

			return strings.Join(append(ans, "ok"), " ")
		}
		reg0 := dagReg(d)
		var p string
		if misused == "" {
			p = hx.Safely(call)
		} else {
			// after a recovered misuse panic nothing is taken for granted: a call that has to return is given 3 s (and
			// after six such stalls the sequences are cut here: a broken tree must not cost minutes)
			if seqStalls.Load() >= 6 {
				return strings.Join(append(ans, "skipped"), " ")
			}
			g, pp := grantedWithin(call, 3*time.Second)
			if !g {
				seqStalls.Add(1)
				r.Fail("stall", fmt.Sprintf("after the recovered panic of DAGMutex.%s: %s(%s) blocks although nothing it needs is held by anybody else; sequence %v", misused, op, f[1], ops),
					sig("api", "DAGMutex."+op, "oracle", "blocked-after-misuse-panic", "misuse", "DAGMutex."+misused, "trigger", trigger))

				return strings.Join(append(ans, "block"), " ")
			}
			p = pp
		}
		if p != "" {
			ans = append(ans, "panic")
			if !expectPanic && misused == "" {
				r.Fail("unexpected-panic", fmt.Sprintf("DAGMutex.%s(%s) panicked (%s); sequence %v", op, f[1], p, ops),
					sig("api", "DAGMutex."+op, "oracle", "unexpected-panic"))
			} else if !expectPanic {
				// the holder cannot release what it holds any more: the recovered misuse took its registration
				r.Fail("unexpected-panic", fmt.Sprintf("after the recovered panic of DAGMutex.%s: the holder's own %s(%s) panicked (%s); sequence %v", misused, op, f[1], p, ops),
					sig("api", "DAGMutex."+op, "oracle", "holder-unlock-panics-after-misuse-panic", "misuse", "DAGMutex."+misused, "trigger", trigger))
			}
			r.Count("seq-dag-panic:" + op)
			if !cont {
				break
			}
			if !d.Mutex.TryLock() {
				ans = append(ans, "frozen")
				r.Count("seq-dag-after-panic:frozen")
				if expectPanic {
					r.Fail("panic-corrupts-state", fmt.Sprintf("DAGMutex.%s(%s) panicked (%s) and left the registry mutex locked; sequence %v", op, f[1], p, ops),
						sig("api", "DAGMutex."+op, "oracle", "panic-corrupts-state", "trigger", "registry-mutex-left-locked"))
				}

				break
			}
			d.Mutex.Unlock()
			if x := dagLockedInternal(d); x >= 0 {
				r.Fail("panic-corrupts-state", fmt.Sprintf("DAGMutex.%s(%s) panicked (%s) and left the internal mutex of entity %d's StarvingMutex locked: every later call on that entity blocks; sequence %v",
					op, f[1], p, x, ops), sig("api", "DAGMutex."+op, "oracle", "panic-corrupts-state", "trigger", "internal-mutex-left-locked"))
			}
			reg1 := dagReg(d)
			ans = append(ans, "live:"+reg1)
			r.Count("seq-dag-after-panic:live")
			// where the panic struck: in the lookup (an id that is not registered often enough), or inside the
			// StarvingMutex method (wrong mode)
			where := "wrong-mode"
			if strings.Contains(p, "too often") {
				where = "lookup"
			}
			r.Count("seq-dag-panic-where:" + where)
			cut := func(s string) string { return s[:strings.LastIndex(s, ":")] } // counts:bits without the lock state
			if expectPanic && cut(reg1) != cut(reg0) {
				r.Fail("panic-corrupts-state", fmt.Sprintf("DAGMutex.%s(%s) panicked (%s) but changed the registry (consumer counts:entities with a mutex:lock state) from %s to %s; sequence %v",
					op, f[1], p, reg0, reg1, ops), sig("api", "DAGMutex."+op, "oracle", "panic-corrupts-state", "trigger", where))
			}
			if expectPanic && want != "panic:"+where {
				r.Fail("panic-corrupts-state", fmt.Sprintf("DAGMutex.%s(%s) panicked in the wrong place (%s: %s; the holder bookkeeping says %s); sequence %v",
					op, f[1], where, p, want, ops), sig("api", "DAGMutex."+op, "oracle", "panic-in-wrong-place", "trigger", where))
			}
			// every entity's lock state is what the bookkeeping says: untouched by a failed lookup; after a wrong-mode panic
			// at the k-th id the k-1 read locks before it are released and nothing else
			if ls := reg1[strings.LastIndex(reg1, ":")+1:]; expectPanic && want == "panic:"+where && ls != b.lockState() {
				r.Fail("panic-corrupts-state", fmt.Sprintf("DAGMutex.%s(%s) panicked (%s) and left the lock states (writer/readers per entity) %s, the holders account for %s; sequence %v",
					op, f[1], p, ls, b.lockState(), ops), sig("api", "DAGMutex."+op, "oracle", "panic-corrupts-state", "trigger", where+"-lock-state"))
			}
			if misused == "" {
				misused, trigger = op, where
			}

			continue
		}
		ans = append(ans, "ok")
		if expectPanic {
			r.Fail("missing-panic", fmt.Sprintf("DAGMutex.%s(%s) did not panic although the entity is not held in that mode (%s); sequence %v", op, f[1], state, ops),
				sig("api", "DAGMutex."+op, "oracle", "missing-panic", "state", state))
		}
	}

	return strings.Join(ans, " ")
}

func seqCase(r *hx.Run, kind string, ops []string) {
	r.Case(0)
	var ans string
	if kind == "sm" {
		ans = execSeqSM(r, ops)
	} else {
		ans = execSeqDag(r, ops, kind == "dagc") // "dag": abstract-lock model, "dagc": composed model
	}
	r.Line("seq "+kind+" "+strings.Join(ops, " "), ans)
	r.Count("seq-" + kind)
	if strings.Contains(ans, "panic") {
		r.Nontrivial("seq:" + kind + ":" + strings.Join(ops, " "))
	}
}

// enumerate all sequences over the alphabet up to the given length that do not block and stop at the
// first panic (a sequence is emitted when it ends in a panic or reaches the maximal length).
func enumSeq(r *hx.Run, kind string, alphabet []string, maxLen int) {
	var rec func(prefix []string)
	rec = func(prefix []string) {
		if len(prefix) > 0 {
			// dry run to learn whether the prefix blocks / panics (fresh object each time)
			probe := &hx.Run{Hist: map[string]int{}}
			var ans string
			if kind == "sm" {
				ans = execSeqSM(probe, prefix)
			} else {
				ans = execSeqDag(probe, prefix, kind == "dagc")
			}
			afterPanic := strings.Contains(ans, "panic")
			if strings.HasSuffix(ans, "block") {
				if afterPanic {
					seqCase(r, kind, prefix) // a call that (rightly) stays blocked after a recovered misuse panic
				}

				return
			}
			// a panic ends the run unless the registry stayed usable (" live:…", composed DAG model only)
			ended := afterPanic && !strings.Contains(ans, " live:")
			if ended || len(prefix) == maxLen {
				seqCase(r, kind, prefix)

				return
			}
		}
		for _, a := range alphabet {
			rec(append(append([]string(nil), prefix...), a))
		}
	}
	rec(nil)
}
