// C18 correspondence harness for runtime/timed (Queue, Executor, TaskExecutor).
//
// Part 1 (differential, "sequential in logical time"): a case is a list of op lines executed on a real
// timed.TaskExecutor from one goroutine at well separated instants: operations at even clock values, due
// times at odd clock values, one clock unit = `unit` of real time (tens of ms).  After every operation the
// harness waits half a unit and reads Size(); at the end it reports which task ran in which clock unit and
// when each Shutdown call returned.  The Lean driver executes the protocol model under a deterministic
// scheduler on the same lines and must print the same answers.  Callbacks are supplied by the harness
// (plain / blocking until released / re-scheduling their own identifier / cancelling their own identifier),
// and the `verif` hook in Queue.Poll lets a line park the poller between timer creation and select.
// Timing validity is judged only by things independent of the code under test (a canary goroutine's
// oversleep and the lateness of the harness's own operations); an invalid case is re-run with a larger unit.
//
// Part 2 (stress): many goroutines schedule and cancel with sub-millisecond delays; the recorded event
// trace is printed as `ev` lines and the Lean driver evaluates the trace predicate `okLog` on it.
//
// The property oracle (never early, at most once, Cancel results, replaced tasks, missing deliveries,
// Shutdown returning) is evaluated here on the implementation, independently of Lean.
package main

import (
	"crypto/sha256"
	"fmt"
	"os"
	"reflect"
	"sort"
	"strconv"
	"strings"
	"sync"
	"sync/atomic"
	"time"
	"unsafe"

	"verifharness/hx"

	"github.com/iotaledger/hive.go/runtime/timed"
)

// ---------------------------------------------------------------------------------------------------------
// hook plumbing (global: the hook variable is package-level in timed)

var armed sync.Map // int64 (UnixNano of the scheduled time) -> chan struct{}
var armSeq atomic.Int64

// worlds: address of the executor's queue -> *world (the poll hook reports polls per queue)
var worlds sync.Map

// addArmed: UnixNano of the scheduled time -> *addGate (Queue.Add parks between its shutdown check and the insertion)
var addArmed sync.Map

type addGate struct {
	entered chan struct{}
	release chan struct{}
	prelock bool // park right before Add takes the heap lock instead of inside the critical section
}

func (g *addGate) park() {
	close(g.entered)
	select {
	case <-g.release:
	case <-time.After(30 * time.Second):
	}
}

// qEvent: a poll or an insertion of one queue, recorded while the queue's heap lock is held, so that the order of the
// records is the order of the critical sections
type qEvent struct {
	pop bool
	due time.Time
	at  time.Time
}

func worldOf(q any) *world {
	if v, ok := worlds.Load(reflect.ValueOf(q).Pointer()); ok {
		return v.(*world)
	}

	return nil
}

// chanState reads the state of an element's cancel channel (the one thing the queue does to an element it drops: size
// bound, CancelPendingElements): closed = cancelled by its owner or dropped by the queue.  The field is written once,
// before Add returns the handle, and a channel receive is synchronised, so this does not race with the code under
// test.  ok=false: the field is not there (the code was changed) - the callers fall back to what they did without it.
func chanState(h *timed.ScheduledTask) (closed, ok bool) {
	if h == nil {
		return false, false
	}
	f := reflect.ValueOf(h).Elem().FieldByName("cancel")
	if !f.IsValid() || f.Kind() != reflect.Chan || !f.CanAddr() {
		return false, false
	}
	ch := reflect.NewAt(f.Type(), unsafe.Pointer(f.UnsafeAddr())).Elem()
	if ch.IsNil() {
		return false, false
	}
	x, sent := ch.TryRecv()

	return x.IsValid() && !sent, true
}

// closedSet: the tags of the tasks whose cancel channel is closed.  mu held.
func (w *world) closedSet() (map[int]bool, bool) {
	set := map[int]bool{}
	for _, t := range w.tasks {
		if t.handle == nil {
			continue
		}
		c, ok := chanState(t.handle)
		if !ok {
			return nil, false
		}
		if c {
			set[t.tag] = true
		}
	}

	return set, true
}

// maybePopped: a poller may have taken the task out of the heap (the pop hook reports the due time of what is popped;
// the due time of an ExecuteAfter task is not known exactly).  mu held.
func (w *world) maybePopped(t *task) bool {
	if t.after > 0 {
		return true
	}
	w.popMu.Lock()
	defer w.popMu.Unlock()
	for _, e := range w.qev {
		if e.pop && e.due.Equal(t.due) {
			return true
		}
	}

	return false
}

// dropsOfAdd is the size-bound oracle of one Add (ExecuteAt/ExecuteAfter, raw or tracked), exact and independent of the
// heap layout: `before` = closed channels before the call, `sizeBefore` = Size() before the call, `old` = the pending
// task the call replaces (nil: none), t = the new task (handle set).  Every channel that the call closed other than
// the replaced task's is a drop by the queue; Add may drop one element, and only when the heap already held maxSize
// elements - a replacement whose old task is still in the heap does not grow the heap.  Returns the number of excused
// drops.  mu held.
func (w *world) dropsOfAdd(before map[int]bool, sizeBefore int, old, t *task) int {
	after, ok := w.closedSet()
	if !ok || before == nil {
		if w.m > 0 && sizeBefore >= w.m {
			return 1
		}

		return 0
	}
	var dropped []int
	for tag := range after {
		if !before[tag] && (old == nil || tag != old.tag) {
			dropped = append(dropped, tag)
		}
	}
	sort.Ints(dropped)
	heapBefore := sizeBefore
	oldInHeap := old != nil && !before[old.tag] && !w.maybePopped(old)
	if oldInHeap {
		heapBefore--
	}
	allowed := 0
	if w.m > 0 && heapBefore >= w.m {
		allowed = 1
	}
	if len(dropped) > allowed {
		trig, what := "add", fmt.Sprintf("an Add on a queue holding %d of at most %d elements", heapBefore, w.m)
		if old != nil {
			trig = "replacement"
			what = fmt.Sprintf("ExecuteAt(%d) replacing pending task %d (still in the heap: %v) on a queue holding %d element(s), max size %d", t.id, old.tag, oldInHeap, sizeBefore, w.m)
		}
		self := ""
		for _, d := range dropped {
			if d == t.tag {
				self = "; the new task itself was dropped: the identifier has no pending task after re-scheduling"
			}
		}
		w.fail("eventually-delivered", fmt.Sprintf("%s made the queue drop task(s) %v although the size bound was not exceeded%s", what, dropped, self),
			map[string]string{"oracle": "dropped-within-bound", "trigger": trig})
	}

	return min(len(dropped), allowed)
}

func init() {
	timed.VerifPopHook = func(q any, t time.Time) {
		if w := worldOf(q); w != nil {
			w.popMu.Lock()
			w.qev = append(w.qev, qEvent{pop: true, due: t, at: time.Now()})
			w.popMu.Unlock()
		}
	}
	timed.VerifAddHook = func(q any, t time.Time) {
		if w := worldOf(q); w != nil {
			w.popMu.Lock()
			w.qev = append(w.qev, qEvent{pop: false, due: t, at: time.Now()})
			w.popMu.Unlock()
		}
		if v, ok := addArmed.Load(t.UnixNano()); ok && !v.(*addGate).prelock {
			v.(*addGate).park()
		}
	}
	timed.VerifAddLockHook = func(_ any, t time.Time) {
		if v, ok := addArmed.Load(t.UnixNano()); ok && v.(*addGate).prelock {
			v.(*addGate).park()
		}
	}
	timed.VerifPollHook = func(_ any, t time.Time) {
		if v, ok := armed.Load(t.UnixNano()); ok {
			select {
			case <-v.(chan struct{}):
			case <-time.After(30 * time.Second):
			}
		}
	}
}

// ---------------------------------------------------------------------------------------------------------

type kind struct {
	k   string // plain | block | cself | rs
	due int
	blk bool
	tag int
}

func parseKind(s string) (kind, bool) {
	p := strings.Split(s, ":")
	switch {
	case len(p) == 1 && (p[0] == "plain" || p[0] == "block" || p[0] == "cself"):
		return kind{k: p[0]}, true
	case len(p) == 4 && p[0] == "rs":
		d, e1 := strconv.Atoi(p[1])
		b, e2 := strconv.Atoi(p[2])
		t, e3 := strconv.Atoi(p[3])
		if e1 != nil || e2 != nil || e3 != nil {
			return kind{}, false
		}

		return kind{k: "rs", due: d, blk: b != 0, tag: t}, true
	}

	return kind{}, false
}

type task struct {
	tag, id      int // id < 0: scheduled through Executor.ExecuteAt
	dueClock     int
	far          bool          // due at an instant far away from the session (farInstant)
	rep          byte          // how the instant is handed to ExecuteAt (represent); 0: as computed (monotonic reading, Local)
	after        time.Duration // > 0: given through ExecuteAfter with this delay
	due          time.Time
	kind         kind
	handle       *timed.ScheduledTask
	scheduled    bool // ExecuteAt returned a non-nil element
	fromCallback bool
	runs         []time.Time
	started      bool
	finished     bool
	cancelTrue   bool // a Cancel(id) attributed to this task returned true
	cancelAt     time.Time
	replaced     bool // a later ExecuteAt of the same identifier was called while this one had not started
	ecancelled   bool // its handle's Cancel() was called
	sdDropped    bool // not started when Shutdown with CancelPendingElements was called
}

type finding struct {
	oracle, detail string
	sig            map[string]string
	robust         bool // holds whatever the timing of the harness was (kept also from a timing-invalid attempt)
}

type sdCall struct {
	called   time.Time
	flags    string
	ret      time.Time
	returned bool
	panicked bool
}

type world struct {
	te       *timed.TaskExecutor[int]
	w, m     int
	unit     time.Duration
	base     time.Time
	mu       sync.Mutex
	tasks    map[int]*task
	idReg    map[int]*task
	rel      map[int]chan struct{}
	armTags  map[int]bool
	runLog   []*task
	blocked  int // callbacks currently waiting for a release
	running  int
	overflw  int
	sd       []*sdCall
	isSD     bool
	ignore   bool
	ignAt    time.Time
	finds    []finding
	maxLate  time.Duration
	timeout  atomic.Bool
	slowCall atomic.Bool
	regMu    sync.Mutex // serialises the TaskExecutor calls of the harness together with their bookkeeping
	popMu    sync.Mutex
	qev      []qEvent    // polls and insertions of this world's queue in the order of their critical sections
	glitch   bool        // a callback started long after its element was both polled and due
	marks    []time.Time // when callbacks returned and when operations of the harness were done
	qptr     uintptr
	hist     map[string]int // coverage counters of the attempt (caseResult.hist)
}

func (w *world) fail(oracle, detail string, sig map[string]string) {
	w.finds = append(w.finds, finding{oracle, detail, sig, oracle == "never-early" || oracle == "at-most-once"})
}

func (w *world) at(clock int) time.Time { return w.base.Add(time.Duration(clock) * w.unit) }

func (w *world) idx(t time.Time) int { return int(t.Sub(w.base) / w.unit) }

// represent: the same instant in another representation.  A due clock of an op line may carry a one-letter suffix:
//   w  wall-clock reading only (monotonic reading stripped), Local
//   u  wall-clock reading only, UTC
//   e  zone UTC+05:30, monotonic reading kept (time.Time.In keeps it)
//   a  zone UTC-08:00, wall-clock reading only
// The model knows instants only (the suffix is dropped by the driver): heap order (HeapKey.CompareTo), the timer of
// Poll (time.Until), and every comparison of scheduled times must go by the instant, not by the representation
// (time.Time == compares wall reading, monotonic reading and *Location).  The oracles keep using the value with the
// monotonic reading, so a step of the wall clock cannot make a delivery look early.
func represent(t time.Time, rep byte) time.Time {
	switch rep {
	case 'w':
		return t.Round(0)
	case 'u':
		return t.Round(0).UTC()
	case 'e':
		return t.In(time.FixedZone("east", 5*3600+1800))
	case 'a':
		return t.Round(0).In(time.FixedZone("west", -8*3600))
	}

	return t
}

// splitRep splits the representation suffix off a due token ("17u" -> "17", 'u'); far instants have none.
func splitRep(tok string) (string, byte) {
	if n := len(tok); n >= 2 && strings.IndexByte("wuea", tok[n-1]) >= 0 {
		if _, err := strconv.Atoi(tok[:n-1]); err == nil {
			return tok[:n-1], tok[n-1]
		}
	}

	return tok, 0
}

func (t *task) arg() time.Time { return represent(t.due, t.rep) }

// farClock is the first of the clock values that stand for instants a session never reaches.
const farClock = 1000000

// farInstant: the instants far away from the session that op lines name instead of a due clock, with the clock the
// model uses for them (0: long past, due at once and before everything; > farClock: never reached).
// ref: the reference instant of the case for "now + 300 years" - two `n300` tasks of one case are the same instant (a
// tie for the heap, as for the model), not two instants microseconds apart.
func farInstant(tok string, ref time.Time) (time.Time, int, bool) {
	switch tok {
	case "z":
		return time.Time{}, 0, true
	case "y1600":
		return time.Date(1600, 1, 1, 0, 0, 0, 0, time.UTC), 0, true
	case "y2300":
		return time.Date(2300, 1, 1, 0, 0, 0, 0, time.UTC), farClock + 1, true
	case "n300":
		return ref.AddDate(300, 0, 0), farClock + 3, true
	case "y9999":
		return time.Date(9999, 12, 31, 23, 59, 59, 0, time.UTC), farClock + 5, true
	case "u62":
		return time.Unix(1<<62, 0), farClock + 7, true
	}

	return time.Time{}, 0, false
}

// relCh must be called with mu held.
func (w *world) relCh(tag int) chan struct{} {
	c, ok := w.rel[tag]
	if !ok {
		c = make(chan struct{})
		w.rel[tag] = c
	}

	return c
}

func (w *world) waitRelease(tag int) {
	w.mu.Lock()
	c := w.relCh(tag)
	w.blocked++
	w.mu.Unlock()
	select {
	case <-c:
	case <-time.After(30 * time.Second):
		w.timeout.Store(true)
	}
	w.mu.Lock()
	w.blocked--
	w.mu.Unlock()
}

// pendingOf: the task the harness believes is pending under id (simple independent bookkeeping). mu held.
func (w *world) pendingOf(id int) *task {
	t := w.idReg[id]
	if t == nil || !t.scheduled || t.started || t.cancelTrue || t.replaced || t.sdDropped || t.ecancelled {
		return nil
	}

	return t
}

func (w *world) callback(t *task) func() {
	return func() {
		now := time.Now()
		w.mu.Lock()
		t.runs = append(t.runs, now)
		t.started = true
		w.runLog = append(w.runLog, t)
		w.running++
		if len(t.runs) > 1 {
			w.fail("at-most-once", fmt.Sprintf("task %d ran %d times", t.tag, len(t.runs)), map[string]string{"oracle": "double-run"})
		}
		// A due time that was handed over without monotonic reading (represent: w, u, a) is an instant of the wall clock:
		// Poll arms its timer with the wall-clock distance, so a step of the wall clock between the start of the case and
		// the poll (the clock of the virtual machine is corrected after its stalls: 1.14 ms seen once in 18 000 cases)
		// moves the delivery on the monotonic scale.  Such a task is early only if it is early on both scales
		// (now.Before(wall-only value) compares wall-clock readings).
		if now.Before(t.due) && now.Before(t.arg()) && !(w.ignore && !now.Before(w.ignAt)) {
			w.fail("never-early", fmt.Sprintf("task %d ran %v before its time", t.tag, t.due.Sub(now)), map[string]string{"oracle": "early"})
		}
		if t.cancelTrue {
			w.fail("cancel-honoured", fmt.Sprintf("task %d ran after Cancel(%d) returned true", t.tag, t.id),
				map[string]string{"oracle": "ran-after-cancel-true"})
		}
		if t.replaced {
			w.fail("reschedule-replaces", fmt.Sprintf("task %d ran although identifier %d had been scheduled again before it started", t.tag, t.id),
				map[string]string{"oracle": "replaced-task-ran"})
		}
		if t.ecancelled {
			w.fail("cancel-honoured", fmt.Sprintf("task %d ran after its Cancel() had returned", t.tag),
				map[string]string{"oracle": "ran-after-element-cancel", "armed": strconv.FormatBool(w.armTags[t.tag])})
		}
		w.mu.Unlock()
		defer func() {
			recover() //nolint:errcheck // ExecuteAt panics after a shutdown with PanicOnModificationsAfterShutdown
			w.mu.Lock()
			t.finished = true
			w.running--
			w.marks = append(w.marks, time.Now())
			w.mu.Unlock()
		}()
		switch t.kind.k {
		case "block":
			w.waitRelease(t.tag)
		case "rs":
			if t.id >= 0 {
				w.mu.Lock()
				child := &task{tag: t.kind.tag, id: t.id, dueClock: t.kind.due, due: w.at(t.kind.due), kind: kind{k: "plain"}, fromCallback: true}
				w.tasks[child.tag] = child
				w.mu.Unlock()
				func() {
					defer func() {
						if t.kind.blk {
							// the deferred part runs also when ExecuteAt panicked
							recover() //nolint:errcheck
							w.waitRelease(t.tag)
						}
					}()
					w.execTracked(child)
				}()
			}
		case "cself":
			if t.id >= 0 {
				w.cancelID(t.id, true)
			}
		}
	}
}

// execTracked calls TaskExecutor.ExecuteAt and keeps the oracle's books.
func (w *world) execTracked(t *task) string {
	// a task that is due already starts while this goroutine is still doing its bookkeeping; its callback's own
	// ExecuteAt / Cancel calls must see (and be seen by) the books in the order of the real calls
	w.regMu.Lock()
	defer w.regMu.Unlock()
	sizeBefore := w.te.Size() // not under w.mu: if the queue's lock leaked, only this goroutine must hang
	w.mu.Lock()
	old := w.pendingOf(t.id)
	if old != nil {
		old.replaced = true
	}
	replacing := w.pendingOf(t.id) != nil || w.idReg[t.id] != nil
	closedBefore, _ := w.closedSet()
	w.mu.Unlock()
	var h *timed.ScheduledTask
	cb := w.callback(t)
	w.popMu.Lock()
	n0 := len(w.qev)
	w.popMu.Unlock()
	p := hx.Safely(func() {
		if t.after > 0 {
			t.due = time.Now().Add(t.after)
			h = w.te.ExecuteAfter(t.id, cb, t.after)
		} else {
			h = w.te.ExecuteAt(t.id, cb, t.arg())
		}
	})
	if replacing {
		// ExecuteAt cancels the old element and adds the new one in two critical sections.  A poller that held the
		// old element is released by the cancellation; normally it polls after the new element is in (this goroutine
		// is running, the poller has to be woken up first).  If a poll got in between (the hooks record polls and
		// insertions under the heap lock, i.e. in their true order) the run is not the sequential history the op
		// lines describe -> timing-invalid, re-run.
		w.popMu.Lock()
		polls := 0
		for _, e := range w.qev[n0:] {
			if !e.pop {
				if polls > 0 {
					w.slowCall.Store(true)
				}

				break
			}
			polls++
		}
		w.popMu.Unlock()
	}
	w.mu.Lock()
	defer w.mu.Unlock()
	if p != "" {
		return "panic"
	}
	if h == nil {
		if !w.isSD {
			w.fail("eventually-delivered", fmt.Sprintf("ExecuteAt(%d) returned nil before any Shutdown", t.id), map[string]string{"oracle": "refused"})
		}

		return "nil"
	}
	t.handle, t.scheduled = h, true
	w.idReg[t.id] = t
	if !w.isSD {
		w.overflw += w.dropsOfAdd(closedBefore, sizeBefore, old, t)
	}

	return "ok"
}

func (w *world) cancelID(id int, fromCallback bool) string {
	w.regMu.Lock()
	defer w.regMu.Unlock()
	sizeBefore := w.te.Size()
	w.mu.Lock()
	exp := w.pendingOf(id)
	reg := w.idReg[id]
	allBlocked := w.blocked == w.w
	// the queue dropped the task (its channel is closed although nobody cancelled it): Cancel reports false
	expDropped, observable := false, false
	if exp != nil {
		expDropped, observable = chanState(exp.handle)
	}
	w.mu.Unlock()
	got := w.te.Cancel(id)
	sizeAfter := w.te.Size()
	w.mu.Lock()
	defer w.mu.Unlock()
	switch {
	case got && exp == nil:
		trig := "no-such-task"
		if reg != nil {
			switch {
			case reg.started && !reg.finished:
				trig = "callback-running"
			case reg.finished:
				trig = "callback-finished"
			case reg.replaced:
				trig = "refused-reschedule"
			case reg.sdDropped:
				trig = "dropped-by-shutdown-flag"
			case reg.ecancelled:
				trig = "element-cancelled-directly"
			default:
				trig = "stale"
			}
		}
		w.fail("cancel-result", fmt.Sprintf("Cancel(%d) returned true although no task of this identifier was pending (%s)", id, trig),
			map[string]string{"oracle": "cancel-true-nothing-pending", "trigger": trig})
	case got && exp != nil && !fromCallback && allBlocked && sizeAfter == sizeBefore:
		// every worker is provably inside a blocked callback, so a pending task can only be in the queue
		trig := "queue-size-unchanged"
		if w.m > 0 {
			trig = "size-bound"
		}
		w.fail("cancel-result", fmt.Sprintf("Cancel(%d) returned true but the queue size stayed %d while all workers were blocked in callbacks: the task was not pending (max size %d)", id, sizeAfter, w.m),
			map[string]string{"oracle": "cancel-true-nothing-pending", "trigger": trig})
	case !got && exp != nil && w.m > 0 && (observable && expDropped || !observable && w.overflw > 0):
		// the size bound dropped the task (the queue marks it as canceled, Cancel reports false); whether that drop
		// was within the rules is judged where it happened (dropsOfAdd)
	case !got && exp != nil:
		trig := "pending"
		if exp.fromCallback {
			trig = "pending-task-scheduled-from-its-callback"
		}
		w.fail("cancel-result", fmt.Sprintf("Cancel(%d) returned false although task %d was pending", id, exp.tag),
			map[string]string{"oracle": "cancel-false-but-pending", "trigger": trig})
	}
	if got {
		if reg != nil {
			reg.cancelTrue = true
			reg.cancelAt = time.Now()
			if len(reg.runs) > 0 && exp != nil {
				w.fail("cancel-honoured", fmt.Sprintf("Cancel(%d) returned true although task %d had started", id, reg.tag),
					map[string]string{"oracle": "cancel-true-but-ran"})
			}
		}
		delete(w.idReg, id)
	}

	return strconv.FormatBool(got)
}

func (w *world) exec(f []string, now int) string {
	switch f[0] {
	case "nop":
		return "done"
	case "add", "exec", "addafter", "execafter":
		var t *task
		farTok := ""
		if f[0] == "add" || f[0] == "addafter" {
			tag, _ := strconv.Atoi(f[1])
			dueTok, rep := splitRep(f[2])
			due, _ := strconv.Atoi(dueTok)
			k, ok := parseKind(f[3])
			if !ok || (rep != 0 && f[0] != "add") {
				return "bad-op"
			}
			t = &task{tag: tag, id: -1, dueClock: due, kind: k, rep: rep}
			farTok = f[2]
		} else {
			id, _ := strconv.Atoi(f[1])
			tag, _ := strconv.Atoi(f[2])
			dueTok, rep := splitRep(f[3])
			due, _ := strconv.Atoi(dueTok)
			k, ok := parseKind(f[4])
			if !ok || (rep != 0 && f[0] != "exec") {
				return "bad-op"
			}
			t = &task{tag: tag, id: id, dueClock: due, kind: k, rep: rep}
			farTok = f[3]
		}
		if strings.HasSuffix(f[0], "after") {
			// ExecuteAfter: the number in the line is the delay; the never-early bound is the clock read before the call
			// plus the delay (t.due is set right before the call)
			t.after = time.Duration(t.dueClock) * w.unit
			t.dueClock += now
		}
		t.due = w.at(t.dueClock)
		if inst, clk, ok := farInstant(farTok, w.base); ok && t.after == 0 {
			t.due, t.dueClock, t.far = inst, clk, true
		}
		w.mu.Lock()
		w.tasks[t.tag] = t
		if w.armTags[t.tag] && t.after == 0 && !t.far {
			// the hook is keyed by the scheduled time: an armed task gets an instant of its own (the generator gives
			// armed tasks a due clock that no other task of the case has, so this does not reorder anything)
			t.due = t.due.Add(time.Duration(1+armSeq.Add(1)%900000) * time.Nanosecond)
			armed.Store(t.due.UnixNano(), w.relCh(t.tag))
		}
		w.mu.Unlock()
		if t.id >= 0 {
			return w.execTracked(t)
		}
		// serialised with the calls that callbacks make (execTracked / cancelID): the drops are attributed per call
		w.regMu.Lock()
		defer w.regMu.Unlock()
		sizeBefore := w.te.Size()
		w.mu.Lock()
		closedBefore, _ := w.closedSet()
		w.mu.Unlock()
		var h *timed.ScheduledTask
		cb := w.callback(t)
		if p := hx.Safely(func() {
			if t.after > 0 {
				t.due = time.Now().Add(t.after)
				h = w.te.Executor.ExecuteAfter(cb, t.after)
			} else {
				h = w.te.Executor.ExecuteAt(cb, t.arg())
			}
		}); p != "" {
			return "panic"
		}
		if h == nil {
			return "nil"
		}
		w.mu.Lock()
		t.handle, t.scheduled = h, true
		if !w.isSD {
			w.overflw += w.dropsOfAdd(closedBefore, sizeBefore, nil, t)
		}
		w.mu.Unlock()

		return "ok"
	case "ecancel":
		tag, _ := strconv.Atoi(f[1])
		w.mu.Lock()
		t := w.tasks[tag]
		w.mu.Unlock()
		if t == nil || t.handle == nil {
			return "bad-op"
		}
		t.handle.Cancel()
		w.mu.Lock()
		if !t.started {
			t.ecancelled = true
		}
		w.mu.Unlock()

		return "done"
	case "cancel":
		id, _ := strconv.Atoi(f[1])

		return w.cancelID(id, false)
	case "release":
		tag, _ := strconv.Atoi(f[1])
		w.mu.Lock()
		c := w.relCh(tag)
		select {
		case <-c:
		default:
			close(c)
		}
		w.mu.Unlock()

		return "done"
	case "arm":
		tag, _ := strconv.Atoi(f[1])
		w.mu.Lock()
		w.armTags[tag] = true
		w.mu.Unlock()

		return "done"
	case "shutdown", "xshutdown":
		// shutdown: through the TaskExecutor (the promoted method), one flag per argument; xshutdown: on the embedded
		// Executor, the flags or-ed into one argument.  The two types have one Shutdown.
		twin := f[0] == "xshutdown"
		fl := f[1]
		var flags []timed.ShutdownFlag
		if strings.Contains(fl, "c") {
			flags = append(flags, timed.CancelPendingElements)
		}
		if strings.Contains(fl, "i") {
			flags = append(flags, timed.IgnorePendingTimeouts)
		}
		if strings.Contains(fl, "p") {
			flags = append(flags, timed.PanicOnModificationsAfterShutdown)
		}
		if strings.Contains(fl, "d") {
			flags = append(flags, timed.DontWaitForShutdown)
		}
		w.mu.Lock()
		c := &sdCall{flags: fl, called: time.Now()}
		w.sd = append(w.sd, c)
		if !w.isSD {
			w.isSD = true
			// what the generated histories reach (flag table x where the pending elements are): elements a poller
			// holds (popped, callback not started) and elements in the heap at the first Shutdown, per c/i flag set
			held, queued := 0, 0
			for _, t := range w.tasks {
				if t.scheduled && !t.started && !t.cancelTrue && !t.replaced && !t.ecancelled {
					if w.maybePopped(t) && t.after == 0 {
						held++
					} else {
						queued++
					}
				}
			}
			ci := ""
			for _, c := range "ci" {
				if strings.ContainsRune(fl, c) {
					ci += string(c)
				}
			}
			if ci == "" {
				ci = "-"
			}
			if w.hist != nil {
				w.hist[fmt.Sprintf("at-shutdown:%s:held=%d%s:heap=%d%s", ci, min(held, 2), map[bool]string{true: "+"}[held >= 2], min(queued, 1), map[bool]string{true: "+"}[queued >= 1])]++
			}
			if strings.Contains(fl, "i") {
				w.ignore, w.ignAt = true, time.Now()
			}
			if strings.Contains(fl, "c") {
				for _, t := range w.tasks {
					if t.scheduled && !t.started {
						t.sdDropped = true
					}
				}
			}
		}
		w.mu.Unlock()
		go func() {
			p := hx.Safely(func() {
				if twin {
					var all timed.ShutdownFlag
					for _, x := range flags {
						all |= x
					}
					w.te.Executor.Shutdown(all)
				} else {
					w.te.Shutdown(flags...)
				}
			})
			w.mu.Lock()
			c.ret, c.returned, c.panicked = time.Now(), true, p != ""
			w.mu.Unlock()
		}()

		return "called"
	}

	return "bad-op"
}

type caseResult struct {
	pureLate bool // this attempt is timing-invalid although the canary and the harness's own operations were on time
	pureCnt  int  // number of such attempts of the case
	lines   []string
	answers []string
	finds   []finding
	valid   bool
	unit    time.Duration
	tries   int
	hist    map[string]int
	robust  []finding // timing-independent findings of a case that stayed timing-invalid
	hung    bool      // an operation did not return: no retry
}

// runOnce executes the op lines with the given unit; valid=false if the timing of the harness itself was off.
func runOnce(lines []string, unit time.Duration) (res caseResult) {
	res.lines, res.unit, res.hist = lines, unit, map[string]int{}
	w := &world{unit: unit, tasks: map[int]*task{}, idReg: map[int]*task{}, rel: map[int]chan struct{}{}, armTags: map[int]bool{}, hist: res.hist}
	stop := make(chan struct{})
	var maxOver atomic.Int64
	// disturbed is closed as soon as the attempt is known to be timing-invalid for a reason that has nothing to do with
	// the code under test (the canary overslept: the whole process, or the machine, stood still): the attempt is given
	// up at once instead of being played to its end (stalls of 10-100 ms of the whole virtual machine were measured a
	// few times per 10 s while other checks run; they hit every case that is running)
	disturbed := make(chan struct{})
	var disturbOnce sync.Once
	canary := func() {
		step := unit / 4
		for {
			t0 := time.Now()
			select {
			case <-stop:
				return
			case <-time.After(step):
			}
			if over := time.Since(t0) - step; int64(over) > maxOver.Load() {
				maxOver.Store(int64(over))
				if over > unit/4 {
					disturbOnce.Do(func() { close(disturbed) })
				}
			}
		}
	}
	defer func() {
		close(stop)
		// let everything go and stop the workers (in a goroutine of its own: after a hang the books may be locked)
		if w.te != nil {
			go func() {
				worlds.Delete(w.qptr)
				w.mu.Lock()
				for _, t := range w.tasks {
					c := w.relCh(t.tag)
					select {
					case <-c:
					default:
						close(c)
					}
					if w.armTags[t.tag] {
						armed.Delete(t.due.UnixNano())
					}
				}
				w.mu.Unlock()
				hx.Safely(func() { w.te.Shutdown(timed.CancelPendingElements, timed.DontWaitForShutdown) })
			}()
		}
	}()
	sleepUntil := func(t time.Time) {
		if d := time.Until(t); d > 0 {
			time.Sleep(d)
		}
	}
	// the main goroutine's waits between operations end early when the attempt is disturbed
	sleepOrDisturbed := func(t time.Time) {
		if d := time.Until(t); d > 0 {
			tm := time.NewTimer(d)
			select {
			case <-tm.C:
			case <-disturbed:
				tm.Stop()
			}
		}
	}
	giveUp := func() bool {
		select {
		case <-disturbed:
			return true
		default:
			return w.maxLate > unit/4
		}
	}
	for _, line := range lines {
		if w.te != nil && giveUp() {
			w.mu.Lock()
			res.finds = append([]finding(nil), w.finds...)
			w.mu.Unlock()
			res.hist[fmt.Sprintf("invalid:%s@%d", map[bool]string{true: "late-op", false: "canary"}[w.maxLate > unit/4], unit.Milliseconds())]++
			res.hist["attempt-given-up-early"]++

			return res
		}
		f := strings.Fields(line)
		if len(f) == 0 {
			res.answers = append(res.answers, "bad-op")

			continue
		}
		if f[0] == "new" && len(f) == 3 {
			w.w, _ = strconv.Atoi(f[1])
			w.m, _ = strconv.Atoi(f[2])
			w.te = timed.NewTaskExecutor[int](w.w, timed.WithMaxQueueSize(w.m))
			if w.m < 0 {
				w.m = 0 // a negative option value means "no bound", like 0 (the books of the oracle know bounds only)
			}
			if n := w.te.WorkerCount(); n != w.w {
				w.fail("harness", fmt.Sprintf("WorkerCount() = %d for an executor created with %d workers", n, w.w), map[string]string{"oracle": "worker-count"})
			}
			w.qptr = reflect.ValueOf(w.te.Executor).Elem().FieldByName("queue").Pointer()
			worlds.Store(w.qptr, w)
			time.Sleep(unit) // workers park
			w.base = time.Now().Add(unit)
			go canary()
			res.answers = append(res.answers, "ok")

			continue
		}
		if w.te == nil {
			res.answers = append(res.answers, "bad-op")

			continue
		}
		if f[0] == "end" && len(f) == 2 {
			T, _ := strconv.Atoi(f[1])
			sleepOrDisturbed(w.at(T).Add(unit / 2))
			if giveUp() {
				continue // back to the head of the loop, which gives the attempt up
			}
			res.answers = append(res.answers, w.finish(T))

			continue
		}
		now, err := strconv.Atoi(f[0])
		if err != nil || len(f) < 2 {
			res.answers = append(res.answers, "bad-op")

			continue
		}
		target := w.at(now)
		sleepOrDisturbed(target)
		if giveUp() {
			continue
		}
		if late := time.Since(target); late > w.maxLate {
			w.maxLate = late
		}
		if giveUp() {
			continue
		}
		// watchdog: an operation of the public API (and the Size() that follows it) returns at once; if it does not
		// come back within seconds the case hangs (a leaked lock, ...): that is a finding with this case as replay,
		// the rest of the case is skipped and the other cases go on
		type opRes struct{ ans string }
		opDone := make(chan opRes, 1)
		go func() {
			ans := w.exec(f[1:], now)
			w.mu.Lock()
			w.marks = append(w.marks, time.Now())
			w.mu.Unlock()
			sleepUntil(target.Add(unit / 2))
			if ans != "bad-op" {
				ans += " sz=" + strconv.Itoa(w.te.Size())
			}
			// Size() is meant to be read half a unit after the operation: a read that comes a quarter unit late (this
			// goroutine was not scheduled although the canary was) may see the next instant's state
			if time.Since(target.Add(unit/2)) > unit/4 {
				w.slowCall.Store(true)
			}
			opDone <- opRes{ans}
		}()
		select {
		case o := <-opDone:
			res.answers = append(res.answers, o.ans)
		case <-time.After(unit/2 + 4*time.Second):
			locked := false
			for i := 0; i < 50 && !locked; i++ { // the books may be locked by a goroutine that hangs as well
				if locked = w.mu.TryLock(); !locked {
					time.Sleep(2 * time.Millisecond)
				}
			}
			w.fail("hang", fmt.Sprintf("operation '%s' (or the Size() after it) did not return within 4s", line),
				map[string]string{"oracle": "hang", "op": f[1]})
			if locked {
				w.mu.Unlock()
			}
			for len(res.answers) < len(lines) {
				res.answers = append(res.answers, "hang")
			}
			res.finds = w.finds
			res.valid = true
			res.hung = true

			return res
		}
	}
	res.finds = w.finds
	res.valid = time.Duration(maxOver.Load()) <= unit/4 && w.maxLate <= unit/4 && !w.timeout.Load() && !w.slowCall.Load() && !w.glitch
	// why an attempt is timing-invalid (histogram invalid:<reason>@<unit in ms>, evidence of what the machine did)
	machine := time.Duration(maxOver.Load()) > unit/4 || w.maxLate > unit/4
	for k, bad := range map[string]bool{"canary": time.Duration(maxOver.Load()) > unit/4, "late-op": w.maxLate > unit/4,
		"timeout": w.timeout.Load(), "slow-call": w.slowCall.Load(), "off-grid": w.glitch, "off-grid-only": !res.valid && !machine} {
		if bad {
			res.hist[fmt.Sprintf("invalid:%s@%d", k, unit.Milliseconds())]++
		}
	}
	res.pureLate = !res.valid && !machine

	return res
}

// finish waits for what is still owed, evaluates the end-of-case oracles and prints the final answer.
func (w *world) finish(T int) string {
	owed := func() (missing []*task, hung []*sdCall) {
		w.mu.Lock()
		defer w.mu.Unlock()
		// a worker that polled an element due in centuries waits for it (until it is cancelled or a Shutdown flag
		// applies): with every worker in that state nothing else is owed
		stuck := 0
		w.popMu.Lock()
		for _, t := range w.tasks {
			if t.far && t.dueClock > farClock && t.scheduled && len(t.runs) == 0 && !t.cancelTrue && !t.replaced && !t.ecancelled && !t.sdDropped {
				for _, e := range w.qev {
					if e.pop && e.due.Equal(t.due) {
						stuck++

						break
					}
				}
			}
		}
		w.popMu.Unlock()
		for _, t := range w.tasks {
			if t.scheduled && len(t.runs) == 0 && !t.cancelTrue && !t.replaced && !t.ecancelled && !t.sdDropped {
				if t.dueClock > farClock && !w.ignore {
					continue // not due in this session
				}
				if stuck >= w.w {
					continue
				}
				missing = append(missing, t)
			}
		}
		if w.blocked == 0 && stuck == 0 {
			for _, c := range w.sd {
				if !c.returned && !strings.Contains(c.flags, "d") {
					hung = append(hung, c)
				}
			}
		}

		return
	}
	w.mu.Lock()
	runs := append([]*task(nil), w.runLog...)
	type rr struct{ c, tag int }
	var rs []rr
	var ord []string
	seen := map[int]int{}
	for _, t := range runs {
		// a task that ran twice appears twice: its k-th appearance is its k-th run
		rs = append(rs, rr{w.idx(t.runs[seen[t.tag]]), t.tag})
		seen[t.tag]++
		ord = append(ord, strconv.Itoa(t.tag))
	}
	// timing validity, independent of the answers: in a run that is the sequential history of the op lines everything
	// happens right after an integer clock instant - operations and what they trigger at even ones, timers and what
	// they trigger at odd ones.  A poll, an insertion, the start of a callback or the return of a Shutdown more than a
	// quarter unit off the grid means that the machine (timers, goroutine wake-ups) was late: re-run.
	offGrid := func(t time.Time) bool {
		d := t.Sub(w.base)

		return d > 0 && d%w.unit > w.unit/4
	}
	w.popMu.Lock()
	for _, e := range w.qev {
		if offGrid(e.at) {
			w.glitch = true
		}
	}
	w.popMu.Unlock()
	for _, t := range runs {
		for _, at := range t.runs {
			if offGrid(at) {
				w.glitch = true
			}
		}
	}
	// every poll follows something closely: an insertion (a waiting poller was woken), a callback returning or an
	// operation of the harness (a poller became free), the start of a callback
	w.popMu.Lock()
	for _, e := range w.qev {
		if !e.pop || !e.at.After(w.base) {
			continue
		}
		caused := false
		near := func(c time.Time) {
			if d := e.at.Sub(c); d >= -time.Millisecond && d <= w.unit/4 {
				caused = true
			}
		}
		for _, a := range w.qev {
			if !a.pop {
				near(a.at)
			}
		}
		for _, m := range w.marks {
			near(m)
		}
		for _, t := range runs {
			for _, at := range t.runs {
				near(at)
			}
		}
		if !caused {
			w.glitch = true
		}
	}
	w.popMu.Unlock()
	// ... and a delay of about a whole unit lands on the grid again: once an element has been polled and its time has
	// come, its callback must start within a quarter unit
	w.popMu.Lock()
	for _, t := range runs {
		if w.armTags[t.tag] || len(t.runs) == 0 {
			continue
		}
		at := t.runs[0]
		var polled time.Time
		for _, e := range w.qev {
			if e.pop && e.due.Equal(t.due) && e.at.Before(at) {
				polled = e.at
			}
		}
		if polled.IsZero() {
			continue
		}
		ref := t.due
		if polled.After(ref) {
			ref = polled
		}
		if at.Sub(ref) > w.unit/4 {
			w.glitch = true
		}
	}
	w.popMu.Unlock()
	for _, c := range w.sd {
		if !c.returned {
			continue
		}
		if offGrid(c.ret) {
			w.glitch = true
		}
		// Shutdown returns right after the last thing that happened before it (its call, a poll, a callback returning)
		ref := c.called
		upd := func(t time.Time) {
			if t.Before(c.ret) && t.After(ref) {
				ref = t
			}
		}
		for _, m := range w.marks {
			upd(m)
		}
		for _, t := range runs {
			for _, at := range t.runs {
				upd(at)
			}
		}
		w.popMu.Lock()
		for _, e := range w.qev {
			upd(e.at)
		}
		w.popMu.Unlock()
		if c.ret.Sub(ref) > w.unit/4 {
			w.glitch = true
		}
	}
	type sdr struct {
		ret                time.Time
		returned, panicked bool
	}
	sds := make([]sdr, len(w.sd))
	for i, c := range w.sd {
		sds[i] = sdr{c.ret, c.returned, c.panicked}
	}
	w.mu.Unlock()
	// generous bound for the property oracle: everything due is more than two units in the past
	deadline := time.Now().Add(2 * time.Second)
	for {
		missing, hung := owed()
		if len(missing) <= w.overflw && len(hung) == 0 || time.Now().After(deadline) {
			break
		}
		time.Sleep(20 * time.Millisecond)
	}
	missing, hung := owed()
	w.mu.Lock()
	if len(missing) > w.overflw {
		sort.Slice(missing, func(i, j int) bool { return missing[i].tag < missing[j].tag })
		t := missing[0]
		trig := "pending"
		if t.fromCallback {
			trig = "scheduled-from-callback"
		}
		if w.isSD {
			trig += "-at-shutdown"
		}
		w.fail("eventually-delivered", fmt.Sprintf("%d task(s) never ran although neither cancelled nor dropped (first: %d, due clock %d; %d size-bound drops possible)",
			len(missing), t.tag, t.dueClock, w.overflw), map[string]string{"oracle": "missing-delivery", "trigger": trig})
	}
	if len(hung) > 0 {
		w.fail("shutdown-returns", fmt.Sprintf("Executor.Shutdown(%s) did not return although no callback is running and nothing is pending; workers=%d", hung[0].flags, w.w),
			map[string]string{"oracle": "shutdown-hang"})
	}
	w.mu.Unlock()
	sort.Slice(rs, func(i, j int) bool {
		if rs[i].c != rs[j].c {
			return rs[i].c < rs[j].c
		}

		return rs[i].tag < rs[j].tag
	})
	var rp []string
	for _, r := range rs {
		rp = append(rp, fmt.Sprintf("%d:%d", r.c, r.tag))
	}
	ordS := "-"
	if w.w == 1 {
		ordS = strings.Join(ord, " ")
	}
	var sp []string
	for _, c := range sds {
		switch {
		case c.panicked:
			sp = append(sp, "panic")
		case c.returned:
			sp = append(sp, strconv.Itoa(w.idx(c.ret)))
		default:
			sp = append(sp, "never")
		}
	}

	return fmt.Sprintf("runs=[%s] ord=[%s] sd=[%s]", strings.Join(rp, " "), ordS, strings.Join(sp, " "))
}

func runCaseLines(lines []string, unit time.Duration) caseResult {
	var res caseResult
	var robust []finding
	hist := map[string]int{}
	pure := 0
	// A timing-invalid attempt is repeated: three times with the same unit (most disturbances are short stalls of the
	// whole machine that come at random instants - a longer attempt only meets more of them), then with larger units
	// (a machine that is overloaded throughout needs the wider tolerance).
	base := unit
	for try, mult := range []time.Duration{1, 1, 1, 2, 2, 4, 8} {
		try++
		unit = base * mult
		res = runOnce(lines, unit)
		res.tries = try
		if res.pureLate {
			pure++
		}
		res.pureCnt = pure
		for k, v := range res.hist {
			if strings.HasPrefix(k, "at-shutdown:") && !res.valid {
				continue // coverage counters describe the attempt that counts
			}
			hist[k] += v
		}
		res.hist = hist
		if res.valid {
			res.finds = append(robust, res.finds...)

			return res
		}
		for _, f := range res.finds {
			if f.robust {
				robust = append(robust, f)
			}
		}
	}
	res.robust = robust

	return res
}

// ---------------------------------------------------------------------------------------------------------
// generator

func genCase(rng *hx.Rng) []string {
	W := hx.Pick(rng, []int{1, 1, 1, 2, 2, 3})
	M := hx.Pick(rng, []int{0, 0, 0, -1, 1, 2, 3, 0, 0, 0, -3, 1, 2, 3}) // negative: an unusual option value, no bound
	lines := []string{fmt.Sprintf("new %d %d", W, M)}
	n := rng.Range(6, 13)
	clock := 0
	tag := 10
	maxDue := 1
	var toRelease []int
	var rawTags, trackedTags []int
	shut := false
	useArm := M <= 0 && rng.Chance(1, 6)
	armedOne := false
	// instants far away from the session: some cases schedule one or two tasks centuries ahead (never due in the
	// session; IgnorePendingTimeouts delivers them, CancelPendingElements drops them) and tasks long past (zero
	// time.Time or the year 1600 - one of the two per case, they are the same clock 0 for the model)
	farCase := !useArm && rng.Chance(1, 5)
	farLeft := rng.Range(1, 2)
	pastTok := hx.Pick(rng, []string{"z", "y1600"})
	farDue := func() string {
		if farCase && farLeft > 0 && rng.Chance(1, 3) {
			farLeft--

			return hx.Pick(rng, []string{"y2300", "n300", "y9999", "u62"})
		}
		if !useArm && rng.Chance(1, 14) {
			return pastTok
		}

		return ""
	}
	// equal instants differently represented: a quarter of the ExecuteAt calls get their time.Time without monotonic
	// reading and/or in another time zone (see represent)
	repSuffix := func() string {
		if rng.Chance(1, 4) {
			return hx.Pick(rng, []string{"w", "u", "e", "a"})
		}

		return ""
	}
	lastDue := map[int]int{}   // identifier -> due clock of its last ExecuteAt (plain / block / cself)
	used := map[int]bool{}     // due clocks handed out so far
	reserved := map[int]bool{} // due clocks of armed tasks: nobody else may have them
	fix := func(d int, unique bool) int {
		if d < 1 {
			d = 1
		}
		if d%2 == 0 {
			d++
		}
		for reserved[d] || (unique && used[d]) {
			d += 2
		}
		used[d] = true
		if unique {
			reserved[d] = true
		}
		if d > maxDue {
			maxDue = d
		}

		return d
	}
	// genTask picks the callback kind and the due clock.  A re-scheduling task gets a due clock of its own, so
	// that no other timer fires in the same instant on another worker (the order of two concurrent Adds would
	// not be determined).
	// own: the task needs a due clock that no other task of the case has (ExecuteAfter: its due time is the call time
	// plus the delay, i.e. a little after the grid instant - never the same instant as an ExecuteAt task)
	genTask := func(tracked, own bool) (int, string) {
		x := rng.Intn(100)
		oddDue := func(base, lo, hi int) int { return fix(base+rng.Range(lo, hi), own) }
		switch {
		case x < 55 || (!tracked && x < 80):
			return oddDue(clock, -3, 9), "plain"
		case x < 72 || !tracked:
			toRelease = append(toRelease, tag)

			return oddDue(clock, -3, 9), "block"
		case x < 90:
			due := fix(clock+rng.Range(-3, 9), true)
			cd := fix(due+2*rng.Range(1, 3), false)
			blk := 0
			if rng.Chance(1, 3) {
				blk = 1
				toRelease = append(toRelease, tag)
			}
			tag++

			return due, fmt.Sprintf("rs:%d:%d:%d", cd, blk, tag)
		default:
			return oddDue(clock, -3, 9), "cself"
		}
	}
	for i := 0; i < n; i++ {
		x := rng.Intn(100)
		switch {
		case x < 45:
			id := rng.Range(1, 3)
			mytag := tag
			if ft := farDue(); ft != "" {
				lines = append(lines, fmt.Sprintf("%d exec %d %d %s plain", clock, id, mytag, ft))
				tag++

				break
			}
			if d, ok := lastDue[id]; ok && !reserved[d] && rng.Chance(1, 7) {
				// re-arm the identifier for the same instant, handed over in another representation: the new task
				// replaces the pending one all the same
				trackedTags = append(trackedTags, mytag)
				lines = append(lines, fmt.Sprintf("%d exec %d %d %d%s plain", clock, id, mytag, d, hx.Pick(rng, []string{"", "w", "u", "e", "a"})))
				tag++

				break
			}
			after := rng.Chance(1, 4)
			due, k := genTask(true, after)
			trackedTags = append(trackedTags, mytag)
			if due > clock && after {
				// TaskExecutor.ExecuteAfter with the delay that gives the same due clock
				lines = append(lines, fmt.Sprintf("%d execafter %d %d %d %s", clock, id, mytag, due-clock, k))
			} else {
				lines = append(lines, fmt.Sprintf("%d exec %d %d %d%s %s", clock, id, mytag, due, repSuffix(), k))
				if !strings.HasPrefix(k, "rs:") {
					lastDue[id] = due
				}
			}
			tag++
		case x < 55:
			mytag := tag
			if ft := farDue(); ft != "" {
				lines = append(lines, fmt.Sprintf("%d add %d %s plain", clock, mytag, ft))
				rawTags = append(rawTags, mytag)
				tag++

				break
			}
			after := rng.Chance(1, 4)
			due, k := genTask(false, after)
			if due > clock && after {
				lines = append(lines, fmt.Sprintf("%d addafter %d %d %s", clock, mytag, due-clock, k))
			} else {
				lines = append(lines, fmt.Sprintf("%d add %d %d%s %s", clock, mytag, due, repSuffix(), k))
			}
			rawTags = append(rawTags, mytag)
			tag++
		case x < 75:
			lines = append(lines, fmt.Sprintf("%d cancel %d", clock, rng.Range(1, 3)))
		case x < 80 && len(rawTags)+len(trackedTags) > 0:
			// the handle's own Cancel(): of a raw task, or (1 in 3) of a TaskExecutor task, bypassing the identifier map
			if len(rawTags) == 0 || (len(trackedTags) > 0 && rng.Chance(1, 3)) {
				lines = append(lines, fmt.Sprintf("%d ecancel %d", clock, hx.Pick(rng, trackedTags)))
			} else {
				lines = append(lines, fmt.Sprintf("%d ecancel %d", clock, hx.Pick(rng, rawTags)))
			}
		case x < 86 && len(toRelease) > 0:
			j := rng.Intn(len(toRelease))
			lines = append(lines, fmt.Sprintf("%d release %d", clock, toRelease[j]))
			toRelease = append(toRelease[:j], toRelease[j+1:]...)
		case x < 92 && !shut && (!useArm || armedOne) && i > 2:
			fl := ""
			for _, c := range "cipd" {
				// With CancelPendingElements the fate of an element that a poller parked in the hook holds past its due time
				// is decided by Go's random select (context case: dropped, timer case: delivered) - both are allowed by the
				// property, but the driver's fixed schedule can only follow one: no `c` in cases that use the hook.
				if rng.Chance(1, 3) && !(useArm && c == 'c') {
					fl += string(c)
				}
			}
			if farCase && !strings.ContainsAny(fl, "ci") {
				// a Shutdown that waits out an element due in centuries never returns
				fl += hx.Pick(rng, []string{"c", "i"})
			}
			if fl == "" {
				fl = "-"
			}
			lines = append(lines, fmt.Sprintf("%d %s %s", clock, hx.Pick(rng, []string{"shutdown", "xshutdown"}), fl))
			shut = true
		case x < 96 && useArm && !armedOne:
			// park the poller of a raw task in the hook, cancel the element, let the poller go on
			due := fix(clock+rng.Range(-3, 3), true)
			lines = append(lines, fmt.Sprintf("%d arm %d", clock, tag))
			clock += 2
			if rng.Bool() {
				lines = append(lines, fmt.Sprintf("%d add %d %d%s plain", clock, tag, due, repSuffix()))
				rawTags = append(rawTags, tag)
			} else {
				lines = append(lines, fmt.Sprintf("%d exec %d %d %d%s plain", clock, rng.Range(1, 3), tag, due, repSuffix()))
			}
			toRelease = append(toRelease, tag)
			armedOne = true
			tag++
		default:
			lines = append(lines, fmt.Sprintf("%d nop", clock))
		}
		clock += 2 * rng.Range(1, 2)
	}
	for _, t := range toRelease {
		lines = append(lines, fmt.Sprintf("%d release %d", clock, t))
		clock += 2
	}
	end := maxDue
	if clock > end {
		end = clock
	}
	lines = append(lines, fmt.Sprintf("end %d", end+3))

	return lines
}

// corpus: hand-written histories (witnesses of the defects of the unchanged tree, flag matrix corners).
func corpus() [][]string {
	c := [][]string{
		// a callback re-schedules its own identifier; the new task must stay tracked (Cancel -> true, it never runs)
		{"new 1 0", "0 exec 1 10 1 rs:9:0:11", "4 cancel 1", "end 12"},
		{"new 1 0", "0 exec 1 10 1 rs:9:1:11", "4 cancel 1", "6 release 10", "end 12"},
		{"new 2 0", "0 exec 1 10 1 rs:7:0:11", "4 exec 1 12 9 plain", "end 12"},
		// Cancel while the callback is running must return false
		{"new 1 0", "0 exec 1 10 1 block", "4 cancel 1", "6 release 10", "end 10"},
		{"new 2 0", "0 exec 1 10 1 block", "4 exec 1 11 7 plain", "6 cancel 1", "8 release 10", "end 12"},
		// a callback cancels its own identifier
		{"new 1 0", "0 exec 1 10 1 cself", "4 cancel 1", "end 8"},
		// Shutdown with pending elements and idle workers must return; pending elements are still delivered
		{"new 2 0", "0 exec 1 10 5 plain", "2 shutdown -", "end 10"},
		{"new 3 0", "0 exec 1 10 5 plain", "2 shutdown c", "end 10"},
		{"new 2 0", "0 exec 1 10 9 plain", "2 exec 2 11 7 plain", "4 exec 3 12 11 plain", "6 shutdown i", "end 14"},
		{"new 1 0", "0 exec 1 10 9 plain", "2 exec 2 11 5 plain", "4 shutdown p", "6 exec 3 12 9 plain", "8 shutdown -", "10 shutdown d", "end 14"},
		{"new 1 0", "0 exec 1 10 9 plain", "2 shutdown cd", "4 cancel 1", "end 12"},
		{"new 1 0", "0 exec 1 10 7 plain", "2 shutdown -", "4 exec 1 11 9 plain", "6 cancel 1", "end 12"},
		{"new 1 0", "0 exec 1 10 9 plain", "2 shutdown p", "4 exec 1 11 9 plain", "6 cancel 1", "end 12"},
		// cancel racing a ready timer: the poller is parked in the hook, the element is cancelled, the poller goes on
		{"new 1 0", "0 arm 10", "2 add 10 1 plain", "4 ecancel 10", "6 release 10", "end 10"},
		{"new 1 0", "0 arm 10", "2 add 10 1 plain", "4 ecancel 10", "6 release 10", "8 add 11 9 plain", "end 12"},
		// size bound: the element in the last heap slot is dropped; its identifier stays registered
		{"new 1 1", "0 exec 1 10 3 block", "4 exec 2 11 9 plain", "6 exec 3 12 7 plain", "8 cancel 2", "10 cancel 3", "12 release 10", "end 16"},
		{"new 1 2", "0 exec 1 10 1 block", "4 add 11 9 plain", "6 add 12 7 plain", "8 add 13 5 plain", "10 add 14 11 plain", "12 release 10", "end 16"},
		// head-of-line: a worker commits to the element it popped
		{"new 1 0", "0 exec 1 10 11 plain", "2 exec 2 11 7 plain", "4 exec 3 12 5 plain", "6 cancel 2", "8 exec 2 13 9 plain", "end 14"},
		{"new 2 0", "0 add 10 9 plain", "2 add 11 13 plain", "4 add 12 5 plain", "6 add 13 3 plain", "8 ecancel 10", "end 16"},
	}
	c = append(c,
		// instants far away: never delivered in the session, delivered at once by IgnorePendingTimeouts, dropped by
		// CancelPendingElements; long past ones are due at once and before everything else
		[]string{"new 1 0", "0 add 10 y2300 plain", "2 add 11 z plain", "4 add 12 5 plain", "6 shutdown id", "end 10"},
		[]string{"new 2 0", "0 exec 1 10 u62 plain", "2 exec 2 11 y9999 plain", "4 add 12 5 plain", "6 add 13 y1600 plain", "8 cancel 1", "10 add 14 11 plain", "12 shutdown c", "end 16"},
		[]string{"new 2 0", "0 add 10 n300 plain", "2 add 11 7 plain", "4 add 12 z plain", "6 add 13 y1600 plain", "8 ecancel 10", "end 12"},
		[]string{"new 3 2", "0 add 10 y9999 plain", "2 add 11 y2300 plain", "4 add 12 n300 plain", "6 add 13 9 plain", "8 shutdown i", "end 12"},
		// Shutdown(PanicOnModificationsAfterShutdown) with tasks pending, then a refused (panicking) ExecuteAt: the
		// pending tasks are still delivered and Cancel still returns
		[]string{"new 1 0", "0 exec 1 10 9 plain", "2 add 11 11 plain", "4 shutdown pd", "6 exec 2 12 13 plain", "8 cancel 1", "end 16"},
		[]string{"new 2 0", "0 add 10 7 plain", "2 add 11 9 plain", "4 add 12 11 plain", "6 shutdown p", "8 add 13 13 plain", "10 ecancel 12", "end 16"},
		// ExecuteAfter: the due time is the call time plus the delay
		[]string{"new 1 0", "0 execafter 1 10 5 plain", "2 addafter 11 9 plain", "4 execafter 1 12 3 plain", "end 14"},
		[]string{"new 2 1", "0 addafter 10 7 block", "2 addafter 11 3 plain", "4 execafter 2 12 9 plain", "6 addafter 13 1 plain", "10 release 10", "end 16"})
	c = append(c,
		// re-scheduling an identifier on a full queue: the replaced task leaves the heap before the new one enters it,
		// so nothing is dropped (a replacement does not change the number of pending tasks) - whether the new task is
		// due later than everything else (it would sit in the last slot) or earlier (it would push another one there)
		[]string{"new 1 2", "0 exec 1 10 1 block", "4 exec 2 11 9 plain", "6 exec 3 12 11 plain", "8 exec 3 13 13 plain", "10 release 10", "end 18"},
		[]string{"new 1 2", "0 exec 1 10 1 block", "4 exec 2 11 9 plain", "6 exec 3 12 11 plain", "8 exec 3 13 7 plain", "10 release 10", "end 18"},
		[]string{"new 1 1", "0 exec 1 10 1 block", "4 exec 2 11 9 plain", "6 exec 2 12 11 plain", "8 cancel 2", "10 release 10", "end 14"},
		[]string{"new 1 1", "0 exec 1 10 1 block", "4 exec 2 11 9 plain", "6 exec 2 12 7 plain", "8 exec 2 13 11 plain", "10 release 10", "end 16"},
		[]string{"new 2 3", "0 exec 1 10 1 block", "2 exec 2 11 1 block", "6 exec 3 12 11 plain", "8 exec 4 13 13 plain", "10 exec 5 14 15 plain",
			"12 exec 4 15 9 plain", "14 execafter 3 16 5 plain", "16 exec 5 17 21 plain", "18 release 10", "20 release 11", "end 26"},
		// ... while a genuine overflow still drops the last slot
		[]string{"new 1 2", "0 exec 1 10 1 block", "4 exec 2 11 9 plain", "6 exec 3 12 11 plain", "8 exec 4 13 7 plain", "10 exec 4 14 13 plain", "12 cancel 2", "14 release 10", "end 20"})
	// ScheduledTask.Cancel() on the handle of a TaskExecutor task (bypassing the identifier map): the task never runs,
	// Cancel(id) afterwards returns false (nothing pending), a later ExecuteAt(id) schedules normally
	c = append(c,
		[]string{"new 1 0", "0 exec 1 10 9 plain", "2 ecancel 10", "4 cancel 1", "6 exec 1 11 11 plain", "8 cancel 1", "end 14"},
		[]string{"new 2 2", "0 exec 1 10 1 block", "2 exec 2 11 9 plain", "4 exec 3 12 11 plain", "6 ecancel 11", "8 exec 4 13 13 plain", "10 exec 2 14 7 plain", "12 release 10", "end 18"},
		[]string{"new 1 0", "0 exec 1 10 5 block", "8 ecancel 10", "10 exec 1 11 13 plain", "12 release 10", "end 16"})
	// every Shutdown flag combination on both types, with a tracked and a raw task pending (one held by the worker, one
	// in the heap), a Cancel(id) after the call and a second Shutdown: with DontWaitForShutdown and without
	// CancelPendingElements the pending tasks still run (at their time, or at once with IgnorePendingTimeouts) and
	// Cancel(id) of the still pending task returns true
	for _, fl := range []string{"-", "c", "i", "p", "d", "ci", "cp", "cd", "ip", "id", "pd", "cip", "cid", "cpd", "ipd", "cipd"} {
		for _, sd := range []string{"shutdown", "xshutdown"} {
			c = append(c, []string{"new 1 0", "0 exec 1 10 9 plain", "2 add 11 11 plain", "4 exec 2 12 13 plain", "6 " + sd + " " + fl,
				"8 cancel 2", "10 " + map[string]string{"shutdown": "xshutdown", "xshutdown": "shutdown"}[sd] + " d", "end 18"})
		}
	}
	for i := 0; i < 12; i++ {
		c = append(c, []string{"new 1 0", "0 arm 10", "2 add 10 1 plain", "4 ecancel 10", "6 release 10", "end 10"})
	}
	// Shutdown(IgnorePendingTimeouts) immediately followed by the Cancel of the element the poller holds (parked in
	// the hook between timer creation and select): the poller must go on and deliver the other pending elements
	// now.  select picks between the cancelled context and the closed cancel channel at random: several copies.
	for i := 0; i < 5; i++ {
		c = append(c,
			[]string{"new 1 0", "0 arm 10", "2 add 10 21 plain", "4 add 11 23 plain", "6 add 12 25 plain", "8 shutdown i", "10 ecancel 10", "12 release 10", "end 28"},
			[]string{"new 1 0", "0 arm 10", "2 exec 1 10 21 plain", "4 exec 2 11 23 plain", "6 add 12 25 plain", "8 shutdown id", "10 cancel 1", "12 release 10", "end 28"},
			[]string{"new 2 0", "0 arm 10", "2 add 10 21 plain", "4 add 11 23 plain", "6 add 12 19 block", "8 add 13 25 plain", "10 shutdown i", "12 ecancel 10", "14 release 10", "16 release 12", "end 30"})
	}

	// A plain Shutdown() (no flag) while the poller holds an element (parked in the hook between timer creation and
	// select), then the element's time passes, then it is cancelled, and only then the poller goes on: the context, the
	// cancel channel and the timer are all ready.  The outer select picks one of the three at random; behind the context
	// case the inner select of the shutdown branch picks between the cancel channel and the timer, again at random, and
	// the timer case has to look at the cancel channel once more.  A cancelled element must not be delivered on any of
	// these paths (one in six runs takes the inner timer case: many copies), the element behind it still runs at its time.
	// (A TaskExecutor task is protected a second time by its wrapper's registration test: the raw task is the sharper probe.)
	for i := 0; i < 48; i++ {
		c = append(c, []string{"new 1 0", "0 arm 10", "2 add 10 5 plain", "4 add 11 17 plain", "6 shutdown -", "8 ecancel 10", "10 release 10", "end 22"})
		if i%4 == 0 {
			c = append(c, []string{"new 1 0", "0 arm 10", "2 exec 1 10 5 plain", "4 exec 2 11 17 plain", "6 xshutdown -", "8 cancel 1", "10 release 10", "end 22"})
		}
	}
	// Equal instants differently represented (see represent): re-arming an identifier for the same instant replaces
	// the pending task whatever the two time.Time values look like (all 25 pairs; the first task must never run, the
	// second runs once at 9), ...
	reps := []string{"", "w", "u", "e", "a"}
	for _, a := range reps {
		for _, b := range reps {
			c = append(c, []string{"new 1 0", "0 exec 1 10 9" + a + " plain", "2 exec 1 11 9" + b + " plain", "4 cancel 2", "end 12"})
		}
	}
	// ... three identifiers and a raw task for the same instant in four representations are a tie in the heap (run order
	// = pop order of the model), a Cancel(id) in between takes out exactly its own; the same on a bounded queue; an
	// armed task whose poller waits in the hook for a wall-clock-only instant while the element is cancelled
	c = append(c,
		[]string{"new 1 0", "0 exec 1 10 9u plain", "2 exec 2 11 9e plain", "4 add 12 9a plain", "6 exec 3 13 9w plain", "8 cancel 2", "end 12"},
		[]string{"new 2 0", "0 exec 1 10 9a plain", "2 exec 2 11 7u plain", "4 exec 1 12 7e plain", "6 exec 2 13 9w plain", "end 12"},
		[]string{"new 1 2", "0 exec 1 10 5w block", "4 exec 2 11 9u plain", "6 exec 3 12 9e plain", "8 exec 1 13 9a plain", "10 cancel 2", "12 release 10", "end 16"},
		[]string{"new 1 0", "0 arm 10", "2 add 10 5w plain", "4 add 11 9u plain", "6 ecancel 10", "8 release 10", "end 12"},
		[]string{"new 1 0", "0 arm 10", "2 exec 1 10 5a plain", "4 exec 1 11 5e plain", "8 release 10", "end 12"},
		// an unusual option value: WithMaxQueueSize(-1) / (-2) is "no bound" - nothing is ever dropped
		[]string{"new 1 -1", "0 exec 1 10 3 block", "4 exec 2 11 9 plain", "6 exec 3 12 7 plain", "8 add 13 11 plain", "10 cancel 2", "12 release 10", "end 16"},
		[]string{"new 2 -2", "0 add 10 9 plain", "2 add 11 7 plain", "4 add 12 5 plain", "6 exec 1 13 9u plain", "end 12"})

	return c
}

// ---------------------------------------------------------------------------------------------------------
// stress: TaskExecutor.Cancel / ExecuteAt against the pollers with sub-millisecond delays

type strTask struct {
	x, id   int
	due     time.Time
	runs    atomic.Int32
	revoked atomic.Bool // Cancel(id) returned true for it, or it was replaced while not started (owner's view)
}

func runStress(r *rec, sub uint64, variant string, workers, owners, rounds int) {
	r.Case(sub)
	rng := hx.NewRng(sub)
	op := fmt.Sprintf("stress %s %d %d %d", variant, workers, owners, rounds)
	te := timed.NewTaskExecutor[int](workers)
	base := time.Now()
	us := func(t time.Time) int64 {
		d := t.Sub(base).Microseconds()
		if d < 0 {
			d = 0
		}

		return d
	}
	var mu sync.Mutex
	var evs []string
	logf := func(format string, a ...any) {
		mu.Lock()
		evs = append(evs, fmt.Sprintf(format, a...))
		mu.Unlock()
	}
	var nextX atomic.Int32
	var all sync.Map
	var fails []finding
	failf := func(oracle, detail string, sig map[string]string) {
		mu.Lock()
		fails = append(fails, finding{oracle, detail, sig, true})
		mu.Unlock()
	}
	var wg sync.WaitGroup
	seeds := make([]uint64, owners)
	for i := range seeds {
		seeds[i] = rng.U64()
	}
	for o := 0; o < owners; o++ {
		wg.Add(1)
		go func(id int, lr *hx.Rng) {
			defer wg.Done()
			for k := 0; k < rounds; k++ {
				t := &strTask{x: int(nextX.Add(1)), id: id}
				t.due = time.Now().Add(time.Duration(lr.Intn(1500)) * time.Microsecond)
				all.Store(t.x, t)
				logf("sched %d %d %d", t.x, id, us(t.due))
				h := te.ExecuteAt(id, func() {
					now := time.Now()
					n := t.runs.Add(1)
					logf("run %d %d", t.x, us(now))
					if n > 1 {
						failf("at-most-once", fmt.Sprintf("stress: task ran %d times", n), map[string]string{"oracle": "double-run", "mode": "stress"})
					}
					if now.Before(t.due) {
						failf("never-early", "stress: task ran before its time", map[string]string{"oracle": "early", "mode": "stress"})
					}
					if t.revoked.Load() {
						failf("cancel-honoured", "stress: task ran after Cancel(id) returned true for it", map[string]string{"oracle": "ran-after-cancel-true", "mode": "stress"})
					}
				}, t.due)
				if h == nil {
					failf("eventually-delivered", "stress: ExecuteAt returned nil before Shutdown", map[string]string{"oracle": "refused", "mode": "stress"})
				}
				time.Sleep(time.Duration(lr.Intn(1800)) * time.Microsecond)
				if variant == "cancel" || lr.Chance(1, 2) {
					res := te.Cancel(id)
					if res {
						t.revoked.Store(true)
						logf("cres %d true %d", id, t.x)
						if t.runs.Load() > 0 {
							failf("cancel-result", "stress: Cancel(id) returned true although the task had started", map[string]string{"oracle": "cancel-true-but-ran", "mode": "stress"})
						}
					} else {
						logf("cres %d false %d", id, t.x)
					}
				} else {
					// let it run before the identifier is used again
					for i := 0; i < 2000 && t.runs.Load() == 0; i++ {
						time.Sleep(100 * time.Microsecond)
					}
				}
			}
		}(o+1, hx.NewRng(seeds[o]))
	}
	wg.Wait()
	time.Sleep(20 * time.Millisecond)
	// end-of-run accounting: every task ran exactly once or was revoked
	missing := 0
	for i := 0; i < 200; i++ {
		missing = 0
		all.Range(func(_, v any) bool {
			t := v.(*strTask)
			if t.runs.Load() == 0 && !t.revoked.Load() {
				missing++
			}

			return true
		})
		if missing == 0 {
			break
		}
		time.Sleep(10 * time.Millisecond)
	}
	if missing > 0 {
		failf("eventually-delivered", fmt.Sprintf("stress: %d task(s) neither ran nor were cancelled", missing), map[string]string{"oracle": "missing-delivery", "mode": "stress"})
	}
	all.Range(func(_, v any) bool {
		t := v.(*strTask)
		if t.runs.Load() > 0 && t.revoked.Load() {
			failf("cancel-result", "stress: a task ran although Cancel(id) returned true for it", map[string]string{"oracle": "cancel-true-but-ran", "mode": "stress"})
		}

		return true
	})
	done := make(chan struct{})
	go func() { te.Shutdown(); close(done) }()
	select {
	case <-done:
	case <-time.After(5 * time.Second):
		failf("shutdown-returns", "stress: Executor.Shutdown() did not return", map[string]string{"oracle": "shutdown-hang", "mode": "stress"})
	}
	r.Line(op, "done")
	mu.Lock()
	for _, e := range evs {
		r.Line("ev "+e, "ok")
	}
	n := len(evs)
	mu.Unlock()
	r.Line("check", "accept")
	seen := map[string]bool{}
	for _, f := range fails {
		if !seen[f.oracle+f.sig["oracle"]] {
			seen[f.oracle+f.sig["oracle"]] = true
			r.Fail(f.oracle, f.detail, f.sig)
		}
	}
	r.Count("stress:" + variant)
	r.CountN("stress-events", n)
	r.Nontrivial(fmt.Sprintf("stress-%d", sub))
}

// runBurst: ExecuteAt immediately followed by Shutdown(flags) while the other workers are still parked in
// waitCond.Wait(): Shutdown must return, pending tasks are delivered or dropped according to the flags.
func runBurst(r *rec, sub uint64, fl string, workers, k, reps int) {
	r.Case(sub)
	op := fmt.Sprintf("burst %s %d %d %d", fl, workers, k, reps)
	var flags []timed.ShutdownFlag
	if strings.Contains(fl, "c") {
		flags = append(flags, timed.CancelPendingElements)
	}
	if strings.Contains(fl, "i") {
		flags = append(flags, timed.IgnorePendingTimeouts)
	}
	var evs []string
	var fails []finding
	x := 0
	for rep := 0; rep < reps; rep++ {
		te := timed.NewTaskExecutor[int](workers)
		time.Sleep(time.Millisecond)
		base := time.Now()
		var mu sync.Mutex
		var loc []string
		us := func(t time.Time) int64 { return max(t.Sub(base).Microseconds(), 0) }
		type bt struct {
			x    int
			due  time.Time
			runs int
		}
		var ts []*bt
		for i := 0; i < k; i++ {
			x++
			t := &bt{x: x, due: base.Add(time.Duration(1+i) * 1500 * time.Microsecond)}
			ts = append(ts, t)
			loc = append(loc, fmt.Sprintf("sched %d %d %d", t.x, i+1, us(t.due)))
		}
		ignored := false
		for i, t := range ts {
			t := t
			te.ExecuteAt(i+1, func() {
				now := time.Now()
				mu.Lock()
				t.runs++
				loc = append(loc, fmt.Sprintf("run %d %d", t.x, us(now)))
				if now.Before(t.due) && !ignored {
					fails = append(fails, finding{"never-early", "burst: task ran before its time without IgnorePendingTimeouts", map[string]string{"oracle": "early", "mode": "burst"}, true})
				}
				mu.Unlock()
			}, t.due)
		}
		mu.Lock()
		ignored = strings.Contains(fl, "i")
		loc = append(loc, fmt.Sprintf("shutdown %d %d", b2i(strings.Contains(fl, "c")), b2i(strings.Contains(fl, "i"))))
		mu.Unlock()
		done := make(chan struct{})
		go func() { te.Shutdown(flags...); close(done) }()
		select {
		case <-done:
		case <-time.After(2 * time.Second):
			mu.Lock()
			fails = append(fails, finding{"shutdown-returns", fmt.Sprintf("burst: %d idle workers, ExecuteAt x%d, Shutdown(%s) did not return within 2s", workers, k, fl), map[string]string{"oracle": "shutdown-hang", "mode": "burst"}, true})
			mu.Unlock()
		}
		time.Sleep(time.Duration(k+2) * 1500 * time.Microsecond)
		mu.Lock()
		for _, t := range ts {
			if t.runs > 1 {
				fails = append(fails, finding{"at-most-once", "burst: task ran twice", map[string]string{"oracle": "double-run", "mode": "burst"}, true})
			}
			if t.runs == 0 && !strings.Contains(fl, "c") {
				fails = append(fails, finding{"eventually-delivered", fmt.Sprintf("burst: a task pending at Shutdown(%s) never ran", fl), map[string]string{"oracle": "missing-delivery", "mode": "burst"}, true})
			}
		}
		evs = append(evs, loc...)
		mu.Unlock()
	}
	r.Line(op, "done")
	for _, e := range evs {
		r.Line("ev "+e, "ok")
	}
	r.Line("check", "accept")
	seen := map[string]bool{}
	for _, f := range fails {
		if !seen[f.oracle+f.sig["oracle"]] {
			seen[f.oracle+f.sig["oracle"]] = true
			r.Fail(f.oracle, f.detail, f.sig)
		}
	}
	r.Count("burst:" + fl)
	r.CountN("stress-events", len(evs))
	r.Nontrivial(fmt.Sprintf("burst-%s-%d-%d", fl, workers, k))
}

// runCbShutdown: Executor.Shutdown called from inside a callback.  k tasks 2 ms apart; the callback of the second one
// calls te.Shutdown(flags..., DontWaitForShutdown) (wait == false), or te.Shutdown(flags...) without it (wait == true:
// that call waits for the WaitGroup, i.e. for its own worker, and never returns - by design; with two or more workers
// the others must go on all the same).  After the call (wait == false) the callback tries ExecuteAt (must be refused)
// and Cancel of the last identifier.  Whatever was pending when Shutdown was called is delivered exactly once at its
// time (no flag), at once (IgnorePendingTimeouts), or dropped (CancelPendingElements - then it never runs, or runs once
// not before its time if a poller held it past its time); a task with Cancel(id) = true never runs; nothing runs
// twice; a later Shutdown(DontWaitForShutdown) from outside returns.  The trace is also judged by okLog.
func runCbShutdown(r *rec, sub uint64, fl string, workers int, wait bool, reps int) {
	r.Case(sub)
	op := fmt.Sprintf("cbshutdown %s %d %v %d", fl, workers, wait, reps)
	flags := []timed.ShutdownFlag{}
	if strings.Contains(fl, "c") {
		flags = append(flags, timed.CancelPendingElements)
	}
	if strings.Contains(fl, "i") {
		flags = append(flags, timed.IgnorePendingTimeouts)
	}
	if strings.Contains(fl, "p") {
		flags = append(flags, timed.PanicOnModificationsAfterShutdown)
	}
	if !wait {
		flags = append(flags, timed.DontWaitForShutdown)
	}
	const k = 5
	var evs []string
	var fails []finding
	x := 0
	for rep := 0; rep < reps; rep++ {
		te := timed.NewTaskExecutor[int](workers)
		time.Sleep(time.Millisecond)
		base := time.Now().Add(2 * time.Millisecond)
		var mu sync.Mutex
		var loc []string
		us := func(t time.Time) int64 { return max(t.Sub(base).Microseconds(), 0) }
		type bt struct {
			x, id      int
			due        time.Time
			runs       int
			cancelTrue bool
		}
		ts := make([]*bt, k)
		var sdAt time.Time // when the callback called Shutdown (zero: not yet)
		var refusedOK, sdReturned atomic.Bool
		for i := 0; i < k; i++ {
			x++
			ts[i] = &bt{x: x, id: i + 1, due: base.Add(time.Duration(i) * 2 * time.Millisecond)}
		}
		for i, t := range ts {
			i, t := i, t
			mu.Lock()
			loc = append(loc, fmt.Sprintf("sched %d %d %d", t.x, t.id, us(t.due)))
			mu.Unlock()
			te.ExecuteAt(t.id, func() {
				now := time.Now()
				mu.Lock()
				t.runs++
				loc = append(loc, fmt.Sprintf("run %d %d", t.x, us(now)))
				if now.Before(t.due) && !(strings.Contains(fl, "i") && !sdAt.IsZero()) {
					fails = append(fails, finding{"never-early", fmt.Sprintf("cbshutdown: task %d ran %v before its time (IgnorePendingTimeouts given: %v, Shutdown called: %v)", t.id, t.due.Sub(now), strings.Contains(fl, "i"), !sdAt.IsZero()), map[string]string{"oracle": "early", "mode": "cbshutdown"}, true})
				}
				if t.cancelTrue {
					fails = append(fails, finding{"cancel-honoured", fmt.Sprintf("cbshutdown: task %d ran although Cancel(%d) had returned true", t.id, t.id), map[string]string{"oracle": "ran-after-cancel-true", "mode": "cbshutdown"}, true})
				}
				mu.Unlock()
				if i != 1 {
					return
				}
				// the event goes into the trace before the call, the time is taken before it too (what happens after
				// the first step of Shutdown is "after the shutdown")
				mu.Lock()
				sdAt = time.Now()
				loc = append(loc, fmt.Sprintf("shutdown %d %d", b2i(strings.Contains(fl, "c")), b2i(strings.Contains(fl, "i"))))
				mu.Unlock()
				te.Shutdown(flags...) // wait == true: never returns
				sdReturned.Store(true)
				var h *timed.ScheduledTask
				p := hx.Safely(func() { h = te.ExecuteAt(9, func() {}, time.Now()) })
				refusedOK.Store(h == nil && (p != "") == strings.Contains(fl, "p"))
				last := ts[k-1]
				mu.Lock()
				ranBefore := last.runs
				mu.Unlock()
				res := te.Cancel(last.id)
				mu.Lock()
				loc = append(loc, fmt.Sprintf("cres %d %v %d", last.id, res, last.x))
				if res {
					last.cancelTrue = true
					if ranBefore > 0 || last.runs > 0 {
						fails = append(fails, finding{"cancel-result", fmt.Sprintf("cbshutdown: Cancel(%d) returned true for a task that had run", last.id), map[string]string{"oracle": "cancel-true-nothing-pending", "mode": "cbshutdown"}, true})
					}
				}
				mu.Unlock()
			}, t.due)
		}
		// everything that must run has run, or 2 s
		need := func() (missing int) {
			mu.Lock()
			defer mu.Unlock()
			for _, t := range ts {
				// with CancelPendingElements everything that had not started when the callback called Shutdown may be
				// dropped - also the first task, if the machine stood still for the 2 ms between the two due times and
				// its poller then found the context cancelled together with its timer (seen in the thorough tier)
				if t.runs == 0 && !t.cancelTrue && !strings.Contains(fl, "c") {
					missing++
				}
			}

			return
		}
		deadline := time.Now().Add(2 * time.Second)
		for (need() > 0 || (!wait && !sdReturned.Load())) && time.Now().Before(deadline) {
			time.Sleep(time.Millisecond)
		}
		time.Sleep(3 * time.Millisecond) // a second run of something would come now
		if n := need(); n > 0 {
			fails = append(fails, finding{"eventually-delivered", fmt.Sprintf("cbshutdown: %d task(s) pending when a callback called Shutdown(%s) (waiting for itself: %v, %d workers) never ran although neither cancelled nor dropped", n, fl, wait, workers), map[string]string{"oracle": "missing-delivery", "mode": "cbshutdown"}, true})
		}
		if !wait {
			if !sdReturned.Load() {
				fails = append(fails, finding{"shutdown-returns", fmt.Sprintf("cbshutdown: Shutdown(%s, DontWaitForShutdown) called from a callback did not return", fl), map[string]string{"oracle": "shutdown-hang", "mode": "cbshutdown"}, true})
			} else if !refusedOK.Load() {
				fails = append(fails, finding{"harness", fmt.Sprintf("cbshutdown: ExecuteAt after Shutdown(%s) from a callback was not refused (nil, panic exactly with the panic flag)", fl), map[string]string{"oracle": "not-refused", "mode": "cbshutdown"}, true})
			}
		}
		// a later Shutdown from outside that does not wait must return at once (wait == true: one worker is inside
		// Shutdown forever, so a waiting call would not return either - by design)
		if !within(3*time.Second, func() { hx.Safely(func() { te.Shutdown(timed.DontWaitForShutdown) }) }) {
			fails = append(fails, finding{"shutdown-returns", "cbshutdown: a second Shutdown(DontWaitForShutdown) did not return", map[string]string{"oracle": "shutdown-hang", "mode": "cbshutdown-second"}, true})
		}
		mu.Lock()
		for _, t := range ts {
			if t.runs > 1 {
				fails = append(fails, finding{"at-most-once", fmt.Sprintf("cbshutdown: task %d ran %d times", t.id, t.runs), map[string]string{"oracle": "double-run", "mode": "cbshutdown"}, true})
			}
		}
		evs = append(evs, loc...)
		mu.Unlock()
	}
	r.Line(op, "done")
	for _, e := range evs {
		r.Line("ev "+e, "ok")
	}
	r.Line("check", "accept")
	seen := map[string]bool{}
	for _, f := range fails {
		if !seen[f.oracle+f.sig["oracle"]] {
			seen[f.oracle+f.sig["oracle"]] = true
			r.Fail(f.oracle, f.detail, f.sig)
		}
	}
	r.Count("cbshutdown:" + fl + map[bool]string{true: ":waits-for-itself", false: ""}[wait])
	r.CountN("stress-events", len(evs))
	r.Nontrivial(fmt.Sprintf("cbshutdown-%s-%d-%v", fl, workers, wait))
}

// runAddRace: forced schedule through the verif hook in Queue.Add.  ExecuteAt passes the shutdown check, then
// Shutdown() runs (as far as it can), then the element is inserted.  An element whose ExecuteAt returned non-nil
// and that is neither cancelled nor dropped by a flag must still be delivered.
func runAddRace(r *rec, sub uint64, workers, reps int) {
	r.Case(sub)
	op := fmt.Sprintf("addrace %d %d", workers, reps)
	var fails []finding
	var evs []string
	for rep := 0; rep < reps; rep++ {
		te := timed.NewTaskExecutor[int](workers)
		time.Sleep(time.Millisecond)
		base := time.Now()
		due := base.Add(3*time.Millisecond + time.Duration(1+armSeq.Add(1)%900000)*time.Nanosecond)
		// odd rounds park the adder right before it takes the heap lock, even rounds inside the critical section
		g := &addGate{entered: make(chan struct{}), release: make(chan struct{}), prelock: rep%2 == 1}
		addArmed.Store(due.UnixNano(), g)
		var ran atomic.Int32
		var ranAt atomic.Int64
		res := make(chan bool, 1)
		go func() {
			h := te.ExecuteAt(1, func() { ranAt.Store(time.Since(base).Microseconds()); ran.Add(1) }, due)
			res <- h != nil
		}()
		select {
		case <-g.entered:
		case <-time.After(5 * time.Second):
			fails = append(fails, finding{"harness", "addrace: Queue.Add never reached the hook", map[string]string{"oracle": "harness-timeout", "mode": "addrace"}, true})
		}
		sdDone := make(chan struct{})
		go func() { te.Shutdown(); close(sdDone) }()
		select {
		case <-sdDone:
		case <-time.After(100 * time.Millisecond):
		}
		// lock order: while Shutdown waits for the heap lock (held by the parked adder), more ExecuteAt calls arrive the
		// moment the lock is released.  One of them usually gets the lock before the woken Shutdown goroutine does and
		// asks IsShutdown() while holding it - that must not wait for the Shutdown call that waits for the heap lock.
		var late sync.WaitGroup
		var lateAccepted atomic.Int32
		if !g.prelock {
			var goFlag atomic.Bool
			for b := 0; b < 4; b++ {
				late.Add(1)
				go func() {
					defer late.Done()
					for !goFlag.Load() {
					}
					for i := 0; i < 20; i++ {
						if te.Executor.ExecuteAt(func() {}, base.Add(4*time.Millisecond)) == nil {
							return
						}
						lateAccepted.Add(1)
					}
				}()
			}
			time.Sleep(200 * time.Microsecond)
			goFlag.Store(true)
		}
		close(g.release)
		accepted := <-res
		addArmed.Delete(due.UnixNano())
		if !waitWG(&late, 3*time.Second) {
			fails = append(fails, finding{"hang", fmt.Sprintf("addrace: Shutdown() waiting for the heap lock held by an Add in progress (workers=%d), 4 goroutines calling ExecuteAt when the lock is released: ExecuteAt did not return within 3s (lock cycle between Shutdown and Add)", workers),
				map[string]string{"oracle": "hang", "mode": "addrace"}, true})
		}
		r.CountN("addrace-late-accepted", int(lateAccepted.Load()))
		for i := 0; i < 400 && accepted && ran.Load() == 0; i++ {
			time.Sleep(5 * time.Millisecond)
		}
		select {
		case <-sdDone:
		case <-time.After(2 * time.Second):
			fails = append(fails, finding{"shutdown-returns", "addrace: Executor.Shutdown() did not return", map[string]string{"oracle": "shutdown-hang", "mode": "addrace"}, true})
		}
		evs = append(evs, "shutdown 0 0")
		if accepted {
			evs = append(evs, fmt.Sprintf("sched %d 1 %d", rep+1, due.Sub(base).Microseconds()))
			if ran.Load() == 0 {
				fails = append(fails, finding{"eventually-delivered", fmt.Sprintf("addrace: ExecuteAt returned a task while Shutdown() was starting (workers=%d, adder parked before the lock: %v); the task was never run although neither cancelled nor dropped by a flag", workers, g.prelock), map[string]string{"oracle": "missing-delivery", "mode": "addrace"}, true})
			} else {
				evs = append(evs, fmt.Sprintf("run %d %d", rep+1, ranAt.Load()))
			}
		}
		r.Count(fmt.Sprintf("addrace-accepted:%v", accepted))
	}
	r.Line(op, "done")
	for _, e := range evs {
		r.Line("ev "+e, "ok")
	}
	r.Line("check", "accept")
	seen := map[string]bool{}
	for _, f := range fails {
		if !seen[f.oracle+f.sig["oracle"]] {
			seen[f.oracle+f.sig["oracle"]] = true
			r.Fail(f.oracle, f.detail, f.sig)
		}
	}
	r.Nontrivial(fmt.Sprintf("addrace-%d", workers))
}

// runAddBurst: idle pollers and Adds back to back.  One callback blocks on a harness channel; every other element
// that is due and not cancelled must be delivered within the bound although that worker is blocked (each Add has to
// wake a waiting poller, not only the Add that finds the queue empty).
func runAddBurst(r *rec, sub uint64, workers, k int, sameDue bool, reps int) {
	r.Case(sub)
	op := fmt.Sprintf("addburst %d %d %v %d", workers, k, sameDue, reps)
	var fails []finding
	var evs []string
	x := 0
	for rep := 0; rep < reps; rep++ {
		te := struct{ Executor *timed.Executor }{timed.NewExecutor(workers)} // the plain Executor, constructed directly
		time.Sleep(2 * time.Millisecond)                                    // all workers wait on the empty queue
		base := time.Now()
		us := func(t time.Time) int64 { return max(t.Sub(base).Microseconds(), 0) }
		release := make(chan struct{})
		var mu sync.Mutex
		var loc []string
		type bt struct {
			x    int
			due  time.Time
			runs atomic.Int32
		}
		ts := make([]*bt, k)
		for i := range ts {
			x++
			d := base
			if !sameDue {
				d = base.Add(time.Duration(i) * 300 * time.Microsecond)
			}
			ts[i] = &bt{x: x, due: d}
			loc = append(loc, fmt.Sprintf("sched %d - %d", x, us(d)))
		}
		// back to back, from one goroutine: the first callback blocks
		for i, t := range ts {
			t, blocks := t, i == 0
			te.Executor.ExecuteAt(func() {
				now := time.Now()
				t.runs.Add(1)
				mu.Lock()
				loc = append(loc, fmt.Sprintf("run %d %d", t.x, us(now)))
				mu.Unlock()
				if blocks {
					select {
					case <-release:
					case <-time.After(30 * time.Second):
					}
				}
			}, t.due)
		}
		deadline := time.Now().Add(3 * time.Second) // an Add that wakes nobody is never made up for; seconds are for the busy machine
		for time.Now().Before(deadline) {
			all := true
			for _, t := range ts {
				if t.runs.Load() == 0 {
					all = false
				}
			}
			if all {
				break
			}
			time.Sleep(time.Millisecond)
		}
		missing := 0
		for _, t := range ts {
			switch n := t.runs.Load(); {
			case n == 0:
				missing++
			case n > 1:
				fails = append(fails, finding{"at-most-once", "addburst: task ran twice", map[string]string{"oracle": "double-run", "mode": "addburst"}, true})
			}
		}
		if missing > 0 {
			fails = append(fails, finding{"eventually-delivered", fmt.Sprintf("addburst: %d idle workers, %d Adds back to back (same due time: %v), the first callback blocks: %d due element(s) not delivered within 1s", workers, k, sameDue, missing),
				map[string]string{"oracle": "missing-delivery", "mode": "addburst"}, true})
		}
		close(release)
		done := make(chan struct{})
		go func() { te.Executor.Shutdown(); close(done) }()
		select {
		case <-done:
		case <-time.After(2 * time.Second):
			fails = append(fails, finding{"shutdown-returns", "addburst: Executor.Shutdown() did not return", map[string]string{"oracle": "shutdown-hang", "mode": "addburst"}, true})
		}
		mu.Lock()
		evs = append(evs, loc...)
		mu.Unlock()
	}
	r.Line(op, "done")
	for _, e := range evs {
		r.Line("ev "+e, "ok")
	}
	r.Line("check", "accept")
	seen := map[string]bool{}
	for _, f := range fails {
		if !seen[f.oracle+f.sig["oracle"]] {
			seen[f.oracle+f.sig["oracle"]] = true
			r.Fail(f.oracle, f.detail, f.sig)
		}
	}
	r.CountN("stress-events", len(evs))
	r.Nontrivial(fmt.Sprintf("addburst-%d-%d-%v", workers, k, sameDue))
}

// runSdRace: public API only.  Adders call ExecuteAt in a loop while Shutdown() (no flag) is called: an element whose
// ExecuteAt returned non-nil must be delivered (Shutdown without CancelPendingElements drops nothing), and Shutdown
// must return.
func runSdRace(r *rec, sub uint64, workers, adders, reps int) {
	r.Case(sub)
	rng := hx.NewRng(sub)
	op := fmt.Sprintf("sdrace %d %d %d", workers, adders, reps)
	var fails []finding
	accepted, refused, lost := 0, 0, 0
	for rep := 0; rep < reps; rep++ {
		te := timed.NewTaskExecutor[int](workers)
		var ran, acc, ref atomic.Int64
		var wg sync.WaitGroup
		stop := make(chan struct{})
		for a := 0; a < adders; a++ {
			wg.Add(1)
			go func(far bool) {
				defer wg.Done()
				for i := 0; i < 5000; i++ {
					select {
					case <-stop:
						return
					default:
					}
					d := 50 * time.Microsecond
					if far {
						d = 2 * time.Millisecond
					}
					if h := te.Executor.ExecuteAt(func() { ran.Add(1) }, time.Now().Add(d)); h != nil {
						acc.Add(1)
					} else {
						ref.Add(1)

						return
					}
				}
			}(a%2 == 1)
		}
		// contention on the heap lock (Cancel of an already cancelled element only takes and releases it): an adder
		// that has passed its shutdown check may have to queue for the lock
		if probe := te.Executor.ExecuteAt(func() {}, time.Now()); probe != nil {
			for c := 0; c < 4; c++ {
				wg.Add(1)
				go func() {
					defer wg.Done()
					for {
						select {
						case <-stop:
							return
						default:
							probe.Cancel()
						}
					}
				}()
			}
		}
		time.Sleep(time.Duration(200+rng.Intn(1500)) * time.Microsecond)
		done := make(chan struct{})
		go func() { te.Shutdown(); close(done) }()
		hung := false
		select {
		case <-done:
		case <-time.After(30 * time.Second): // a -race build next to two other stress parts on a busy machine needs seconds; a hang never returns
			hung = true
			fails = append(fails, finding{"shutdown-returns", "sdrace: Executor.Shutdown() did not return within 30s", map[string]string{"oracle": "shutdown-hang", "mode": "sdrace"}, true})
		}
		close(stop)
		if !waitWG(&wg, 30*time.Second) {
			// the adders / cancellers are stuck inside ExecuteAt / Cancel: a lock cycle between Shutdown and Add
			fails = append(fails, finding{"hang", fmt.Sprintf("sdrace: %d workers, %d adders calling ExecuteAt while Shutdown() is called (round %d): ExecuteAt / Cancel did not return within 30s (Shutdown returned: %v)", workers, adders, rep, !hung),
				map[string]string{"oracle": "hang", "mode": "sdrace"}, true})

			break
		}
		// Shutdown() returned: the workers left after the queue was empty; whatever was accepted has been run,
		// except for callbacks still in flight - give those a moment
		for i := 0; i < 2000 && !hung && ran.Load() < acc.Load(); i++ {
			time.Sleep(time.Millisecond)
		}
		accepted += int(acc.Load())
		refused += int(ref.Load())
		if n := acc.Load() - ran.Load(); n > 0 && !hung {
			lost += int(n)
			fails = append(fails, finding{"eventually-delivered", fmt.Sprintf("sdrace: %d workers, %d adders, Shutdown() racing ExecuteAt: %d task(s) whose ExecuteAt returned non-nil were never run although Shutdown() returned and nothing was cancelled", workers, adders, n),
				map[string]string{"oracle": "missing-delivery", "mode": "sdrace"}, true})
		}
		if ran.Load() > acc.Load() {
			fails = append(fails, finding{"at-most-once", "sdrace: more runs than accepted tasks", map[string]string{"oracle": "double-run", "mode": "sdrace"}, true})
		}
	}
	r.Line(op, "done")
	seen := map[string]bool{}
	for _, f := range fails {
		if !seen[f.oracle+f.sig["oracle"]] {
			seen[f.oracle+f.sig["oracle"]] = true
			r.Fail(f.oracle, f.detail, f.sig)
		}
	}
	r.CountN("sdrace-accepted", accepted)
	r.CountN("sdrace-refused", refused)
	r.CountN("sdrace-lost", lost)
	r.Nontrivial(fmt.Sprintf("sdrace-%d-%d", workers, adders))
}

// runCancelRace: Cancel of queued elements races Adds with earlier due times and the pollers, all of which move
// elements inside the heap (the cancelled element's index changes while Cancel waits for the heap lock).  Exactly the
// cancelled elements may be missing afterwards; every other element is delivered exactly once; nothing panics.
func runCancelRace(r *rec, sub uint64, workers, reps int) {
	r.Case(sub)
	rng := hx.NewRng(sub)
	op := fmt.Sprintf("cancelrace %d %d", workers, reps)
	var fails []finding
	var fmu sync.Mutex
	failf := func(oracle, detail string, sig map[string]string) {
		fmu.Lock()
		fails = append(fails, finding{oracle, detail, sig, true})
		fmu.Unlock()
	}
	total, cancelledN := 0, 0
	for rep := 0; rep < reps; rep++ {
		te := timed.NewTaskExecutor[int](workers)
		type el struct {
			h         *timed.ScheduledTask
			runs      atomic.Int32
			cancelled atomic.Bool
		}
		var mu sync.Mutex
		var els []*el
		add := func(d time.Duration) *el {
			e := &el{}
			e.h = te.Executor.ExecuteAt(func() { e.runs.Add(1) }, time.Now().Add(d))
			mu.Lock()
			els = append(els, e)
			mu.Unlock()

			return e
		}
		// a populated heap: dues between 3 and 9 ms
		var victims []*el
		for i := 0; i < 24; i++ {
			victims = append(victims, add(time.Duration(3000+rng.Intn(6000))*time.Microsecond))
		}
		var wg sync.WaitGroup
		stop := make(chan struct{})
		// adders with earlier due times: every push sifts up past the victims
		for a := 0; a < 4; a++ {
			wg.Add(1)
			go func(seed uint64) {
				defer wg.Done()
				lr := hx.NewRng(seed)
				for i := 0; i < 400; i++ {
					select {
					case <-stop:
						return
					default:
					}
					add(time.Duration(lr.Intn(2500)) * time.Microsecond)
				}
			}(rng.U64())
		}
		// cancellers
		for c := 0; c < 4; c++ {
			wg.Add(1)
			go func(mine []*el) {
				defer wg.Done()
				for _, e := range mine {
					e.cancelled.Store(true)
					if p := hx.Safely(func() { e.h.Cancel() }); p != "" {
						failf("crash", "cancelrace: QueueElement.Cancel() panicked: "+p, map[string]string{"oracle": "panic", "mode": "cancelrace"})
					}
				}
			}(victims[c*4 : c*4+4])
		}
		wg.Wait()
		close(stop)
		// everything is due within 10 ms
		deadline := time.Now().Add(2 * time.Second)
		missing := 0
		for {
			missing = 0
			mu.Lock()
			for _, e := range els {
				if e.runs.Load() == 0 && !e.cancelled.Load() {
					missing++
				}
			}
			mu.Unlock()
			if missing == 0 || time.Now().After(deadline) {
				break
			}
			time.Sleep(2 * time.Millisecond)
		}
		mu.Lock()
		for _, e := range els {
			total++
			if e.cancelled.Load() {
				cancelledN++
			}
			if e.runs.Load() > 1 {
				failf("at-most-once", "cancelrace: element delivered twice", map[string]string{"oracle": "double-run", "mode": "cancelrace"})
			}
		}
		mu.Unlock()
		if missing > 0 {
			failf("eventually-delivered", fmt.Sprintf("cancelrace: %d workers, Cancel of queued elements racing Adds with earlier due times: %d element(s) that nobody cancelled were never delivered", workers, missing),
				map[string]string{"oracle": "missing-delivery", "mode": "cancelrace"})
		}
		done := make(chan struct{})
		go func() { te.Shutdown(); close(done) }()
		select {
		case <-done:
		case <-time.After(3 * time.Second):
			failf("shutdown-returns", "cancelrace: Executor.Shutdown() did not return", map[string]string{"oracle": "shutdown-hang", "mode": "cancelrace"})
		}
	}
	r.Line(op, "done")
	seen := map[string]bool{}
	for _, f := range fails {
		if !seen[f.oracle+f.sig["oracle"]] {
			seen[f.oracle+f.sig["oracle"]] = true
			r.Fail(f.oracle, f.detail, f.sig)
		}
	}
	r.CountN("cancelrace-elements", total)
	r.CountN("cancelrace-cancelled", cancelledN)
	r.Nontrivial(fmt.Sprintf("cancelrace-%d", workers))
}

// ---------------------------------------------------------------------------------------------------------
// direct use of timed.Queue

// runQSeqLine: one goroutine, no concurrency.  `qseq <maxSize> a<rank>|c<i> ...`: Adds with due ranks (equal ranks are
// equal instants) and Cancels of earlier elements on a Queue with WithMaxSize; then Size(), then Poll(false) until it
// returns nil.  The Lean driver computes size and delivery order with the model's add / cancelElem / Heap.pop.
func runQSeqLine(r *rec, line string) {
	f := strings.Fields(line)
	if len(f) < 2 || f[0] != "qseq" {
		r.Line(line, "bad-op")

		return
	}
	m, _ := strconv.Atoi(f[1])
	fail := func(oracle, detail, o string) {
		r.Fail(oracle, "qseq: "+detail+"; ops="+line, map[string]string{"oracle": o, "mode": "qseq"})
	}
	q := timed.NewQueue[*int](timed.WithMaxSize[*int](m))
	const step = 1500 * time.Microsecond
	base := time.Now().Add(8 * time.Millisecond)
	var hs []*timed.QueueElement[*int]
	var dues []time.Time
	cancelled := map[int]bool{}
	if q.IsShutdown() {
		fail("harness", "IsShutdown() is true for a new queue", "is-shutdown")
	}
	if v := q.Poll(false); v != nil {
		fail("never-early", "Poll(false) on an empty queue returned a value", "poll-empty")
	}
	farFuture := map[int]bool{}
	for _, tok := range f[2:] {
		n, _ := strconv.Atoi(tok[1:])
		switch tok[0] {
		case 'a':
			v := len(hs)
			due := base.Add(time.Duration(n) * step)
			// instants far away from the session: p0 = zero time.Time, p1 = year 1600, f0..f3 = year 2300, now+300y,
			// 9999-12-31, time.Unix(1<<62, 0)
			if len(tok) == 3 && (tok[1] == 'p' || tok[1] == 'f') {
				name := map[string]string{"p0": "z", "p1": "y1600", "f0": "y2300", "f1": "n300", "f2": "y9999", "f3": "u62"}[tok[1:]]
				if inst, _, ok := farInstant(name, base); ok {
					due = inst
					farFuture[v] = tok[1] == 'f'
				}
			}
			h := q.Add(&v, due)
			if h == nil {
				fail("eventually-delivered", "Add returned nil before Shutdown", "refused")
			}
			hs = append(hs, h)
			dues = append(dues, due)
		case 'c':
			if n < len(hs) && hs[n] != nil {
				hs[n].Cancel()
				cancelled[n] = true
			}
		}
	}
	size := q.Size()
	var order []string
	seen := map[int]bool{}
	ignored := false // Shutdown(IgnorePendingTimeouts) was called: what is left comes out at once, in heap order
	for {
		var v *int
		done := make(chan struct{})
		go func() { v = q.Poll(false); close(done) }()
		select {
		case <-done:
		case <-time.After(60 * time.Millisecond):
			// every ordinary element is due within 25 ms: the poller holds an element due in centuries
			if ignored {
				fail("eventually-delivered", "Poll(false) did not return after Shutdown(IgnorePendingTimeouts)", "poll-hang")
				r.Line(line, "hang")

				return
			}
			far := false
			for i := range hs {
				far = far || (farFuture[i] && !seen[i] && !cancelled[i])
			}
			if far {
				ignored = true
				q.Shutdown(timed.IgnorePendingTimeouts)
			}
			select {
			case <-done:
			case <-time.After(5 * time.Second):
				fail("eventually-delivered", fmt.Sprintf("Poll(false) on a non-empty queue did not return within 5s (far-future element held and Shutdown(IgnorePendingTimeouts) called: %v)", far), "poll-hang")
				r.Line(line, "hang")

				return
			}
		}
		now := time.Now()
		if v == nil {
			break
		}
		if now.Before(dues[*v]) && !ignored {
			fail("never-early", fmt.Sprintf("Poll(false) returned element %d %v before its time", *v, dues[*v].Sub(now)), "early")
		}
		if seen[*v] {
			fail("at-most-once", fmt.Sprintf("element %d delivered twice", *v), "double-run")
		}
		if cancelled[*v] {
			fail("cancel-honoured", fmt.Sprintf("element %d delivered after its Cancel() returned", *v), "ran-after-element-cancel")
		}
		seen[*v] = true
		order = append(order, strconv.Itoa(*v))
	}
	if m == 0 {
		for i := range hs {
			if !seen[i] && !cancelled[i] {
				fail("eventually-delivered", fmt.Sprintf("element %d neither cancelled nor subject to a size bound was never delivered", i), "missing-delivery")
			}
		}
	} else if len(seen) > m {
		fail("harness", fmt.Sprintf("%d elements delivered from a queue with max size %d that was filled before anything was polled", len(seen), m), "size-bound")
	}
	if !ignored {
		q.Shutdown()
	}
	if !q.IsShutdown() {
		fail("harness", "IsShutdown() is false after Shutdown", "is-shutdown")
	}
	v := 0
	if h := q.Add(&v, time.Now()); h != nil {
		fail("harness", "Add after Shutdown returned an element", "add-after-shutdown")
	}
	done := make(chan struct{})
	go func() { q.Poll(true); close(done) }()
	select {
	case <-done:
	case <-time.After(2 * time.Second):
		fail("shutdown-returns", "Poll(true) on an empty queue after Shutdown did not return", "poll-hang")
	}
	r.Line(line, fmt.Sprintf("size=%d order=[%s]", size, strings.Join(order, " ")))
	r.Count("qseq")
	r.Count(fmt.Sprintf("qseq-maxsize:%d", m))
	if len(order) >= 2 {
		h := sha256.Sum256([]byte(line))
		r.Nontrivial("qseq" + string(h[:8]))
	}
}

func genQSeq(rng *hx.Rng) string {
	m := hx.Pick(rng, []int{0, 0, 1, 2, 3, 4})
	n := rng.Range(2, 9)
	toks := []string{"qseq", strconv.Itoa(m)}
	adds := 0
	for i := 0; i < n; i++ {
		if adds > 0 && rng.Chance(1, 5) {
			toks = append(toks, fmt.Sprintf("c%d", rng.Intn(adds)))
		} else {
			switch y := rng.Intn(12); {
			case y == 0:
				toks = append(toks, "a"+hx.Pick(rng, []string{"p0", "p1"}))
			case y == 1:
				toks = append(toks, "a"+hx.Pick(rng, []string{"f0", "f1", "f2", "f3"}))
			default:
				toks = append(toks, fmt.Sprintf("a%d", rng.Intn(6))) // few ranks: ties are frequent
			}
			adds++
		}
	}

	return strings.Join(toks, " ")
}

func runQSeqs(r *rec, sub uint64, count int) {
	rng := hx.NewRng(sub)
	lines := []string{"qseq 2 a5 a3 a3 a1 c1 a4", "qseq 0 a2 a2 a1 c0", "qseq 1 a1 a1 a0", "qseq 3 a0 a0 a0 a0 a0", "qseq 0 a4 a1 c0 c0 a1",
		"qseq 0 af1 a3 ap1 a0 ap0 af0", "qseq 0 af3 af2 a1", "qseq 2 af0 a2 ap0 a1", "qseq 0 ap1 ap0 a0 af2 c3"}
	for i := 0; i < count; i++ {
		lines = append(lines, genQSeq(rng))
	}
	recs := make([]*rec, len(lines))
	sem := make(chan struct{}, 32)
	var wg sync.WaitGroup
	for i := range lines {
		wg.Add(1)
		sem <- struct{}{}
		go func(i int) {
			defer wg.Done()
			defer func() { <-sem }()
			recs[i] = newRec()
			runQSeqLine(recs[i], lines[i])
		}(i)
	}
	wg.Wait()
	for _, x := range recs {
		r.Lines = append(r.Lines, x.Lines...)
		r.Fails = append(r.Fails, x.Fails...)
		for k, v := range x.Counts {
			r.Counts[k] += v
		}
		r.Nontriv = append(r.Nontriv, x.Nontriv...)
	}
}

type qItem struct {
	x         int
	due       time.Time
	h         *timed.QueueElement[*qItem]
	delivered atomic.Int32
	far       bool         // due in centuries
	at        atomic.Int64 // us since base
	cancelAt  atomic.Int64 // us since base when Cancel() had returned (0: not cancelled)
}

// runQSess: a concurrent session on a bare Queue: producers Add values with due times on a grid (equal instants
// across producers), consumers loop over Poll(true) and Poll(false), some elements are cancelled, Shutdown with the
// given flags comes in the middle (flags "e": at the end).  Judged by the Go oracle and, as a trace, by okLog.
func runQSess(r *rec, sub uint64, producers, consumers, m int, fl string, reps int) {
	rng := hx.NewRng(sub)
	op := fmt.Sprintf("qsess %d %d %d %s %d", producers, consumers, m, fl, reps)
	var fails []finding
	var fmu sync.Mutex
	failf := func(oracle, detail, o string) {
		fmu.Lock()
		fails = append(fails, finding{oracle, "qsess: " + detail + " (" + op + ")", map[string]string{"oracle": o, "mode": "qsess"}, true})
		fmu.Unlock()
	}
	var evs []string
	x := 0
	for rep := 0; rep < reps; rep++ {
		q := timed.NewQueue[*qItem](timed.WithMaxSize[*qItem](m))
		base := time.Now()
		us := func(t time.Time) int64 { return max(t.Sub(base).Microseconds(), 0) }
		const perProducer = 12
		const grid = 700 * time.Microsecond
		var mu sync.Mutex
		var loc []string
		logf := func(format string, a ...any) {
			mu.Lock()
			loc = append(loc, fmt.Sprintf(format, a...))
			mu.Unlock()
		}
		var items []*qItem
		var ignoreAt atomic.Int64 // us of the Shutdown(ignore) call (0: none)
		var sdAt atomic.Int64
		deliver := func(it *qItem, how string) {
			now := time.Now()
			n := it.delivered.Add(1)
			it.at.Store(us(now) + 1)
			logf("deliver %d %d", it.x, us(now))
			if n > 1 {
				failf("at-most-once", fmt.Sprintf("element delivered %d times", n), "double-run")
			}
			if now.Before(it.due) && !(ignoreAt.Load() > 0 && us(now)+1 >= ignoreAt.Load()) {
				failf("never-early", fmt.Sprintf("%s returned an element %v before its time", how, it.due.Sub(now)), "early")
			}
			if c := it.cancelAt.Load(); c > 0 && c+1000 < us(it.due) && !(ignoreAt.Load() > 0) {
				failf("cancel-honoured", "an element whose Cancel() returned more than 1ms before its time was delivered", "ran-after-element-cancel")
			}
		}
		var cwg sync.WaitGroup
		stop := make(chan struct{})
		for c := 0; c < consumers; c++ {
			cwg.Add(1)
			go func(blocking bool) {
				defer cwg.Done()
				for {
					if blocking {
						it := q.Poll(true)
						if it == nil {
							return // shut down and empty
						}
						deliver(it, "Poll(true)")

						continue
					}
					if it := q.Poll(false); it != nil {
						deliver(it, "Poll(false)")

						continue
					}
					select {
					case <-stop:
						return
					case <-time.After(150 * time.Microsecond):
					}
				}
			}(c%2 == 0)
		}
		var pwg sync.WaitGroup
		var imu sync.Mutex
		seeds := make([]uint64, producers)
		for i := range seeds {
			seeds[i] = rng.U64()
		}
		imu.Lock()
		for p := 0; p < producers; p++ {
			for k := 0; k < perProducer; k++ {
				x++
				items = append(items, &qItem{x: x})
			}
		}
		first := len(items) - producers*perProducer
		mine := items // the producers' view: addFar appends to items while they run
		imu.Unlock()
		for p := 0; p < producers; p++ {
			pwg.Add(1)
			go func(p int, lr *hx.Rng) {
				defer pwg.Done()
				for k := 0; k < perProducer; k++ {
					it := mine[first+p*perProducer+k]
					it.due = base.Add(time.Duration(2+lr.Intn(14)) * grid)
					switch lr.Intn(15) {
					case 0:
						it.due = time.Time{} // long past: due at once
					case 1:
						it.due = time.Date(1600, 1, 1, 0, 0, 0, 0, time.UTC)
					}
					logf("sched %d - %d", it.x, us(it.due))
					it.h = q.Add(it, it.due)
					if lr.Chance(1, 6) && it.h != nil {
						time.Sleep(time.Duration(lr.Intn(300)) * time.Microsecond)
						it.h.Cancel()
						ca := time.Now()
						it.cancelAt.Store(us(ca) + 1)
						// the trace says "cancelled" only where the order of the log is the order of the events: the
						// Cancel returned well before the time of the element and no Shutdown(IgnorePendingTimeouts) has
						// been called (with the flag Poll hands the element out at once; a consumer that got it just before
						// the Cancel may write its "deliver" after this line - seen once in the thorough tier)
						if ca.Add(time.Millisecond).Before(it.due) && ignoreAt.Load() == 0 {
							logf("cancelled %d", it.x)
						}
					}
					time.Sleep(time.Duration(lr.Intn(200)) * time.Microsecond)
				}
			}(p, hx.NewRng(seeds[p]))
		}
		var flags []timed.ShutdownFlag
		if strings.Contains(fl, "c") {
			flags = append(flags, timed.CancelPendingElements)
		}
		if strings.Contains(fl, "i") {
			flags = append(flags, timed.IgnorePendingTimeouts)
		}
		midway := !strings.Contains(fl, "e")
		// elements due in centuries: never delivered in the session unless IgnorePendingTimeouts is given.  With a
		// Shutdown in the middle that has a flag they go in first (a consumer may hold one until then), otherwise
		// after the producers (a consumer holding one is of no use to later elements)
		var farItems []*qItem
		addFar := func() {
			for _, name := range []string{"y2300", "n300", "y9999", "u62"}[:2+rep%3] {
				inst, _, _ := farInstant(name, time.Now())
				imu.Lock()
				x++
				it := &qItem{x: x, due: inst, far: true}
				items = append(items, it)
				imu.Unlock()
				logf("sched %d - %d", it.x, int64(1)<<60)
				it.h = q.Add(it, inst)
				farItems = append(farItems, it)
			}
		}
		if midway && strings.ContainsAny(fl, "ci") {
			addFar()
		}
		if midway {
			time.Sleep(time.Duration(3+rng.Intn(5)) * grid)
			if strings.Contains(fl, "i") {
				ignoreAt.Store(us(time.Now()) + 1)
			}
			sdAt.Store(us(time.Now()) + 1)
			logf("shutdown %d %d", b2i(strings.Contains(fl, "c")), b2i(strings.Contains(fl, "i")))
			if !within(10*time.Second, func() { q.Shutdown(flags...) }) {
				failf("shutdown-returns", fmt.Sprintf("Queue.Shutdown(%s) called while producers Add and consumers Poll did not return within 10s", fl), "shutdown-hang")

				break
			}
		}
		if !waitWG(&pwg, 10*time.Second) {
			failf("hang", fmt.Sprintf("producers calling Add while Shutdown(%s) is called did not return within 10s", fl), "hang")

			break
		}
		if !midway {
			addFar()
		}
		// everything accepted is due within 16 grid steps
		deadline := time.Now().Add(2 * time.Second)
		pending := func() (n int) {
			for _, it := range items[first:] {
				if it.h != nil && it.delivered.Load() == 0 && it.cancelAt.Load() == 0 && (!it.far || strings.Contains(fl, "i")) {
					n++
				}
			}

			return
		}
		for !strings.Contains(fl, "c") && m == 0 && pending() > 0 && time.Now().Before(deadline) {
			time.Sleep(time.Millisecond)
		}
		if !strings.Contains(fl, "c") && m == 0 {
			if n := pending(); n > 0 {
				failf("eventually-delivered", fmt.Sprintf("%d element(s) whose Add returned non-nil, not cancelled, no size bound, no CancelPendingElements, were never delivered (shutdown flags %q)", n, fl), "missing-delivery")
			}
		}
		for _, it := range farItems {
			if it.delivered.Load() > 0 && !strings.Contains(fl, "i") {
				failf("never-early", "an element due in centuries was delivered", "early")
			}
			if it.h != nil {
				it.h.Cancel() // lets go the consumer that holds it
			}
		}
		if !midway && !within(10*time.Second, func() { q.Shutdown(flags...) }) {
			failf("shutdown-returns", fmt.Sprintf("Queue.Shutdown(%s) after the session did not return within 10s", fl), "shutdown-hang")

			break
		}
		close(stop)
		cdone := make(chan struct{})
		go func() { cwg.Wait(); close(cdone) }()
		select {
		case <-cdone:
		case <-time.After(3 * time.Second):
			failf("shutdown-returns", "a consumer did not return from Poll after Shutdown", "poll-hang")
		}
		mu.Lock()
		evs = append(evs, loc...)
		mu.Unlock()
	}
	r.Line(op, "done")
	for _, e := range evs {
		r.Line("ev "+e, "ok")
	}
	r.Line("check", "accept")
	seen := map[string]bool{}
	for _, f := range fails {
		if !seen[f.oracle+f.sig["oracle"]] {
			seen[f.oracle+f.sig["oracle"]] = true
			r.Fail(f.oracle, f.detail, f.sig)
		}
	}
	r.CountN("stress-events", len(evs))
	r.Count("qsess:" + fl)
	r.Nontrivial(fmt.Sprintf("qsess-%d-%d-%d-%s", producers, consumers, m, fl))
}

// runQPanic: Shutdown(PanicOnModificationsAfterShutdown) with elements pending, then a modification whose panic the
// caller recovers: the pending elements are neither cancelled nor excused and must still be delivered, and Cancel
// must still return (the refused Add must not leave the queue locked).
func runQPanic(r *rec, sub uint64, reps int) {
	op := fmt.Sprintf("qpanic %d", reps)
	var fails []finding
	failf := func(oracle, detail, o string) {
		fails = append(fails, finding{oracle, "qpanic: " + detail, map[string]string{"oracle": o, "mode": "qpanic"}, true})
	}
	for rep := 0; rep < reps; rep++ {
		// bare queue
		q := timed.NewQueue[*int]()
		base := time.Now()
		vals := []int{0, 1, 2}
		var hs []*timed.QueueElement[*int]
		for i := range vals {
			hs = append(hs, q.Add(&vals[i], base.Add(time.Duration(3+2*i)*time.Millisecond)))
		}
		q.Shutdown(timed.PanicOnModificationsAfterShutdown)
		v := 9
		if p := hx.Safely(func() { q.Add(&v, base.Add(time.Millisecond)) }); p == "" {
			failf("harness", "Add on a queue shut down with PanicOnModificationsAfterShutdown did not panic", "no-panic")
		}
		var got [3]atomic.Int32
		consumer := make(chan struct{})
		go func() {
			defer close(consumer)
			for x := q.Poll(true); x != nil; x = q.Poll(true) {
				got[*x].Add(1)
			}
		}()
		if !within(3*time.Second, func() { hs[1].Cancel() }) {
			failf("hang", "QueueElement.Cancel() did not return after a recovered panic of Add on the shut down queue", "hang")
		}
		time.Sleep(12 * time.Millisecond)
		for i := 0; i < 300 && (got[0].Load() == 0 || got[2].Load() == 0); i++ {
			time.Sleep(5 * time.Millisecond)
		}
		if got[0].Load() != 1 || got[2].Load() != 1 {
			failf("eventually-delivered", fmt.Sprintf("Queue: Shutdown(PanicOnModificationsAfterShutdown) with 3 elements pending, a refused Add (panic recovered), Cancel of the second: the other two were delivered %d and %d times", got[0].Load(), got[2].Load()), "missing-delivery")
		}
		if got[1].Load() != 0 {
			failf("cancel-honoured", "Queue: the cancelled element was delivered", "ran-after-element-cancel")
		}
		select {
		case <-consumer:
		case <-time.After(3 * time.Second):
			failf("hang", "Poll(true) did not return on the shut down, empty queue", "hang")
		}
		// TaskExecutor
		te := timed.NewTaskExecutor[int](2)
		base = time.Now()
		var ran [3]atomic.Int32
		for i := 0; i < 3; i++ {
			te.ExecuteAt(i+1, func() { ran[i].Add(1) }, base.Add(time.Duration(3+2*i)*time.Millisecond))
		}
		te.Shutdown(timed.PanicOnModificationsAfterShutdown, timed.DontWaitForShutdown)
		if p := hx.Safely(func() { te.ExecuteAfter(7, func() {}, time.Millisecond) }); p == "" {
			failf("harness", "ExecuteAfter on an executor shut down with PanicOnModificationsAfterShutdown did not panic", "no-panic")
		}
		cres := false
		if !within(3*time.Second, func() { cres = te.Cancel(3) }) {
			failf("hang", "TaskExecutor.Cancel did not return after a recovered panic of ExecuteAfter on the shut down executor", "hang")
		} else if !cres {
			failf("cancel-result", "TaskExecutor.Cancel of a pending task returned false", "cancel-false-but-pending")
		}
		for i := 0; i < 300 && (ran[0].Load() == 0 || ran[1].Load() == 0); i++ {
			time.Sleep(5 * time.Millisecond)
		}
		if ran[0].Load() != 1 || ran[1].Load() != 1 || ran[2].Load() != 0 {
			failf("eventually-delivered", fmt.Sprintf("TaskExecutor: Shutdown(PanicOnModificationsAfterShutdown, DontWaitForShutdown) with 3 tasks pending, a refused ExecuteAfter (panic recovered), Cancel(3): the tasks ran %d, %d and %d times", ran[0].Load(), ran[1].Load(), ran[2].Load()), "missing-delivery")
		}
	}
	r.Line(op, "done")
	seen := map[string]bool{}
	for _, f := range fails {
		if !seen[f.oracle+f.sig["oracle"]] {
			seen[f.oracle+f.sig["oracle"]] = true
			r.Fail(f.oracle, f.detail, f.sig)
		}
	}
	r.Nontrivial("qpanic")
}

// waitWG waits for the group, but not forever: goroutines stuck inside the code under test (a lock cycle) must become a
// finding, not a harness that never comes back.
func waitWG(wg *sync.WaitGroup, d time.Duration) bool {
	done := make(chan struct{})
	go func() { wg.Wait(); close(done) }()
	select {
	case <-done:
		return true
	case <-time.After(d):
		return false
	}
}

// within runs f in a goroutine of its own and reports whether it returned in time.
func within(d time.Duration, f func()) bool {
	done := make(chan struct{})
	go func() { f(); close(done) }()
	select {
	case <-done:
		return true
	case <-time.After(d):
		return false
	}
}

func b2i(b bool) int {
	if b {
		return 1
	}

	return 0
}

// ---------------------------------------------------------------------------------------------------------

func emit(r *rec, sub uint64, res caseResult) {
	r.Case(sub)
	for i, l := range res.lines {
		a := "bad-op"
		if i < len(res.answers) {
			a = res.answers[i]
		}
		r.Line(l, a)
		f := strings.Fields(l)
		k := f[0]
		if len(f) > 1 && k != "new" && k != "end" {
			k = f[1]
		}
		r.Count("op:" + k)
		if k == "exec" || k == "add" {
			r.Count("kind:" + strings.Split(f[len(f)-1], ":")[0])
			if _, rep := splitRep(f[len(f)-2]); rep != 0 {
				r.Count("due-representation:" + string(rep))
			}
		}
		if k == "shutdown" || k == "xshutdown" {
			r.Count("flags:" + f[2])
		}
		if k == "new" {
			r.Count("workers:" + f[1])
			r.Count("maxsize:" + f[2])
		}
		r.Count("ans:" + strings.SplitN(strings.Fields(a)[0], "=", 2)[0])
	}
	for _, f := range res.finds {
		r.Fail(f.oracle, f.detail+"; ops="+strings.Join(res.lines, " | "), f.sig)
	}
	r.Count(fmt.Sprintf("tries:%d", res.tries))
	for k, v := range res.hist {
		r.CountN(k, v)
	}
	last := res.answers[len(res.answers)-1]
	if strings.Count(last, ":") >= 2 {
		h := sha256.Sum256([]byte(strings.Join(res.lines, "\n")))
		r.Nontrivial(string(h[:8]))
	}
}

// execDescriptor runs one job: a sequential case ("seq <op line> | ...") or a stress part (its op line).
func execDescriptor(j job, unit time.Duration) *rec {
	r := newRec()
	if strings.HasPrefix(j.Desc, "seq ") {
		res := runCaseLines(strings.Split(strings.TrimPrefix(j.Desc, "seq "), " | "), unit)
		if !res.valid {
			r.Invalid = true
			r.Suspect = res.pureCnt >= 3
			for k, v := range res.hist {
				r.CountN(k, v)
			}
			for _, f := range res.robust {
				r.Fail(f.oracle, f.detail+"; ops="+strings.Join(res.lines, " | "), f.sig)
			}

			return r
		}
		emit(r, j.Sub, res)
		r.Suspect = res.pureCnt >= 3

		return r
	}
	f := strings.Fields(j.Desc)
	at := func(i int) int {
		if i < len(f) {
			v, _ := strconv.Atoi(f[i])

			return v
		}

		return 0
	}
	switch {
	case len(f) == 5 && f[0] == "stress":
		runStress(r, j.Sub, f[1], at(2), at(3), at(4))
	case len(f) == 5 && f[0] == "burst":
		runBurst(r, j.Sub, f[1], at(2), at(3), at(4))
	case len(f) == 5 && f[0] == "cbshutdown":
		runCbShutdown(r, j.Sub, f[1], at(2), f[3] == "true", at(4))
	case len(f) == 3 && f[0] == "addrace":
		runAddRace(r, j.Sub, at(1), at(2))
	case len(f) == 5 && f[0] == "addburst":
		runAddBurst(r, j.Sub, at(1), at(2), f[3] == "true", at(4))
	case len(f) == 4 && f[0] == "sdrace":
		runSdRace(r, j.Sub, at(1), at(2), at(3))
	case len(f) == 3 && f[0] == "cancelrace":
		runCancelRace(r, j.Sub, at(1), at(2))
	case len(f) == 2 && f[0] == "qseqs":
		runQSeqs(r, j.Sub, at(1))
	case len(f) == 2 && f[0] == "gheaps":
		runGHeaps(r, j.Sub, at(1))
	case len(f) >= 1 && (f[0] == "gheap" || f[0] == "hkcmp"):
		runGHeapLine(r, j.Desc)
	case len(f) >= 2 && f[0] == "qseq":
		runQSeqLine(r, j.Desc)
	case len(f) == 2 && f[0] == "qpanic":
		runQPanic(r, j.Sub, at(1))
	case len(f) == 6 && f[0] == "qsess":
		runQSess(r, j.Sub, at(1), at(2), at(3), f[4], at(5))
	default:
		r.Line(j.Desc, "bad-op")
	}

	return r
}

func main() {
	if len(os.Args) == 6 && os.Args[1] == "--child" {
		par, _ := strconv.Atoi(os.Args[4])
		ms, _ := strconv.Atoi(os.Args[5])
		childMain(os.Args[2], os.Args[3], par, time.Duration(ms)*time.Millisecond)

		return
	}
	r := hx.Start()
	r.Rule = "histories of ExecuteAt (tracked and raw) / Cancel(id) / element Cancel / Shutdown(flag subsets) / release / hook-arm with arbitrary relative times, " +
		"workers 1..3, max size 0..3 and negative (no bound), due instants also as differently represented equal time.Time values, callbacks plain|blocking|re-scheduling own id|cancelling own id; non-trivial = at least two tasks ran; distinct by sha256 of the op lines; " +
		"stress runs count as one non-trivial case each; cases run in child processes, a crash of the code under test is an oracle failure of the case that was running"
	unit := 24 * time.Millisecond
	if u := os.Getenv("C18_UNIT_MS"); u != "" {
		if v, err := strconv.Atoi(u); err == nil {
			unit = time.Duration(v) * time.Millisecond
		}
	}
	deliver := func(j job, res *rec) {
		r.Case(j.Sub)
		for _, l := range res.Lines {
			r.Line(l[0], l[1])
		}
		for _, f := range res.Fails {
			r.Fail(f.Oracle, f.Detail, f.Signature)
		}
		for k, v := range res.Counts {
			r.CountN(k, v)
		}
		for _, k := range res.Nontriv {
			r.Nontrivial(k)
		}
		r.Sample(r.CaseLines())
	}
	if lines := r.ReplayLines(); lines != nil {
		var keep []string
		for _, l := range lines {
			if strings.HasPrefix(l, "ev ") || l == "check" {
				continue
			}
			keep = append(keep, l)
		}
		j := job{Sub: r.Seed, Desc: "seq " + strings.Join(keep, " | ")}
		if len(keep) > 0 {
			switch strings.Fields(keep[0])[0] {
			case "stress", "burst", "addrace", "addburst", "sdrace", "cancelrace", "qseq", "qsess", "qpanic", "gheap", "hkcmp":
				j.Desc = keep[0]
			}
		}
		seq := 0
		res := runChunk(r.OutDir, &seq, []job{j}, 1, unit)[0]
		if res.Invalid {
			res.Line("nop", "done")
		}
		deliver(j, res)
		r.Finish()

		return
	}
	var seqJobs, stressJobs []job
	for _, c := range corpus() {
		seqJobs = append(seqJobs, job{0, "seq " + strings.Join(c, " | ")})
	}
	n := 1200 * r.Scale
	if r.Scale > 1 {
		n = 1500 * 12
	}
	if v, err := strconv.Atoi(os.Getenv("C18_N")); err == nil {
		n = v
	}
	for i := 0; i < n; i++ {
		rng, sub := r.Rng.Fork()
		seqJobs = append(seqJobs, job{sub, "seq " + strings.Join(genCase(rng), " | ")})
	}
	stress := func(format string, a ...any) {
		_, sub := r.Rng.Fork()
		stressJobs = append(stressJobs, job{sub, fmt.Sprintf(format, a...)})
	}
	for i := 0; i < 6*r.Scale; i++ {
		stress("stress %s %d 4 150", []string{"cancel", "mixed"}[i%2], 1+i%3)
	}
	for _, wk := range []int{1, 2} {
		stress("addrace %d %d", wk, 6*r.Scale)
	}
	for _, cfg := range [][3]int{{2, 2, 1}, {2, 2, 0}, {3, 3, 1}, {3, 4, 0}, {2, 4, 1}} {
		stress("addburst %d %d %v %d", cfg[0], cfg[1], cfg[2] == 1, 6*r.Scale)
	}
	for _, cfg := range [][2]int{{4, 4}, {1, 4}, {2, 8}} {
		reps := 400 * min(r.Scale, 10) // thorough: 4 000 rounds per configuration (-race build: ~4 min each, three at a time)
		if v, err := strconv.Atoi(os.Getenv("C18_SDRACE_REPS")); err == nil {
			reps = v
		}
		stress("sdrace %d %d %d", cfg[0], cfg[1], reps)
	}
	for _, wk := range []int{1, 2, 4} {
		reps := 40 * r.Scale
		if v, err := strconv.Atoi(os.Getenv("C18_CANCELRACE_REPS")); err == nil {
			reps = v
		}
		stress("cancelrace %d %d", wk, reps)
	}
	for _, cfg := range []struct {
		fl   string
		wk   int
		wait bool
	}{{"-", 1, false}, {"-", 2, false}, {"i", 1, false}, {"c", 2, false}, {"ci", 1, false}, {"p", 2, false}, {"ip", 3, false},
		{"-", 2, true}, {"i", 3, true}, {"c", 2, true}} {
		stress("cbshutdown %s %d %v %d", cfg.fl, cfg.wk, cfg.wait, 4*r.Scale)
	}
	stress("qpanic %d", 2*r.Scale)
	stress("qseqs %d", 150*r.Scale)
	stress("gheaps %d", 400*r.Scale)
	for _, cfg := range []struct {
		p, c, m int
		fl      string
	}{{3, 4, 0, "e"}, {2, 2, 0, "-"}, {3, 3, 0, "i"}, {3, 4, 0, "c"}, {2, 3, 0, "ci"}, {3, 2, 3, "e"}, {1, 1, 0, "e"}} {
		stress("qsess %d %d %d %s %d", cfg.p, cfg.c, cfg.m, cfg.fl, 3*r.Scale)
	}
	for _, fl := range []string{"-", "c", "i", "ci"} {
		for _, wk := range []int{2, 3} {
			_, sub := r.Rng.Fork()
			stressJobs = append(stressJobs, job{sub, fmt.Sprintf("burst %s %d %d %d", fl, wk, 1+int(sub%3), 10*r.Scale)})
		}
	}
	// sequential cases: 64 at a time in a child, a few hundred per child; stress parts: one child each
	seq := 0
	dropped, suspects, secondPass := 0, 0, 0
	phase := map[string]float64{} // wall seconds per part of the run (evidence: where the time goes)
	t0 := time.Now()
	var droppedSamples []string
	var kept []hx.Finding
	const chunk = 1 << 20 // one child for all of them (a child that dies is replaced, see runChunk)
	results := make([]*rec, 0, len(seqJobs))
	for pos := 0; pos < len(seqJobs); pos += chunk {
		results = append(results, runChunk(r.OutDir, &seq, seqJobs[pos:min(pos+chunk, len(seqJobs))], 64, unit)...)
	}
	phase["sequential-first-pass"] = float64(time.Since(t0).Milliseconds()) / 1000
	// second pass: what stayed timing-invalid is measured once more, later and with less going on at the same time (a
	// burst of other work on the machine is over by then); only what is invalid again is dropped
	var again []int
	for i, res := range results {
		if res.Invalid {
			again = append(again, i)
		}
	}
	if secondPass = len(again); secondPass > 0 && secondPass <= 160 {
		part := make([]job, len(again))
		for k, i := range again {
			part[k] = seqJobs[i]
		}
		for k, res := range runChunk(r.OutDir, &seq, part, 16, unit) {
			if res.Invalid { // keep the robust findings and the histogram of both passes
				res.Fails = append(results[again[k]].Fails, res.Fails...)
			}
			res.Suspect = res.Suspect || results[again[k]].Suspect
			for c, v := range results[again[k]].Counts {
				if strings.HasPrefix(c, "invalid:") {
					res.Counts[c] += v
				}
			}
			results[again[k]] = res
		}
	}
	for i, res := range results {
		if res.Suspect {
			suspects++
		}
		if res.Invalid {
			dropped++
			if len(droppedSamples) < 5 {
				droppedSamples = append(droppedSamples, strings.TrimPrefix(seqJobs[i].Desc, "seq "))
			}
			kept = append(kept, res.Fails...)
			for c, v := range res.Counts {
				r.CountN(c, v)
			}

			continue
		}
		deliver(seqJobs[i], res)
	}
	if len(kept) > 0 {
		r.Case(0)
		r.Line("nop", "done")
		for i, f := range kept {
			if i < 20 {
				r.Fail(f.Oracle, f.Detail, f.Signature)
			}
		}
	}
	r.Extra["timing_dropped_cases"] = dropped
	r.Extra["timing_late_on_quiet_machine_cases"] = suspects
	r.Extra["timing_second_pass_cases"] = secondPass
	r.Extra["timing_dropped_samples"] = droppedSamples
	// Rare glitches of the machine are tolerated and so is an overloaded machine: an attempt during which the canary
	// goroutine overslept or the harness's own operations were late says nothing about the code under test (such cases
	// are repeated, 7 attempts and a second pass, and what stays invalid is dropped and counted).  What is not
	// tolerated is systematic lateness of the implementation, which the grid rule would otherwise hide: cases of which
	// three or more attempts were off the grid although the machine was on time (canary, own operations) - on the
	// unchanged tree a single such attempt happens in well under 1 % of the cases.
	if suspects*25 > len(seqJobs) {
		r.Case(0)
		r.Line("nop", "done")
		r.Fail("harness", fmt.Sprintf("%d of %d cases had three or more attempts in which polls, callbacks or Shutdown returns came more than a quarter unit late although the machine was on time (canary goroutine, the harness's own operations): the implementation is late systematically", suspects, len(seqJobs)),
			map[string]string{"oracle": "timing-invalid-mass"})
	}
	r.Extra["unit_ms"] = unit.Milliseconds()
	phase["sequential"] = float64(time.Since(t0).Milliseconds()) / 1000
	// the stress parts: one child each, three at a time (most of them wait most of the time; their limits are seconds),
	// results in the order of the list
	t2 := time.Now()
	stressRes := make([]*rec, len(stressJobs))
	stressPar := 3
	if v, err := strconv.Atoi(os.Getenv("C18_STRESS_PAR")); err == nil && v > 0 {
		stressPar = v
	}
	var pmu sync.Mutex
	var swg sync.WaitGroup
	nextStress := 0
	earlyOff.Store(true) // from here on every finding goes through hx right away
	sem := make(chan struct{}, stressPar)
	for i := range stressJobs {
		swg.Add(1)
		sem <- struct{}{}
		go func(i int) {
			defer swg.Done()
			defer func() { <-sem }()
			t1 := time.Now()
			own := seq + 100*(i+1) // file names of this part's children
			res := runChunk(r.OutDir, &own, []job{stressJobs[i]}, 1, unit)[0]
			pmu.Lock()
			stressRes[i] = res
			phase[strings.Fields(stressJobs[i].Desc)[0]] += float64(time.Since(t1).Milliseconds()) / 1000
			// results go out in the order of the list, each as soon as all before it are there (findings reach hx, and
			// its stream of first findings, without waiting for the slowest part)
			for nextStress < len(stressJobs) && stressRes[nextStress] != nil {
				deliver(stressJobs[nextStress], stressRes[nextStress])
				nextStress++
			}
			pmu.Unlock()
		}(i)
	}
	swg.Wait()
	phase["stress-parts-wall"] = float64(time.Since(t2).Milliseconds()) / 1000
	r.Extra["phase_wall_s"] = phase
	r.Finish()
}
