package main

import (
	"bufio"
	"encoding/json"
	"fmt"
	"os"
	"os/exec"
	"path/filepath"
	"regexp"
	"strings"
	"sync"
	"sync/atomic"
	"syscall"
	"time"

	"verifharness/hx"
)

// Crash isolation.  A panic of the code under test in a goroutine of its own (an Executor worker inside Poll), or in
// one of the many goroutines of a stress part, cannot be recovered in-process and kills the harness.  Cases are
// therefore executed by child processes (this same binary with --child); the parent merges their results in order and
// turns a dead child into an oracle failure "crash" whose replay is the case that was running, with the panic text.

// rec collects what one case produces (the methods mirror hx.Run, so that the case code does not care).
type rec struct {
	Lines   [][2]string    `json:"lines,omitempty"`
	Fails   []hx.Finding   `json:"fails,omitempty"`
	Counts  map[string]int `json:"counts,omitempty"`
	Nontriv []string       `json:"nontriv,omitempty"`
	Invalid bool           `json:"invalid,omitempty"` // stayed timing-invalid: only Fails (the robust ones) count
	Suspect bool           `json:"suspect,omitempty"` // three or more attempts were invalid by the grid rule alone (canary and own lateness fine)
}

func newRec() *rec { return &rec{Counts: map[string]int{}} }

func (r *rec) Case(uint64) {}

func (r *rec) Line(op, ans string) { r.Lines = append(r.Lines, [2]string{op, ans}) }

func (r *rec) Fail(oracle, detail string, sig map[string]string) {
	if len(r.Fails) < 50 {
		r.Fails = append(r.Fails, hx.Finding{Oracle: oracle, Detail: detail, Signature: sig})
	}
}

func (r *rec) Count(k string) { r.Counts[k]++ }

func (r *rec) CountN(k string, n int) { r.Counts[k] += n }

func (r *rec) Nontrivial(k string) { r.Nontriv = append(r.Nontriv, k) }

type job struct {
	Sub  uint64 `json:"sub"`
	Desc string `json:"desc"` // "seq <op line> | <op line> | ..." or the op line of a stress part
}

type wire struct {
	Idx   int  `json:"idx"`
	Begin bool `json:"begin,omitempty"`
	Res   *rec `json:"res,omitempty"`
}

// childMain executes the jobs of a chunk file, `par` at a time, and appends one record when a job begins and one when
// it is done.
func childMain(chunkFile, resFile string, par int, unit time.Duration) {
	var jobs []job
	b, err := os.ReadFile(chunkFile)
	if err != nil {
		panic(err)
	}
	if err := json.Unmarshal(b, &jobs); err != nil {
		panic(err)
	}
	out, err := os.OpenFile(resFile, os.O_CREATE|os.O_WRONLY|os.O_APPEND, 0o644)
	if err != nil {
		panic(err)
	}
	if os.Getenv("C18_RT_CHILD") != "" {
		go rtGuard()
	}
	// a child whose parent is gone (killed by the time limit of the check, ...) must not stay around
	go func() {
		for {
			time.Sleep(2 * time.Second)
			if os.Getppid() == 1 {
				os.Exit(3)
			}
		}
	}()
	var mu sync.Mutex
	emitW := func(w wire) {
		mu.Lock()
		defer mu.Unlock()
		line, _ := json.Marshal(w)
		out.Write(append(line, '\n')) //nolint:errcheck
		out.Sync()                    //nolint:errcheck
	}
	sem := make(chan struct{}, par)
	var wg sync.WaitGroup
	for k := range jobs {
		wg.Add(1)
		sem <- struct{}{}
		go func(k int) {
			defer wg.Done()
			defer func() { <-sem }()
			emitW(wire{Idx: k, Begin: true})
			// backstop watchdog (the cases have their own, much tighter ones): a job that does not come back is a
			// finding "hang" with the job as replay, and the other jobs go on
			limit := 15 * time.Minute
			if strings.HasPrefix(jobs[k].Desc, "seq ") {
				limit = 2 * time.Minute
			}
			resCh := make(chan *rec, 1)
			go func() { resCh <- execDescriptor(jobs[k], unit) }()
			select {
			case res := <-resCh:
				emitW(wire{Idx: k, Res: res})
			case <-time.After(limit):
				emitW(wire{Idx: k, Res: hung(jobs[k], limit)})
			}
		}(k)
	}
	wg.Wait()
	out.Close()
	os.Exit(0) // goroutines of hung cases may still be around
}

// hung is what the child records for a job that did not come back.
func hung(j job, limit time.Duration) *rec {
	r := newRec()
	if strings.HasPrefix(j.Desc, "seq ") {
		for _, l := range strings.Split(strings.TrimPrefix(j.Desc, "seq "), " | ") {
			r.Line(l, "hang")
		}
	} else {
		r.Line(j.Desc, "hang")
	}
	r.Fail("hang", fmt.Sprintf("the case did not finish within %v; ops=%s", limit, strings.TrimPrefix(j.Desc, "seq ")),
		map[string]string{"oracle": "hang", "op": "case"})
	r.Count("case-hang")

	return r
}

var hiveFrame = regexp.MustCompile(`github\.com/iotaledger/hive\.go/[^\s(]+(\([^)]*\))?[.\w]*`)

// excerpt: the first n bytes of a child's stderr on one line.
func excerpt(s string, n int) string {
	s = strings.Join(strings.Fields(s), " ")
	if len(s) > n {
		s = s[:n] + " ..."
	}

	return s
}

// crashInfo extracts the panic message and the first hive.go frame from a dead child's stderr.
func crashInfo(stderr string) (msg, where string) {
	msg, where = "process died", "unknown"
	lines := strings.Split(stderr, "\n")
	for i, l := range lines {
		if strings.HasPrefix(l, "panic:") || strings.HasPrefix(l, "fatal error:") || strings.HasPrefix(l, "WARNING: DATA RACE") {
			msg = strings.TrimSpace(l)
			for _, m := range lines[i+1:] {
				if f := hiveFrame.FindString(m); f != "" {
					where = strings.TrimPrefix(f, "github.com/iotaledger/hive.go/")
					if k := strings.Index(where, "(0x"); k > 0 {
						where = where[:k]
					}

					break
				}
			}

			break
		}
	}

	return msg, where
}

// crashed is what the parent records for the job a child died in.
func crashed(j job, stderr string, alone bool) *rec {
	r := newRec()
	msg, where := crashInfo(stderr)
	if strings.HasPrefix(j.Desc, "seq ") {
		for _, l := range strings.Split(strings.TrimPrefix(j.Desc, "seq "), " | ") {
			r.Line(l, "crashed")
		}
	} else {
		r.Line(j.Desc, "crashed")
	}
	how := "re-run alone it crashed again"
	if !alone {
		how = "it was one of the cases running when the process died; re-run alone it did not crash"
	}
	r.Fail("crash", fmt.Sprintf("the code under test crashed the process (%s): %s; first hive.go frame: %s; ops=%s",
		how, msg, where, strings.TrimPrefix(j.Desc, "seq ")), map[string]string{"oracle": "crash", "where": where})
	r.Count("child-process-crash")

	return r
}

var (
	rtOnce   sync.Once
	rtOK     bool
	chrtPath string
)

// rtAllowed probes once whether this process may start a child in the real-time class.
func rtAllowed() bool {
	rtOnce.Do(func() {
		if os.Getenv("C18_NO_RT") != "" {
			return
		}
		p, err := exec.LookPath("chrt")
		if err != nil {
			return
		}
		tr, err := exec.LookPath("true")
		if err != nil {
			return
		}
		chrtPath = p
		rtOK = exec.Command(p, "-r", "1", tr).Run() == nil
	})

	return rtOK
}

func allSeq(jobs []job) bool {
	for _, j := range jobs {
		if !strings.HasPrefix(j.Desc, "seq ") {
			return false
		}
	}

	return len(jobs) > 0
}

// rtGuard runs in a child of the real-time class: when the process has used more than 4.5 cores over three seconds
// (the sequential cases need about half a core, a -race build a few times that) it puts all its threads back into the
// normal scheduling class.
func rtGuard() {
	cpu := func() time.Duration {
		var ru syscall.Rusage
		if syscall.Getrusage(syscall.RUSAGE_SELF, &ru) != nil {
			return 0
		}

		return time.Duration(ru.Utime.Nano() + ru.Stime.Nano())
	}
	last, lastAt := cpu(), time.Now()
	for {
		time.Sleep(3 * time.Second)
		now, at := cpu(), time.Now()
		if float64(now-last) > 4.5*float64(at.Sub(lastAt)) {
			if p, err := exec.LookPath("chrt"); err == nil {
				exec.Command(p, "-a", "-o", "-p", "0", fmt.Sprint(os.Getpid())).Run() //nolint:errcheck
			}
			fmt.Fprintln(os.Stderr, "c18: child left the real-time class (CPU use above 4.5 cores)")

			return
		}
		last, lastAt = now, at
	}
}

var (
	earlyMu   sync.Mutex
	earlySeen = map[string]bool{}
	earlyOff  atomic.Bool // set once the results go through hx as they arrive (hx owns the file from then on)
)

// earlyFindings appends the first finding of each signature to oracle.partial.jsonl (the file checklib reads when the
// harness is killed by its time limit) as soon as a child has delivered it - the merged results go through hx only
// after the whole sequential part, which a harness that is being slowed down by crashes or hangs may never reach.
// (hx truncates the file when it streams its own first finding; by then these findings are on their way through hx.)
func earlyFindings(dir string, j job, res *rec) {
	if res == nil || len(res.Fails) == 0 || earlyOff.Load() {
		return
	}
	earlyMu.Lock()
	defer earlyMu.Unlock()
	var ops []string
	if strings.HasPrefix(j.Desc, "seq ") {
		ops = strings.Split(strings.TrimPrefix(j.Desc, "seq "), " | ")
	} else {
		ops = []string{j.Desc}
	}
	for _, f := range res.Fails {
		sig, _ := json.Marshal(f.Signature)
		if earlySeen[string(sig)] {
			continue
		}
		earlySeen[string(sig)] = true
		b, err := json.Marshal(struct {
			hx.Finding
			Ops []string `json:"ops"`
		}{f, ops})
		if err != nil {
			continue
		}
		if pf, err := os.OpenFile(filepath.Join(dir, "oracle.partial.jsonl"), os.O_CREATE|os.O_WRONLY|os.O_APPEND, 0o644); err == nil {
			pf.Write(append(b, '\n')) //nolint:errcheck
			pf.Close()
		}
	}
}

// runChild runs one child over jobs; it returns the results it delivered, the indices that had begun but not finished
// when it died, and its stderr (empty if it exited normally).
func runChild(dir string, seq int, jobs []job, par int, unit time.Duration) (done map[int]*rec, open []int, stderr string) {
	chunkFile := filepath.Join(dir, fmt.Sprintf("chunk%d.json", seq))
	resFile := filepath.Join(dir, fmt.Sprintf("res%d.jsonl", seq))
	b, _ := json.Marshal(jobs)
	if err := os.WriteFile(chunkFile, b, 0o644); err != nil {
		panic(err)
	}
	os.Remove(resFile)
	self, err := os.Executable()
	if err != nil {
		panic(err)
	}
	args := []string{self, "--child", chunkFile, resFile, fmt.Sprint(par), fmt.Sprint(unit.Milliseconds())}
	cmd := exec.Command(args[0], args[1:]...)
	// The sequential cases are a real-time tie (a few goroutines that sleep until instants tens of ms apart, about half
	// a core in all).  On a machine with more runnable processes than cores their wake-ups come many ms late and the
	// attempts are thrown away as timing-invalid (measured with 40 runnable processes on 16 cores: 35 wake-ups per 20 s
	// more than 6 ms late under the normal policy, the same with nice -10, one under SCHED_RR).  Where the system
	// allows it, a child that runs sequential cases only is therefore started in the round-robin real-time class at
	// the lowest priority, with at most 6 threads running Go code, and it goes back to the normal class by itself if
	// it ever uses more CPU than that (rtGuard) - a change of the code under test that makes a worker spin must not
	// take the machine away from everybody else.  The CPU-heavy stress parts never run that way.
	if allSeq(jobs) && rtAllowed() {
		cmd = exec.Command(chrtPath, append([]string{"-r", "1"}, args...)...)
		cmd.Env = append(os.Environ(), "GOMAXPROCS=6", "C18_RT_CHILD=1")
	}
	var errBuf strings.Builder
	cmd.Stderr = &errBuf
	cmd.Stdout = os.Stdout
	runErr := cmd.Run()
	done = map[int]*rec{}
	begun := map[int]bool{}
	if f, err := os.Open(resFile); err == nil {
		sc := bufio.NewScanner(f)
		sc.Buffer(make([]byte, 1<<20), 1<<28)
		for sc.Scan() {
			var w wire
			if json.Unmarshal(sc.Bytes(), &w) != nil {
				continue
			}
			if w.Begin {
				begun[w.Idx] = true
			} else if w.Res != nil {
				if w.Res.Counts == nil {
					w.Res.Counts = map[string]int{}
				}
				done[w.Idx] = w.Res
			}
		}
		f.Close()
	}
	os.Remove(chunkFile)
	os.Remove(resFile)
	if runErr == nil {
		return done, nil, ""
	}
	for i := range jobs {
		if begun[i] && done[i] == nil {
			open = append(open, i)
		}
	}

	return done, open, errBuf.String() + "\n" + runErr.Error()
}

// runChunk executes the jobs of one chunk in a child process; if the child dies, the jobs that were running are re-run
// alone to find the culprit, the rest is re-run together.
func runChunk(dir string, seq *int, part []job, par int, unit time.Duration) []*rec {
	results := make([]*rec, len(part))
	todo := make([]int, len(part))
	for i := range todo {
		todo[i] = i
	}
	deaths := 0
	for len(todo) > 0 {
		if deaths >= 8 {
			// the code under test keeps killing the process (each death is recorded as a finding with its case as
			// replay): the rest of the chunk is not run any more
			for _, i := range todo {
				r := newRec()
				for _, l := range strings.Split(strings.TrimPrefix(part[i].Desc, "seq "), " | ") {
					r.Line(l, "not-run")
				}
				r.Count("not-run-after-8-process-deaths")
				results[i] = r
			}

			break
		}
		sub := make([]job, len(todo))
		for k, i := range todo {
			sub[k] = part[i]
		}
		*seq++
		done, open, stderr := runChild(dir, *seq, sub, par, unit)
		for k, res := range done {
			results[todo[k]] = res
			earlyFindings(dir, sub[k], res)
		}
		if stderr == "" {
			break
		}
		deaths++
		// the jobs that were running when the child died: each alone in a child of its own, eight children at a time
		culprit := false
		var cmu sync.Mutex
		var cwg sync.WaitGroup
		csem := make(chan struct{}, 8)
		for _, k := range open {
			*seq++
			cwg.Add(1)
			csem <- struct{}{}
			go func(k, own int) {
				defer cwg.Done()
				defer func() { <-csem }()
				d1, _, e1 := runChild(dir, own, []job{sub[k]}, 1, unit)
				cmu.Lock()
				defer cmu.Unlock()
				if e1 != "" {
					results[todo[k]] = crashed(sub[k], e1, true)
					culprit = true
				} else if d1[0] != nil {
					results[todo[k]] = d1[0]
				}
				earlyFindings(dir, sub[k], results[todo[k]])
			}(k, *seq)
		}
		cwg.Wait()
		if !culprit {
			switch {
			case len(open) > 0:
				results[todo[open[0]]] = crashed(sub[open[0]], stderr, false)
			case len(done) == len(sub):
				// every job delivered its result and the process still ended abnormally: the race detector of a -race
				// build (exit status 66 after "WARNING: DATA RACE"), or a failure after the last job.  The results
				// stand; the abnormal end is a finding of its own with the report, attributed to the last job.
				last := todo[len(sub)-1]
				msg, where := crashInfo(stderr)
				results[last].Fail("crash", fmt.Sprintf("the process of this part ended abnormally after all its jobs had delivered their results (%s; first hive.go frame: %s): %s; ops=%s",
					msg, where, excerpt(stderr, 1500), strings.TrimPrefix(sub[len(sub)-1].Desc, "seq ")), map[string]string{"oracle": "abnormal-exit", "what": msg, "where": where})
			default:
				results[todo[0]] = crashed(sub[0], stderr, false)
			}
		}
		var rest []int
		for _, i := range todo {
			if results[i] == nil {
				rest = append(rest, i)
			}
		}
		todo = rest
	}
	for i, res := range results {
		if res == nil {
			results[i] = crashed(part[i], "no result delivered", false)
		}
	}

	return results
}
