package main

import (
	"container/heap"
	"fmt"
	"strconv"
	"strings"
	"time"

	"verifharness/hx"

	"github.com/iotaledger/hive.go/ds/generalheap"
	"github.com/iotaledger/hive.go/runtime/timed"
)

// The heap alone.  `gheap <op>...` drives a generalheap.Heap[timed.HeapKey, int] through container/heap from one
// goroutine: p<rank> = heap.Push of a new element (the i-th push creates element i; ranks as in qseq: a number, p0/p1
// long past, f0..f3 centuries ahead; equal ranks are equal instants), x = heap.Pop, r<i> = heap.Remove(i).  The answer
// is the layout of the slice after every operation (for x / r<i> preceded by the element that came out) - the Lean
// driver computes the same with the model's Heap.push / Heap.pop / Heap.removeAt, which the protocol model uses for
// every critical section (order of ties, the victim of the size bound, what Cancel leaves behind).  The Go oracle,
// independent of Lean: Index() of every element is its position (-1 once it is out), Len() is the length, no element
// sorts before its parent (Less), Pop returns an element that no remaining one sorts before.
//
// `hkcmp <a> <b>`: HeapKey.CompareTo on two such instants; the model compares the ranks.

type gEl = generalheap.HeapElement[timed.HeapKey, int]

// rankInstant: the instant of a rank token; `cache` makes equal tokens of one line equal instants (now + 300 years is
// computed once).
func rankInstant(base time.Time, tok string, cache map[string]time.Time) (time.Time, bool) {
	if len(tok) == 2 && (tok[0] == 'p' || tok[0] == 'f') {
		if inst, ok := cache[tok]; ok {
			return inst, true
		}
		name := map[string]string{"p0": "z", "p1": "y1600", "f0": "y2300", "f1": "n300", "f2": "y9999", "f3": "u62"}[tok]
		inst, _, ok := farInstant(name, base)
		if ok {
			cache[tok] = inst
		}

		return inst, ok
	}
	n, err := strconv.Atoi(tok)
	if err != nil || n < 0 {
		return time.Time{}, false
	}

	return base.Add(time.Duration(n) * 1500 * time.Microsecond), true
}

func runGHeapLine(r *rec, line string) {
	f := strings.Fields(line)
	fail := func(detail, o string) {
		r.Fail("heap", "gheap: "+detail+"; ops="+line, map[string]string{"oracle": o, "mode": "gheap"})
	}
	base := time.Now()
	cache := map[string]time.Time{}
	if len(f) == 3 && f[0] == "hkcmp" {
		a, ok1 := rankInstant(base, f[1], cache)
		b, ok2 := rankInstant(base, f[2], cache)
		if !ok1 || !ok2 {
			r.Line(line, "bad-op")

			return
		}
		c := timed.HeapKey(a).CompareTo(timed.HeapKey(b))
		if d := timed.HeapKey(b).CompareTo(timed.HeapKey(a)); d != -c {
			fail(fmt.Sprintf("CompareTo is not antisymmetric: %d and %d", c, d), "compare")
		}
		if (c < 0) != a.Before(b) || (c > 0) != a.After(b) {
			fail(fmt.Sprintf("CompareTo = %d disagrees with time.Before/After", c), "compare")
		}
		r.Line(line, strconv.Itoa(c))
		r.Count("hkcmp")

		return
	}
	if len(f) < 1 || f[0] != "gheap" {
		r.Line(line, "bad-op")

		return
	}
	var h generalheap.Heap[timed.HeapKey, int]
	var all []*gEl
	out := map[*gEl]bool{}
	layout := func() string {
		var p []string
		for _, e := range h {
			p = append(p, strconv.Itoa(e.Value))
		}

		return strings.Join(p, " ")
	}
	var ans []string
	for _, tok := range f[1:] {
		switch {
		case tok == "x":
			if h.Len() == 0 {
				ans = append(ans, "empty")

				break
			}
			var e *gEl
			if p := hx.Safely(func() { e = heap.Pop(&h).(*gEl) }); p != "" {
				fail("heap.Pop panicked: "+p, "panic")
				r.Line(line, "panic")

				return
			}
			out[e] = true
			for _, o := range h {
				if o.Key.CompareTo(e.Key) < 0 {
					fail(fmt.Sprintf("Pop returned element %d although element %d is earlier", e.Value, o.Value), "pop-not-minimal")
				}
			}
			ans = append(ans, fmt.Sprintf("%d<%s", e.Value, layout()))
		case tok[0] == 'r':
			i, err := strconv.Atoi(tok[1:])
			if err != nil {
				r.Line(line, "bad-op")

				return
			}
			if i >= h.Len() {
				ans = append(ans, "none")

				break
			}
			var e *gEl
			if p := hx.Safely(func() { e = heap.Remove(&h, i).(*gEl) }); p != "" {
				fail("heap.Remove panicked: "+p, "panic")
				r.Line(line, "panic")

				return
			}
			out[e] = true
			ans = append(ans, fmt.Sprintf("%d<%s", e.Value, layout()))
		case tok[0] == 'p':
			inst, ok := rankInstant(base, tok[1:], cache)
			if !ok {
				r.Line(line, "bad-op")

				return
			}
			e := &gEl{Key: timed.HeapKey(inst), Value: len(all)}
			all = append(all, e)
			heap.Push(&h, e)
			ans = append(ans, layout())
		default:
			r.Line(line, "bad-op")

			return
		}
		// invariants after every operation
		if h.Len() != len(h) {
			fail("Len() is not the length of the slice", "len")
		}
		for i, e := range h {
			if e.Index() != i {
				fail(fmt.Sprintf("element %d is at position %d but its Index() is %d", e.Value, i, e.Index()), "index")
			}
			if i > 0 && h.Less(i, (i-1)/2) {
				fail(fmt.Sprintf("element %d at position %d sorts before its parent", e.Value, i), "heap-order")
			}
		}
		for e := range out {
			if e.Index() != -1 {
				fail(fmt.Sprintf("element %d is out of the heap but its Index() is %d", e.Value, e.Index()), "index")
			}
		}
	}
	r.Line(line, strings.Join(ans, "|"))
	r.Count("gheap")
	r.CountN("gheap-ops", len(f)-1)
}

func genGHeap(rng *hx.Rng) string {
	toks := []string{"gheap"}
	size := 0
	n := rng.Range(3, 16)
	for i := 0; i < n; i++ {
		switch y := rng.Intn(20); {
		case y < 4 && size > 0:
			toks = append(toks, "x")
			size--
		case y < 7 && size > 0:
			toks = append(toks, fmt.Sprintf("r%d", rng.Intn(size)))
			size--
		case y == 7:
			toks = append(toks, "p"+hx.Pick(rng, []string{"p0", "p1", "f0", "f1", "f2", "f3"}))
			size++
		default:
			toks = append(toks, fmt.Sprintf("p%d", rng.Intn(7))) // few ranks: ties are frequent
			size++
		}
	}

	return strings.Join(toks, " ")
}

func runGHeaps(r *rec, sub uint64, count int) {
	rng := hx.NewRng(sub)
	lines := []string{"gheap p3 p1 p2 x x x x", "gheap p2 p2 p2 p2 r1 x", "gheap p5 p4 p3 p2 p1 p0 r5 r0 r2", "gheap pf3 pp0 p1 pf0 pp1 x r1 x",
		"gheap p1 p3 p2 p6 p5 p4 r3 r1", "gheap x r0 p0 x x"}
	insts := []string{"p0", "p1", "0", "1", "5", "f0", "f1", "f2", "f3"}
	for _, a := range insts {
		for _, b := range insts {
			lines = append(lines, "hkcmp "+a+" "+b)
		}
	}
	for i := 0; i < count; i++ {
		lines = append(lines, genGHeap(rng))
	}
	for _, l := range lines {
		runGHeapLine(r, l)
	}
	r.Nontrivial("gheaps")
}
