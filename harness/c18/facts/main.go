// facts prints facts about the Go source as a Lean module (namespace given): per request one `def`.
//
//	facts <out.lean> <LeanNamespace> <request> ...
//
// Requests:
//
//	<file.go>:<Func|Recv.Method>   def stmts_<Name> : List String — the statements of the function as normalised source
//	                               text in source order (comments and white space removed; the guards, arguments, index
//	                               expressions and constants are part of the tokens)
//	<file.go>:var=<Name>           def stmts_var_<Name> — the initialiser of a package-level variable / constant
//	<dir>:methods=<Type>           def methods_<Type> : List String — every method declared on the type in the non-test
//	                               files of the package directory, sorted: "<Name> func(<params>) <results>" (a method
//	                               added to a type - e.g. one that shadows a promoted method of an embedded type -
//	                               changes the list)
//	<file.go>:consts=<Type>        def consts_<Type> : List (String × Nat) — the constants declared with this type in the
//	                               file, with their values (iota, shifts, |, +, parentheses are evaluated)
//
// Tokens: a simple statement is one token; compound statements become "if <cond>" … "else" … "end",
// "for <init>;<cond>;<post>" … "end", "range <key>,<value>:=<x>" … "end", "select" "case <comm>" … "default" … "end",
// "switch <tag>" "case <exprs>" … "end", "label <name>"; a function literal inside a statement is replaced by
// `func{..}` in the statement's token and its body follows between "func{" and "}func".
// (The statement printer is the one of harness/c08/stmts.)
package main

import (
	"bytes"
	"fmt"
	"go/ast"
	"go/parser"
	"go/printer"
	"go/token"
	"os"
	"path/filepath"
	"sort"
	"strconv"
	"strings"
)

type ex struct {
	fset *token.FileSet
	toks []string
}

func (e *ex) raw(n ast.Node) string {
	var b bytes.Buffer
	printer.Fprint(&b, e.fset, n)

	return b.String()
}

func squeeze(s string) string { return strings.Join(strings.Fields(s), " ") }

// src renders a node with every function literal's body replaced by `..`; the literals are returned in order.
func (e *ex) src(n ast.Node) (string, []*ast.FuncLit) {
	if n == nil {
		return "", nil
	}
	var lits []*ast.FuncLit
	ast.Inspect(n, func(x ast.Node) bool {
		if fl, ok := x.(*ast.FuncLit); ok {
			lits = append(lits, fl)

			return false
		}

		return true
	})
	s := e.raw(n)
	for _, fl := range lits {
		s = strings.Replace(s, e.raw(fl.Body), "{..}", 1)
	}

	return squeeze(s), lits
}

func (e *ex) emit(s string) { e.toks = append(e.toks, s) }

func (e *ex) simple(prefix string, n ast.Node) {
	s, lits := e.src(n)
	e.emit(strings.TrimSpace(prefix + s))
	for _, fl := range lits {
		e.emit("func{")
		e.block(fl.Body.List)
		e.emit("}func")
	}
}

func (e *ex) block(stmts []ast.Stmt) {
	for _, s := range stmts {
		e.stmt(s)
	}
}

func (e *ex) text(n ast.Node) string {
	if n == nil {
		return ""
	}
	s, _ := e.src(n)

	return s
}

func (e *ex) stmt(s ast.Stmt) {
	switch s := s.(type) {
	case nil:
	case *ast.BlockStmt:
		e.emit("{")
		e.block(s.List)
		e.emit("}")
	case *ast.IfStmt:
		head := "if "
		if s.Init != nil {
			head += e.text(s.Init) + "; "
		}
		e.simple(head, s.Cond)
		e.block(s.Body.List)
		if s.Else != nil {
			e.emit("else")
			if b, ok := s.Else.(*ast.BlockStmt); ok {
				e.block(b.List)
			} else {
				e.stmt(s.Else)
			}
		}
		e.emit("end")
	case *ast.ForStmt:
		e.emit(strings.TrimSpace("for " + e.text(s.Init) + ";" + e.text(s.Cond) + ";" + e.text(s.Post)))
		e.block(s.Body.List)
		e.emit("end")
	case *ast.RangeStmt:
		if s.Key == nil && s.Value == nil {
			e.emit("range " + e.text(s.X))
		} else {
			e.emit("range " + e.text(s.Key) + "," + e.text(s.Value) + s.Tok.String() + e.text(s.X))
		}
		e.block(s.Body.List)
		e.emit("end")
	case *ast.SelectStmt:
		e.emit("select")
		for _, c := range s.Body.List {
			cc := c.(*ast.CommClause)
			if cc.Comm == nil {
				e.emit("default")
			} else {
				e.emit("case " + e.text(cc.Comm))
			}
			e.block(cc.Body)
		}
		e.emit("end")
	case *ast.SwitchStmt:
		e.emit(strings.TrimSpace("switch " + e.text(s.Init) + ";" + e.text(s.Tag)))
		for _, c := range s.Body.List {
			cc := c.(*ast.CaseClause)
			var xs []string
			for _, x := range cc.List {
				xs = append(xs, e.text(x))
			}
			e.emit("case " + strings.Join(xs, ","))
			e.block(cc.Body)
		}
		e.emit("end")
	case *ast.LabeledStmt:
		e.emit("label " + s.Label.Name)
		e.stmt(s.Stmt)
	default:
		e.simple("", s)
	}
}

func recvName(fd *ast.FuncDecl) string {
	if fd.Recv == nil || len(fd.Recv.List) == 0 {
		return ""
	}
	t := fd.Recv.List[0].Type
	for {
		switch x := t.(type) {
		case *ast.StarExpr:
			t = x.X

			continue
		case *ast.IndexExpr:
			t = x.X

			continue
		case *ast.IndexListExpr:
			t = x.X

			continue
		case *ast.Ident:
			return x.Name
		}

		return ""
	}
}

func leanIdent(s string) string {
	return strings.NewReplacer(".", "_", "-", "_", "/", "_", "=", "_").Replace(s)
}

// methodsOf: the methods declared on type `tn` in the non-test files of directory `dir`, sorted.
func methodsOf(fset *token.FileSet, dir, tn string) ([]string, error) {
	ents, err := os.ReadDir(dir)
	if err != nil {
		return nil, err
	}
	var ms []string
	e := &ex{fset: fset}
	for _, en := range ents {
		n := en.Name()
		if en.IsDir() || !strings.HasSuffix(n, ".go") || strings.HasSuffix(n, "_test.go") {
			continue
		}
		f, err := parser.ParseFile(fset, filepath.Join(dir, n), nil, 0)
		if err != nil {
			return nil, err
		}
		for _, d := range f.Decls {
			fd, isFn := d.(*ast.FuncDecl)
			if !isFn || recvName(fd) != tn {
				continue
			}
			ptr := ""
			if _, isPtr := fd.Recv.List[0].Type.(*ast.StarExpr); isPtr {
				ptr = "*"
			}
			ms = append(ms, ptr+fd.Name.Name+" "+e.text(fd.Type))
		}
	}
	sort.Slice(ms, func(i, j int) bool { return strings.TrimPrefix(ms[i], "*") < strings.TrimPrefix(ms[j], "*") })

	return ms, nil
}

type constVal struct {
	name string
	val  uint64
}

func evalConst(x ast.Expr, iota uint64) (uint64, error) {
	switch x := x.(type) {
	case *ast.BasicLit:
		if x.Kind == token.INT {
			return strconv.ParseUint(x.Value, 0, 64)
		}
	case *ast.Ident:
		if x.Name == "iota" {
			return iota, nil
		}
	case *ast.ParenExpr:
		return evalConst(x.X, iota)
	case *ast.BinaryExpr:
		l, err := evalConst(x.X, iota)
		if err != nil {
			return 0, err
		}
		r, err := evalConst(x.Y, iota)
		if err != nil {
			return 0, err
		}
		switch x.Op {
		case token.SHL:
			return l << r, nil
		case token.OR:
			return l | r, nil
		case token.ADD:
			return l + r, nil
		case token.MUL:
			return l * r, nil
		}
	}

	return 0, fmt.Errorf("facts: constant expression not understood")
}

// constsOf: the constants of the file declared with type `tn` (explicitly or by implicit repetition), with values.
func constsOf(f *ast.File, tn string) ([]constVal, error) {
	var out []constVal
	for _, d := range f.Decls {
		gd, isGen := d.(*ast.GenDecl)
		if !isGen || gd.Tok != token.CONST {
			continue
		}
		var curType string
		var curVals []ast.Expr
		for i, sp := range gd.Specs {
			vs := sp.(*ast.ValueSpec)
			if len(vs.Values) > 0 {
				curVals = vs.Values
				curType = ""
				if id, ok := vs.Type.(*ast.Ident); ok {
					curType = id.Name
				}
			}
			if curType != tn {
				continue
			}
			for k, n := range vs.Names {
				if k >= len(curVals) {
					return nil, fmt.Errorf("facts: constant %s has no value", n.Name)
				}
				v, err := evalConst(curVals[k], uint64(i))
				if err != nil {
					return nil, fmt.Errorf("%w: %s", err, n.Name)
				}
				out = append(out, constVal{n.Name, v})
			}
		}
	}
	if len(out) == 0 {
		return nil, fmt.Errorf("facts: no constant of type %s", tn)
	}

	return out, nil
}

func main() {
	if len(os.Args) < 4 {
		fmt.Fprintln(os.Stderr, "usage: facts <out.lean> <LeanNamespace> <request> ...")
		os.Exit(2)
	}
	out, ns := os.Args[1], os.Args[2]
	fset := token.NewFileSet()
	files := map[string]*ast.File{}
	var b strings.Builder
	fmt.Fprintf(&b, "/-! GENERATED by harness/c18/facts — statements, method sets and constants of the Go source; do not edit. -/\nnamespace %s\n\n", ns)
	failed := false
	for _, a := range os.Args[3:] {
		i := strings.LastIndex(a, ":")
		if i < 0 {
			fmt.Fprintln(os.Stderr, "bad request", a)
			os.Exit(2)
		}
		file, name := a[:i], a[i+1:]
		if strings.HasPrefix(name, "methods=") {
			tn := strings.TrimPrefix(name, "methods=")
			ms, err := methodsOf(fset, file, tn)
			if err != nil {
				fmt.Fprintln(os.Stderr, err)
				failed = true

				continue
			}
			fmt.Fprintf(&b, "/-- methods declared on %s in %s -/\ndef methods_%s : List String := [", tn, filepath.Base(file), leanIdent(tn))
			for i, t := range ms {
				if i > 0 {
					b.WriteString(",")
				}
				b.WriteString("\n  ")
				fmt.Fprintf(&b, "%q", t)
			}
			b.WriteString("]\n\n")

			continue
		}
		f, ok := files[file]
		if !ok {
			var err error
			f, err = parser.ParseFile(fset, file, nil, 0)
			if err != nil {
				fmt.Fprintln(os.Stderr, err)
				os.Exit(1)
			}
			files[file] = f
		}
		e := &ex{fset: fset}
		found := false
		header := ""
		if strings.HasPrefix(name, "consts=") {
			tn := strings.TrimPrefix(name, "consts=")
			cs, err := constsOf(f, tn)
			if err != nil {
				fmt.Fprintln(os.Stderr, err)
				failed = true

				continue
			}
			fmt.Fprintf(&b, "/-- constants of type %s in %s -/\ndef consts_%s : List (String × Nat) := [", tn, filepath.Base(file), leanIdent(tn))
			for i, c := range cs {
				if i > 0 {
					b.WriteString(", ")
				}
				fmt.Fprintf(&b, "(%q, %d)", c.name, c.val)
			}
			b.WriteString("]\n\n")

			continue
		}
		if strings.HasPrefix(name, "var=") {
			vn := strings.TrimPrefix(name, "var=")
			for _, d := range f.Decls {
				gd, isGen := d.(*ast.GenDecl)
				if !isGen || (gd.Tok != token.VAR && gd.Tok != token.CONST) {
					continue
				}
				for _, sp := range gd.Specs {
					vs := sp.(*ast.ValueSpec)
					for k, n := range vs.Names {
						if n.Name != vn || k >= len(vs.Values) {
							continue
						}
						found = true
						// a composite literal: one token per element
						if cl, isLit := vs.Values[k].(*ast.CompositeLit); isLit {
							e.emit(e.text(cl.Type))
							for _, el := range cl.Elts {
								e.simple("", el)
							}
						} else {
							e.simple("", vs.Values[k])
						}
					}
				}
			}
			header = "var " + vn
		} else {
			for _, d := range f.Decls {
				fd, isFn := d.(*ast.FuncDecl)
				if !isFn || fd.Body == nil {
					continue
				}
				full := fd.Name.Name
				if rn := recvName(fd); rn != "" {
					full = rn + "." + fd.Name.Name
				}
				if full == name {
					found = true
					e.emit("func " + e.text(fd.Type))
					e.block(fd.Body.List)
					header = fmt.Sprintf("%s (%s:%d)", name, file[strings.LastIndex(file, "/")+1:], fset.Position(fd.Pos()).Line)
				}
			}
		}
		if !found {
			fmt.Fprintf(os.Stderr, "facts: %s not found in %s\n", name, file)
			failed = true

			continue
		}
		fmt.Fprintf(&b, "/-- %s -/\ndef stmts_%s : List String := [", header, leanIdent(strings.Replace(name, "var=", "var_", 1)))
		for i, t := range e.toks {
			if i > 0 {
				b.WriteString(",")
			}
			b.WriteString("\n  ")
			fmt.Fprintf(&b, "%q", t)
		}
		b.WriteString("]\n\n")
	}
	fmt.Fprintf(&b, "end %s\n", ns)
	if failed {
		os.Exit(1)
	}
	if err := os.WriteFile(out, []byte(b.String()), 0o644); err != nil {
		fmt.Fprintln(os.Stderr, err)
		os.Exit(1)
	}
}
