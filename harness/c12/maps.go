package main

import (
	"fmt"
	"math"
	"reflect"
	"sort"
	"strconv"
	"strings"
	"time"
	"unsafe"

	"verifharness/hx"

	"github.com/iotaledger/hive.go/ds/randommap"
	"github.com/iotaledger/hive.go/ds/shrinkingmap"
)

func atoi(s string) int {
	n, err := strconv.Atoi(s)
	if err != nil {
		panic("bad number " + s)
	}

	return n
}

func showInts(l []int) string {
	s := make([]string, len(l))
	for i, x := range l {
		s[i] = strconv.Itoa(x)
	}

	return "[" + strings.Join(s, " ") + "]"
}

func sortedCopy(l []int) []int {
	c := append([]int(nil), l...)
	sort.Ints(c)

	return c
}

func showPairs(m map[int]int) string {
	keys := make([]int, 0, len(m))
	for k := range m {
		keys = append(keys, k)
	}
	sort.Ints(keys)
	s := make([]string, len(keys))
	for i, k := range keys {
		s[i] = fmt.Sprintf("%d:%d", k, m[k])
	}

	return "[" + strings.Join(s, " ") + "]"
}

func optVal(v int, ok bool) string {
	if !ok {
		return "none"
	}

	return strconv.Itoa(v)
}

func shrinkOpts(f []string) []shrinkingmap.Option {
	if len(f) == 1 && f[0] == "default" {
		return nil // New() without options: ratio 10.0, count 100
	}
	if special, ok := map[string]float64{"nan": math.NaN(), "+inf": math.Inf(1), "-inf": math.Inf(-1)}[f[0]]; ok {
		return []shrinkingmap.Option{ // IEEE specials are legal float32 option values
			shrinkingmap.WithShrinkingThresholdRatio(float32(special)),
			shrinkingmap.WithShrinkingThresholdCount(atoi(f[1])),
		}
	}
	num, den, count := atoi(f[0]), atoi(f[1]), atoi(f[2])
	if den <= 0 {
		panic("bad ratio")
	}

	return []shrinkingmap.Option{
		shrinkingmap.WithShrinkingThresholdRatio(float32(num) / float32(den)),
		shrinkingmap.WithShrinkingThresholdCount(count),
	}
}

// ---------------------------------------------------------------------------------------------
// ShrinkingMap
// ---------------------------------------------------------------------------------------------

type shrinkW struct {
	m        *shrinkingmap.ShrinkingMap[int, int]
	ref      map[int]int // abstract model: a plain map
	rebuilt  bool
	readBack bool
	dead     bool // a re-entrant callback hung: the instance is abandoned
}

func newShrink(f []string) world {
	return &shrinkW{m: shrinkingmap.New[int, int](shrinkOpts(f)...), ref: map[int]int{}}
}

func (w *shrinkW) nontrivial() bool { return w.rebuilt && w.readBack }

func (w *shrinkW) deletedKeys() int {
	return int(reflect.ValueOf(w.m).Elem().FieldByName("deletedKeys").Int())
}

// state: the deletion counter and the length of the Go map (both read by reflection).
func (w *shrinkW) state() string {
	if w.dead {
		return "dead"
	}

	return fmt.Sprintf("d%d n%d", w.deletedKeys(), reflect.ValueOf(w.m).Elem().FieldByName("m").Len())
}

// scribble overwrites a slice the container handed out (and the spare capacity behind it): what a
// caller may legally do with its own copy.  If the container handed out its own storage, the next
// state / observation shows it.
func scribble(l []int) {
	for i := range l {
		l[i] = -777
	}
	l = l[:cap(l)]
	for i := range l {
		l[i] = -777
	}
}

// guarded runs f (which re-enters the container from a callback) under a watchdog: a container that
// still holds its lock while it calls back hangs there.
func guarded(f func()) (finished bool) {
	done := make(chan string, 1)
	go func() { done <- hx.Safely(f) }()
	select {
	case p := <-done:
		if p != "" {
			panic(p)
		}

		return true
	case <-time.After(15 * time.Second):
		hangSeen = true

		return false
	}
}

// hangSeen: a re-entrant callback hung once; the probe is not repeated (every repetition would cost
// the whole watchdog time again).
var hangSeen bool

func (w *shrinkW) exec(r *hx.Run, f []string) (string, string) {
	line := strings.Join(f, " ")
	bad := func(what string, got, want any) {
		fail(r, "shrink", f[0], "plain-map", fmt.Sprintf("%s: %s = %v, a plain map gives %v (model %v)", line, what, got, want, w.ref))
	}
	if w.dead {
		return line, "dead"
	}
	before := w.deletedKeys()
	defer func() {
		if w.dead {
			return
		}
		if w.deletedKeys() < before && f[0] != "clear" && f[0] != "shrink" {
			w.rebuilt = true
		} else if w.rebuilt && (f[0] == "get" || f[0] == "asmap" || f[0] == "keys" || f[0] == "foreach" || f[0] == "values") {
			w.readBack = true
		}
	}()
	switch f[0] {
	case "set":
		k, v := atoi(f[1]), atoi(f[2])
		created := w.m.Set(k, v)
		_, had := w.ref[k]
		w.ref[k] = v
		if created == had {
			bad("created", created, !had)
		}

		return line, strconv.FormatBool(created)
	case "get":
		k := atoi(f[1])
		v, ok := w.m.Get(k)
		rv, rok := w.ref[k]
		if ok != rok || (ok && v != rv) {
			bad("Get", optVal(v, ok), optVal(rv, rok))
		}

		return line, optVal(v, ok)
	case "goc":
		k, d := atoi(f[1]), atoi(f[2])
		calls := 0
		v, created := w.m.GetOrCreate(k, func() int { calls++; return d })
		rv, had := w.ref[k]
		if (calls != 0) != !had || calls > 1 {
			bad("calls of the default-value function", calls, map[bool]int{true: 0, false: 1}[had])
		}
		if !had {
			w.ref[k] = d
			rv = d
		}
		if created == had || v != rv {
			bad("GetOrCreate", fmt.Sprint(v, created), fmt.Sprint(rv, !had))
		}

		return line, fmt.Sprintf("%d %t", v, created)
	case "compute":
		k, d := atoi(f[1]), atoi(f[2])
		calls := 0
		curRef, hadRef := w.ref[k]
		v := w.m.Compute(k, func(cur int, exists bool) int {
			calls++
			if exists != hadRef || (exists && cur != curRef) || (!exists && cur != 0) {
				bad("arguments of the update function", fmt.Sprint(cur, exists), fmt.Sprint(curRef, hadRef))
			}
			if exists {
				return cur + d
			}

			return d
		})
		rv, had := w.ref[k]
		if had {
			rv += d
		} else {
			rv = d
		}
		w.ref[k] = rv
		if v != rv {
			bad("Compute", v, rv)
		}
		if calls != 1 {
			bad("calls of the update function", calls, 1)
		}

		return line, strconv.Itoa(v)
	case "has":
		k := atoi(f[1])
		b := w.m.Has(k)
		if _, had := w.ref[k]; b != had {
			bad("Has", b, had)
		}

		return line, strconv.FormatBool(b)
	case "del", "delif":
		k := atoi(f[1])
		var b bool
		_, had := w.ref[k]
		if f[0] == "delif" {
			c := f[2] == "true"
			calls := 0
			b = w.m.Delete(k, func() bool { calls++; return c }, func() bool { calls += 100; return true })
			had = had && c
			if calls != 1 {
				bad("calls of the delete condition (only the first condition counts, once)", calls, 1)
			}
		} else {
			b = w.m.Delete(k)
		}
		if had {
			delete(w.ref, k)
		}
		if b != had {
			bad("Delete", b, had)
		}

		return line, strconv.FormatBool(b)
	case "delret":
		k := atoi(f[1])
		v, ok := w.m.DeleteAndReturn(k)
		rv, had := w.ref[k]
		delete(w.ref, k)
		if ok != had || (ok && v != rv) {
			bad("DeleteAndReturn", optVal(v, ok), optVal(rv, had))
		}

		return line, optVal(v, ok)
	case "pop":
		k, v, ok := w.m.Pop()
		if !ok {
			if len(w.ref) != 0 {
				bad("Pop", "nothing", "an entry")
			}

			return "pop -", "none"
		}
		rv, had := w.ref[k]
		if !had || rv != v {
			bad("Pop", fmt.Sprint(k, v), "an entry of the map")
		}
		delete(w.ref, k)

		return fmt.Sprintf("pop %d", k), strconv.Itoa(v)
	case "keys", "foreachkey":
		var keys []int
		if f[0] == "keys" {
			keys = w.m.Keys()
		} else {
			w.m.ForEachKey(func(k int) bool { keys = append(keys, k); return true })
		}
		if f[0] == "keys" {
			retainInts("shrink", line, keys)
		}
		keys = sortedCopy(keys)
		want := make([]int, 0)
		for k := range w.ref {
			want = append(want, k)
		}
		sort.Ints(want)
		if showInts(keys) != showInts(want) {
			bad("keys", keys, want)
		}

		return line, showInts(keys)
	case "values":
		rawVals := w.m.Values()
		vals := sortedCopy(rawVals)
		retainInts("shrink", line, rawVals)
		want := make([]int, 0)
		for _, v := range w.ref {
			want = append(want, v)
		}
		sort.Ints(want)
		if showInts(vals) != showInts(want) {
			bad("Values", vals, want)
		}

		return line, showInts(vals)
	case "size":
		n := w.m.Size()
		if n != len(w.ref) {
			bad("Size", n, len(w.ref))
		}

		return line, strconv.Itoa(n)
	case "isempty":
		b := w.m.IsEmpty()
		if b != (len(w.ref) == 0) {
			bad("IsEmpty", b, len(w.ref) == 0)
		}

		return line, strconv.FormatBool(b)
	case "asmap", "foreach":
		got := map[int]int{}
		if f[0] == "asmap" {
			got = w.m.AsMap()
		} else {
			dup := false
			w.m.ForEach(func(k, v int) bool {
				if _, seen := got[k]; seen {
					dup = true
				}
				got[k] = v

				return true
			})
			if dup {
				bad("ForEach", "a key twice", "every key once")
			}
		}
		if showPairs(got) != showPairs(w.ref) {
			bad(f[0], showPairs(got), showPairs(w.ref))
		}
		if f[0] == "asmap" {
			retainMap("shrink", line, got) // the caller owns the returned map
		}

		return line, showPairs(got)
	case "foreachn", "foreachkeyn":
		// the callback stops the iteration after n visits (it is always called once on a non-empty map)
		n := atoi(f[1])
		seen := map[int]bool{}
		visits := 0
		visit := func(k int) bool {
			visits++
			if _, had := w.ref[k]; !had || seen[k] {
				bad(f[0], k, "a key of the map, visited once")
			}
			seen[k] = true

			return visits < n
		}
		if f[0] == "foreachn" {
			w.m.ForEach(func(k, v int) bool {
				if w.ref[k] != v {
					bad("foreachn", fmt.Sprint(k, ":", v), "a binding of the map")
				}

				return visit(k)
			})
		} else {
			w.m.ForEachKey(visit)
		}
		want := n
		if want < 1 {
			want = 1
		}
		if len(w.ref) < want {
			want = len(w.ref)
		}
		if visits != want {
			bad(f[0]+" visits", visits, want)
		}

		return line, strconv.Itoa(visits)
	case "foreachdel", "foreachkeydel":
		// the first callback deletes every key (the iteration runs over a snapshot taken under the lock, so
		// every key of the snapshot is still visited); re-entering the map from the callback is legal
		if hangSeen {
			return line, "skipped-after-hang"
		}
		snapshot := map[int]int{}
		var order []int
		for k, v := range w.ref {
			snapshot[k] = v
			order = append(order, k)
		}
		sort.Ints(order)
		got := map[int]int{}
		first := true
		visit := func(k, v int) bool {
			if first {
				first = false
				for _, d := range order {
					if !w.m.Delete(d) {
						bad(f[0], "Delete("+strconv.Itoa(d)+") from the callback = false", true)
					}
				}
			}
			got[k] = v

			return true
		}
		finished := guarded(func() {
			if f[0] == "foreachdel" {
				w.m.ForEach(visit)
			} else {
				w.m.ForEachKey(func(k int) bool { return visit(k, snapshot[k]) })
			}
		})
		if !finished {
			w.dead = true
			fail(r, "shrink", f[0], "hang", fmt.Sprintf("%s: deleting from inside the callback did not return within 15 s (model %v)", line, w.ref))

			return line, "hang"
		}
		w.ref = map[int]int{}
		if showPairs(got) != showPairs(snapshot) {
			bad(f[0], showPairs(got), showPairs(snapshot))
		}
		if f[0] == "foreachkeydel" {
			return line, showInts(sortedCopy(order))
		}

		return line, showPairs(got)
	case "clear":
		w.m.Clear()
		w.ref = map[int]int{}

		return line, "ok"
	case "shrink":
		w.m.Shrink()

		return line, "ok"
	case "deleted": // white-box: the deletion counter
		return line, strconv.Itoa(w.deletedKeys())
	}

	return line, "bad-op"
}

var ratios = [][2]int{{0, 1}, {1, 2}, {1, 1}, {3, 2}, {2, 1}, {3, 1}}

// unusual but legal option values (all exact in float32): a tiny, a huge and a negative ratio;
// counts 1, MaxInt, negative
// ... and ratios that are not exact in float32 (1/3, 2/3, 1/10, 7/5: the quotient deleted/size is rounded the same way)
var oddRatios = [][2]int{{1, 1 << 20}, {1 << 40, 1}, {-1, 1}, {10, 1}, {1, 3}, {2, 3}, {1, 10}, {7, 5}}
var oddCounts = []int{1, 100, math.MaxInt, math.MaxInt - 1, -1, math.MinInt}

func genOpts(rng *hx.Rng) string {
	if rng.Chance(1, 25) {
		return "new default"
	}
	rt := hx.Pick(rng, ratios)
	count := rng.Intn(4)
	if rng.Chance(1, 5) {
		rt = hx.Pick(rng, oddRatios)
	}
	if rng.Chance(1, 5) {
		count = hx.Pick(rng, oddCounts)
	}
	if rng.Chance(1, 20) {
		return fmt.Sprintf("new %s %d", hx.Pick(rng, []string{"nan", "+inf", "-inf"}), count)
	}

	return fmt.Sprintf("new %d %d %d", rt[0], rt[1], count)
}

func genShrink(rng *hx.Rng, n int) []string {
	ops := []string{"shrink " + genOpts(rng)}
	nk := rng.Range(4, 6)
	if rng.Chance(1, 8) { // a larger universe: maps of ten and more entries, several growth steps of the key slice / the Go map
		nk = rng.Range(10, 30)
	}
	for i := 0; i < n; i++ {
		k := rng.Intn(nk)
		var op string
		switch x := rng.Intn(100); {
		case x < 22:
			op = fmt.Sprintf("set %d %d", k, rng.Intn(10))
		case x < 30:
			op = fmt.Sprintf("get %d", k)
		case x < 35:
			op = fmt.Sprintf("goc %d %d", k, rng.Intn(10))
		case x < 40:
			op = fmt.Sprintf("compute %d %d", k, rng.Intn(4))
		case x < 44:
			op = fmt.Sprintf("has %d", k)
		case x < 60:
			op = fmt.Sprintf("del %d", k)
		case x < 64:
			op = fmt.Sprintf("delif %d %t", k, rng.Bool())
		case x < 70:
			op = fmt.Sprintf("delret %d", k)
		case x < 75:
			op = "pop"
		case x < 78:
			op = "keys"
		case x < 80:
			op = "foreachkey"
		case x < 82:
			op = "values"
		case x < 85:
			op = "size"
		case x < 86:
			op = "isempty"
		case x < 88:
			op = "asmap"
		case x < 90:
			op = "foreach"
		case x < 91:
			op = "clear"
		case x < 93:
			op = "shrink"
		case x < 95:
			op = fmt.Sprintf("%s %d", hx.Pick(rng, []string{"foreachn", "foreachkeyn"}), rng.Intn(5))
		case x < 97:
			op = hx.Pick(rng, []string{"foreachdel", "foreachkeydel"})
		default:
			op = "deleted"
		}
		ops = append(ops, "shrink "+op)
	}

	return ops
}

// ---------------------------------------------------------------------------------------------
// RandomMap
// ---------------------------------------------------------------------------------------------

type rmapW struct {
	m        *randommap.RandomMap[int, int]
	ref      map[int]int
	delInner bool
	picked   bool
}

func newRMap(f []string) world {
	return &rmapW{m: randommap.New[int, int](shrinkOpts(f)...), ref: map[int]int{}}
}

func (w *rmapW) nontrivial() bool { return w.delInner && w.picked }

// keyIndex reads the unexported back-index of the entry of k (white-box).
func (w *rmapW) keyIndex(k int) (int, bool) {
	fld := reflect.ValueOf(w.m).Elem().FieldByName("rawMap")
	raw := reflect.NewAt(fld.Type(), unsafe.Pointer(fld.UnsafeAddr())).Elem()
	res := raw.MethodByName("Get").Call([]reflect.Value{reflect.ValueOf(k)})
	if !res[1].Bool() {
		return 0, false
	}

	return int(res[0].Elem().FieldByName("keyIndex").Int()), true
}

// state: the dense key slice as it is (its own length, not Size()), the back-index of each of its
// keys, the size and the deletion counter of the inner ShrinkingMap.
func (w *rmapW) state() string {
	rm := reflect.ValueOf(w.m).Elem()
	ks := rm.FieldByName("keys")
	keys := make([]int, ks.Len())
	idx := make([]string, ks.Len())
	for i := range keys {
		keys[i] = int(ks.Index(i).Int())
		idx[i] = optVal(w.keyIndex(keys[i]))
	}
	inner := rm.FieldByName("rawMap").Elem()

	return fmt.Sprintf("k%s i[%s] n%d d%d", showInts(keys), strings.Join(idx, " "), inner.FieldByName("m").Len(), inner.FieldByName("deletedKeys").Int())
}

func (w *rmapW) refValues() []int {
	want := make([]int, 0)
	for _, v := range w.ref {
		want = append(want, v)
	}
	sort.Ints(want)

	return want
}

func (w *rmapW) hasValue(v int) bool {
	for _, x := range w.ref {
		if x == v {
			return true
		}
	}

	return false
}

func (w *rmapW) exec(r *hx.Run, f []string) (string, string) {
	line := strings.Join(f, " ")
	bad := func(oracle, what string, got, want any) {
		fail(r, "rmap", f[0], oracle, fmt.Sprintf("%s: %s = %v, expected %v (model %v)", line, what, got, want, w.ref))
	}
	switch f[0] {
	case "set":
		k, v := atoi(f[1]), atoi(f[2])
		w.m.Set(k, v)
		w.ref[k] = v

		return line, "ok"
	case "get":
		k := atoi(f[1])
		v, ok := w.m.Get(k)
		rv, rok := w.ref[k]
		if ok != rok || (ok && v != rv) {
			bad("plain-map", "Get", optVal(v, ok), optVal(rv, rok))
		}

		return line, optVal(v, ok)
	case "has":
		k := atoi(f[1])
		b := w.m.Has(k)
		if _, had := w.ref[k]; b != had {
			bad("plain-map", "Has", b, had)
		}

		return line, strconv.FormatBool(b)
	case "del":
		k := atoi(f[1])
		keys := w.m.Keys()
		if len(keys) > 0 && keys[len(keys)-1] != k {
			if _, had := w.ref[k]; had {
				w.delInner = true
			}
		}
		v, ok := w.m.Delete(k)
		rv, had := w.ref[k]
		delete(w.ref, k)
		if ok != had || (ok && v != rv) {
			bad("plain-map", "Delete", optVal(v, ok), optVal(rv, had))
		}

		return line, optVal(v, ok)
	case "size":
		n := w.m.Size()
		if n != len(w.ref) {
			bad("plain-map", "Size", n, len(w.ref))
		}

		return line, strconv.Itoa(n)
	case "keys":
		keys := w.m.Keys()
		seen := map[int]bool{}
		for _, k := range keys {
			if _, had := w.ref[k]; !had || seen[k] {
				bad("keys", "Keys", keys, "the keys of the map, each once")
			}
			seen[k] = true
		}
		if len(keys) != len(w.ref) {
			bad("keys", "len(Keys)", len(keys), len(w.ref))
		}
		ans := showInts(keys)
		retainInts("rmap", line, keys) // the caller owns the returned slice
		// index invariant (white-box): the entry of keys[i] points back at i
		for i, k := range keys {
			if idx, ok := w.keyIndex(k); !ok || idx != i {
				bad("index", fmt.Sprintf("keyIndex of keys[%d]=%d", i, k), optVal(idx, ok), i)
			}
		}

		return line, ans
	case "values", "foreach":
		if f[0] == "values" {
			rawVals := w.m.Values()
			vals := sortedCopy(rawVals)
			retainInts("rmap", line, rawVals)
			if showInts(vals) != showInts(w.refValues()) {
				bad("plain-map", "Values", vals, w.refValues())
			}

			return line, showInts(vals)
		}
		got := map[int]int{}
		w.m.ForEach(func(k, v int) bool { got[k] = v; return true })
		if showPairs(got) != showPairs(w.ref) {
			bad("plain-map", "ForEach", showPairs(got), showPairs(w.ref))
		}

		return line, showPairs(got)
	case "foreachn":
		n := atoi(f[1])
		seen := map[int]bool{}
		visits := 0
		w.m.ForEach(func(k, v int) bool {
			visits++
			if rv, had := w.ref[k]; !had || seen[k] || rv != v {
				bad("plain-map", "ForEach visit", fmt.Sprint(k, ":", v), "a binding of the map, visited once")
			}
			seen[k] = true

			return visits < n
		})
		want := n
		if want < 1 {
			want = 1
		}
		if len(w.ref) < want {
			want = len(w.ref)
		}
		if visits != want {
			bad("plain-map", "ForEach visits", visits, want)
		}

		return line, strconv.Itoa(visits)
	case "index":
		idx, ok := w.keyIndex(atoi(f[1]))

		return line, optVal(idx, ok)
	case "randkey":
		k, ok := w.m.RandomKey()
		w.picked = true
		if !ok {
			if len(w.ref) != 0 {
				bad("pick-member", "RandomKey", "nothing", "a key")
			}

			return "randkey -", "empty"
		}
		if _, had := w.ref[k]; !had {
			bad("pick-member", "RandomKey", k, "a key of the map")
		}

		return fmt.Sprintf("randkey %d", k), "member"
	case "randentry":
		v, ok := w.m.RandomEntry()
		w.picked = true
		if !ok {
			if len(w.ref) != 0 {
				bad("pick-member", "RandomEntry", "nothing", "a value")
			}

			return "randentry -", "empty"
		}
		if !w.hasValue(v) {
			bad("pick-member", "RandomEntry", v, "a value of the map")
		}

		return fmt.Sprintf("randentry %d", v), "member"
	case "rue":
		n := atoi(f[1])
		vals := w.m.RandomUniqueEntries(n)
		w.picked = true
		want := n
		if want < 0 {
			want = 0
		}
		if len(w.ref) < want {
			want = len(w.ref)
		}
		if len(vals) != want {
			bad("unique-entries", "len(RandomUniqueEntries)", len(vals), want)
		}
		sorted := sortedCopy(vals)
		for i, v := range sorted {
			if !w.hasValue(v) {
				bad("unique-entries", "RandomUniqueEntries", vals, "values of the map")
			}
			if i > 0 && sorted[i-1] == v {
				bad("unique-entries", "RandomUniqueEntries", vals, "distinct entries")
			}
		}
		l := fmt.Sprintf("rue %d", n)
		for _, v := range sorted {
			l += " " + strconv.Itoa(v)
		}
		retainInts("rmap", l, vals)

		return l, fmt.Sprintf("ok %d", len(vals))
	}

	return line, "bad-op"
}

func genRMap(rng *hx.Rng, n int) []string {
	ops := []string{"rmap " + genOpts(rng)}
	nk := rng.Range(4, 6)
	if rng.Chance(1, 8) { // a larger universe: maps of ten and more entries, several growth steps of the key slice / the Go map
		nk = rng.Range(10, 30)
	}
	present := map[int]bool{} // the generator follows the size to aim counts at it
	for i := 0; i < n; i++ {
		k := rng.Intn(nk)
		var op string
		switch x := rng.Intn(100); {
		case x < 28:
			// values identify their key, so that distinct values are distinct entries
			op = fmt.Sprintf("set %d %d", k, k*100+rng.Intn(10))
			present[k] = true
		case x < 34:
			op = fmt.Sprintf("get %d", k)
		case x < 38:
			op = fmt.Sprintf("has %d", k)
		case x < 56:
			op = fmt.Sprintf("del %d", k)
			delete(present, k)
		case x < 60:
			op = "size"
		case x < 70:
			op = "keys"
		case x < 73:
			op = "values"
		case x < 75:
			op = "foreach"
		case x < 77:
			op = fmt.Sprintf("foreachn %d", rng.Intn(5))
		case x < 80:
			op = fmt.Sprintf("index %d", k)
		case x < 86:
			op = "randkey"
		case x < 91:
			op = "randentry"
		default:
			size := len(present)
			// counts around the size, and unusual but legal ones: "everything" (MaxInt and other huge
			// values) and negative ones (the parameter is a signed int; below 1 means nothing)
			op = fmt.Sprintf("rue %d", hx.Pick(rng, []int{0, 1, 2, size - 1, size, size + 1, 2 * size, rng.Intn(8),
				1 << 20, 1 << 46, 1 << 62, math.MaxInt - 1, math.MaxInt, -1, math.MinInt}))
			// (counts between about 2^28 and 2^45 are left out on purpose: code that allocates by the count
			// would not panic but exhaust memory -- the Go runtime dies with a fatal error or the collector
			// thrashes -- which takes the harness down instead of producing a failing input; from 2^46 on
			// makeslice panics recoverably)
		}
		ops = append(ops, "rmap "+op)
	}

	return ops
}
