// c12/skel: the extractor of harness/tools/extract-sync extended for C12 part A (containers whose
// operations take callbacks and whose bodies are straight-line index arithmetic):
//   * a call of a function-typed parameter of the enclosing function (`optCondition[0]()`,
//     `updateFunc(v, ok)`, `callback(k)`) is the token "cb <name>": the skeleton shows whether a
//     callback runs between lock and unlock;
//   * calls of the receiver's own unexported helpers and of the inner containers are "call X.M" for
//     the method names given with +Name;
//   * `file.go:src=Recv.Method` emits `def src_Recv_Method : List String`: the statements of the body
//     as normalised source text (go/printer, white space removed), nested blocks flattened with
//     "{" / "}" markers -- the text the hand-written Lean model was written against;
//   * `file.go:funcs` emits `def funcs_<file> : List String`: every function / method declared in the file.
//
// Original description: extract-sync prints, for each requested function or method, the source-order skeleton of its
// synchronisation-relevant operations as a Lean module: one `def skel_<Name> : List String`.
//
//	extract-sync <out.lean> <LeanNamespace> [+ExtraMethodName ...] <file.go>:<Func|Recv.Method|type=Name> ...
//
// A request `file.go:type=Name` emits `def skel_type_Name`: the declared type of a named type as source text
// (for a struct: "struct" followed by one token per field, "name type" or "embedded type").
//
// Tokens: "lock X" "unlock X" "rlock X" "runlock X" (X = receiver expression as written),
// "defer <token>", "call X.M" for the configured method names (Wait Signal Broadcast Add Done Store
// Load Swap CompareAndSwap Do Inc Dec ...), "send C" "recv C" "close C", "select{" "case send C"
// "case recv C" "default" "}select", "go", "if{" "}else{" "}if", "for{" "}for", "return",
// "helper name" for calls of other functions/methods named on the command line.
// A requested function that does not exist is an error (exit 1).
package main

import (
	"bytes"
	"fmt"
	"go/ast"
	"go/parser"
	"go/printer"
	"go/token"
	"os"
	"strings"
)

var lockMethods = map[string]string{"Lock": "lock", "Unlock": "unlock", "RLock": "rlock", "RUnlock": "runlock"}

var callMethods = map[string]bool{"Wait": true, "Signal": true, "Broadcast": true, "Add": true, "Done": true, "Store": true,
	"Load": true, "Swap": true, "CompareAndSwap": true, "Do": true, "Inc": true, "Dec": true, "Cancel": true,
	"LockExecution": true, "UnlockExecution": true, "Stop": true, "Reset": true}

type ex struct {
	fset    *token.FileSet
	toks    []string
	helpers map[string]bool
	params  map[string]bool
}

func (e *ex) src(n ast.Node) string {
	var b bytes.Buffer
	printer.Fprint(&b, e.fset, n)

	return strings.Join(strings.Fields(b.String()), "")
}

func (e *ex) emit(s string) { e.toks = append(e.toks, s) }

// callTok classifies a call expression; returns "" if irrelevant.
func (e *ex) callTok(c *ast.CallExpr) string {
	switch f := c.Fun.(type) {
	case *ast.SelectorExpr:
		name := f.Sel.Name
		if k, ok := lockMethods[name]; ok && len(c.Args) == 0 {
			return k + " " + e.src(f.X)
		}
		if callMethods[name] {
			return "call " + e.src(f.X) + "." + name
		}
		if e.helpers[name] {
			return "helper " + name
		}
	case *ast.IndexExpr:
		if id, ok := f.X.(*ast.Ident); ok && e.params[id.Name] {
			return "cb " + id.Name
		}
	case *ast.Ident:
		if e.params[f.Name] {
			return "cb " + f.Name
		}
		if f.Name == "close" && len(c.Args) == 1 {
			return "close " + e.src(c.Args[0])
		}
		if e.helpers[f.Name] {
			return "helper " + f.Name
		}
	}

	return ""
}

// expr walks an expression in evaluation order emitting tokens for calls and receives.
func (e *ex) expr(n ast.Node) {
	if n == nil {
		return
	}
	ast.Inspect(n, func(x ast.Node) bool {
		switch x := x.(type) {
		case *ast.FuncLit:
			e.emit("func{")
			e.block(x.Body.List)
			e.emit("}func")

			return false
		case *ast.CallExpr:
			// arguments first (evaluation order), then the call itself
			for _, a := range x.Args {
				e.expr(a)
			}
			if sel, ok := x.Fun.(*ast.SelectorExpr); ok {
				e.expr(sel.X)
			}
			if t := e.callTok(x); t != "" {
				e.emit(t)
			}

			return false
		case *ast.UnaryExpr:
			if x.Op == token.ARROW {
				e.expr(x.X)
				e.emit("recv " + e.src(x.X))

				return false
			}
		}

		return true
	})
}

func (e *ex) block(stmts []ast.Stmt) {
	for _, s := range stmts {
		e.stmt(s)
	}
}

func (e *ex) stmt(s ast.Stmt) {
	switch s := s.(type) {
	case nil:
	case *ast.BlockStmt:
		e.block(s.List)
	case *ast.ExprStmt:
		e.expr(s.X)
	case *ast.SendStmt:
		e.expr(s.Value)
		e.emit("send " + e.src(s.Chan))
	case *ast.AssignStmt:
		for _, r := range s.Rhs {
			e.expr(r)
		}
	case *ast.DeclStmt:
		e.expr(s.Decl)
	case *ast.IncDecStmt:
	case *ast.GoStmt:
		e.emit("go")
		if fl, ok := s.Call.Fun.(*ast.FuncLit); ok {
			e.emit("func{")
			e.block(fl.Body.List)
			e.emit("}func")
		} else if t := e.callTok(s.Call); t != "" {
			e.emit(t)
		}
	case *ast.DeferStmt:
		if fl, ok := s.Call.Fun.(*ast.FuncLit); ok {
			e.emit("defer func{")
			e.block(fl.Body.List)
			e.emit("}func")
		} else if t := e.callTok(s.Call); t != "" {
			e.emit("defer " + t)
		}
	case *ast.ReturnStmt:
		for _, r := range s.Results {
			e.expr(r)
		}
		e.emit("return")
	case *ast.IfStmt:
		e.stmt(s.Init)
		e.expr(s.Cond)
		e.emit("if{")
		e.block(s.Body.List)
		if s.Else != nil {
			e.emit("}else{")
			e.stmt(s.Else)
		}
		e.emit("}if")
	case *ast.ForStmt:
		e.stmt(s.Init)
		e.emit("for{")
		e.expr(s.Cond)
		e.block(s.Body.List)
		e.stmt(s.Post)
		e.emit("}for")
	case *ast.RangeStmt:
		e.expr(s.X)
		e.emit("for{")
		e.block(s.Body.List)
		e.emit("}for")
	case *ast.SwitchStmt:
		e.stmt(s.Init)
		e.expr(s.Tag)
		e.emit("switch{")
		for _, c := range s.Body.List {
			cc := c.(*ast.CaseClause)
			e.emit("case")
			for _, x := range cc.List {
				e.expr(x)
			}
			e.block(cc.Body)
		}
		e.emit("}switch")
	case *ast.TypeSwitchStmt:
		e.emit("switch{")
		for _, c := range s.Body.List {
			e.emit("case")
			e.block(c.(*ast.CaseClause).Body)
		}
		e.emit("}switch")
	case *ast.SelectStmt:
		e.emit("select{")
		for _, c := range s.Body.List {
			cc := c.(*ast.CommClause)
			switch comm := cc.Comm.(type) {
			case nil:
				e.emit("default")
			case *ast.SendStmt:
				e.emit("case send " + e.src(comm.Chan))
			case *ast.ExprStmt:
				if u, ok := comm.X.(*ast.UnaryExpr); ok && u.Op == token.ARROW {
					e.emit("case recv " + e.src(u.X))
				}
			case *ast.AssignStmt:
				if u, ok := comm.Rhs[0].(*ast.UnaryExpr); ok && u.Op == token.ARROW {
					e.emit("case recv " + e.src(u.X))
				}
			}
			e.block(cc.Body)
		}
		e.emit("}select")
	case *ast.LabeledStmt:
		e.stmt(s.Stmt)
	case *ast.BranchStmt:
		e.emit(strings.ToLower(s.Tok.String()))
	}
}

// srcBlock emits the statements as normalised source text; compound statements are flattened:
// header, "{", body, "}".
func (e *ex) srcBlock(stmts []ast.Stmt) {
	for _, s := range stmts {
		switch s := s.(type) {
		case *ast.IfStmt:
			h := "if "
			if s.Init != nil {
				h += e.src(s.Init) + "; "
			}
			e.emit(h + e.src(s.Cond))
			e.emit("{")
			e.srcBlock(s.Body.List)
			e.emit("}")
			if s.Else != nil {
				e.emit("else")
				e.emit("{")
				e.srcBlock([]ast.Stmt{s.Else})
				e.emit("}")
			}
		case *ast.BlockStmt:
			e.srcBlock(s.List)
		case *ast.ForStmt:
			h := "for "
			if s.Init != nil {
				h += e.src(s.Init)
			}
			h += "; "
			if s.Cond != nil {
				h += e.src(s.Cond)
			}
			h += "; "
			if s.Post != nil {
				h += e.src(s.Post)
			}
			e.emit(h)
			e.emit("{")
			e.srcBlock(s.Body.List)
			e.emit("}")
		case *ast.RangeStmt:
			h := "for "
			if s.Key != nil {
				h += e.src(s.Key)
			}
			if s.Value != nil {
				h += "," + e.src(s.Value)
			}
			e.emit(h + " range " + e.src(s.X))
			e.emit("{")
			e.srcBlock(s.Body.List)
			e.emit("}")
		case *ast.SwitchStmt:
			h := "switch "
			if s.Tag != nil {
				h += e.src(s.Tag)
			}
			e.emit(h)
			e.emit("{")
			for _, c := range s.Body.List {
				cc := c.(*ast.CaseClause)
				if cc.List == nil {
					e.emit("default")
				} else {
					parts := make([]string, len(cc.List))
					for i, x := range cc.List {
						parts[i] = e.src(x)
					}
					e.emit("case " + strings.Join(parts, ","))
				}
				e.srcBlock(cc.Body)
			}
			e.emit("}")
		default:
			e.emit(e.src(s))
		}
	}
}

func recvName(fd *ast.FuncDecl) string {
	if fd.Recv == nil || len(fd.Recv.List) == 0 {
		return ""
	}
	t := fd.Recv.List[0].Type
	for {
		switch x := t.(type) {
		case *ast.StarExpr:
			t = x.X

			continue
		case *ast.IndexExpr:
			t = x.X

			continue
		case *ast.IndexListExpr:
			t = x.X

			continue
		case *ast.Ident:
			return x.Name
		}

		return ""
	}
}

func leanIdent(s string) string {
	return strings.NewReplacer(".", "_", "-", "_", "/", "_").Replace(s)
}

func main() {
	if len(os.Args) < 4 {
		fmt.Fprintln(os.Stderr, "usage: extract-sync <out.lean> <LeanNamespace> <file.go>:<Func|Recv.Method> ...")
		os.Exit(2)
	}
	out, ns := os.Args[1], os.Args[2]
	fset := token.NewFileSet()
	files := map[string]*ast.File{}
	helpers := map[string]bool{}
	type req struct{ file, name string }
	var reqs []req
	for _, a := range os.Args[3:] {
		if strings.HasPrefix(a, "+") { // additional method names reported as "call X.M"
			callMethods[a[1:]] = true

			continue
		}
		i := strings.LastIndex(a, ":")
		if i < 0 {
			fmt.Fprintln(os.Stderr, "bad request", a)
			os.Exit(2)
		}
		r := req{a[:i], a[i+1:]}
		reqs = append(reqs, r)
		n := r.name
		if j := strings.LastIndex(n, "."); j >= 0 {
			n = n[j+1:]
		}
		helpers[n] = true
	}
	var b strings.Builder
	fmt.Fprintf(&b, "/-! GENERATED by harness/c12/skel — synchronisation skeletons of the Go source; do not edit. -/\nnamespace %s\n\n", ns)
	failed := false
	for _, r := range reqs {
		f, ok := files[r.file]
		if !ok {
			var err error
			f, err = parser.ParseFile(fset, r.file, nil, 0)
			if err != nil {
				fmt.Fprintln(os.Stderr, err)
				os.Exit(1)
			}
			files[r.file] = f
		}
		if strings.HasPrefix(r.name, "type=") {
			// type=Name: the declared (underlying or struct) type of a named type, as source text; for a struct one
			// token per field "name type" in source order (embedded fields: "embedded type")
			tn := strings.TrimPrefix(r.name, "type=")
			var toks []string
			ok := false
			for _, d := range f.Decls {
				gd, isGen := d.(*ast.GenDecl)
				if !isGen || gd.Tok != token.TYPE {
					continue
				}
				for _, sp := range gd.Specs {
					ts := sp.(*ast.TypeSpec)
					if ts.Name.Name != tn {
						continue
					}
					ok = true
					e := &ex{fset: fset}
					if st, isStruct := ts.Type.(*ast.StructType); isStruct {
						toks = append(toks, "struct")
						for _, fld := range st.Fields.List {
							if len(fld.Names) == 0 {
								toks = append(toks, "embedded "+e.src(fld.Type))
							}
							for _, n := range fld.Names {
								toks = append(toks, n.Name+" "+e.src(fld.Type))
							}
						}
					} else {
						toks = append(toks, e.src(ts.Type))
					}
				}
			}
			if !ok {
				fmt.Fprintf(os.Stderr, "extract-sync: type %s not found in %s\n", tn, r.file)
				failed = true

				continue
			}
			fmt.Fprintf(&b, "/-- type %s (%s) -/\ndef skel_type_%s : List String := [", tn, r.file[strings.LastIndex(r.file, "/")+1:], leanIdent(tn))
			for i, t := range toks {
				if i > 0 {
					b.WriteString(", ")
				}
				fmt.Fprintf(&b, "%q", t)
			}
			b.WriteString("]\n\n")

			continue
		}
		if r.name == "funcs" {
			var names []string
			for _, d := range f.Decls {
				if fd, ok := d.(*ast.FuncDecl); ok {
					full := fd.Name.Name
					if rn := recvName(fd); rn != "" {
						full = rn + "." + fd.Name.Name
					}
					names = append(names, full)
				}
			}
			base := r.file[strings.LastIndex(r.file, "/")+1:]
			fmt.Fprintf(&b, "/-- functions declared in %s -/\ndef funcs_%s : List String := [", base, leanIdent(strings.TrimSuffix(base, ".go")))
			for i, t := range names {
				if i > 0 {
					b.WriteString(", ")
				}
				fmt.Fprintf(&b, "%q", t)
			}
			b.WriteString("]\n\n")

			continue
		}
		srcMode := strings.HasPrefix(r.name, "src=")
		r.name = strings.TrimPrefix(r.name, "src=")
		var found *ast.FuncDecl
		for _, d := range f.Decls {
			fd, ok := d.(*ast.FuncDecl)
			if !ok || fd.Body == nil {
				continue
			}
			full := fd.Name.Name
			if rn := recvName(fd); rn != "" {
				full = rn + "." + fd.Name.Name
			}
			if full == r.name {
				found = fd
			}
		}
		if found == nil {
			fmt.Fprintf(os.Stderr, "extract-sync: %s not found in %s\n", r.name, r.file)
			failed = true

			continue
		}
		e := &ex{fset: fset, helpers: helpers, params: map[string]bool{}}
		for _, p := range found.Type.Params.List {
			for _, n := range p.Names {
				e.params[n.Name] = true
			}
		}
		prefix := "skel"
		if srcMode {
			prefix = "src"
			e.emit("func" + e.src(found.Type))
			e.srcBlock(found.Body.List)
		} else {
			e.block(found.Body.List)
		}
		if srcMode {
			base := r.file[strings.LastIndex(r.file, "/")+1:]
			prefix = "src_" + leanIdent(strings.TrimSuffix(base, ".go"))
		}
		fmt.Fprintf(&b, "/-- %s (%s) -/\ndef %s_%s : List String := [", r.name, r.file[strings.LastIndex(r.file, "/")+1:], prefix, leanIdent(r.name))
		for i, t := range e.toks {
			if i > 0 {
				b.WriteString(", ")
			}
			if i%6 == 0 {
				b.WriteString("\n  ")
			}
			fmt.Fprintf(&b, "%q", t)
		}
		b.WriteString("]\n\n")
	}
	fmt.Fprintf(&b, "end %s\n", ns)
	if failed {
		os.Exit(1)
	}
	if err := os.WriteFile(out, []byte(b.String()), 0o644); err != nil {
		fmt.Fprintln(os.Stderr, err)
		os.Exit(1)
	}
}
