package main

import (
	"fmt"
	"reflect"
	"strconv"
	"strings"

	"verifharness/hx"

	"github.com/iotaledger/hive.go/ds/queue"
	"github.com/iotaledger/hive.go/ds/ringbuffer"
	"github.com/iotaledger/hive.go/ds/stack"
)

// ---------------------------------------------------------------------------------------------
// Queue: bounded FIFO
// ---------------------------------------------------------------------------------------------

type queueW struct {
	q      *queue.Queue[int]
	cap    int
	ref    []int // oldest first
	offers int
}

func newQueue(f []string) world {
	c := atoi(f[0])
	if c < 0 || c > 1<<20 {
		panic("capacity out of the range the harness constructs")
	}

	return &queueW{q: queue.New[int](c), cap: c}
}

func (w *queueW) nontrivial() bool { return w.offers > w.cap }

// cells prints the first (at most 64) cells of a buffer read by reflection.
func cells(b reflect.Value) string {
	n := b.Len()
	if n > 64 {
		n = 64
	}
	l := make([]int, n)
	for i := range l {
		l[i] = int(b.Index(i).Int())
	}

	return showInts(l)
}

// state: buffer cells, read and write position, size.
func (w *queueW) state() string {
	q := reflect.ValueOf(w.q).Elem()

	return fmt.Sprintf("b%s r%d w%d n%d", cells(q.FieldByName("ringBuffer")), q.FieldByName("read").Int(), q.FieldByName("write").Int(), q.FieldByName("size").Int())
}

func (w *queueW) exec(r *hx.Run, f []string) (string, string) {
	line := strings.Join(f, " ")
	bad := func(what string, got, want any) {
		fail(r, "queue", f[0], "bounded-fifo", fmt.Sprintf("%s: %s = %v, a FIFO of capacity %d holding %v gives %v", line, what, got, w.cap, w.ref, want))
	}
	defer func() {
		if n := w.q.Size(); n != len(w.ref) {
			bad("Size afterwards", n, len(w.ref))
		}
	}()
	switch f[0] {
	case "offer":
		x := atoi(f[1])
		ok := w.q.Offer(x)
		want := len(w.ref) < w.cap
		if want {
			w.ref = append(w.ref, x)
			w.offers++
		}
		if ok != want {
			bad("Offer", ok, want)
		}

		return line, strconv.FormatBool(ok)
	case "force":
		x := atoi(f[1])
		if w.cap == 0 {
			// capacity 0 is outside the property ("capacities > 0"); what the code does is mirrored by the
			// model: ForceOffer indexes the empty buffer and panics before changing anything
			if p := hx.Safely(func() { w.q.ForceOffer(x) }); p != "" {
				return line, "panic"
			}

			return line, "no-panic"
		}
		v, removed := w.q.ForceOffer(x)
		wantRemoved := len(w.ref) == w.cap
		wv := 0
		if wantRemoved {
			wv = w.ref[0]
			w.ref = w.ref[1:]
		}
		w.ref = append(w.ref, x)
		w.offers++
		if removed != wantRemoved || (removed && v != wv) {
			bad("ForceOffer", optVal(v, removed), optVal(wv, wantRemoved))
		}

		return line, optVal(v, removed)
	case "poll":
		v, ok := w.q.Poll()
		want := len(w.ref) > 0
		wv := 0
		if want {
			wv = w.ref[0]
			w.ref = w.ref[1:]
		}
		if ok != want || (ok && v != wv) {
			bad("Poll", optVal(v, ok), optVal(wv, want))
		}

		return line, optVal(v, ok)
	case "size":
		return line, strconv.Itoa(w.q.Size())
	case "cap":
		c := w.q.Capacity()
		if c != w.cap {
			bad("Capacity", c, w.cap)
		}

		return line, strconv.Itoa(c)
	}

	return line, "bad-op"
}

func genQueue(rng *hx.Rng, n int) []string {
	c := rng.Range(1, 4)
	if rng.Chance(1, 20) { // unusual but legal capacities: 0 (drops everything) and a large one
		c = hx.Pick(rng, []int{0, 0, 1 << 16})
	}
	fill := 0
	if rng.Chance(1, 6) { // capacities beyond 4: offers weigh more, so that the ring still fills and wraps
		c, fill = rng.Range(5, 9), 18
	}
	ops := []string{fmt.Sprintf("queue new %d", c)}
	next := 1
	for i := 0; i < n; i++ {
		var op string
		x := rng.Intn(100)
		if x >= 58 && x < 58+fill {
			x = rng.Intn(55)
		}
		switch {
		case x < 35:
			op = fmt.Sprintf("offer %d", next)
			next++
		case x < 55:
			op = fmt.Sprintf("force %d", next)
			next++
		case x < 58:
			op = "offer 0" // the zero value is an ordinary element
		case x < 90:
			op = "poll"
		case x < 97:
			op = "size"
		default:
			op = "cap"
		}
		ops = append(ops, "queue "+op)
	}

	return ops
}

// ---------------------------------------------------------------------------------------------
// RingBuffer: overwrite-oldest ring
// ---------------------------------------------------------------------------------------------

type ringW struct {
	b    *ringbuffer.RingBuffer[int]
	cap  int
	hist []int // everything ever added, oldest first
	read bool
}

func newRing(f []string) world {
	c := atoi(f[0])
	if c < 0 || c > 1<<20 {
		panic("capacity out of the range the harness constructs")
	}

	return &ringW{b: ringbuffer.NewRingBuffer[int](c), cap: c}
}

func (w *ringW) nontrivial() bool { return w.read }

// state: buffer cells, write position, size.
func (w *ringW) state() string {
	b := reflect.ValueOf(w.b).Elem()

	return fmt.Sprintf("b%s p%d n%d", cells(b.FieldByName("buffer")), b.FieldByName("pos").Int(), b.FieldByName("size").Int())
}

func (w *ringW) exec(r *hx.Run, f []string) (string, string) {
	line := strings.Join(f, " ")
	switch f[0] {
	case "add":
		x := atoi(f[1])
		if w.cap == 0 {
			// capacity 0: Add indexes the empty buffer and panics before changing anything (mirrored)
			if p := hx.Safely(func() { w.b.Add(x) }); p != "" {
				return line, "panic"
			}

			return line, "no-panic"
		}
		ok := w.b.Add(x)
		w.hist = append(w.hist, x)
		if !ok {
			fail(r, "ring", "add", "overwrite-oldest", "Add returned false")
		}

		return line, strconv.FormatBool(ok)
	case "slice":
		got := w.b.ToSlice()
		retainInts("ring", line, got) // the caller owns the returned slice
		if len(w.hist) > w.cap {
			w.read = true // read after wrapping around
		}
		want := make([]int, 0)
		for i := len(w.hist) - 1; i >= 0 && len(want) < w.cap; i-- {
			want = append(want, w.hist[i])
		}
		if showInts(got) != showInts(want) {
			fail(r, "ring", "slice", "overwrite-oldest", fmt.Sprintf("ToSlice = %v after adding %v to a ring of capacity %d; the last min(n,cap) newest-first are %v", got, w.hist, w.cap, want))
		}

		return line, showInts(got)
	}

	return line, "bad-op"
}

func genRing(rng *hx.Rng, n int) []string {
	c := rng.Range(1, 4)
	if rng.Chance(1, 20) { // unusual but legal capacities: 0 (always empty) and a large one
		c = hx.Pick(rng, []int{0, 0, 1 << 16})
	}
	if rng.Chance(1, 6) {
		c = rng.Range(5, 9)
	}
	ops := []string{fmt.Sprintf("ring new %d", c)}
	next := 1
	for i := 0; i < n; i++ {
		if rng.Chance(65, 100) {
			ops = append(ops, fmt.Sprintf("ring add %d", next))
			next++
		} else {
			ops = append(ops, "ring slice")
		}
	}

	return ops
}

// ---------------------------------------------------------------------------------------------
// Stack (simple and thread-safe flavour)
// ---------------------------------------------------------------------------------------------

type stackW struct {
	s     stack.Stack[int]
	ref   []int // bottom first
	phase int   // pop -> push -> pop seen
}

func newStack(f []string) world {
	switch f[0] {
	case "simple":
		return &stackW{s: stack.New[int]()}
	case "safe":
		return &stackW{s: stack.New[int](true)}
	}
	panic("bad stack flavour")
}

func (w *stackW) nontrivial() bool { return w.phase >= 3 }

// state: the slice, bottom first.
func (w *stackW) state() string {
	v := reflect.ValueOf(w.s).Elem() // *simpleStack -> slice, *threadSafeStack -> struct
	if v.Kind() == reflect.Struct {
		v = v.FieldByName("stack").Elem()
	}

	return cells(v)
}

func (w *stackW) exec(r *hx.Run, f []string) (string, string) {
	line := strings.Join(f, " ")
	bad := func(what string, got, want any) {
		fail(r, "stack", f[0], "lifo", fmt.Sprintf("%s: %s = %v, a LIFO holding %v gives %v", line, what, got, w.ref, want))
	}
	top := func() (int, bool) {
		if len(w.ref) == 0 {
			return 0, false
		}

		return w.ref[len(w.ref)-1], true
	}
	switch f[0] {
	case "push":
		x := atoi(f[1])
		w.s.Push(x)
		w.ref = append(w.ref, x)
		if w.phase == 1 {
			w.phase = 2
		}

		return line, "ok"
	case "pop":
		v, ok := w.s.Pop()
		wv, wok := top()
		if wok {
			w.ref = w.ref[:len(w.ref)-1]
			if w.phase == 0 {
				w.phase = 1
			} else if w.phase == 2 {
				w.phase = 3
			}
		}
		if ok != wok || (ok && v != wv) {
			bad("Pop", optVal(v, ok), optVal(wv, wok))
		}

		return line, optVal(v, ok)
	case "peek":
		v, ok := w.s.Peek()
		wv, wok := top()
		if ok != wok || (ok && v != wv) {
			bad("Peek", optVal(v, ok), optVal(wv, wok))
		}

		return line, optVal(v, ok)
	case "clear":
		w.s.Clear()
		w.ref = nil

		return line, "ok"
	case "size":
		n := w.s.Size()
		if n != len(w.ref) {
			bad("Size", n, len(w.ref))
		}

		return line, strconv.Itoa(n)
	case "isempty":
		b := w.s.IsEmpty()
		if b != (len(w.ref) == 0) {
			bad("IsEmpty", b, len(w.ref) == 0)
		}

		return line, strconv.FormatBool(b)
	}

	return line, "bad-op"
}

func genStack(rng *hx.Rng, n int) []string {
	ops := []string{"stack new " + hx.Pick(rng, []string{"simple", "safe"})}
	next := 1
	deep := rng.Chance(1, 5) // push-heavy: depths beyond the first growth steps of the slice (1, 2, 4, 8, 16)
	for i := 0; i < n; i++ {
		var op string
		x := rng.Intn(100)
		if deep && x >= 40 && x < 72 && rng.Chance(3, 4) {
			x = 0
		}
		switch {
		case x < 40:
			op = fmt.Sprintf("push %d", next)
			next++
		case x < 72:
			op = "pop"
		case x < 84:
			op = "peek"
		case x < 88:
			op = "clear"
		case x < 96:
			op = "size"
		default:
			op = "isempty"
		}
		ops = append(ops, "stack "+op)
	}

	return ops
}
