// C12 (part A) correspondence harness: ShrinkingMap, RandomMap, generalheap/PriorityQueue/
// timed.PriorityQueue, Queue, RingBuffer and Stack are driven through random operation histories;
// every request line starts with the container it targets and the Lean driver (drv_c12) must print
// the same answer.  Independently of Lean, every answer is checked against a small abstract model
// written here (plain Go map / slice / multiset): that is the property oracle.
package main

import (
	"crypto/sha256"
	"fmt"
	"strings"
	"time"

	"verifharness/hx"
)

// world is one container instance under test together with its in-Go abstract model.
type world interface {
	// exec runs one request (tokens after the container name); it returns the request as it must be
	// written to ops.txt (nondeterministic picks of the implementation are appended) and the answer.
	exec(r *hx.Run, f []string) (line string, ans string)
	// nontrivial reports whether the history so far is non-trivial by the rule of this container.
	nontrivial() bool
	// state prints the concrete (white-box, read by reflection) state of the implementation; it is
	// appended to the answer of every request, so model and code are compared after every operation.
	state() string
}

// withState appends the white-box state to an answer ("bad-op" stays bare).
func withState(ans string, w world) string {
	if ans == "bad-op" || w == nil {
		return ans
	}
	st := "?"
	if p := hx.Safely(func() { st = w.state() }); p != "" {
		st = "state-panic"
	}

	return ans + " | " + st
}

func newWorld(kind string, f []string) world {
	switch kind {
	case "shrink":
		return newShrink(f)
	case "rmap":
		return newRMap(f)
	case "gh":
		return newGH(f)
	case "pq":
		return newPQ(f)
	case "tpq":
		return newTPQ(f)
	case "queue":
		return newQueue(f)
	case "ring":
		return newRing(f)
	case "stack":
		return newStack(f)
	case "cb":
		return newCb(f)
	case "own":
		return newOwn(f)
	}

	return nil
}

// probing: a case is first executed silently (nothing is written to the run; oracle failures are only collected
// by signature).  A case that fails is minimised by greedy removal of requests, the minimised case is run (and
// recorded) before the original one, so that the replay of a signature is short.
var probing map[string]bool

func sigOf(container, op, what string) string { return container + "/" + op + "/" + what }

func fail(r *hx.Run, container, op, what, detail string) {
	if probing != nil {
		probing[sigOf(container, op, what)] = true

		return
	}
	r.Fail(container+"-"+what, detail, map[string]string{"container": container, "op": op, "oracle": what})
}

// probe executes a case silently and returns the signatures of the oracle failures it produced.
func probe(r *hx.Run, ops []string) map[string]bool {
	probing = map[string]bool{}
	defer func() { probing = nil }()
	execCase(r, 0, ops, false)

	return probing
}

var shrunkSigs = map[string]bool{}

// shrink removes requests (never the constructor line) while the failure with signature sig remains.
func shrink(r *hx.Run, ops []string, sig string) []string {
	cur := append([]string{}, ops...)
	budget := 600
	deadline := time.Now().Add(10 * time.Second) // a request that hangs in the code under test costs a watchdog period per probe
	for pass := 0; pass < 3 && budget > 0; pass++ {
		changed := false
		for i := len(cur) - 1; i >= 1 && budget > 0 && time.Now().Before(deadline); i-- {
			cand := append(append([]string{}, cur[:i]...), cur[i+1:]...)
			budget--
			if probe(r, cand)[sig] {
				cur, changed = cand, true
			}
		}
		if !changed {
			break
		}
	}

	return cur
}

// runCase: silent probe first; new failure signatures are minimised and their minimised cases recorded first.
func runCase(r *hx.Run, sub uint64, ops []string) {
	if len(ops) > 0 && !strings.HasPrefix(ops[0], "cb ") && len(shrunkSigs) < 8 {
		for sig := range probe(r, ops) {
			if shrunkSigs[sig] || len(shrunkSigs) >= 8 {
				continue
			}
			shrunkSigs[sig] = true
			if small := shrink(r, ops, sig); len(small) < len(ops) {
				r.Count("shrunk:" + strings.Fields(ops[0])[0])
				execCase(r, 0, small, true)
			}
		}
	}
	execCase(r, sub, ops, true)
}

// retainedAns is a collection a container handed out, kept by the harness exactly as it was returned
// (same backing array / same map) next to a private copy.  After every later request all retained
// answers are compared with their copies: an answer that changes after it was returned shares storage
// with the container or with another answer.  Every few requests the retained collections are
// scribbled over instead (what a caller may do with its own copy) and dropped: a container that handed
// out its own storage then shows the damage in its next state line / observation.
type retainedAns struct {
	what    string
	kind    string
	live    []int
	copy    []int
	liveMap map[int]int
	copyMap map[int]int
}

var retained []*retainedAns

func retainInts(kind, what string, l []int) {
	retained = append(retained, &retainedAns{kind: kind, what: what, live: l, copy: append([]int(nil), l...)})
}

func retainMap(kind, what string, m map[int]int) {
	c := make(map[int]int, len(m))
	for k, v := range m {
		c[k] = v
	}
	retained = append(retained, &retainedAns{kind: kind, what: what, liveMap: m, copyMap: c})
}

func checkRetained(r *hx.Run, after string) {
	keep := retained[:0]
	for _, a := range retained {
		same := true
		if a.liveMap != nil || a.copyMap != nil {
			same = showPairs(a.liveMap) == showPairs(a.copyMap)
		} else {
			same = showInts(a.live) == showInts(a.copy)
		}
		if same {
			keep = append(keep, a)

			continue
		}
		detail := fmt.Sprintf("the answer of %q was %v when it was returned and reads %v after %q", a.what, a.copy, a.live, after)
		if a.copyMap != nil {
			detail = fmt.Sprintf("the answer of %q was %s when it was returned and reads %s after %q", a.what, showPairs(a.copyMap), showPairs(a.liveMap), after)
		}
		fail(r, a.kind, strings.Fields(a.what)[0], "retained-answer-changed", detail)
	}
	retained = keep
}

func scribbleRetained() {
	for _, a := range retained {
		if a.liveMap != nil {
			for k := range a.liveMap {
				a.liveMap[k] = -777
			}
			a.liveMap[-5] = -777
		} else {
			scribble(a.live)
		}
	}
	retained = retained[:0]
}

func execCase(r *hx.Run, sub uint64, ops []string, live bool) {
	if live {
		r.Case(sub)
	}
	retained = retained[:0]
	worlds := map[string]world{}
	kinds := map[string]bool{}
	for opIndex, op := range ops {
		if opIndex > 0 {
			checkRetained(r, ops[opIndex-1])
			if opIndex%6 == 5 {
				scribbleRetained()
			}
		}
		f := strings.Fields(op)
		if len(f) < 2 {
			if live {
				r.Line(op, "bad-op")
			}

			continue
		}
		kind := f[0]
		kinds[kind] = true
		line, ans := op, "bad-op"
		if f[1] == "new" {
			var w world
			if !live {
			} else if (kind == "pq" || kind == "gh") && len(f) > 3 {
				r.Count("cmpkind:" + kind + "." + f[3])
			}
			if live && (kind == "shrink" || kind == "rmap") && len(f) > 2 {
				ratio := f[2]
				if len(f) > 4 {
					ratio += "/" + f[3]
				}
				r.Count("cfg:" + kind + ".ratio=" + ratio)
			}
			if live && (kind == "queue" || kind == "ring") && len(f) > 2 {
				r.Count("cfg:" + kind + ".cap=" + f[2])
			}
			if p := hx.Safely(func() { w = newWorld(kind, f[2:]) }); p != "" {
				ans = "panic"
			} else if w != nil {
				worlds[kind] = w
				ans = withState("ok", w)
			}
		} else if w := worlds[kind]; w != nil {
			if p := hx.Safely(func() { line, ans = w.exec(r, f[1:]) }); p != "" {
				line, ans = strings.Join(f[1:], " "), "panic"
				fail(r, kind, f[1], "panic", fmt.Sprintf("%s panicked: %s", op, p))
			}
			line = kind + " " + line
			ans = withState(ans, w)
		}
		if !live {
			continue
		}
		r.Line(line, ans)
		r.Count("op:" + kind + "." + f[1])
		a := strings.Fields(ans)
		if len(a) > 0 && (a[0] == "none" || a[0] == "true" || a[0] == "false" || a[0] == "panic" || a[0] == "bad-op" || a[0] == "gone" || a[0] == "empty" || a[0] == "[]") {
			r.Count("ans:" + kind + "." + a[0])
		}
	}
	if len(ops) > 0 {
		checkRetained(r, ops[len(ops)-1])
	}
	if !live {
		return
	}
	for k, w := range worlds {
		if w.nontrivial() {
			h := sha256.Sum256([]byte(strings.Join(ops, "\n")))
			r.Nontrivial(k + string(h[:8]))
			r.Count("nontrivial:" + k)
		}
	}
	for k := range kinds {
		r.Count("cases:" + k)
	}
}

var kindsAll = []string{"shrink", "rmap", "gh", "pq", "tpq", "queue", "ring", "stack", "own"}

func gen(kind string, rng *hx.Rng, n int) []string {
	switch kind {
	case "shrink":
		return genShrink(rng, n)
	case "rmap":
		return genRMap(rng, n)
	case "gh":
		return genGH(rng, n)
	case "pq":
		return genPQ("pq", rng, n)
	case "tpq":
		return genPQ("tpq", rng, n)
	case "queue":
		return genQueue(rng, n)
	case "ring":
		return genRing(rng, n)
	case "own":
		return genOwn(rng, n)
	default:
		return genStack(rng, n)
	}
}

func main() {
	r := hx.Start()
	r.MaxSamples = 8
	r.Rule = "per container random histories of 40 requests (keys 0..5, one map history in eight 10..30 keys; capacities 1..9, 0, 2^16; shrink ratio in {0,1/2,1,3/2,2,3, odd, non-dyadic, NaN, +-Inf} x count 0..3 and extreme; " +
		"asc/desc x six comparator kinds of the Priority/Key type parameter; instants near, far and 1 ns apart in mixed time.Time representations); " +
		"non-trivial = shrink: the map was rebuilt by a threshold at least once and then read; rmap: a non-last key was deleted and a random pick answered; " +
		"own: a caller wrote into a slice returned by Keys() and the map was changed afterwards; gh/pq: a live handle removed an element (gh: not the root, not the last) and 3 pops followed; tpq: 3 pushes then 3 elements popped; queue: more accepted offers than the capacity; ring: ToSlice read after wrapping; stack: pop after push after pop; distinct by sha256 of the request lines"
	if lines := r.ReplayLines(); lines != nil {
		execCase(r, 0, lines, true)
		r.Sample(r.CaseLines())
		r.Finish()

		return
	}
	for _, c := range corpus {
		runCase(r, 0, c)
	}
	for _, c := range cbCorpus {
		runCase(r, 0, c)
	}
	n := 2000 * r.Scale
	length := 40
	if r.Tier == "thorough" {
		length = 60
	}
	for _, kind := range kindsAll {
		for i := 0; i < n; i++ {
			rng, sub := r.Rng.Fork()
			runCase(r, sub, gen(kind, rng, length))
			if i == 0 {
				r.Sample(r.CaseLines())
			}
		}
	}
	runCbCases(r, 48*r.Scale)
	r.Finish()
}

// tpqCase writes a timed-queue history; "@k" stands for the k-th near instant, "#i" for farInstants[i], "~k" for
// k nanoseconds after the epoch (instants inside one second).
func tpqCase(dir string, ops ...string) []string {
	out := []string{"tpq new " + dir}
	for _, op := range ops {
		f := strings.Fields(op)
		for i, tok := range f {
			switch {
			case strings.HasPrefix(tok, "@"):
				f[i] = instantString(nearInstant(atoi(tok[1:])))
			case strings.HasPrefix(tok, "#"):
				f[i] = instantString(farInstants[atoi(tok[1:])])
			case strings.HasPrefix(tok, "~"):
				f[i] = instantString(epoch.Add(time.Duration(atoi(tok[1:]))))
			}
		}
		out = append(out, "tpq "+strings.Join(f, " "))
	}

	return out
}

// corpus: hand-written histories for the corners named by the property (run first).
var corpus = [][]string{
	// ring buffer wrapping several times
	{"ring new 3", "ring slice", "ring add 1", "ring slice", "ring add 2", "ring add 3", "ring slice", "ring add 4", "ring slice",
		"ring add 5", "ring add 6", "ring add 7", "ring slice", "ring add 8", "ring add 9", "ring add 10", "ring add 11", "ring slice"},
	{"ring new 1", "ring add 1", "ring slice", "ring add 2", "ring slice"},
	// deleting the last random-map key, then the only key
	{"rmap new 0 1 0", "rmap set 1 100", "rmap set 2 200", "rmap set 3 300", "rmap del 3", "rmap keys", "rmap index 1", "rmap index 2",
		"rmap del 1", "rmap keys", "rmap index 2", "rmap del 2", "rmap keys", "rmap randkey", "rmap randentry", "rmap rue 2", "rmap set 4 400", "rmap randkey", "rmap keys"},
	{"rmap new 1 1 1", "rmap set 0 1", "rmap set 1 101", "rmap set 2 201", "rmap set 3 301", "rmap del 0", "rmap keys", "rmap index 3", "rmap rue 2", "rmap rue 3", "rmap rue 9", "rmap rue 0",
		"rmap del 3", "rmap keys", "rmap set 0 7", "rmap keys", "rmap values"},
	// shrinking thresholds reached
	{"shrink new 1 1 2", "shrink set 1 1", "shrink set 2 2", "shrink set 3 3", "shrink del 1", "shrink deleted", "shrink del 2", "shrink deleted", "shrink get 3", "shrink keys",
		"shrink del 3", "shrink deleted", "shrink size", "shrink pop"},
	{"shrink new 0 1 1", "shrink set 1 1", "shrink delret 1", "shrink deleted", "shrink goc 1 5", "shrink compute 1 2", "shrink compute 2 2", "shrink asmap", "shrink pop", "shrink pop", "shrink pop", "shrink deleted"},
	{"shrink new 1 2 0", "shrink set 1 1", "shrink set 2 1", "shrink set 3 1", "shrink del 1", "shrink deleted", "shrink del 1", "shrink delif 2 false", "shrink delif 2 true", "shrink deleted", "shrink clear", "shrink deleted", "shrink shrink"},
	// queue full / force / wrap
	{"queue new 2", "queue poll", "queue offer 1", "queue offer 2", "queue offer 3", "queue force 4", "queue size", "queue poll", "queue poll", "queue poll", "queue force 5", "queue force 6", "queue force 7", "queue poll", "queue cap"},
	{"queue new 1", "queue force 1", "queue force 2", "queue offer 3", "queue poll", "queue poll", "queue offer 4", "queue poll"},
	// handles: remove twice, remove after pop, remove the root and the last
	{"pq new asc", "pq push 0 3", "pq push 1 1", "pq push 2 2", "pq push 3 1", "pq remove 1", "pq remove 1", "pq size", "pq pop", "pq remove 3", "pq pop", "pq pop", "pq pop", "pq remove 0"},
	{"pq new desc", "pq push 0 3", "pq push 1 1", "pq push 2 2", "pq peek", "pq popuntil 2", "pq size", "pq popall", "pq isempty"},
	// the Priority / Key type parameter: comparators that answer other magnitudes than -1/0/1 (seeded r6-1's history first)
	{"pq new asc diff", "pq push 0 50", "pq push 1 10", "pq push 2 40", "pq push 3 20", "pq push 4 30", "pq push 5 0", "pq peek", "pq pop", "pq pop", "pq popuntil 35", "pq popall"},
	{"pq new desc diff", "pq push 0 70", "pq push 1 30", "pq push 2 90", "pq push 3 10", "pq push 4 50", "pq remove 1", "pq remove 1", "pq popuntil 60", "pq popall"},
	{"pq new asc ext", "pq push 0 3", "pq push 1 1", "pq push 2 2", "pq push 3 1", "pq peek", "pq popuntil 1", "pq pop", "pq popall"},
	{"pq new desc ext", "pq push 0 3", "pq push 1 1", "pq push 2 2", "pq push 3 1", "pq peek", "pq popuntil 2", "pq pop", "pq popall"},
	{"pq new asc big", "pq push 0 3", "pq push 1 1", "pq push 2 2", "pq remove 1", "pq peek", "pq popuntil 2", "pq popall"},
	{"pq new desc asym", "pq push 0 3", "pq push 1 1", "pq push 2 2", "pq remove 0", "pq peek", "pq popuntil 2", "pq popall"},
	{"pq new asc two", "pq push 0 3", "pq push 1 1", "pq push 2 2", "pq push 3 0", "pq peek", "pq popuntil 1", "pq popall"},
	{"gh new asc diff", "gh push 0 50", "gh push 1 40", "gh push 2 30", "gh push 3 20", "gh push 4 10", "gh dump", "gh remove 2", "gh dump", "gh pop", "gh pop", "gh dump"},
	{"gh new desc ext", "gh push 0 1", "gh push 1 2", "gh push 2 3", "gh push 3 4", "gh push 4 5", "gh dump", "gh remove 2", "gh dump", "gh pop", "gh pop", "gh dump"},
	{"gh new asc two", "gh push 0 5", "gh push 1 4", "gh push 2 3", "gh push 3 2", "gh dump", "gh pop", "gh index 0", "gh dump"},
	{"gh new asc", "gh push 0 5", "gh push 1 4", "gh push 2 3", "gh push 3 2", "gh push 4 1", "gh dump", "gh index 0", "gh index 4", "gh remove 2", "gh dump", "gh remove 2", "gh index 2", "gh pop", "gh dump", "gh remove 0", "gh remove 1", "gh remove 3", "gh pop"},
	tpqCase("default", "push 0 @1 0", "push 1 @3 1", "push 2 @2 2", "peek", "popuntil @2 3", "popall"),
	tpqCase("asc", "push 0 @1 4", "push 1 @3 5", "push 2 @2 0", "push 3 @2 2", "peek", "popuntil @2 1", "pop", "pop", "isempty"),
	// the same instant in different time.Time representations: bound == pushed instant, both directions
	tpqCase("desc", "push 0 @2 0", "popuntil @2 1", "size", "push 1 @2 2", "push 2 @2 4", "push 3 @1 3", "popuntil @2 5", "size", "popuntil @1 0", "isempty"),
	tpqCase("asc", "push 0 @2 3", "popuntil @2 4", "size", "push 1 @2 5", "push 2 @2 1", "push 3 @3 0", "popuntil @2 2", "size", "popuntil @3 4", "isempty"),
	tpqCase("desc", "push 0 @0 0", "push 1 @0 1", "push 2 @0 2", "push 3 @0 3", "push 4 @0 4", "push 5 @0 5", "push 6 @-1 1", "push 7 @1 4", "pop", "popuntil @0 3", "popall"),
	// instants 1 ns apart inside one second
	tpqCase("asc", "push 0 ~3 0", "push 1 ~1 1", "push 2 ~2 2", "push 3 ~0 3", "peek", "popuntil ~1 4", "pop", "popall"),
	tpqCase("desc", "push 0 ~3 5", "push 1 ~1 0", "push 2 ~2 1", "push 3 ~0 2", "peek", "popuntil ~2 3", "pop", "popall"),
	// far instants (outside what UnixNano can represent): zero time, 1000, 1677, the ends of the int64 range, 2263, 9999, "never"
	tpqCase("asc", "push 0 #8 0", "push 1 @2 1", "push 2 #0 2", "push 3 #10 3", "push 4 #9 0", "push 5 #1 1", "push 6 #11 2", "push 7 #2 3", "peek", "popuntil @3 0", "pop", "pop", "popuntil #10 1", "popall"),
	tpqCase("desc", "push 0 #8 0", "push 1 @2 1", "push 2 #0 2", "push 3 #10 3", "push 4 #9 0", "push 5 #1 1", "push 6 #11 2", "push 7 #2 3", "peek", "popuntil #8 2", "pop", "pop", "popuntil #0 1", "popall"),
	tpqCase("asc", "push 0 #3 0", "push 1 #4 1", "push 2 #5 2", "push 3 #6 3", "push 4 #7 0", "pop", "popuntil #6 1", "popall"),
	tpqCase("default", "push 0 #3 0", "push 1 #4 1", "push 2 #5 2", "push 3 #6 3", "push 4 #7 0", "pop", "popuntil #4 1", "popall"),
	// memory level: the caller keeps and edits what Keys() gave it (the demos of seeded r6-2 first)
	{"own new", "own set 1", "own set 2", "own set 3", "own set 4", "own keys", "own del 1", "own set 5", "own keys", "own write 0 0 9", "own write 1 3 7", "own set 1", "own del 4"},
	{"own new", "own set 1", "own set 2", "own set 3", "own keys", "own write 0 0 3", "own write 0 2 1", "own del 3", "own keys", "own set 4", "own del 1"},
	{"stack new simple", "stack pop", "stack push 1", "stack push 2", "stack peek", "stack pop", "stack size", "stack clear", "stack isempty", "stack pop", "stack push 3", "stack pop"},
	{"stack new safe", "stack pop", "stack push 1", "stack push 2", "stack peek", "stack pop", "stack size", "stack clear", "stack isempty", "stack pop", "stack push 3", "stack pop"},
}
