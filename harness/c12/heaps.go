package main

import (
	"container/heap"
	"fmt"
	"math"
	"math/big"
	"reflect"
	"strconv"
	"strings"
	"time"

	"verifharness/hx"

	"github.com/iotaledger/hive.go/ds/generalheap"
	"github.com/iotaledger/hive.go/ds/priorityqueue"
	"github.com/iotaledger/hive.go/runtime/timed"
)

// prio is an integer priority with a selectable direction (what timeAscending/timeDescending are
// for times).
type prio struct {
	p    int
	desc bool
}

func (a prio) CompareTo(b prio) int {
	c := 0
	switch {
	case a.p < b.p:
		c = -1
	case a.p > b.p:
		c = 1
	}
	if a.desc {
		c = -c
	}

	return c
}

func (a prio) val() int { return a.p }

// The Comparable contract ("CompareTo(other T) int") promises a sign, not a magnitude: the other
// priority types of the tie answer with differences, large constants, the ends of the int range and
// asymmetric constants.  Descending = the arguments swapped (negating MinInt would overflow).
func signCmp(a, b int, desc bool, neg, pos int) int {
	if desc {
		a, b = b, a
	}
	switch {
	case a < b:
		return neg
	case a > b:
		return pos
	}

	return 0
}

type prioDiff struct { // the usual "return a - b" (the generators keep |p| <= 2^62: no overflow)
	p    int
	desc bool
}

func (a prioDiff) CompareTo(b prioDiff) int {
	if a.desc {
		return b.p - a.p
	}

	return a.p - b.p
}
func (a prioDiff) val() int { return a.p }

type prioBig struct {
	p    int
	desc bool
}

func (a prioBig) CompareTo(b prioBig) int { return signCmp(a.p, b.p, a.desc, -1<<40, 1<<40) }
func (a prioBig) val() int                { return a.p }

type prioExt struct {
	p    int
	desc bool
}

func (a prioExt) CompareTo(b prioExt) int {
	return signCmp(a.p, b.p, a.desc, math.MinInt64, math.MaxInt64)
}
func (a prioExt) val() int { return a.p }

type prioAsym struct {
	p    int
	desc bool
}

func (a prioAsym) CompareTo(b prioAsym) int { return signCmp(a.p, b.p, a.desc, -3, 5) }
func (a prioAsym) val() int                 { return a.p }

type prioTwo struct {
	p    int
	desc bool
}

func (a prioTwo) CompareTo(b prioTwo) int { return signCmp(a.p, b.p, a.desc, -2, 1) }
func (a prioTwo) val() int                { return a.p }

// prioLike is what the generic wrappers need of a priority type.
type prioLike[P any] interface {
	generalheap.Comparable[P]
	val() int
}

var cmpKinds = []string{"unit", "diff", "big", "ext", "asym", "two"}

func kindOf(f []string) string {
	if len(f) > 1 {
		return f[1]
	}

	return "unit"
}

func parseDesc(s string) bool {
	switch s {
	case "asc", "asc2":
		return false
	case "desc", "default", "desc2":
		return true
	}
	panic("bad direction " + s)
}

// multiset is the abstract model of all three heaps: the live (value, priority) pairs by handle.
// okey is the key the independent oracle orders by: an integer priority, or (timed queue) the
// time.Time itself compared with Time.Compare -- never through UnixNano, which wraps outside 1678..2262.
type okey struct {
	n     int
	t     time.Time
	timed bool
	label string
}

func ik(n int) okey { return okey{n: n, label: strconv.Itoa(n)} }

func (k okey) String() string { return k.label }

type item struct {
	v int
	p okey
}

func (it item) String() string { return fmt.Sprintf("%d:%s", it.v, it.p.label) }

type multiset struct {
	desc bool
	live map[int]item // handle -> item
}

func (m *multiset) before(a, b okey) bool { // a sorts strictly before b
	c := 0
	switch {
	case a.timed:
		c = a.t.Compare(b.t)
	case a.n < b.n:
		c = -1
	case a.n > b.n:
		c = 1
	}
	if m.desc {
		return c > 0
	}

	return c < 0
}

// findBest finds a live item with value v whose priority is best (no live item sorts before it).
func (m *multiset) findBest(v int) (int, bool) {
	for h, it := range m.live {
		if it.v != v {
			continue
		}
		best := true
		for _, o := range m.live {
			if m.before(o.p, it.p) {
				best = false
			}
		}
		if best {
			return h, true
		}
	}

	return 0, false
}

// takeBest removes a live item with value v whose priority is best.
func (m *multiset) takeBest(v int) (item, bool) {
	h, ok := m.findBest(v)
	if !ok {
		return item{}, false
	}
	it := m.live[h]
	delete(m.live, h)

	return it, true
}

type heapStats struct {
	removedInner bool
	popsAfter    int
}

func (s *heapStats) nontrivial() bool { return s.removedInner && s.popsAfter >= 3 }

func (w *pqW) nontrivial() bool {
	if w.name == "tpq" { // no handles: three pushes, then three elements popped
		return len(w.handles) >= 3 && w.popsAfter >= 3
	}

	return w.heapStats.nontrivial()
}

// ---------------------------------------------------------------------------------------------
// generalheap.Heap driven by container/heap directly (white-box: indices and array layout)
// ---------------------------------------------------------------------------------------------

type ghW[P prioLike[P]] struct {
	h     generalheap.Heap[P, int]
	elems []*generalheap.HeapElement[P, int]
	mk    func(p int) P
	ms    multiset
	heapStats
}

func mkGH[P prioLike[P]](d bool, mk func(p int) P) world {
	return &ghW[P]{h: make(generalheap.Heap[P, int], 0), mk: mk, ms: multiset{desc: d, live: map[int]item{}}}
}

func newGH(f []string) world {
	d := parseDesc(f[0])
	switch kindOf(f) {
	case "unit":
		return mkGH(d, func(p int) prio { return prio{p, d} })
	case "diff":
		return mkGH(d, func(p int) prioDiff { return prioDiff{p, d} })
	case "big":
		return mkGH(d, func(p int) prioBig { return prioBig{p, d} })
	case "ext":
		return mkGH(d, func(p int) prioExt { return prioExt{p, d} })
	case "asym":
		return mkGH(d, func(p int) prioAsym { return prioAsym{p, d} })
	case "two":
		return mkGH(d, func(p int) prioTwo { return prioTwo{p, d} })
	}
	panic("bad comparator kind")
}

// invariants checks heap order and "handle index = position" on the real array.
func (w *ghW[P]) invariants(r *hx.Run, op, line string) {
	for i := 1; i < w.h.Len(); i++ {
		if w.ms.before(ik(w.h[i].Key.val()), ik(w.h[(i-1)/2].Key.val())) {
			fail(r, "gh", op, "heap-order", fmt.Sprintf("after %s: element %d sorts before its parent %d", line, i, (i-1)/2))
		}
	}
	for i, e := range w.h {
		if e.Index() != i {
			fail(r, "gh", op, "handle-index", fmt.Sprintf("after %s: h[%d].Index() = %d", line, i, e.Index()))
		}
	}
	for id, e := range w.elems {
		if _, live := w.ms.live[id]; !live && e.Index() != -1 {
			fail(r, "gh", op, "handle-index", fmt.Sprintf("after %s: removed element %d has index %d", line, id, e.Index()))
		}
	}
	if w.h.Len() != len(w.ms.live) {
		fail(r, "gh", op, "multiset", fmt.Sprintf("after %s: Len = %d, model has %d", line, w.h.Len(), len(w.ms.live)))
	}
}

// state: the array (value:priority per slot) and the index field of every element ever pushed.
func (w *ghW[P]) state() string {
	a := make([]string, len(w.h))
	for i, e := range w.h {
		a[i] = fmt.Sprintf("%d:%d", e.Value, e.Key.val())
	}
	idx := make([]int, len(w.elems))
	for i, e := range w.elems {
		idx[i] = e.Index()
	}

	return "[" + strings.Join(a, " ") + "] i" + showInts(idx)
}

func (w *ghW[P]) exec(r *hx.Run, f []string) (string, string) {
	line := strings.Join(f, " ")
	defer w.invariants(r, f[0], line)
	switch f[0] {
	case "push":
		v, p := atoi(f[1]), atoi(f[2])
		e := &generalheap.HeapElement[P, int]{Key: w.mk(p), Value: v}
		heap.Push(&w.h, e)
		id := len(w.elems)
		w.elems = append(w.elems, e)
		w.ms.live[id] = item{v, ik(p)}

		return line, strconv.Itoa(id)
	case "pop":
		if w.h.Len() == 0 {
			return line, "none"
		}
		e, _ := heap.Pop(&w.h).(*generalheap.HeapElement[P, int])
		if w.removedInner {
			w.popsAfter++
		}
		if it, ok := w.ms.takeBest(e.Value); !ok || it.p.n != e.Key.val() {
			fail(r, "gh", "pop", "pop-minimum", fmt.Sprintf("Pop returned %d:%d which is not a best live element of %v", e.Value, e.Key.val(), w.ms.live))
		}

		return line, fmt.Sprintf("%d %d", e.Value, e.Key.val())
	case "remove":
		id := atoi(f[1])
		if id >= len(w.elems) {
			return line, "gone"
		}
		e := w.elems[id]
		if e.Index() == -1 {
			if _, live := w.ms.live[id]; live {
				fail(r, "gh", "remove", "handle-index", fmt.Sprintf("live element %d has index -1", id))
			}

			return line, "gone"
		}
		if e.Index() != 0 && e.Index() != w.h.Len()-1 {
			w.removedInner = true
		}
		got, _ := heap.Remove(&w.h, e.Index()).(*generalheap.HeapElement[P, int])
		if got != e {
			fail(r, "gh", "remove", "remove-handle", fmt.Sprintf("Remove(index of %d) returned another element (%d:%d)", id, got.Value, got.Key.val()))
		}
		delete(w.ms.live, id)

		return line, fmt.Sprintf("%d %d", got.Value, got.Key.val())
	case "index":
		id := atoi(f[1])
		if id >= len(w.elems) {
			return line, "-1"
		}

		return line, strconv.Itoa(w.elems[id].Index())
	case "dump":
		s := make([]string, len(w.h))
		for i, e := range w.h {
			s[i] = fmt.Sprintf("%d:%d", e.Value, e.Key.val())
		}

		return line, "[" + strings.Join(s, " ") + "]"
	case "len":
		return line, strconv.Itoa(w.h.Len())
	}

	return line, "bad-op"
}

func genGH(rng *hx.Rng, n int) []string {
	kind := hx.Pick(rng, cmpKinds)
	ops := []string{"gh new " + hx.Pick(rng, []string{"asc", "desc"}) + " " + kind}
	pushed := 0
	np := rng.Range(2, 6)
	spread := 1
	if rng.Chance(1, 2) { // keys further than 1 apart (a difference comparator then answers other values than -1/1)
		spread = hx.Pick(rng, []int{2, 10, 1 << 33})
	}
	deep := rng.Chance(1, 5) // push-heavy: heaps of four and five levels, more distinct keys
	if deep {
		np = rng.Range(6, 30)
	}
	for i := 0; i < n; i++ {
		var op string
		x := rng.Intn(100)
		if deep && x >= 40 && rng.Chance(2, 3) && i < n*3/4 {
			x = 0
		}
		switch {
		case x < 40:
			op = fmt.Sprintf("push %d %d", pushed, (rng.Intn(np)-1)*spread)
			pushed++
		case x < 55:
			op = "pop"
		case x < 75:
			op = fmt.Sprintf("remove %d", rng.Intn(pushed+1))
		case x < 85:
			op = fmt.Sprintf("index %d", rng.Intn(pushed+1))
		case x < 97:
			op = "dump"
		default:
			op = "len"
		}
		ops = append(ops, "gh "+op)
	}

	return ops
}

// ---------------------------------------------------------------------------------------------
// priorityqueue.PriorityQueue and timed.PriorityQueue
// ---------------------------------------------------------------------------------------------

// pqAPI is what both queues offer to the interpreter.
// push and popUntil also return the key the independent oracle orders by (the integer priority;
// for the timed queue the time.Time value itself, ordered by Time.Compare).
type pqAPI interface {
	push(v int, p string, rep int) (func(), okey)
	peek() (int, bool)
	pop() (int, bool)
	popUntil(p string, rep int) ([]int, okey)
	popAll() []int
	size() int
	isEmpty() bool
}

type realPQ[P generalheap.Comparable[P]] struct {
	q  *priorityqueue.PriorityQueue[int, P]
	mk func(p int) P
}

func mkPQ[P generalheap.Comparable[P]](mk func(p int) P) pqAPI {
	return realPQ[P]{priorityqueue.New[int, P](), mk}
}

func (q realPQ[P]) push(v int, p string, _ int) (func(), okey) {
	return q.q.Push(v, q.mk(atoi(p))), ik(atoi(p))
}
func (q realPQ[P]) peek() (int, bool) { return q.q.Peek() }
func (q realPQ[P]) pop() (int, bool)  { return q.q.Pop() }
func (q realPQ[P]) popUntil(p string, _ int) ([]int, okey) {
	return q.q.PopUntil(q.mk(atoi(p))), ik(atoi(p))
}
func (q realPQ[P]) popAll() []int { return q.q.PopAll() }
func (q realPQ[P]) size() int     { return q.q.Size() }
func (q realPQ[P]) isEmpty() bool { return q.q.IsEmpty() }
func (q realPQ[P]) raw() any      { return q.q }

var epoch = time.Unix(1700000000, 0)

// monoBase is the one reading of the clock every time value with a monotonic reading derives from
// (two independent time.Now() calls would make equal instants differ by clock jitter).
var monoBase = time.Now()

const timeReps = 6

var billion = big.NewInt(1000000000)

// instantString is the model priority of t: the exact integer Unix()*10^9 + Nanosecond() (no
// overflow: computed in big integers, so it is defined for every time.Time).
func instantString(t time.Time) string {
	n := new(big.Int).Mul(big.NewInt(t.Unix()), billion)

	return n.Add(n, big.NewInt(int64(t.Nanosecond()))).String()
}

// at builds the instant with model priority p (= seconds*10^9 + nanoseconds since the Unix epoch, any
// size) in representation rep: UTC, Local, a fixed +1h zone, a time.Unix(sec, nsec) round trip, with
// a monotonic reading, and that one stripped (the last two only within a century of now; far
// instants fall back to UTC / Local).  All representations of one p are the same instant but
// different time.Time structs.
func at(p string, rep int) time.Time {
	n, ok := new(big.Int).SetString(p, 10)
	if !ok {
		panic("bad instant " + p)
	}
	sec, nsec := new(big.Int).DivMod(n, billion, new(big.Int))
	if !sec.IsInt64() {
		panic("instant out of range " + p)
	}
	t := time.Unix(sec.Int64(), nsec.Int64())
	d := t.Sub(monoBase)
	near := d > -100*365*24*time.Hour && d < 100*365*24*time.Hour
	rep %= timeReps
	if rep >= 4 && !near {
		rep -= 4
	}
	switch rep {
	case 0:
		return t.UTC()
	case 1:
		return t.In(time.Local)
	case 2:
		return t.In(time.FixedZone("plus1", 3600))
	case 3:
		return time.Unix(t.Unix(), int64(t.Nanosecond()))
	case 4:
		return monoBase.Add(d)
	default:
		return monoBase.Add(d).Round(0)
	}
}

func tk(p string, t time.Time) okey { return okey{t: t, timed: true, label: p} }

// nearInstant is the k-th instant of the dense set around one epoch (1.000000001 s apart).
func nearInstant(k int) time.Time { return epoch.Add(time.Duration(k) * (time.Second + 1)) }

// farInstants are legal time.Time values far from now: the zero time, years outside the range
// UnixNano can represent (1678..2262), the exact ends of that range, and "never" sentinels.
var farInstants = []time.Time{
	{},
	time.Date(1000, time.January, 1, 0, 0, 0, 0, time.UTC),
	time.Date(1677, time.January, 1, 0, 0, 0, 0, time.UTC),
	time.Unix(0, math.MinInt64).Add(-1),
	time.Unix(0, math.MinInt64),
	time.Unix(0, 0),
	time.Unix(0, math.MaxInt64),
	time.Unix(0, math.MaxInt64).Add(1),
	time.Date(2263, time.January, 1, 0, 0, 0, 0, time.UTC),
	time.Date(9999, time.December, 31, 23, 59, 59, 999999999, time.UTC),
	time.Unix(1<<62, 0),
	time.Unix(-(1 << 62), 0),
}

type realTPQ struct{ q timed.PriorityQueue[int] }

func (q realTPQ) push(v int, p string, rep int) (func(), okey) {
	t := at(p, rep)
	q.q.Push(v, t)

	return nil, tk(p, t)
}
func (q realTPQ) peek() (int, bool) { return q.q.Peek() }
func (q realTPQ) pop() (int, bool)  { return q.q.Pop() }
func (q realTPQ) popUntil(p string, rep int) ([]int, okey) {
	t := at(p, rep)

	return q.q.PopUntil(t), tk(p, t)
}
func (q realTPQ) popAll() []int { return q.q.PopAll() }
func (q realTPQ) size() int     { return q.q.Size() }
func (q realTPQ) isEmpty() bool { return q.q.IsEmpty() }

type pqW struct {
	name     string
	q        pqAPI
	handles  []func()
	ms       multiset
	badIndex string
	heapStats
}

func newPQ(f []string) world {
	d := parseDesc(f[0])
	var q pqAPI
	switch kindOf(f) {
	case "unit":
		q = mkPQ(func(p int) prio { return prio{p, d} })
	case "diff":
		q = mkPQ(func(p int) prioDiff { return prioDiff{p, d} })
	case "big":
		q = mkPQ(func(p int) prioBig { return prioBig{p, d} })
	case "ext":
		q = mkPQ(func(p int) prioExt { return prioExt{p, d} })
	case "asym":
		q = mkPQ(func(p int) prioAsym { return prioAsym{p, d} })
	case "two":
		q = mkPQ(func(p int) prioTwo { return prioTwo{p, d} })
	default:
		panic("bad comparator kind")
	}

	return &pqW{name: "pq", q: q, ms: multiset{desc: d, live: map[int]item{}}}
}

func newTPQ(f []string) world {
	d := parseDesc(f[0])
	var q timed.PriorityQueue[int]
	switch f[0] {
	case "default":
		q = timed.NewPriorityQueue[int]()
	case "asc":
		q = timed.NewPriorityQueue[int](true)
	case "asc2": // only the first optional argument counts
		q = timed.NewPriorityQueue[int](true, false)
	case "desc2":
		q = timed.NewPriorityQueue[int](false, true)
	default:
		q = timed.NewPriorityQueue[int](false)
	}

	return &pqW{name: "tpq", q: realTPQ{q}, ms: multiset{desc: d, live: map[int]item{}}}
}

// heapField finds the unexported generalheap.Heap slice of the queue under test.
func (w *pqW) heapField() reflect.Value {
	var v reflect.Value
	switch q := w.q.(type) {
	case interface{ raw() any }:
		v = reflect.ValueOf(q.raw()).Elem()
	case realTPQ:
		// interface -> *priorityQueueAscending/Descending -> embedded *priorityqueue.PriorityQueue
		v = reflect.ValueOf(q.q).Elem().Field(0).Elem()
	}

	return v.FieldByName("heap")
}

// state: the values of the heap array in slot order (values are unique per push, so this pins the
// layout); the index field of every slot is checked against its position on the way.
func (w *pqW) state() string {
	h := w.heapField()
	vals := make([]int, h.Len())
	for i := range vals {
		e := h.Index(i).Elem()
		vals[i] = int(e.FieldByName("Value").Int())
		if idx := int(e.FieldByName("index").Int()); idx != i {
			w.badIndex = fmt.Sprintf("slot %d holds value %d whose index field is %d", i, vals[i], idx)
		}
	}

	return showInts(vals)
}

// popped checks a list of popped values against the multiset: each must be a best live element at
// the time it was popped (so the list is in priority order).
func (w *pqW) popped(r *hx.Run, op string, vals []int) []item {
	var its []item
	for _, v := range vals {
		it, ok := w.ms.takeBest(v)
		if !ok {
			fail(r, w.name, op, "pop-minimum", fmt.Sprintf("%s returned %v; %d is not a best live element of %v", op, vals, v, w.ms.live))

			continue
		}
		its = append(its, it)
	}

	return its
}

func (w *pqW) exec(r *hx.Run, f []string) (string, string) {
	line := strings.Join(f, " ")
	defer func() {
		if n := w.q.size(); n != len(w.ms.live) {
			fail(r, w.name, f[0], "multiset", fmt.Sprintf("after %s: Size = %d, model has %d", line, n, len(w.ms.live)))
		}
		w.badIndex = ""
		w.state()
		if w.badIndex != "" {
			fail(r, w.name, f[0], "handle-index", fmt.Sprintf("after %s: %s", line, w.badIndex))
		}
	}()
	switch f[0] {
	case "push":
		v, p, rep := atoi(f[1]), f[2], 0
		if len(f) > 3 {
			rep = atoi(f[3])
		}
		h, key := w.q.push(v, p, rep)
		if w.name == "tpq" && len(w.handles) >= 2 {
			w.removedInner = true // from here on pops are counted
		}
		id := len(w.handles)
		w.handles = append(w.handles, h)
		w.ms.live[id] = item{v, key}
		if h == nil {
			return line, "ok"
		}

		return line, strconv.Itoa(id)
	case "remove":
		id := atoi(f[1])
		if id < len(w.handles) && w.handles[id] != nil {
			before := w.q.size()
			w.handles[id]()
			_, live := w.ms.live[id]
			delete(w.ms.live, id)
			want := before
			if live {
				want--
				w.removedInner = true
			}
			if w.q.size() != want {
				fail(r, w.name, "remove", "remove-idempotent", fmt.Sprintf("handle %d (live=%t): size %d -> %d", id, live, before, w.q.size()))
			}
		}

		return line, "ok"
	case "peek":
		v, ok := w.q.peek()
		if ok != (len(w.ms.live) != 0) {
			fail(r, w.name, "peek", "pop-minimum", fmt.Sprintf("Peek exists=%t with %d live elements", ok, len(w.ms.live)))
		}
		if ok {
			if _, ok2 := w.ms.findBest(v); !ok2 {
				fail(r, w.name, "peek", "pop-minimum", fmt.Sprintf("Peek returned %d which is not a best live element of %v", v, w.ms.live))
			}
		}

		return line, optVal(v, ok)
	case "pop":
		v, ok := w.q.pop()
		if ok != (len(w.ms.live) != 0) {
			fail(r, w.name, "pop", "pop-minimum", fmt.Sprintf("Pop exists=%t with %d live elements", ok, len(w.ms.live)))
		}
		if ok {
			w.popped(r, "pop", []int{v})
			if w.removedInner {
				w.popsAfter++
			}
		}

		return line, optVal(v, ok)
	case "popuntil":
		rep := 0
		if len(f) > 2 {
			rep = atoi(f[2])
		}
		vals, p := w.q.popUntil(f[1], rep)
		retainInts(w.name, line, vals)
		for _, it := range w.popped(r, "popuntil", vals) {
			if w.ms.before(p, it.p) {
				fail(r, w.name, "popuntil", "pop-until", fmt.Sprintf("PopUntil(%v) returned %d with priority %v", p, it.v, it.p))
			}
		}
		for _, it := range w.ms.live {
			if !w.ms.before(p, it.p) {
				fail(r, w.name, "popuntil", "pop-until", fmt.Sprintf("PopUntil(%v) left %d with priority %v behind", p, it.v, it.p))
			}
		}
		if w.removedInner {
			w.popsAfter += len(vals)
		}

		return line, showInts(vals)
	case "popall":
		vals := w.q.popAll()
		retainInts(w.name, line, vals)
		w.popped(r, "popall", vals)
		if len(w.ms.live) != 0 {
			fail(r, w.name, "popall", "multiset", fmt.Sprintf("PopAll left %v behind", w.ms.live))
		}
		if w.removedInner {
			w.popsAfter += len(vals)
		}

		return line, showInts(vals)
	case "size":
		return line, strconv.Itoa(w.q.size())
	case "isempty":
		b := w.q.isEmpty()
		if b != (len(w.ms.live) == 0) {
			fail(r, w.name, "isempty", "multiset", fmt.Sprintf("IsEmpty = %t with %d live elements", b, len(w.ms.live)))
		}

		return line, strconv.FormatBool(b)
	}

	return line, "bad-op"
}

func genPQ(name string, rng *hx.Rng, n int) []string {
	dirs := []string{"asc", "desc"}
	if name == "tpq" {
		dirs = append(dirs, "default", "asc2", "desc2")
	}
	head := name + " new " + hx.Pick(rng, dirs)
	kind, spread := "unit", 1
	if name == "pq" { // the Priority type parameter: one Go type per comparator kind
		kind = hx.Pick(rng, cmpKinds)
		head += " " + kind
		if rng.Chance(1, 2) {
			spread = hx.Pick(rng, []int{2, 10, 1 << 33})
		}
	}
	ops := []string{head}
	pushed := 0
	np := rng.Range(2, 6)
	deep := rng.Chance(1, 5) // push-heavy: heaps of four and five levels, more distinct priorities
	if deep {
		np = rng.Range(6, 30)
	}
	// the pool of priorities of this history; bounds are drawn from the same pool (plus one beyond)
	var pool []string
	subSecond := name == "tpq" && rng.Chance(1, 3) // instants 1 ns apart inside one second (a comparison at a coarser granularity merges them)
	for k := -1; k < np; k++ {
		if subSecond {
			pool = append(pool, instantString(epoch.Add(time.Duration(k))))
		} else if name == "tpq" {
			pool = append(pool, instantString(nearInstant(k)))
		} else {
			pool = append(pool, strconv.Itoa(k*spread))
		}
	}
	if rng.Chance(1, 2) { // unusual but legal: far instants / extreme integers
		for k := rng.Range(1, 4); k > 0; k-- {
			if name == "tpq" {
				pool = append(pool, instantString(hx.Pick(rng, farInstants)))
			} else {
				ext := []int{math.MinInt64, math.MinInt64 + 1, -1 << 31, 1 << 31, math.MaxInt64 - 1, math.MaxInt64}
				if kind == "diff" { // a - b must stay exact in int
					ext = []int{-1 << 62, -1<<62 + 1, -1 << 31, 1 << 31, 1<<62 - 2, 1<<62 - 1}
				}
				pool = append(pool, strconv.Itoa(hx.Pick(rng, ext)))
			}
		}
	}
	for i := 0; i < n; i++ {
		var op string
		x := rng.Intn(100)
		if name == "tpq" && x >= 45 && x < 65 {
			x = rng.Intn(45) // no handles on the timed queue
		}
		if deep && x >= 45 && rng.Chance(2, 3) && i < n*3/4 {
			x = 0
		}
		switch {
		case x < 45:
			// values are unique (= the handle number) so that the answers identify the element
			op = fmt.Sprintf("push %d %s", pushed, hx.Pick(rng, pool[1:]))
			if name == "tpq" { // the instant in one of its time.Time representations
				op += fmt.Sprintf(" %d", rng.Intn(timeReps))
			}
			pushed++
		case x < 65:
			op = fmt.Sprintf("remove %d", rng.Intn(pushed+1))
		case x < 72:
			op = "peek"
		case x < 86:
			op = "pop"
		case x < 92:
			op = fmt.Sprintf("popuntil %s", hx.Pick(rng, pool))
			if name == "tpq" {
				op += fmt.Sprintf(" %d", rng.Intn(timeReps))
			}
		case x < 94:
			op = "popall"
		case x < 98:
			op = "size"
		default:
			op = "isempty"
		}
		ops = append(ops, name+" "+op)
	}

	return ops
}
