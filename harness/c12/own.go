package main

import (
	"fmt"
	"reflect"
	"strings"
	"unsafe"

	"verifharness/hx"

	"github.com/iotaledger/hive.go/ds/randommap"
)

// own: the memory-level stream on RandomMap (model Hive.Model.C12aOwn).  The harness is a caller that keeps
// every slice Keys() gave it and writes into single cells of those slices ("own write h i v"); every answer line
// carries the container's key slice (white-box) and the present contents of all slices handed out so far.  The
// value-level oracle kept here (pl, pouts) says: the key slice never sees a caller's write, a handed-out slice
// changes only by the writes to that very slice.
type ownW struct {
	m     *randommap.RandomMap[int, int]
	outs  [][]int // the slices as returned by Keys()
	pl    []int   // value-level key list
	pouts [][]int // value-level answers
	wrote bool
	after bool
}

func newOwn(_ []string) world { return &ownW{m: randommap.New[int, int]()} }

func (w *ownW) nontrivial() bool { return w.wrote && w.after }

func (w *ownW) keysField() []int {
	fld := reflect.ValueOf(w.m).Elem().FieldByName("keys")
	ks, _ := reflect.NewAt(fld.Type(), unsafe.Pointer(fld.UnsafeAddr())).Elem().Interface().([]int)

	return ks
}

func (w *ownW) state() string {
	o := make([]string, len(w.outs))
	for i, l := range w.outs {
		o[i] = showInts(l)
	}

	return "k" + showInts(w.keysField()) + " o[" + strings.Join(o, " ") + "]"
}

func (w *ownW) check(r *hx.Run, op, line string) {
	if got := w.keysField(); showInts(got) != showInts(w.pl) {
		fail(r, "own", op, "key-slice", fmt.Sprintf("after %s: the key slice is %v, the value-level history says %v", line, got, w.pl))
	}
	for h := range w.outs {
		if showInts(w.outs[h]) != showInts(w.pouts[h]) {
			fail(r, "own", op, "answer-changed", fmt.Sprintf("after %s: the slice returned by Keys() #%d reads %v, its holder made it %v", line, h, w.outs[h], w.pouts[h]))
		}
	}
}

func (w *ownW) exec(r *hx.Run, f []string) (string, string) {
	line := strings.Join(f, " ")
	defer w.check(r, f[0], line)
	idx := func(k int) int {
		for i, x := range w.pl {
			if x == k {
				return i
			}
		}

		return -1
	}
	switch f[0] {
	case "set":
		k := atoi(f[1])
		w.m.Set(k, 100*k)
		if idx(k) < 0 {
			w.pl = append(w.pl, k)
		}
		w.after = w.after || w.wrote

		return line, "ok"
	case "del":
		k := atoi(f[1])
		w.m.Delete(k)
		if i := idx(k); i >= 0 {
			n := len(w.pl)
			w.pl[i] = w.pl[n-1]
			w.pl = w.pl[:n-1]
		}
		w.after = w.after || w.wrote

		return line, "ok"
	case "keys":
		ks := w.m.Keys()
		w.outs = append(w.outs, ks)
		w.pouts = append(w.pouts, append([]int(nil), w.pl...))

		return line, showInts(ks)
	case "write":
		h, i, v := atoi(f[1]), atoi(f[2]), atoi(f[3])
		if h < len(w.outs) && i < len(w.outs[h]) {
			w.outs[h][i] = v
			if i < len(w.pouts[h]) {
				w.pouts[h][i] = v
			}
			w.wrote = true
		}

		return line, "ok"
	}

	return line, "bad-op"
}

func genOwn(rng *hx.Rng, n int) []string {
	ops := []string{"own new"}
	nk := rng.Range(3, 6)
	keysCalls := 0
	for i := 0; i < n; i++ {
		var op string
		switch x := rng.Intn(100); {
		case x < 30:
			op = fmt.Sprintf("set %d", rng.Intn(nk))
		case x < 50:
			op = fmt.Sprintf("del %d", rng.Intn(nk))
		case x < 65:
			op = "keys"
			keysCalls++
		default:
			op = fmt.Sprintf("write %d %d %d", rng.Intn(keysCalls+1), rng.Intn(nk), rng.Intn(nk))
		}
		ops = append(ops, "own "+op)
	}

	return ops
}
