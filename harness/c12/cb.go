package main

// Forced schedules through the callbacks of ShrinkingMap (`cb` lines).
//
// Delete(key, condition), Compute(key, f) and GetOrCreate(key, f) call the function they were given
// while they hold the map's write lock; ForEach calls its consumer on a snapshot, without the lock.
// The callback itself is the schedule point: it signals a second goroutine, which then runs a
// writing operation on the same map, and waits (bounded) for that operation to return.  On the code
// as it is the writer blocks on the lock until the first operation is over (the wait times out); if
// an operation evaluated its callback outside its critical section, the writer completes inside the
// window.  The recorded history (invocation / response stamps of one atomic clock, results, a final
// snapshot) is judged by an atomic-map linearizability oracle here, and again by the Lean driver
// (`Cb.linOk`), whose specification evaluates a delete condition on the state in which the removal
// takes effect.

import (
	"fmt"
	"sort"
	"strconv"
	"strings"
	"sync"
	"sync/atomic"
	"time"

	"verifharness/hx"

	"github.com/iotaledger/hive.go/ds/shrinkingmap"
)

const cbWindow = 200 * time.Millisecond

type cbOp struct {
	kind string
	args []int
}

var cbArity = map[string]int{"delifeq": 2, "set": 2, "compute": 2, "goc": 2, "get": 1, "del": 1, "snap": 0}

func (o cbOp) String() string {
	s := o.kind
	for _, a := range o.args {
		s += " " + strconv.Itoa(a)
	}

	return s
}

type cbEv struct {
	op       cbOp
	inv, res int64
	out      string
}

// parseScenario reads `lin i <k:v>… e <op> … e <op> …`; stamps and results of a recorded line are dropped.
func parseScenario(f []string) (init [][2]int, ops []cbOp, ok bool) {
	if len(f) < 2 || f[0] != "lin" || f[1] != "i" {
		return nil, nil, false
	}
	i := 2
	for ; i < len(f) && f[i] != "e"; i++ {
		kv := strings.Split(f[i], ":")
		if len(kv) != 2 {
			return nil, nil, false
		}
		init = append(init, [2]int{atoi(kv[0]), atoi(kv[1])})
	}
	for i < len(f) {
		i++ // "e"
		if i >= len(f) {
			return nil, nil, false
		}
		n, known := cbArity[f[i]]
		if !known || i+n > len(f)-1 {
			return nil, nil, false
		}
		op := cbOp{kind: f[i]}
		for j := 1; j <= n; j++ {
			op.args = append(op.args, atoi(f[i+j]))
		}
		ops = append(ops, op)
		for i < len(f) && f[i] != "e" {
			i++
		}
	}

	return init, ops, len(ops) >= 2
}

type cbResult struct {
	line string
	evs  []cbEv
	init [][2]int
	hang bool
	in   bool // the writer returned while the first operation was still inside its callback
}

// runScenario executes: init; first operation (its callback opens the window); the writer inside the
// window; a final snapshot.
func runScenario(opts []shrinkingmap.Option, init [][2]int, ops []cbOp) cbResult {
	m := shrinkingmap.New[int, int](opts...)
	initMap := map[int]int{}
	for _, kv := range init {
		m.Set(kv[0], kv[1])
		initMap[kv[0]] = kv[1]
	}
	var clock atomic.Int64
	tick := func() int64 { return clock.Add(1) }
	entered := make(chan struct{})
	var enterOnce sync.Once
	writerDone := make(chan struct{})
	mainDone := make(chan struct{})
	var inWindow atomic.Bool
	var writerInWindow atomic.Bool
	window := func() { // called from inside the callback of the first operation
		opened := false
		enterOnce.Do(func() { opened = true })
		if !opened {
			return
		}
		inWindow.Store(true)
		close(entered)
		select {
		case <-writerDone:
		case <-time.After(cbWindow):
		}
		inWindow.Store(false)
	}
	var mainEv, writerEv cbEv
	mainEv.op, writerEv.op = ops[0], ops[1]
	var snapRes atomic.Int64
	run := func(o cbOp, cb func()) string {
		switch o.kind {
		case "delifeq":
			k, x := o.args[0], o.args[1]
			b := m.Delete(k, func() bool {
				// the condition: "the value under k is x", evaluated on the map as it is when the condition runs
				// (nothing else ran since the initial state: the writer starts only after the signal below)
				v, ok := initMap[k]
				verdict := ok && v == x
				cb()

				return verdict
			})

			return strconv.FormatBool(b)
		case "set":
			return strconv.FormatBool(m.Set(o.args[0], o.args[1]))
		case "compute":
			d := o.args[1]
			v := m.Compute(o.args[0], func(cur int, exists bool) int {
				cb()
				if exists {
					return cur + d
				}

				return d
			})

			return strconv.Itoa(v)
		case "goc":
			v, created := m.GetOrCreate(o.args[0], func() int { cb(); return o.args[1] })

			return fmt.Sprintf("%d %t", v, created)
		case "get":
			return optVal(m.Get(o.args[0]))
		case "del":
			return strconv.FormatBool(m.Delete(o.args[0]))
		case "snap":
			got := map[int]int{}
			m.ForEach(func(k, v int) bool {
				if len(got) == 0 {
					snapRes.Store(tick()) // the snapshot is complete when the first consumer call starts
				}
				got[k] = v
				cb()

				return true
			})

			return showPairs(got)
		}
		panic("bad cb operation " + o.kind)
	}
	var panics [2]string
	go func() {
		defer close(mainDone)
		panics[0] = hx.Safely(func() {
			mainEv.inv = tick()
			mainEv.out = run(ops[0], window)
			mainEv.res = tick()
			if ops[0].kind == "snap" && snapRes.Load() != 0 {
				mainEv.res = snapRes.Load()
			}
		})
	}()
	go func() {
		defer close(writerDone)
		select {
		case <-entered:
		case <-mainDone: // the callback was never called (e.g. GetOrCreate of a present key)
		}
		panics[1] = hx.Safely(func() {
			writerEv.inv = tick()
			writerEv.out = run(ops[1], func() {})
			writerEv.res = tick()
			if inWindow.Load() {
				writerInWindow.Store(true)
			}
		})
	}()
	res := cbResult{init: init}
	deadline := time.After(30 * time.Second)
	for _, c := range []chan struct{}{mainDone, writerDone} {
		select {
		case <-c:
		case <-deadline:
			res.hang = true
		}
	}
	if res.hang {
		return res
	}
	for i, p := range panics {
		if p != "" {
			[]*cbEv{&mainEv, &writerEv}[i].out = "panic"
		}
	}
	final := cbEv{op: cbOp{kind: "snap"}}
	final.inv = tick()
	final.out = showPairs(m.AsMap())
	final.res = tick()
	res.evs = []cbEv{mainEv, writerEv, final}
	res.in = writerInWindow.Load()

	return res
}

func cbLine(init [][2]int, evs []cbEv, ops []cbOp) string {
	s := "lin i"
	for _, kv := range init {
		s += fmt.Sprintf(" %d:%d", kv[0], kv[1])
	}
	if evs == nil {
		for _, o := range ops {
			s += " e " + o.String()
		}

		return s
	}
	for _, e := range evs {
		s += fmt.Sprintf(" e %s %d %d %s", e.op, e.inv, e.res, e.out)
	}

	return s
}

// ---- the Go-side oracle: brute-force linearizability against a plain map ----

func cbSpec(m map[int]int, o cbOp) string {
	switch o.kind {
	case "delifeq":
		v, ok := m[o.args[0]]
		if ok && v == o.args[1] {
			delete(m, o.args[0])

			return "true"
		}

		return "false"
	case "set":
		_, had := m[o.args[0]]
		m[o.args[0]] = o.args[1]

		return strconv.FormatBool(!had)
	case "compute":
		v, had := m[o.args[0]]
		if had {
			v += o.args[1]
		} else {
			v = o.args[1]
		}
		m[o.args[0]] = v

		return strconv.Itoa(v)
	case "goc":
		if v, had := m[o.args[0]]; had {
			return fmt.Sprintf("%d false", v)
		}
		m[o.args[0]] = o.args[1]

		return fmt.Sprintf("%d true", o.args[1])
	case "get":
		v, had := m[o.args[0]]

		return optVal(v, had)
	case "del":
		_, had := m[o.args[0]]
		delete(m, o.args[0])

		return strconv.FormatBool(had)
	case "snap":
		return showPairs(m)
	}

	return "?"
}

func cbLinearizable(m map[int]int, todo []cbEv) bool {
	if len(todo) == 0 {
		return true
	}
	for i, e := range todo {
		minimal := true
		for _, o := range todo {
			if o.res < e.inv {
				minimal = false
			}
		}
		if !minimal {
			continue
		}
		m2 := map[int]int{}
		for k, v := range m {
			m2[k] = v
		}
		if cbSpec(m2, e.op) != e.out {
			continue
		}
		rest := append(append([]cbEv(nil), todo[:i]...), todo[i+1:]...)
		if cbLinearizable(m2, rest) {
			return true
		}
	}

	return false
}

// ---- world ----

type cbW struct {
	opts  []shrinkingmap.Option
	cases int
}

var cbCache sync.Map // scenario line -> cbResult, filled by the parallel pre-pass

func newCb(f []string) world { return &cbW{opts: shrinkOpts(f)} }

func (w *cbW) nontrivial() bool { return w.cases > 0 }
func (w *cbW) state() string    { return "-" }

func (w *cbW) exec(r *hx.Run, f []string) (string, string) {
	init, ops, ok := parseScenario(f)
	if !ok {
		return strings.Join(f, " "), "bad-op"
	}
	key := cbLine(init, nil, ops[:2])
	var res cbResult
	if c, hit := cbCache.LoadAndDelete(key + fmt.Sprint(w.opts == nil)); hit {
		res = c.(cbResult)
	} else {
		res = runScenario(w.opts, init, ops)
	}
	if res.hang {
		fail(r, "cb", ops[0].kind, "hang", key+": the two operations did not both return within 30 s")

		return key, "hang"
	}
	w.cases++
	r.Count("cb:" + ops[0].kind + "/" + ops[1].kind)
	if res.in {
		r.Count("cb:writer-completed-inside-the-callback")
	}
	line := cbLine(init, res.evs, nil)
	m := map[int]int{}
	for _, kv := range init {
		m[kv[0]] = kv[1]
	}
	if !cbLinearizable(m, res.evs) {
		fail(r, "cb", ops[0].kind, "atomic-map", fmt.Sprintf("history not linearizable as an atomic map (a delete condition must hold in the state in which the entry is removed): %s", line))
	}

	return line, "accept"
}

func genCbScenario(rng *hx.Rng) (string, []string) {
	newLine := "cb " + genOpts(rng)
	nk := rng.Range(1, 3)
	var init [][2]int
	for k := 1; k <= nk; k++ {
		if rng.Chance(4, 5) {
			init = append(init, [2]int{k, rng.Range(1, 9)})
		}
	}
	k := rng.Range(1, nk)
	cur := 0
	for _, kv := range init {
		if kv[0] == k {
			cur = kv[1]
		}
	}
	var first cbOp
	switch rng.Intn(10) {
	case 0, 1, 2, 3:
		x := cur
		if rng.Chance(1, 4) {
			x = cur + 1 // a condition that does not hold
		}
		first = cbOp{"delifeq", []int{k, x}}
	case 4, 5, 6:
		first = cbOp{"compute", []int{k, rng.Range(1, 3)}}
	case 7, 8:
		first = cbOp{"goc", []int{k, rng.Range(20, 29)}}
	default:
		first = cbOp{"snap", nil}
	}
	k2 := k
	if rng.Chance(1, 5) {
		k2 = rng.Range(1, nk)
	}
	var second cbOp
	switch rng.Intn(4) {
	case 0:
		second = cbOp{"set", []int{k2, rng.Range(50, 59)}}
	case 1:
		second = cbOp{"compute", []int{k2, rng.Range(1, 3)}}
	case 2:
		second = cbOp{"del", []int{k2}}
	default:
		second = cbOp{"goc", []int{k2, rng.Range(70, 79)}}
	}
	sort.Slice(init, func(i, j int) bool { return init[i][0] < init[j][0] })

	return newLine, []string{newLine, "cb " + cbLine(init, nil, []cbOp{first, second})}
}

// runCbCases generates n scenarios, executes them in parallel batches (each costs the full window
// on the unchanged code) and then emits them as cases in order.
func runCbCases(r *hx.Run, n int) {
	type sc struct {
		sub   uint64
		lines []string
	}
	scs := make([]sc, n)
	for i := range scs {
		rng, sub := r.Rng.Fork()
		_, lines := genCbScenario(rng)
		scs[i] = sc{sub, lines}
	}
	const batch = 24
	for lo := 0; lo < n; lo += batch {
		hi := lo + batch
		if hi > n {
			hi = n
		}
		var wg sync.WaitGroup
		for _, s := range scs[lo:hi] {
			wg.Add(1)
			go func(lines []string) {
				defer wg.Done()
				f0 := strings.Fields(lines[0])
				init, ops, ok := parseScenario(strings.Fields(lines[1])[1:])
				if !ok {
					return
				}
				var opts []shrinkingmap.Option
				if p := hx.Safely(func() { opts = shrinkOpts(f0[2:]) }); p != "" {
					return
				}
				res := runScenario(opts, init, ops)
				cbCache.Store(cbLine(init, nil, ops[:2])+fmt.Sprint(opts == nil), res)
			}(s.lines)
		}
		wg.Wait()
		for _, s := range scs[lo:hi] {
			runCase(r, s.sub, s.lines)
		}
	}
}

// cbCorpus: the schedules named by the seeded change C12-r2-1 and its relatives.
var cbCorpus = [][]string{
	{"cb new 0 1 0", "cb lin i 1:5 e delifeq 1 5 e compute 1 1"},
	{"cb new 1 1 1", "cb lin i 1:5 2:7 e delifeq 1 5 e set 1 50"},
	{"cb new default", "cb lin i 1:5 e delifeq 1 6 e del 1"},
	{"cb new 0 1 1", "cb lin i 1:5 e compute 1 1 e set 1 50"},
	{"cb new 0 1 0", "cb lin i 1:5 e compute 1 2 e del 1"},
	{"cb new 0 1 0", "cb lin i 2:7 e goc 1 20 e set 1 50"},
	{"cb new 0 1 0", "cb lin i 1:5 e goc 1 20 e compute 1 1"},
	{"cb new 0 1 0", "cb lin i 1:5 2:7 e snap e set 1 50"},
}
