// C05 stress harness: 2..16 goroutines run random mixes of Get/Has/Set/Delete/DeletePrefix/Clear/
// Iterate/IterateKeys/batch Commit (and, in some histories, Close) on a few overlapping keys through
// shared views of overlapping realms of ONE mapdb store (bare, or behind flushkv / debug wrappers).
// Every call is stamped with an atomic logical clock at invocation and at response.  The recorded
// history is printed as request lines; the Lean driver (Hive/Model/KVLin.lean: Wing-Gong search +
// verified witness validation against the C04 ordered-map specification) must answer `accept`.
// Independently of Lean, a Go linearizability checker over a plain sorted map decides the same
// history (property oracle), a watchdog turns a hang into a failure, forced-schedule scenarios
// (writers running while an Iterate consumer is parked) check the snapshot clause, and the thorough
// tier is built with -race.
package main

import (
	"crypto/sha256"
	"fmt"
	"os"
	"runtime"
	"sort"
	"strconv"
	"strings"
	"sync"
	"sync/atomic"
	"time"

	"verifharness/hx"

	"github.com/iotaledger/hive.go/ierrors"
	"github.com/iotaledger/hive.go/kvstore"
	"github.com/iotaledger/hive.go/kvstore/debug"
	"github.com/iotaledger/hive.go/kvstore/flushkv"
	"github.com/iotaledger/hive.go/kvstore/mapdb"
)

// ---------------------------------------------------------------------------------------------
// recorded operations (on full keys)

type hop struct {
	inv, ret uint64
	kind     string // get has set del delp iter iterk close
	key      string // full key / full prefix
	val      string
	strip    int
	bwd      bool
	dirTok   string
	stop     int
	out      string
	// mayApply: a mutation issued through a flushkv wrapper that answered `closed`: flushkv runs the mutation and then
	// Flush(), so the error may come from the Flush of a mutation that did take effect (printed as an `hf` line)
	mayApply bool
}

func (o *hop) line() string {
	var op string
	switch o.kind {
	case "get", "has", "del", "delp":
		op = o.kind + " " + hx.Hex([]byte(o.key))
	case "set":
		op = "set " + hx.Hex([]byte(o.key)) + " " + hx.Hex([]byte(o.val))
	case "iter", "iterk":
		op = fmt.Sprintf("%s %s %d %s %d", o.kind, hx.Hex([]byte(o.key)), o.strip, o.dirTok, o.stop)
	case "close":
		op = "close"
	case "flag":
		op = "flag"
	}

	tag := "h"
	if o.mayApply {
		tag = "hf"
	}

	return fmt.Sprintf("%s %d %d %s => %s", tag, o.inv, o.ret, op, o.out)
}

func parseLine(l string) (*hop, bool) {
	f := strings.Fields(l)
	if len(f) < 5 || (f[0] != "h" && f[0] != "hf") {
		return nil, false
	}
	o := &hop{mayApply: f[0] == "hf"}
	o.inv, _ = strconv.ParseUint(f[1], 10, 64)
	o.ret, _ = strconv.ParseUint(f[2], 10, 64)
	o.kind = f[3]
	i := 4
	for i < len(f) && f[i] != "=>" {
		i++
	}
	args := f[4:i]
	if i < len(f) {
		o.out = strings.Join(f[i+1:], " ")
	}
	switch o.kind {
	case "get", "has", "del", "delp":
		o.key = string(hx.UnHex(args[0]))
	case "set":
		o.key, o.val = string(hx.UnHex(args[0])), string(hx.UnHex(args[1]))
	case "iter", "iterk":
		o.key = string(hx.UnHex(args[0]))
		o.strip, _ = strconv.Atoi(args[1])
		o.dirTok = args[2]
		o.bwd = args[2] == "bwd"
		o.stop, _ = strconv.Atoi(args[3])
	}

	return o, true
}

// ---------------------------------------------------------------------------------------------
// Go linearizability checker (property oracle, independent of Lean): Wing-Gong search with memoisation
// over a plain map + closed flag

type seqState struct {
	m      map[string]string
	closed bool
}

func (s *seqState) key() string {
	ks := make([]string, 0, len(s.m))
	for k := range s.m {
		ks = append(ks, k)
	}
	sort.Strings(ks)
	var sb strings.Builder
	if s.closed {
		sb.WriteByte('C')
	}
	for _, k := range ks {
		sb.WriteString(hx.Hex([]byte(k)))
		sb.WriteByte('=')
		sb.WriteString(hx.Hex([]byte(s.m[k])))
		sb.WriteByte(';')
	}

	return sb.String()
}

// answer computes the sequential answer of o in state s without changing s.
func (s *seqState) answer(o *hop) string {
	if o.kind == "close" {
		return "ok"
	}
	if s.closed {
		return "closed"
	}
	switch o.kind {
	case "get":
		v, ok := s.m[o.key]
		if !ok {
			return "notfound"
		}

		return "val " + hx.Hex([]byte(v))
	case "has":
		_, ok := s.m[o.key]

		return strconv.FormatBool(ok)
	case "iter", "iterk":
		var ks []string
		for k := range s.m {
			if strings.HasPrefix(k, o.key) {
				ks = append(ks, k)
			}
		}
		sort.Strings(ks)
		if o.bwd {
			for i, j := 0, len(ks)-1; i < j; i, j = i+1, j-1 {
				ks[i], ks[j] = ks[j], ks[i]
			}
		}
		if o.stop > 0 && len(ks) > o.stop {
			ks = ks[:o.stop]
		}
		var sb strings.Builder
		if o.kind == "iter" {
			sb.WriteString("kvs")
		} else {
			sb.WriteString("keys")
		}
		for _, k := range ks {
			sb.WriteString(" " + hx.Hex([]byte(k[o.strip:])))
			if o.kind == "iter" {
				sb.WriteString(":" + hx.Hex([]byte(s.m[k])))
			}
		}

		return sb.String()
	}

	return "ok"
}

func (s *seqState) readOnly(o *hop) bool {
	switch o.kind {
	case "get", "has", "iter", "iterk", "flag":
		return true
	case "close":
		return false
	}

	return s.closed
}

// apply returns the successor state (copy on write).
func (s *seqState) apply(o *hop) *seqState {
	if s.readOnly(o) {
		return s
	}
	n := &seqState{m: make(map[string]string, len(s.m)+1), closed: s.closed}
	for k, v := range s.m {
		n.m[k] = v
	}
	switch o.kind {
	case "close":
		n.closed = true
	case "set":
		n.m[o.key] = o.val
	case "del":
		delete(n.m, o.key)
	case "delp":
		for k := range n.m {
			if strings.HasPrefix(k, o.key) {
				delete(n.m, k)
			}
		}
	}

	return n
}

type checker struct {
	relaxed bool // classification only: an `hf` operation may also be linearised as having taken effect
	ops     []*hop
	done    []bool
	memo    map[string]struct{}
	nodes   int
}

func (c *checker) doneKey() string {
	b := make([]byte, (len(c.done)+7)/8)
	for i, d := range c.done {
		if d {
			b[i/8] |= 1 << (i % 8)
		}
	}

	return string(b)
}

func (c *checker) search(lo, k int, st *seqState) bool {
	if k == len(c.ops) {
		return true
	}
	c.nodes++
	if c.nodes > nodeBudget {
		return false
	}
	for lo < len(c.ops) && c.done[lo] {
		lo++
	}
	minRet := ^uint64(0)
	var win []int
	for i := lo; i < len(c.ops); i++ {
		if c.ops[i].inv > minRet {
			break
		}
		if c.done[i] {
			continue
		}
		if c.ops[i].ret < minRet {
			minRet = c.ops[i].ret
		}
		win = append(win, i)
	}
	var cands []int
	for _, i := range win {
		if c.ops[i].inv < minRet {
			cands = append(cands, i)
		}
	}
	// the effect of a call happens shortly before it returns: try the candidates in response order
	sort.Slice(cands, func(a, b int) bool { return c.ops[cands[a]].ret < c.ops[cands[b]].ret })
	for _, i := range cands {
		o := c.ops[i]
		if c.relaxed && o.mayApply {
			continue
		}
		if st.readOnly(o) && st.answer(o) == o.out {
			c.done[i] = true
			ok := c.search(lo, k+1, st)
			c.done[i] = false

			return ok
		}
	}
	for _, i := range cands {
		o := c.ops[i]
		var succ []*seqState
		if st.answer(o) == o.out {
			succ = append(succ, st.apply(o))
		}
		if c.relaxed && o.mayApply {
			// the mutation took effect (it had passed the flag check) although the call answered `closed`
			open := &seqState{m: st.m, closed: false}
			forced := open.apply(o)
			succ = append(succ, &seqState{m: forced.m, closed: st.closed})
		}
		for _, ns := range succ {
			c.done[i] = true
			key := c.doneKey() + "|" + ns.key()
			if _, seen := c.memo[key]; !seen {
				if c.search(lo, k+1, ns) {
					c.done[i] = false

					return true
				}
				c.memo[key] = struct{}{}
			}
			c.done[i] = false
		}
	}

	return false
}

const nodeBudget = 400_000

// linearizable returns the verdict, the number of search nodes, and whether the search gave up.
func linearizable(ops []*hop, relaxed bool) (ok bool, nodes int, inconclusive bool) {
	c := &checker{ops: ops, done: make([]bool, len(ops)), memo: map[string]struct{}{}, relaxed: relaxed}
	ok = c.search(0, 0, &seqState{m: map[string]string{}})

	return ok, c.nodes, !ok && c.nodes > nodeBudget
}

// ---------------------------------------------------------------------------------------------
// the store under test

type viewRec struct {
	v     kvstore.KVStore
	realm string
}

var universe = []string{"\x01\xff\x00", "\x01\xff\x01", "\x01\x00", "\x02"}

type world struct {
	prev  sync.Map // goroutine -> the batch handle of its previous Commit (cancelled later: `defer b.Cancel()` style)
	flush bool     // the views are behind a flushkv wrapper
	views []viewRec
	// locals[g]: the private view goroutine g (1-based) created last with WithRealm / WithExtendedRealm while the other
	// goroutines were using the parent (only goroutine g touches its slot)
	locals [20]viewRec
	clock  atomic.Uint64
	cb     atomic.Uint64
	// measured: how often a call started on a shared view OBJECT while another call was running on the same object (any kind /
	// both of them Get or Has, i.e. holding the view's lock in read mode at the same time)
	busy, busyR       [8]atomic.Int32
	sameView, sameRdr atomic.Int64
	// the debug wrapper: its access callback must run once, before the wrapped call, for every call whose command passes the
	// filter the wrapper was built with - counted per command on both sides (cbBy: seen by the callback, expBy: issued)
	dbg      bool
	filter   debug.Command
	cbBy     [8]atomic.Int64
	expBy    [8]atomic.Int64
	bare     kvstore.KVStore // the unwrapped root view
	reenter  bool            // the callback of a mutation reads the store itself (it runs outside every lock), recorded in cbOps
	cbMu     sync.Mutex
	cbOps    []*hop
	cbReads  atomic.Uint64
	panicked atomic.Bool
	park     atomic.Pointer[func()] // forced schedule: run once inside the next access callback
}

var debugCmds = []debug.Command{debug.IterateCommand, debug.IterateKeysCommand, debug.ClearCommand, debug.GetCommand, debug.SetCommand,
	debug.HasCommand, debug.DeleteCommand, debug.DeletePrefixCommand}

var debugCmdOfKind = map[string]int{"iter": 0, "iterk": 1, "clear": 2, "get": 3, "set": 4, "has": 5, "del": 6, "delp": 7}

// expect: a call of this kind is about to be issued through a view of this world.
func (w *world) expect(kind string) {
	if i, ok := debugCmdOfKind[kind]; ok && w.dbg && w.filter.HasBits(debugCmds[i]) {
		w.expBy[i].Add(1)
	}
}

// callback is the access callback handed to debug.New.
func (w *world) callback(cmd debug.Command, _ ...[]byte) {
	n := w.cb.Add(1)
	if f := w.park.Swap(nil); f != nil {
		(*f)()
	}
	for i, c := range debugCmds {
		if c == cmd {
			w.cbBy[i].Add(1)
		}
	}
	if w.reenter && (cmd == debug.SetCommand || cmd == debug.DeleteCommand || cmd == debug.ClearCommand || cmd == debug.DeletePrefixCommand) {
		// user code inside the callback uses the store: a complete call of the same goroutine, before the wrapped call starts
		fk := universe[int(n)%len(universe)]
		o := &hop{kind: "get", key: fk}
		o.inv = w.clock.Add(1)
		v, err := w.bare.Get([]byte(fk))
		o.ret = w.clock.Add(1)
		if err != nil {
			o.out = errAns(err)
		} else {
			o.out = "val " + hx.Hex(v)
		}
		w.cbMu.Lock()
		w.cbOps = append(w.cbOps, o)
		w.cbMu.Unlock()
		w.cbReads.Add(1)
	} else if n%2 == 0 {
		runtime.Gosched()
	}
}

// checkCallbacks measures the debug wrapper's contract - per command, the callback ran exactly as often as calls of that
// command were issued and pass the filter - for the evidence (histogram `debug-callback-count-mismatch`, expected 0: it is
// what makes "a call through debug = [callback, call]" of the protocol model an observed fact).  It is NOT a finding: the
// property statement says nothing about the callback.
func (w *world) checkCallbacks(r *hx.Run, desc string) {
	if !w.dbg || w.panicked.Load() {
		return
	}
	for i := range debugCmds {
		if got, want := w.cbBy[i].Load(), w.expBy[i].Load(); got != want {
			r.Count("debug-callback-count-mismatch")
		}
	}
	r.CountN("debug-callbacks-expected", func() (n int) {
		for i := range w.expBy {
			n += int(w.expBy[i].Load())
		}

		return
	}())
	r.CountN("debug-callback-reads-of-the-store", int(w.cbReads.Load()))
}

// viewOf: the view a call goes through: a shared one, or (view < 0) the goroutine's private one - the shared view of the
// same realm as long as the goroutine has none (its WithRealm answered ErrStoreClosed).
func (w *world) viewOf(c *call) viewRec {
	if c.view >= 0 {
		return w.views[c.view]
	}
	if l := w.locals[c.g]; l.v != nil && l.realm == c.realm {
		return l
	}

	return w.views[c.fallback]
}

var sharedRealms = []string{"", "\x01", "\x01\xff"} // realm of w.views[0..2]

// nWraps: 0 bare mapdb, 1 flushkv, 2 debug, 3 flushkv(debug), 4 debug(flushkv)
const nWraps = 5

func newWorld(rng *hx.Rng, wrap int) *world {
	w := &world{flush: wrap == 1 || wrap == 3 || wrap == 4, dbg: wrap >= 2}
	var root kvstore.KVStore = mapdb.NewMapDB()
	w.bare = root
	// the filter the debug wrapper is built with: none given (= all commands), mutations only, reads only, or the one value that
	// reports nothing (ShutdownCommand = 0)
	var filterArgs []debug.Command
	w.filter = debug.AllCommands
	if w.dbg {
		switch rng.Intn(5) {
		case 0:
			filterArgs = []debug.Command{debug.SetCommand, debug.DeleteCommand, debug.DeletePrefixCommand, debug.ClearCommand}
		case 1:
			filterArgs = []debug.Command{debug.GetCommand | debug.HasCommand, debug.IterateCommand, debug.IterateKeysCommand}
		case 2:
			filterArgs = []debug.Command{debug.ShutdownCommand}
		}
		if filterArgs != nil {
			w.filter = 0
			for _, f := range filterArgs {
				w.filter |= f
			}
		}
		w.reenter = rng.Bool()
	}
	switch wrap {
	case 1:
		root = flushkv.New(root)
	case 2:
		root = debug.New(root, w.callback, filterArgs...)
	case 3:
		root = flushkv.New(debug.New(root, w.callback, filterArgs...))
	case 4:
		root = debug.New(flushkv.New(root), w.callback, filterArgs...)
	}
	must := func(v kvstore.KVStore, err error) kvstore.KVStore {
		if err != nil {
			panic(err)
		}

		return v
	}
	v1 := must(root.WithRealm([]byte{0x01}))
	v2 := must(v1.WithExtendedRealm([]byte{0xff}))
	w.views = []viewRec{{root, ""}, {v1, "\x01"}, {v2, "\x01\xff"}}
	if rng.Bool() { // a second view object of the same realm: another view lock over the same keys
		w.views = append(w.views, viewRec{must(root.WithRealm([]byte{0x01})), "\x01"})
	}

	return w
}

func errAns(err error) string {
	switch {
	case err == nil:
		return "ok"
	case ierrors.Is(err, kvstore.ErrStoreClosed):
		return "closed"
	case ierrors.Is(err, kvstore.ErrKeyNotFound):
		return "notfound"
	default:
		return "err"
	}
}

// call plan of one goroutine, generated up front from the case's PRNG (the schedule is what varies)
type call struct {
	kind   string // get has set del delp clear iter iterk commit close
	view   int
	key    string // key / prefix relative to the view
	val    string
	dirTok string
	stop   int
	writes []call // commit: set / del
	yield  bool
	g      int // 1 + index of the issuing goroutine (0: none): batch handles of earlier commits are kept per goroutine
	// view < 0: through the goroutine's private view of realm `realm` (fallback: the shared view of that realm)
	realm    string
	fallback int
	mk       string // mkview: "realm" (WithRealm(key)) or "ext" (WithExtendedRealm(key)); val = realm of the new view
}

func (w *world) keysOf(view int) []string { return keysOfRealm(w.views[view].realm) }

func keysOfRealm(realm string) []string {
	var ks []string
	for _, fk := range universe {
		if strings.HasPrefix(fk, realm) {
			ks = append(ks, fk[len(realm):])
		}
	}

	return ks
}

func genPlan(rng *hx.Rng, w *world, g, n int, allowClose bool) []call {
	plan := make([]call, 0, n)
	seq := 0
	val := func() string { seq++; return string([]byte{byte(g + 1), byte(seq)}) }
	hasLocal, localRealm := false, ""
	for i := 0; i < n; i++ {
		view := rng.Intn(len(w.views))
		realm := w.views[view].realm
		if hasLocal && rng.Bool() {
			view, realm = -1, localRealm
		}
		fallback := 0
		for j, sr := range sharedRealms {
			if sr == realm {
				fallback = j
			}
		}
		ks := keysOfRealm(realm)
		key := hx.Pick(rng, ks)
		c := call{view: view, key: key, yield: rng.Chance(1, 4), g: g + 1, realm: realm, fallback: fallback}
		if rng.Chance(1, 16) {
			// a new private view, created from a view that other goroutines are using right now: WithRealm (absolute realm) or
			// WithExtendedRealm (relative to the parent's realm)
			target := hx.Pick(rng, sharedRealms)
			c.kind, c.mk, c.key, c.val = "mkview", "realm", target, target
			if strings.HasPrefix(target, realm) && rng.Bool() {
				c.mk, c.key = "ext", target[len(realm):]
			}
			hasLocal, localRealm = true, target
			plan = append(plan, c)

			continue
		}
		if rng.Chance(1, 40) {
			c.kind = "flush"
			plan = append(plan, c)

			continue
		}
		if rng.Chance(1, 40) {
			c.kind = "realm" // Realm(): lock-free, flag-free accessor; the caller overwrites what it got
			plan = append(plan, c)

			continue
		}
		switch x := rng.Intn(100); {
		case x < 24:
			c.kind, c.val = "set", val()
		case x < 44:
			c.kind = "get"
		case x < 52:
			c.kind = "has"
		case x < 62:
			c.kind = "del"
		case x < 67:
			c.kind = "delp"
			c.key = key[:rng.Intn(len(key)+1)]
		case x < 69:
			c.kind = "clear"
		case x < 81:
			c.kind, c.key, c.dirTok, c.stop = "iter", key[:rng.Intn(len(key))], hx.Pick(rng, []string{"fwd", "bwd", "def"}), rng.Intn(3)
		case x < 87:
			c.kind, c.key, c.dirTok, c.stop = "iterk", key[:rng.Intn(len(key))], hx.Pick(rng, []string{"fwd", "bwd", "def"}), rng.Intn(3)
		case x < 99:
			c.kind = "commit"
			for j := rng.Range(1, 3); j > 0; j-- {
				k := hx.Pick(rng, ks)
				switch y := rng.Intn(6); {
				case y < 3:
					c.writes = append(c.writes, call{kind: "set", key: k, val: val()})
				case y < 4:
					c.writes = append(c.writes, call{kind: "del", key: k})
				case y < 5: // Delete then Set of one key: the batch's effect on the key is the Set alone
					c.writes = append(c.writes, call{kind: "del", key: k}, call{kind: "set", key: k, val: val()})
				default:
					c.writes = append(c.writes, call{kind: "set", key: k, val: val()}, call{kind: "del", key: k})
				}
			}
		default:
			if allowClose && i > n/2 {
				c.kind = "close"
			} else {
				c.kind = "get"
			}
		}
		plan = append(plan, c)
	}

	return plan
}

func dirArgs(s string) []kvstore.IterDirection {
	switch s {
	case "fwd":
		return []kvstore.IterDirection{kvstore.IterDirectionForward}
	case "bwd":
		return []kvstore.IterDirection{kvstore.IterDirectionBackward}
	default:
		return nil
	}
}

// scribble overwrites a buffer the harness owns (an argument after the call returned, a result after it was recorded):
// if the store kept or handed out a reference instead of a copy, its content changes without any call.
func scribble(b []byte) {
	for i := range b {
		b[i] ^= 0xa5
	}
}

// exec performs one call and returns the recorded operations (several for a commit).
// inCallback, if not nil, is run inside the first consumer call of an iteration.
func (w *world) exec(c *call, inCallback func()) []*hop {
	vr := w.viewOf(c)
	fk := vr.realm + c.key
	if c.view >= 0 && c.view < len(w.busy) {
		if w.busy[c.view].Add(1) > 1 {
			w.sameView.Add(1)
		}
		defer w.busy[c.view].Add(-1)
		if c.kind == "get" || c.kind == "has" {
			if w.busyR[c.view].Add(1) > 1 {
				w.sameRdr.Add(1)
			}
			defer w.busyR[c.view].Add(-1)
		}
	}
	var o hop
	w.expect(c.kind)
	switch c.kind {
	case "mkview":
		// flag-only call: it loads the closed flag and touches neither the map nor any lock; the new view has its OWN, free lock
		o = hop{kind: "flag"}
		var nv kvstore.KVStore
		var err error
		o.inv = w.clock.Add(1)
		if c.mk == "ext" {
			nv, err = vr.v.WithExtendedRealm([]byte(c.key))
		} else {
			nv, err = vr.v.WithRealm([]byte(c.key))
		}
		o.ret = w.clock.Add(1)
		o.out = errAns(err)
		if err == nil {
			w.locals[c.g] = viewRec{nv, c.val}
		}
	case "realm":
		// not an operation of the history (it touches neither flag nor map): the view must hand out a COPY of its realm - the
		// caller overwrites it, and a view whose realm changed under it addresses other keys from now on
		scribble(vr.v.Realm())

		return nil
	case "flush":
		o = hop{kind: "flag"}
		o.inv = w.clock.Add(1)
		err := vr.v.Flush()
		o.ret = w.clock.Add(1)
		o.out = errAns(err)
	case "get":
		o = hop{kind: "get", key: fk}
		o.inv = w.clock.Add(1)
		v, err := vr.v.Get([]byte(c.key))
		o.ret = w.clock.Add(1)
		if err != nil {
			o.out = errAns(err)
		} else {
			o.out = "val " + hx.Hex(v)
			scribble(v) // the caller owns what Get returned: overwriting it must not reach the store
		}
	case "has":
		o = hop{kind: "has", key: fk}
		o.inv = w.clock.Add(1)
		b, err := vr.v.Has([]byte(c.key))
		o.ret = w.clock.Add(1)
		if err != nil {
			o.out = errAns(err)
		} else {
			o.out = strconv.FormatBool(b)
		}
	case "set":
		o = hop{kind: "set", key: fk, val: c.val}
		o.inv = w.clock.Add(1)
		kbuf, vbuf := []byte(c.key), []byte(c.val)
		err := vr.v.Set(kbuf, vbuf)
		o.ret = w.clock.Add(1)
		o.out = errAns(err)
		o.mayApply = w.flush && o.out == "closed"
		if len(vbuf) <= 64 {
			scribble(kbuf) // the caller owns its buffers again once Set has returned
			scribble(vbuf)
		}
	case "del":
		o = hop{kind: "del", key: fk}
		o.inv = w.clock.Add(1)
		err := vr.v.Delete([]byte(c.key))
		o.ret = w.clock.Add(1)
		o.out = errAns(err)
		o.mayApply = w.flush && o.out == "closed"
	case "delp":
		o = hop{kind: "delp", key: fk}
		o.inv = w.clock.Add(1)
		err := vr.v.DeletePrefix([]byte(c.key))
		o.ret = w.clock.Add(1)
		o.out = errAns(err)
		o.mayApply = w.flush && o.out == "closed"
	case "clear":
		o = hop{kind: "delp", key: vr.realm}
		o.inv = w.clock.Add(1)
		err := vr.v.Clear()
		o.ret = w.clock.Add(1)
		o.out = errAns(err)
		o.mayApply = w.flush && o.out == "closed"
	case "close":
		o = hop{kind: "close"}
		o.inv = w.clock.Add(1)
		err := vr.v.Close()
		o.ret = w.clock.Add(1)
		o.out = errAns(err)
	case "iter", "iterk":
		o = hop{kind: c.kind, key: fk, strip: len(vr.realm), dirTok: c.dirTok, bwd: c.dirTok == "bwd", stop: c.stop}
		var sb strings.Builder
		calls := 0
		var err error
		o.inv = w.clock.Add(1)
		if c.kind == "iter" {
			sb.WriteString("kvs")
			err = vr.v.Iterate([]byte(c.key), func(k kvstore.Key, v kvstore.Value) bool {
				calls++
				sb.WriteString(" " + hx.Hex(k) + ":" + hx.Hex(v))
				if len(v) <= 64 {
					scribble(k)
					scribble(v)
				}
				if calls == 1 && inCallback != nil {
					inCallback()
				} else if c.yield {
					runtime.Gosched()
				}

				return calls != c.stop
			}, dirArgs(c.dirTok)...)
		} else {
			sb.WriteString("keys")
			err = vr.v.IterateKeys([]byte(c.key), func(k kvstore.Key) bool {
				calls++
				sb.WriteString(" " + hx.Hex(k))
				if calls == 1 && inCallback != nil {
					inCallback()
				} else if c.yield {
					runtime.Gosched()
				}

				return calls != c.stop
			}, dirArgs(c.dirTok)...)
		}
		o.ret = w.clock.Add(1)
		if err != nil {
			o.out = errAns(err)
		} else {
			o.out = sb.String()
		}
	case "commit":
		// Batched is a flag-only call of its own: recorded like WithRealm / Flush
		fl := &hop{kind: "flag"}
		fl.inv = w.clock.Add(1)
		b, err := vr.v.Batched()
		fl.ret = w.clock.Add(1)
		fl.out = errAns(err)
		if err != nil || len(c.writes) == 0 {
			return []*hop{fl} // nothing touched the map
		}
		for _, wr := range c.writes {
			w.expect(wr.kind)
			if wr.kind == "set" {
				_ = b.Set([]byte(wr.key), []byte(wr.val))
			} else {
				_ = b.Delete([]byte(wr.key))
			}
		}
		// a handle that was committed earlier is cancelled only now, while the new batch is already filled: a finished handle
		// must not influence any other batch (its own, or another goroutine's)
		if old, ok := w.prev.Load(c.g); ok && c.g != 0 {
			old.(kvstore.BatchedMutations).Cancel()
		}
		inv := w.clock.Add(1)
		err = b.Commit()
		ret := w.clock.Add(1)
		if c.g != 0 {
			if c.yield {
				b.Cancel() // the usual `defer b.Cancel()` right after the Commit
			}
			w.prev.Store(c.g, b)
		}
		out := []*hop{fl}
		// the batch's effect per key is its LAST call for that key (C04: last operation per key wins), applied as one write
		last := map[string]int{}
		for i, wr := range c.writes {
			last[wr.key] = i
		}
		for i, wr := range c.writes {
			if last[wr.key] != i {
				continue
			}
			h := &hop{inv: inv, ret: ret, kind: wr.kind, key: vr.realm + wr.key, val: wr.val, out: errAns(err)}
			h.mayApply = w.flush && h.out == "closed"
			out = append(out, h)
			if err != nil && !w.flush {
				break // a failed Commit of a bare store is one failed operation (behind flushkv its writes may have happened)
			}
		}

		return out
	}

	return []*hop{&o}
}

// ---------------------------------------------------------------------------------------------

type result struct {
	ops      []*hop
	timedOut bool
	desc     string
	plan     []string // `x …` lines: what was scheduled (printed before the verdict; the replay of a hang / crash finding)
}

func runStress(rng *hx.Rng, r *hx.Run) result {
	wrap := rng.Intn(nWraps)
	allowClose := rng.Chance(1, 4)
	g := rng.Range(2, 16)
	// keep histories checkable: the more goroutines, the fewer calls each
	maxN := 40
	if g > 8 {
		maxN = 24
	}
	w := newWorld(rng, wrap)
	plans := make([][]call, g)
	for i := range plans {
		plans[i] = genPlan(rng, w, i, rng.Range(6, maxN), allowClose)
	}
	// bound the number of calls in flight (the checkers' search is exponential in it, not in the number of goroutines);
	// small pools run unbounded
	inflight := g
	if g > 5 {
		inflight = rng.Range(2, 5)
	}
	desc := fmt.Sprintf("stress g=%d inflight=%d wrap=%d close=%v views=%d filter=%d reenter=%v", g, inflight, wrap, allowClose, len(w.views), w.filter, w.reenter)

	return runPlans(r, w, plans, inflight, desc)
}

// runPlans lets goroutine i execute plans[i] on the world (at most `inflight` calls at a time) and collects the history.
func runPlans(r *hx.Run, w *world, plans [][]call, inflight int, desc string) result {
	g := len(plans)
	sem := make(chan struct{}, inflight)
	recs := make([][]*hop, g)
	start := make(chan struct{})
	var wg sync.WaitGroup
	for i := 0; i < g; i++ {
		wg.Add(1)
		go func(i int) {
			defer wg.Done()
			<-start
			for j := range plans[i] {
				c := &plans[i][j]
				sem <- struct{}{}
				if p := hx.Safely(func() { recs[i] = append(recs[i], w.exec(c, nil)...) }); p != "" {
					w.panicked.Store(true)
					recs[i] = append(recs[i], &hop{inv: w.clock.Add(1), ret: w.clock.Add(1), kind: "get", key: "panic", out: "panic"})
				}
				<-sem
				if c.yield {
					runtime.Gosched()
				}
			}
		}(i)
	}
	close(start)
	done := make(chan struct{})
	go func() { wg.Wait(); close(done) }()
	res := result{desc: desc}
	select {
	case <-done:
	case <-time.After(20 * time.Second):
		res.timedOut = true
		res.plan = append([]string{"x stress " + res.desc + ": the plans of the goroutines (some call of them never returned)"}, planLines(plans)...)

		return res
	}
	for _, rs := range recs {
		res.ops = append(res.ops, rs...)
	}
	res.ops = append(res.ops, w.cbOps...)
	w.checkCallbacks(r, res.desc)
	r.Count(fmt.Sprintf("goroutines:%02d", g))
	r.Count(fmt.Sprintf("inflight:%02d", inflight))
	r.Count("wrap:" + strings.TrimPrefix(fieldOf(desc, "wrap="), ""))
	r.CountN("debug-callbacks", int(w.cb.Load()))
	r.CountN("calls-started-while-another-ran-on-the-same-view-object", int(w.sameView.Load()))
	r.CountN("get/has-started-while-another-get/has-ran-on-the-same-view-object", int(w.sameRdr.Load()))

	return res
}

// fieldOf returns the value of `key` (e.g. "wrap=") in a space-separated description, "" if absent.
func fieldOf(desc, key string) string {
	for _, f := range strings.Fields(desc) {
		if v, ok := strings.CutPrefix(strings.TrimSuffix(f, ":"), key); ok {
			return v
		}
	}

	return ""
}

// replayStress re-runs the plans of a hang finding of the stress scenario (`x stress …` header + `x call …` lines): the same
// calls by the same goroutines on a store wrapped the same way, up to 300 times (the schedule is not recorded) or until a
// run hangs.  Returns false if the lines are not such a plan.
func replayStress(r *hx.Run, lines []string) bool {
	if len(lines) == 0 || !strings.HasPrefix(lines[0], "x stress ") {
		return false
	}
	hdr := lines[0]
	atoi := func(s string) int { n, _ := strconv.Atoi(s); return n }
	wrap, inflight, views := atoi(fieldOf(hdr, "wrap=")), atoi(fieldOf(hdr, "inflight=")), atoi(fieldOf(hdr, "views="))
	byG := map[int][]call{}
	maxG := 0
	for _, l := range lines[1:] {
		f := strings.Fields(l)
		if len(f) < 3 || f[0] != "x" || f[1] != "call" {
			continue
		}
		c := call{}
		for _, kv := range f[2:] {
			switch {
			case strings.HasPrefix(kv, "g="):
				c.g = atoi(kv[2:])
			case strings.HasPrefix(kv, "kind="):
				c.kind = kv[5:]
			case strings.HasPrefix(kv, "view="):
				c.view = atoi(kv[5:])
			case strings.HasPrefix(kv, "realm="):
				c.realm = string(hx.UnHex(kv[6:]))
			case strings.HasPrefix(kv, "key="):
				c.key = string(hx.UnHex(kv[4:]))
			case strings.HasPrefix(kv, "via="):
				c.mk = kv[4:]
			case strings.HasPrefix(kv, "val="):
				c.val = string(hx.UnHex(kv[4:]))
			case strings.HasPrefix(kv, "dir="):
				c.dirTok = kv[4:]
			case strings.HasPrefix(kv, "stop="):
				c.stop = atoi(kv[5:])
			case strings.HasPrefix(kv, "set:"), strings.HasPrefix(kv, "del:"):
				kv2 := strings.SplitN(kv[4:], "=", 2)
				wr := call{kind: kv[:3], key: string(hx.UnHex(kv2[0]))}
				if len(kv2) == 2 {
					wr.val = string(hx.UnHex(kv2[1]))
				}
				c.writes = append(c.writes, wr)
			}
		}
		for j, sr := range sharedRealms {
			if sr == c.realm {
				c.fallback = j
			}
		}
		if c.g < 1 {
			continue
		}
		byG[c.g] = append(byG[c.g], c)
		if c.g > maxG {
			maxG = c.g
		}
	}
	if maxG == 0 {
		return false
	}
	plans := make([][]call, maxG)
	for g, cs := range byG {
		plans[g-1] = cs
	}
	if inflight < 1 {
		inflight = maxG
	}
	var res result
	for attempt := 0; attempt < 300; attempt++ {
		rng, _ := r.Rng.Fork()
		w := newWorld(rng, wrap)
		for len(w.views) < views { // the second view object of realm 01
			v, err := w.views[0].v.WithRealm([]byte{0x01})
			if err != nil {
				panic(err)
			}
			w.views = append(w.views, viewRec{v, "\x01"})
		}
		if len(w.views) > views && views >= 3 {
			w.views = w.views[:views]
		}
		res = runPlans(r, w, plans, inflight, strings.TrimSuffix(strings.TrimPrefix(strings.SplitN(hdr, ": the plans", 2)[0], "x stress "), ":")+fmt.Sprintf(" replay-attempt=%d", attempt+1))
		if res.timedOut {
			break
		}
		if ok, _, _ := linearizable(sortedOps(res.ops), false); !ok {
			break // not a hang this time, but a history the contract rejects: a failing input as well
		}
	}
	r.CountN("replay-stress-attempts", 1)
	emit(r, 0, res)

	return true
}

func sortedOps(ops []*hop) []*hop {
	out := append([]*hop(nil), ops...)
	sort.Slice(out, func(i, j int) bool { return out[i].inv < out[j].inv })

	return out
}

// parkStore forwards every call to the wrapped store; its Flush first runs a hook (once).  Placed under a flushkv wrapper it
// makes the schedule "goroutine descheduled between flushkv's mutation and the Flush() that follows it" reproducible.
type parkStore struct {
	kvstore.KVStore
	hook *func()
}

func (p *parkStore) WithRealm(r kvstore.Realm) (kvstore.KVStore, error) {
	v, err := p.KVStore.WithRealm(r)
	if err != nil {
		return nil, err
	}

	return &parkStore{KVStore: v, hook: p.hook}, nil
}

func (p *parkStore) WithExtendedRealm(r kvstore.Realm) (kvstore.KVStore, error) {
	v, err := p.KVStore.WithExtendedRealm(r)
	if err != nil {
		return nil, err
	}

	return &parkStore{KVStore: v, hook: p.hook}, nil
}

func (p *parkStore) Flush() error {
	if h := *p.hook; h != nil {
		*p.hook = nil
		h()
	}

	return p.KVStore.Flush()
}

// runFlushClose: forced schedule.  A mutation issued through flushkv has been applied by the wrapped store; before
// flushkv calls Flush() another goroutine reads the store and a third one closes it.  flushkv then answers ErrStoreClosed
// for a mutation that took effect and was observed.
func runFlushClose(rng *hx.Rng, r *hx.Run) result {
	res := result{desc: "flushclose"}
	w := &world{flush: true}
	base := mapdb.NewMapDB()
	var hook func()
	ps := &parkStore{KVStore: base, hook: &hook}
	// the wrapper chain above the parking store: flushkv alone, flushkv over debug, debug over flushkv
	var chain kvstore.KVStore
	switch rng.Intn(3) {
	case 0:
		chain = flushkv.New(ps)
	case 1:
		chain = flushkv.New(debug.New(ps, w.callback))
	default:
		chain = debug.New(flushkv.New(ps), w.callback, debug.SetCommand, debug.ClearCommand)
	}
	fv, err := chain.WithRealm([]byte{0x01})
	if err != nil {
		panic(err)
	}
	bv, _ := base.WithRealm([]byte{0x01})
	w.views = []viewRec{{fv, "\x01"}, {bv, "\x01"}, {base, ""}}
	pre := call{kind: "set", view: 1, key: "\xff\x00", val: "\xee\x00"}
	res.ops = append(res.ops, w.exec(&pre, nil)...)
	var mut call
	switch rng.Intn(5) {
	case 0:
		mut = call{kind: "set", view: 0, key: "\xff\x00", val: "\x01\x01"}
	case 1:
		mut = call{kind: "del", view: 0, key: "\xff\x00"}
	case 2:
		mut = call{kind: "delp", view: 0, key: "\xff"}
	case 3:
		mut = call{kind: "clear", view: 0}
	default:
		mut = call{kind: "commit", view: 0, writes: []call{{kind: "set", key: "\xff\x00", val: "\x01\x02"}}}
	}
	written, closed := make(chan struct{}), make(chan struct{})
	hook = func() { close(written); <-closed }
	var mops []*hop
	finished := make(chan struct{})
	go func() { defer close(finished); mops = w.exec(&mut, nil) }()
	select {
	case <-written:
	case <-finished: // the mutation never reached Flush
	case <-time.After(20 * time.Second):
		res.timedOut = true

		return res
	}
	rd := call{kind: "get", view: 2, key: "\x01\xff\x00"}
	res.ops = append(res.ops, w.exec(&rd, nil)...)
	cl := call{kind: "close", view: rng.Intn(3)}
	res.ops = append(res.ops, w.exec(&cl, nil)...)
	close(closed)
	select {
	case <-finished:
	case <-time.After(20 * time.Second):
		res.timedOut = true

		return res
	}
	res.ops = append(res.ops, mops...)
	after := call{kind: "has", view: 1, key: "\xff\x00"}
	res.ops = append(res.ops, w.exec(&after, nil)...)
	r.Count("scenario:flushclose")

	return res
}

// runReaders: read-only phase.  Eight goroutines hammer Get/Has on their OWN keys (one present, one absent each) through ONE
// view created by two nested WithExtendedRealm calls, against a content that nobody changes.  Every answer must be the one
// the fixed content gives; the emitted history (the content's Sets, every wrong answer, a few right ones) is decided by the
// checkers like any other.  (Readers hold only read locks: anything they share besides the map is unprotected.)
func runReaders(rng *hx.Rng, r *hx.Run) result {
	wrap := rng.Intn(nWraps)
	res := result{desc: fmt.Sprintf("readers wrap=%d", wrap)}
	w := newWorld(rng, wrap)
	w.reenter = false // the emitted history is a reduced one
	root := w.views[0].v
	v1, err := root.WithExtendedRealm([]byte{0xaa})
	if err != nil {
		panic(err)
	}
	v2, err := v1.WithExtendedRealm([]byte{0xbb})
	if err != nil {
		panic(err)
	}
	w.views = []viewRec{{root, ""}, {v2, "\xaa\xbb"}}
	const g = 8
	iters := 1500
	for i := 0; i < g; i++ {
		c := call{kind: "set", view: 0, key: "\xaa\xbb" + string([]byte{byte(0x10 + i), 0x01}), val: string([]byte{byte(i + 1), 0x01})}
		res.ops = append(res.ops, w.exec(&c, nil)...)
	}
	bad := make([][]*hop, g)
	good := make([][]*hop, g)
	start := make(chan struct{})
	var wg sync.WaitGroup
	for i := 0; i < g; i++ {
		wg.Add(1)
		go func(i int) {
			defer wg.Done()
			present := string([]byte{byte(0x10 + i), 0x01})
			absent := string([]byte{byte(0x10 + i), 0x02})
			wantVal := "val " + hx.Hex([]byte{byte(i + 1), 0x01})
			calls := []call{{kind: "get", view: 1, key: present}, {kind: "has", view: 1, key: absent},
				{kind: "has", view: 1, key: present}, {kind: "get", view: 1, key: absent}}
			want := []string{wantVal, "false", "true", "notfound"}
			<-start
			for n := 0; n < iters; n++ {
				j := n % 4
				ops := w.exec(&calls[j], nil)
				if ops[0].out != want[j] {
					if len(bad[i]) < 3 {
						bad[i] = append(bad[i], ops...)
					}
				} else if len(good[i]) < 4 {
					good[i] = append(good[i], ops...)
				}
			}
		}(i)
	}
	close(start)
	wg.Wait()
	nbad := 0
	for i := 0; i < g; i++ {
		res.ops = append(res.ops, good[i]...)
		res.ops = append(res.ops, bad[i]...)
		nbad += len(bad[i])
	}
	if nbad > 0 {
		o := firstOf(bad)
		r.Fail("fixed-content", fmt.Sprintf("read-only phase (%s): %s although nobody writes; content: key i -> [i+1 01] for i<8 under aabb", res.desc, o.line()),
			map[string]string{"oracle": "fixed-content", "scenario": "readers", "op": o.kind})
	}
	w.checkCallbacks(r, res.desc)
	r.Count("scenario:readers")
	r.CountN("readers-wrong-answers", nbad)

	return res
}

func firstOf(xs [][]*hop) *hop {
	for _, x := range xs {
		if len(x) > 0 {
			return x[0]
		}
	}

	return nil
}

// runTorn: one writer overwrites ONE key with same-length 4 KiB values (each filled with one generation byte) through one
// view; three readers Get the key through ANOTHER view.  Every value read must be uniform.  The emitted history is compact:
// around every non-uniform read the writer's Sets that can matter for it; otherwise a short prefix of the run.
func runTorn(rng *hx.Rng, r *hx.Run) result {
	wrap := rng.Intn(nWraps)
	res := result{desc: fmt.Sprintf("torn wrap=%d", wrap)}
	w := newWorld(rng, wrap)
	w.reenter = false // the emitted history is a reduced one
	gens := 300
	const size = 4096
	fill := func(b byte) string { return strings.Repeat(string([]byte{b}), size) }
	var sets []*hop
	readers := 3
	bad := make([][]*hop, readers)
	early := make([][]*hop, readers)
	var done atomic.Bool
	start := make(chan struct{})
	var wg sync.WaitGroup
	for i := 0; i < readers; i++ {
		wg.Add(1)
		go func(i int) {
			defer wg.Done()
			c := call{kind: "get", view: 0, key: "\x01\x00"}
			if i == 2 { // the third reader takes the value out of an Iterate snapshot
				c = call{kind: "iter", view: 0, key: "\x01\x00", dirTok: "fwd"}
			}
			<-start
			for n := 0; !done.Load(); n++ {
				ops := w.exec(&c, nil)
				o := ops[0]
				uniform := true
				if strings.HasPrefix(o.out, "val ") || strings.HasPrefix(o.out, "kvs 0100:") {
					v := hx.UnHex(o.out[strings.LastIndexAny(o.out, " :")+1:])
					for _, b := range v {
						if b != v[0] {
							uniform = false

							break
						}
					}
					uniform = uniform && len(v) == size
				}
				if !uniform && len(bad[i]) < 1 {
					bad[i] = append(bad[i], o)
				} else if n < 2 {
					early[i] = append(early[i], o)
				}
			}
		}(i)
	}
	close(start)
	for gnr := 1; gnr <= gens; gnr++ {
		c := call{kind: "set", view: 1, key: "\x00", val: fill(byte(gnr%250 + 1))}
		sets = append(sets, w.exec(&c, nil)...)
	}
	done.Store(true)
	wg.Wait()
	nbad := 0
	keep := map[int]bool{0: true, 1: true, 2: true}
	for i := range bad {
		for _, o := range bad[i] {
			nbad++
			res.ops = append(res.ops, o)
			lastBefore := -1
			for j, st := range sets {
				if st.ret < o.inv {
					lastBefore = j
				}
				if st.inv < o.ret && st.ret > o.inv {
					keep[j] = true
				}
			}
			// everything up to the read matters only through the last Sets completed before it
			for j := lastBefore - 1; j <= lastBefore; j++ {
				if j >= 0 {
					keep[j] = true
				}
			}
		}
	}
	if nbad == 0 {
		for i := range early {
			for _, o := range early[i] {
				if len(sets) > 3 && o.ret < sets[3].inv {
					res.ops = append(res.ops, o)
				}
			}
		}
	} else {
		// a reduced history must stay a history: keep a contiguous run of Sets from the first kept one
		first, lastK := len(sets), 0
		for j := range keep {
			if j > 2 && j < first {
				first = j
			}
			if j > lastK {
				lastK = j
			}
		}
		for j := first; j <= lastK && j < len(sets); j++ {
			keep[j] = true
		}
		delete(keep, 0)
		delete(keep, 1)
		delete(keep, 2)
		o := firstOf(bad)
		r.Fail("uniform-value", fmt.Sprintf("%s returned a value mixing several generations of same-length overwrites (%s): first bytes %s, last bytes %s",
			o.kind, res.desc, o.out[9:17], o.out[len(o.out)-8:]), map[string]string{"oracle": "torn-value", "scenario": "torn", "op": o.kind})
	}
	for j, st := range sets {
		if keep[j] {
			res.ops = append(res.ops, st)
		}
	}
	w.checkCallbacks(r, res.desc)
	r.Count("scenario:torn")
	r.CountN("torn-values", nbad)

	return res
}

// runBatchFlip: a key that is always present.  One writer commits batches that call Delete(k) and then Set(k, v) (sometimes
// the other way round on a second key); readers Has / Get / IterateKeys the keys through another view.  A batch's effect on
// a key is its last call for that key, as ONE write: the first key must never be seen missing.
func runBatchFlip(rng *hx.Rng, r *hx.Run) result {
	wrap := rng.Intn(nWraps)
	res := result{desc: fmt.Sprintf("batchflip wrap=%d", wrap)}
	w := newWorld(rng, wrap)
	commits := 120
	init := []call{{kind: "set", view: 1, key: "\xff\x00", val: "\xee\x00"}, {kind: "set", view: 1, key: "\xff\x01", val: "\xee\x01"}}
	for i := range init {
		res.ops = append(res.ops, w.exec(&init[i], nil)...)
	}
	readers := 3
	recs := make([][]*hop, readers)
	var done atomic.Bool
	start := make(chan struct{})
	var wg sync.WaitGroup
	missing := atomic.Int64{}
	for i := 0; i < readers; i++ {
		wg.Add(1)
		go func(i int) {
			defer wg.Done()
			view := []int{0, 2, len(w.views) - 1}[i] // root, the 01ff view, (a second object of) the 01 view
			strip := len(w.views[view].realm)
			k0 := "\x01\xff\x00"[strip:]
			calls := []call{{kind: "has", view: view, key: k0}, {kind: "get", view: view, key: k0},
				{kind: "iterk", view: view, key: "", dirTok: "fwd"}, {kind: "has", view: view, key: "\x01\xff\x01"[strip:]}}
			<-start
			for n := 0; !done.Load() && n < 250; n++ {
				ops := w.exec(&calls[(n+i)%4], nil)
				recs[i] = append(recs[i], ops...)
				o := ops[0]
				if (o.kind == "has" && o.key == "\x01\xff\x00" && o.out == "false") || (o.kind == "get" && o.out == "notfound") ||
					(o.kind == "iterk" && !strings.Contains(o.out, hx.Hex([]byte("\x01\xff\x00"[strip:])))) {
					missing.Add(1)
				}
			}
		}(i)
	}
	close(start)
	var wrecs []*hop
	for n := 1; n <= commits; n++ {
		c := call{kind: "commit", view: 1, writes: []call{{kind: "del", key: "\xff\x00"},
			{kind: "set", key: "\xff\x00", val: string([]byte{0x77, byte(n)})}}}
		if n%3 == 0 {
			c.writes = append(c.writes, call{kind: "set", key: "\xff\x01", val: string([]byte{0x78, byte(n)})}, call{kind: "del", key: "\xff\x01"})
		} else if n%3 == 1 {
			c.writes = append(c.writes, call{kind: "del", key: "\xff\x01"}, call{kind: "set", key: "\xff\x01", val: string([]byte{0x79, byte(n)})})
		}
		wrecs = append(wrecs, w.exec(&c, nil)...)
	}
	done.Store(true)
	wg.Wait()
	res.ops = append(res.ops, wrecs...)
	for _, rs := range recs {
		res.ops = append(res.ops, rs...)
	}
	res.ops = append(res.ops, w.cbOps...)
	w.checkCallbacks(r, res.desc)
	r.Count("scenario:batchflip")
	r.CountN("batchflip-key-seen-missing", int(missing.Load()))

	return res
}

// runSnapshot: forced schedule.  An Iterate consumer is parked inside its first call while other
// goroutines delete / overwrite / add entries of the iterated range and return; the iteration must
// still report its snapshot (and must not block the writers).
func runSnapshot(rng *hx.Rng, r *hx.Run) result {
	wrap := rng.Intn(nWraps)
	w := newWorld(rng, wrap)
	res := result{desc: fmt.Sprintf("snapshot wrap=%d", wrap)}
	// fill
	for i, fk := range universe {
		c := call{kind: "set", view: 0, key: fk, val: string([]byte{0xee, byte(i)})}
		res.ops = append(res.ops, w.exec(&c, nil)...)
	}
	writers := rng.Range(1, 3)
	var wrecs [][]*hop = make([][]*hop, writers)
	it := call{kind: hx.Pick(rng, []string{"iter", "iter", "iterk"}), view: rng.Intn(3), key: "", dirTok: hx.Pick(rng, []string{"fwd", "bwd", "def"}), stop: 0}
	plans := make([][]call, writers)
	for i := range plans {
		plans[i] = genPlan(rng, w, i, rng.Range(2, 5), false)
		for j := range plans[i] { // writers only
			if k := plans[i][j].kind; k == "get" || k == "has" || k == "iter" || k == "iterk" {
				plans[i][j].kind, plans[i][j].key = "del", hx.Pick(rng, keysOfRealm(plans[i][j].realm))
			}
		}
	}
	finished := make(chan struct{})
	var itOps []*hop
	go func() {
		defer close(finished)
		itOps = w.exec(&it, func() {
			var wg sync.WaitGroup
			for i := 0; i < writers; i++ {
				wg.Add(1)
				go func(i int) {
					defer wg.Done()
					for j := range plans[i] {
						wrecs[i] = append(wrecs[i], w.exec(&plans[i][j], nil)...)
					}
				}(i)
			}
			wg.Wait() // the writers must be able to finish while the consumer is parked
		})
	}()
	select {
	case <-finished:
	case <-time.After(20 * time.Second):
		res.timedOut = true

		return res
	}
	res.ops = append(res.ops, itOps...)
	for _, rs := range wrecs {
		res.ops = append(res.ops, rs...)
	}
	// afterwards: what is there now
	c := call{kind: "iter", view: 0, key: "", dirTok: "fwd"}
	res.ops = append(res.ops, w.exec(&c, nil)...)
	res.ops = append(res.ops, w.cbOps...)
	w.checkCallbacks(r, res.desc)
	r.Count("scenario:snapshot")

	return res
}

// runCallbackPark: forced schedule on a store behind the debug wrapper.  A call is parked inside its access callback - i.e.
// between the invocation of the wrapped-store call and the wrapped call itself, where the protocol model has the response of
// `callback` - while other goroutines use the SAME view object and the other views (reads, writes, a batch, an iteration, a
// new view) and return; then the parked call continues.  Nothing may be held during the callback (watchdog), and the whole
// history - the parked call's window spans all the others - must be linearizable.
func runCallbackPark(rng *hx.Rng, r *hx.Run) result {
	wrap := 2 + rng.Intn(3)
	w := newWorld(rng, wrap)
	res := result{desc: fmt.Sprintf("cbpark wrap=%d filter=%d", wrap, w.filter)}
	for i, fk := range universe {
		c := call{kind: "set", view: 0, key: fk, val: string([]byte{0xe0, byte(i)})}
		res.ops = append(res.ops, w.exec(&c, nil)...)
	}
	view := rng.Intn(len(w.views))
	ks := w.keysOf(view)
	parked := call{kind: hx.Pick(rng, []string{"set", "del", "delp", "clear", "get", "has", "iter", "iterk", "commit"}), view: view, key: hx.Pick(rng, ks),
		val: "\xdd\x01", dirTok: "fwd", g: 1}
	if parked.kind == "commit" {
		parked.writes = []call{{kind: "set", key: hx.Pick(rng, ks), val: "\xdd\x02"}, {kind: "del", key: hx.Pick(rng, ks)}}
	}
	others := rng.Range(1, 3)
	plans := make([][]call, others)
	for i := range plans {
		plans[i] = genPlan(rng, w, i+1, rng.Range(3, 6), false)
		for j := range plans[i] {
			if k := plans[i][j].kind; plans[i][j].view >= 0 && k != "mkview" && rng.Bool() {
				// through the very view object of the parked call (a mkview call keeps its parent: its argument is relative to it)
				plans[i][j].view, plans[i][j].realm = view, w.views[view].realm
				if k != "flush" && k != "clear" {
					plans[i][j].key = hx.Pick(rng, ks)
					for wi := range plans[i][j].writes {
						plans[i][j].writes[wi].key = hx.Pick(rng, ks)
					}
				}
			}
		}
	}
	orecs := make([][]*hop, others)
	entered := false
	hook := func() {
		entered = true
		var wg sync.WaitGroup
		for i := 0; i < others; i++ {
			wg.Add(1)
			go func(i int) {
				defer wg.Done()
				for j := range plans[i] {
					orecs[i] = append(orecs[i], w.exec(&plans[i][j], nil)...)
				}
			}(i)
		}
		wg.Wait() // the others must be able to finish while this call sits in its callback
	}
	w.park.Store(&hook) // taken by the first access callback that runs (none if the wrapper's filter hides the command)
	finished := make(chan struct{})
	var pops []*hop
	go func() { defer close(finished); pops = w.exec(&parked, nil) }()
	select {
	case <-finished:
	case <-time.After(20 * time.Second):
		res.timedOut = true
		res.plan = append([]string{"x cbpark " + res.desc + ": a " + parked.kind + " through view " + strconv.Itoa(view) +
			" sits in its debug access callback while these plans run (some call never returned)"}, planLines(plans)...)

		return res
	}
	if w.park.Swap(nil) != nil {
		hook() // the filter hid the command, no callback ran: the others run now
		entered = false
	}
	res.ops = append(res.ops, pops...)
	for _, rs := range orecs {
		res.ops = append(res.ops, rs...)
	}
	res.ops = append(res.ops, w.cbOps...)
	c := call{kind: "iter", view: 0, key: "", dirTok: "fwd"}
	res.ops = append(res.ops, w.exec(&c, nil)...)
	r.Count("scenario:cbpark")
	if entered {
		r.Count("cbpark-parked-in-callback:" + parked.kind)
	}

	return res
}

// corpus: hand-written histories that run first.  Their verdicts are known; the Go checker must give them (else the harness
// refuses to run: its oracle would be broken), and the Lean driver must answer the same, line by line - so the agreement of
// the two checkers is exercised on REJECTED histories too on a tree where every recorded history is accepted.
var corpus = []struct {
	name   string
	accept bool
	lines  []string
}{
	{"sequential", true, []string{"h 1 2 set 0100 aa => ok", "h 3 4 get 0100 => val aa", "h 5 6 del 0100 => ok", "h 7 8 has 0100 => false"}},
	{"stale-read", false, []string{"h 1 2 set 0100 aa => ok", "h 3 4 set 0100 bb => ok", "h 5 6 get 0100 => val aa"}},
	{"read-before-write", false, []string{"h 1 2 get 0100 => val aa", "h 3 4 set 0100 aa => ok"}},
	{"overlapping-read-either-way", true, []string{"h 1 4 set 0100 aa => ok", "h 2 3 get 0100 => notfound", "h 2 5 get 0100 => val aa"}},
	// the unrepaired flushkv (b5d5462): a Set that answers ErrStoreClosed was read by a call that completed before Close was invoked
	{"flushkv-prefix-closed-but-applied", false, []string{"hf 1 8 set 0100 aa => closed", "h 2 3 get 0100 => val aa", "h 4 5 close => ok"}},
	// a call that straddles Close may still take effect: it is linearised before the Close
	{"straddles-close", true, []string{"h 1 6 set 0100 aa => ok", "h 2 3 close => ok", "h 4 5 get 0100 => closed"}},
	{"effect-after-close-returned", false, []string{"h 1 2 close => ok", "h 3 4 set 0100 aa => ok"}},
	{"flag-after-close", false, []string{"h 1 2 close => ok", "h 3 4 flag => ok"}},
	{"flag-closed-after-close", true, []string{"h 1 2 close => ok", "h 3 4 flag => closed", "h 5 6 close => ok"}},
	// iteration: one instant.  Writers: del 0100 completes before set 0102 is invoked.
	{"iterate-pre-snapshot", true, []string{"h 1 2 set 0100 aa => ok", "h 3 4 set 0101 bb => ok", "h 5 10 iter 01 0 fwd 0 => kvs 0100:aa 0101:bb",
		"h 6 7 del 0100 => ok", "h 8 9 set 0102 cc => ok"}},
	{"iterate-post-snapshot", true, []string{"h 1 2 set 0100 aa => ok", "h 3 4 set 0101 bb => ok", "h 5 10 iter 01 0 fwd 0 => kvs 0101:bb 0102:cc",
		"h 6 7 del 0100 => ok", "h 8 9 set 0102 cc => ok"}},
	{"iterate-torn", false, []string{"h 1 2 set 0100 aa => ok", "h 3 4 set 0101 bb => ok", "h 5 10 iter 01 0 fwd 0 => kvs 0100:aa 0101:bb 0102:cc",
		"h 6 7 del 0100 => ok", "h 8 9 set 0102 cc => ok"}},
	{"iterate-keys-stripped-backward-stop", true, []string{"h 1 2 set 01ff00 aa => ok", "h 3 4 set 01ff01 bb => ok", "h 5 6 set 0100 cc => ok",
		"h 7 8 iterk 01 1 bwd 2 => keys ff01 ff00"}},
	{"iterate-missed-stable-entry", false, []string{"h 1 2 set 0100 aa => ok", "h 3 4 set 0101 bb => ok", "h 5 8 iterk 01 0 fwd 0 => keys 0101 0102",
		"h 6 7 set 0102 cc => ok"}},
	// each write of a committed batch is atomic on its own: one may be visible while the other is not yet
	{"batch-writes-individually", true, []string{"h 1 6 set 0100 aa => ok", "h 1 6 set 0101 bb => ok", "h 2 3 get 0100 => val aa", "h 4 5 get 0101 => notfound"}},
	{"batch-write-lost", false, []string{"h 1 2 set 0100 aa => ok", "h 1 2 set 0101 bb => ok", "h 3 4 get 0101 => notfound"}},
	{"delete-prefix-atomic", false, []string{"h 1 2 set 01ff00 aa => ok", "h 3 4 set 01ff01 bb => ok", "h 5 8 delp 01ff => ok",
		"h 6 7 iterk 01 0 fwd 0 => keys 01ff01"}},
	{"delete-prefix-then-has", false, []string{"h 1 2 set 01ff00 aa => ok", "h 3 4 delp 01 => ok", "h 5 6 has 01ff00 => true"}},
}

func runCorpus(r *hx.Run) {
	for _, c := range corpus {
		var ops []*hop
		for _, l := range c.lines {
			o, ok := parseLine(l)
			if !ok {
				panic("corpus " + c.name + ": bad line " + l)
			}
			ops = append(ops, o)
		}
		ops = sortedOps(ops)
		ok, _, inconclusive := linearizable(ops, false)
		if inconclusive || ok != c.accept {
			fmt.Fprintf(os.Stderr, "C05 harness self-test: the Go checker decides the corpus history %q as accept=%v, expected %v\n", c.name, ok, c.accept)
			os.Exit(2)
		}
		r.Case(0)
		for _, o := range ops {
			r.Line(o.line(), "ok")
		}
		if ok {
			r.Line("end", "accept")
		} else {
			r.Line("end", "reject not-linearizable")
		}
		r.Count("corpus:" + map[bool]string{true: "accept", false: "reject"}[ok])
	}
}

// the scenario families, by the first word of their description
var families = map[string]func(*hx.Rng, *hx.Run) result{
	"stress": runStress, "snapshot": runSnapshot, "flushclose": runFlushClose, "readers": runReaders, "torn": runTorn,
	"batchflip": runBatchFlip, "large": runLarge, "commitclose": runCommitClose, "freshview": runFreshView, "cbpark": runCallbackPark,
}

// replayRerun: the replay of a hang finding of an in-process scenario (`x rerun <family> <sub-seed>`): the same instance (same
// store, same plans - a function of the sub-seed) is run again, up to 200 times or until it hangs or yields a rejected history.
func replayRerun(r *hx.Run, lines []string) bool {
	for _, l := range lines {
		f := strings.Fields(l)
		if len(f) != 4 || f[0] != "x" || f[1] != "rerun" || families[f[2]] == nil {
			continue
		}
		sub, err := strconv.ParseUint(f[3], 10, 64)
		if err != nil {
			continue
		}
		var res result
		for attempt := 0; attempt < 200; attempt++ {
			res = families[f[2]](hx.NewRng(sub), r)
			res.desc += fmt.Sprintf(" rerun-attempt=%d", attempt+1)
			if res.timedOut {
				break
			}
			if ok, _, _ := linearizable(sortedOps(res.ops), false); !ok {
				break
			}
		}
		emit(r, sub, res)

		return true
	}

	return false
}

var shrunk int // rejected histories minimised so far in this run

// shrinkReads removes read-only operations (Get / Has / Iterate / IterateKeys / flag calls, and data calls that answered
// `closed` without the flushkv caveat) from a rejected history as long as what remains is still rejected by the Go checker.
// Sound as a counterexample: a linearisation of the full history restricted to the kept operations is a linearisation of
// the sub-history (the dropped ones never change the state), so a rejected sub-history means a rejected history.
func shrinkReads(ops []*hop) []*hop {
	removable := func(o *hop) bool {
		switch o.kind {
		case "get", "has", "iter", "iterk", "flag":
			return true
		case "close":
			return false
		}

		return o.out == "closed" && !o.mayApply
	}
	cur := append([]*hop(nil), ops...)
	tries := 0
	for chunk := len(cur) / 2; chunk >= 1; chunk /= 2 {
		for i := 0; i < len(cur) && tries < 400; {
			// candidate: drop the removable operations among cur[i:i+chunk]
			var cand []*hop
			dropped := 0
			for j, o := range cur {
				if j >= i && j < i+chunk && removable(o) {
					dropped++

					continue
				}
				cand = append(cand, o)
			}
			if dropped == 0 {
				i += chunk

				continue
			}
			tries++
			if ok, _, inconclusive := linearizable(cand, false); !ok && !inconclusive {
				cur = cand // still rejected: keep the removal (the window now holds the next operations)
			} else {
				i += chunk
			}
		}
	}

	return cur
}

func emit(r *hx.Run, sub uint64, res result) {
	ops := res.ops
	sort.Slice(ops, func(i, j int) bool { return ops[i].inv < ops[j].inv })
	ok, nodes, inconclusive := false, 0, false
	if !res.timedOut {
		ok, nodes, inconclusive = linearizable(ops, false)
	}
	if inconclusive {
		// the search gave up (too many calls in flight for too long): the history decides nothing, drop it
		r.Count("history-dropped-inconclusive")

		return
	}
	r.Case(sub)
	for _, pl := range res.plan {
		r.Line(pl, "ok")
	}
	if res.timedOut {
		r.Fail("deadlock", "goroutines did not finish within the watchdog time: "+res.desc,
			map[string]string{"oracle": "watchdog", "scenario": strings.Fields(res.desc)[0]})
		r.Line("end", "accept")

		return
	}
	lines := make([]string, len(ops))
	overlaps, crossReads := 0, 0
	var maxRet uint64
	for i, o := range ops {
		lines[i] = o.line()
		r.Line(lines[i], "ok")
		r.Count("op:" + o.kind)
		r.Count("ans:" + strings.Fields(o.out)[0])
		if o.inv < maxRet {
			overlaps++
		}
		if o.ret > maxRet {
			maxRet = o.ret
		}
		if o.kind == "get" && strings.HasPrefix(o.out, "val") {
			crossReads++
		}
		if o.out == "panic" || o.out == "err" {
			r.Fail("no-panic", "operation answered "+o.out+": "+lines[i], map[string]string{"oracle": "panic", "op": o.kind})
		}
	}
	r.Count(fmt.Sprintf("history-len:%03d+", len(ops)/100*100))
	r.CountN("checker-nodes", nodes)
	if mx, _ := r.Extra["max_checker_nodes_per_history"].(int); nodes > mx {
		r.Extra["max_checker_nodes_per_history"] = nodes
	}
	verdict := "accept"
	var minimised []*hop
	var failLater func()
	if !ok {
		verdict = "reject not-linearizable"
		// classify: does it become linearizable once the flushkv mutations that answered `closed` may have taken effect?
		cause := "other"
		for _, o := range ops {
			if o.mayApply {
				if okRelaxed, _, _ := linearizable(ops, true); okRelaxed {
					cause = "flushkv-mutation-applied-but-flush-closed"
				}

				break
			}
		}
		r.Count("not-linearizable:" + cause)
		detail := "history is not linearizable w.r.t. the ordered-map contract (" + res.desc + ", cause " + cause + "): "
		// minimised failing input (the first few rejected histories of a run): reads removed as long as the rest stays rejected
		if shrunk < 6 && len(ops) <= 700 {
			shrunk++
			minimised = shrinkReads(ops)
			ml := make([]string, len(minimised))
			for i, o := range minimised {
				ml[i] = o.line()
			}
			detail += fmt.Sprintf("minimised to %d of %d operations (read-only operations removed while the rest stays rejected; dropping a read from a linearizable history leaves it linearizable, so this sub-history is a counterexample on its own): ", len(minimised), len(ops)) +
				strings.Join(ml, " ; ") + " ;; full history: "
		}
		detail += strings.Join(lines, " ; ")
		if len(detail) > 6000 {
			detail = detail[:6000] + " …"
		}
		sig := map[string]string{"oracle": "not-linearizable", "scenario": strings.Fields(res.desc)[0], "cause": cause}
		if cause != "other" {
			sig["api"] = "flushkv mutator (Set/Delete/DeletePrefix/Clear/batch Commit)"
			sig["trigger"] = "Close between the wrapped store's mutation and the Flush() that flushkv issues after it"
		}
		if len(minimised) > 0 && len(minimised) < len(ops) {
			failLater = func() { r.Fail("linearizable", detail, sig) } // reported with the minimised case: its lines are the replay
		} else {
			r.Fail("linearizable", detail, sig)
		}
	}
	r.Line("end", verdict)
	if failLater != nil {
		// the minimised history as a case of its own: the Lean checker must reject it too
		r.Case(sub)
		for _, o := range minimised {
			r.Line(o.line(), "ok")
		}
		failLater()
		r.Line("end", "reject not-linearizable")
		r.Count("minimised-history-emitted")
	}
	if overlaps >= 3 && crossReads >= 1 {
		h := sha256.Sum256([]byte(strings.Join(lines, "\n")))
		r.Nontrivial(string(h[:8]))
	}
	if len(lines) < 60 {
		r.Sample(r.CaseLines())
	}
}

func main() {
	if pf := os.Getenv("C05_PROBE_CHILD"); pf != "" {
		probeChild(pf) // does not return

		return
	}
	if runtime.GOMAXPROCS(0) < 4 {
		runtime.GOMAXPROCS(4) // the read-only, torn-value and batch scenarios need goroutines that really run in parallel
	}
	r := hx.Start()
	r.Rule = "stress histories of 2..16 goroutines x 6..40 calls on 4 full keys seen through 3-4 shared views of realms '', 01, 01ff " +
		"(bare mapdb / flushkv / debug / flushkv∘debug; Close in a quarter of the histories) + forced-schedule scenarios (snapshot; " +
		"flushkv mutation parked between its write and its Flush while the store is closed); " +
		"non-trivial = at least 3 operations invoked while an earlier one was still running and at least one Get that returned a value; " +
		"distinct by sha256 of the history lines"
	if lines := r.ReplayLines(); lines != nil {
		var plan []string
		for _, l := range lines {
			if strings.HasPrefix(l, "x ") {
				plan = append(plan, l)
			}
		}
		if len(plan) > 0 && strings.HasPrefix(plan[0], "x probe") {
			// the replay of a crash finding: the same plan, again in a child process
			_, _ = runProbe(r, 0, plan, 0)
			r.Finish()

			return
		}
		if len(plan) > 0 && replayRerun(r, plan) {
			// the replay of a hang of an in-process scenario: the same instance again, until it hangs again
			r.Finish()

			return
		}
		if len(plan) > 0 && replayStress(r, plan) {
			// the replay of a hang of the stress scenario: the same plans by real goroutines, until it hangs again
			r.Finish()

			return
		}
		var ops []*hop
		for _, l := range lines {
			if o, ok := parseLine(l); ok {
				ops = append(ops, o)
			}
		}
		emit(r, 0, result{ops: ops, desc: "replay"})
		r.Finish()

		return
	}
	runCorpus(r)
	// crash probes first (child processes): a fatal runtime error in-process would take every recorded history with it
	nProbes, rounds := 2, 1500
	if r.Tier == "thorough" {
		nProbes, rounds = 8, 400 // -race build
	}
	if os.Getenv("C05_NO_PROBE") != "" { // development knob: what do the in-process scenarios find on their own?
		nProbes = 0
	}
	for p := 0; p < nProbes; p++ {
		rng, sub := r.Rng.Fork()
		wrap := 0
		if p%2 == 1 {
			wrap = rng.Intn(nWraps)
		}
		if died, oracle := runProbe(r, sub, genProbePlan(rng, wrap, rng.Range(6, 12), 24, rounds, p%4 == 3), p); died {
			if oracle != "deadlock" {
				r.Finish() // a fatal runtime error / race report / panic: the in-process scenarios would die the same way

				return
			}
			// a hang of the child: the in-process scenarios have their own watchdog (and stop after the second hang), so the
			// histories they record before that are not lost - they may add failing inputs of other oracles
			r.Count("probe-hang-in-process-scenarios-still-run")

			break
		}
	}
	// quick tier: two more plans run by the -race build of this harness (the thorough tier is a -race build as a whole), so that
	// a pure data race - no wrong answer, no crash - yields a failing input here too
	if r.Tier != "thorough" && os.Getenv("C05_RACE_BIN") != "" && nProbes > 0 {
		for p := 0; p < 3; p++ {
			rng, sub := r.Rng.Fork()
			oneHome = p == 2 // third plan: all goroutines on ONE view object (per-view state shared by concurrent readers)
			plan := genProbePlan(rng, rng.Intn(nWraps), rng.Range(6, 12), 24, 150, p == 1)
			oneHome = false
			plan[0] += " race=1"
			if died, oracle := runProbe(r, sub, plan, 10+p); died {
				if oracle != "deadlock" && oracle != "race-free" {
					r.Finish()

					return
				}
				// a race report of the -race build: this process is not a -race build, its scenarios still run (and may
				// show what the race does to the answers)
				break
			}
		}
	}
	n := 2000 * r.Scale
	if r.Tier == "thorough" {
		n = 36000 // 40 000 took 1 043 s wall on the loaded machine (harness 13 min under -race): keep a margin below 20 min
	}
	// history of the volume - thorough: 40 000 histories (60 000 took 19.8 min on the loaded machine once the probe, the fresh-view scenario and the flag calls were added)
	hangs := 0
	largeEvery, freshEvery := 50, 50
	if r.Tier == "thorough" {
		largeEvery, freshEvery = 200, 200 // the large-store and fresh-view scenarios are the expensive ones under -race
	}
	for i := 0; i < n && hangs < 2; i++ {
		rng, sub := r.Rng.Fork()
		var res result
		t0 := time.Now()
		family := "stress"
		if i%8 == 7 {
			family = "snapshot"
		} else if i%50 == 3 {
			family = "flushclose"
		} else if i%40 == 11 {
			family = "readers"
		} else if i%80 == 21 {
			family = "torn"
		} else if i%40 == 29 {
			family = "batchflip"
		} else if i%largeEvery == 13 {
			family = "large"
		} else if i%50 == 33 {
			family = "commitclose"
		} else if i%freshEvery == 43 {
			family = "freshview"
		} else if i%25 == 19 {
			family = "cbpark"
		}
		res = families[family](rng, r)
		if res.timedOut {
			// the instance is a function of its sub-seed: `--replay` runs it again (the schedule is what varies)
			res.plan = append([]string{fmt.Sprintf("x rerun %s %d", family, sub)}, res.plan...)
		}
		if res.timedOut {
			hangs++ // the hung goroutines are still there: after the second hang nothing that follows would be reliable
		}
		// how far the slowest instance of each scenario family stays below its 20 s watchdog (load tolerance, for the evidence)
		if f := strings.Fields(res.desc); len(f) > 0 {
			k := "max_ms_" + f[0]
			if ms, _ := r.Extra[k].(int); int(time.Since(t0).Milliseconds()) > ms {
				r.Extra[k] = int(time.Since(t0).Milliseconds())
			}
		}
		emit(r, sub, res)
	}
	r.Finish()
}
