package main

// Scenario families added for the fourth round of seeded changes:
//   - runLarge: a store above 5 000 entries of which a DeletePrefix / Clear removes more than half, racing with writers and
//     readers of SURVIVING keys (a completed Set must stay, a completed Delete must stay);
//   - runCommitClose: a large batch Commit racing with Close while readers on another view probe the batch's keys (a Commit
//     that answers ErrStoreClosed is not committed: none of its writes may have been visible).

import (
	"fmt"
	"strings"
	"sync"
	"sync/atomic"
	"time"

	"verifharness/hx"

	"github.com/iotaledger/hive.go/kvstore"
)

func key4(prefix byte, i int) string {
	return string([]byte{prefix, byte(i >> 16), byte(i >> 8), byte(i)})
}

func runLarge(rng *hx.Rng, r *hx.Run) result {
	wrap := rng.Intn(nWraps)
	w := newWorld(rng, wrap)
	w.reenter = false // not every call of this scenario is part of the recorded history
	root := w.views[0].v
	dv, err := root.WithRealm([]byte{0xd0})
	if err != nil {
		panic(err)
	}
	kv, err := root.WithExtendedRealm([]byte{0x0e})
	if err != nil {
		panic(err)
	}
	w.views = []viewRec{{root, ""}, {dv, "\xd0"}, {kv, "\x0e"}}
	nDoomed := rng.Range(5000, 20000)
	nFill := rng.Range(800, min(2400, nDoomed/2-100))
	res := result{desc: fmt.Sprintf("large wrap=%d doomed=%d survivors=%d", wrap, nDoomed, nFill)}
	load := func(v kvstore.KVStore, prefix byte, n int) {
		b, err := v.Batched()
		if err != nil {
			return
		}
		for i := 0; i < n; i++ {
			_ = b.Set([]byte(key4(prefix, i)), []byte{prefix, byte(i)})
		}
		_ = b.Commit()
	}
	load(dv, 'd', nDoomed) // none of these is ever read by a recorded operation: they are not part of the history
	load(kv, 'f', nFill)   // survivors that nobody touches
	g := rng.Range(4, 8)
	sem := make(chan struct{}, 5)
	recs := make([][]*hop, g+1)
	final := make([]map[string]string, g) // what every goroutine's own keys must hold in the end ("" = deleted)
	var stop atomic.Bool
	start := make(chan struct{})
	var wg sync.WaitGroup
	for i := 0; i < g; i++ {
		prng, _ := rng.Fork()
		final[i] = map[string]string{}
		wg.Add(1)
		go func(i int, prng *hx.Rng) {
			defer wg.Done()
			keys := []string{string([]byte{'K', byte(i), 0}), string([]byte{'K', byte(i), 1})}
			view := 2
			<-start
			for n := 0; n < 400 && !(stop.Load() && n >= 60); n++ {
				k := keys[prng.Intn(2)]
				c := call{view: view, key: k}
				switch x := prng.Intn(10); {
				case x < 5:
					c.kind, c.val = "set", string([]byte{byte(i + 1), byte(n >> 8), byte(n)})
				case x < 7:
					c.kind = "del"
				default:
					c.kind = "get"
				}
				if prng.Chance(1, 3) { // the same key through the root view
					c.view, c.key = 0, "\x0e"+k
				}
				sem <- struct{}{}
				ops := w.exec(&c, nil)
				<-sem
				recs[i] = append(recs[i], ops...)
				if ops[0].out == "ok" {
					switch c.kind {
					case "set":
						final[i]["\x0e"+k] = c.val
					case "del":
						final[i]["\x0e"+k] = ""
					}
				}
			}
		}(i, prng)
	}
	close(start)
	rounds := rng.Range(4, 6)
	for round := 0; round < rounds; round++ {
		if round > 0 {
			load(dv, 'd', nDoomed)
		}
		c := call{kind: "delp", view: 0, key: "\xd0"}
		if rng.Bool() {
			c = call{kind: "clear", view: 1}
		}
		recs[g] = append(recs[g], w.exec(&c, nil)...)
		time.Sleep(200 * time.Microsecond)
	}
	stop.Store(true)
	done := make(chan struct{})
	go func() { wg.Wait(); close(done) }()
	select {
	case <-done:
	case <-time.After(20 * time.Second):
		res.timedOut = true

		return res
	}
	for _, rs := range recs {
		res.ops = append(res.ops, rs...)
	}
	// final state: every completed Set not followed by a Delete is present, every completed Delete holds, the untouched
	// survivors are all there, the doomed keys are gone
	var wrong []string
	for i := 0; i < g; i++ {
		for fk, want := range final[i] {
			c := call{kind: "get", view: 0, key: fk}
			ops := w.exec(&c, nil)
			res.ops = append(res.ops, ops...)
			exp := "notfound"
			if want != "" {
				exp = "val " + hx.Hex([]byte(want))
			}
			if ops[0].out != exp && len(wrong) < 3 {
				wrong = append(wrong, fmt.Sprintf("key %s: Get answers %s, the last completed call of its only writer left %s", hx.Hex([]byte(fk)), ops[0].out, exp))
			}
		}
	}
	missing := 0
	for i := 0; i < nFill; i++ {
		if v, err := kv.Get([]byte(key4('f', i))); err != nil || len(v) != 2 || v[1] != byte(i) {
			missing++
		}
	}
	if missing > 0 {
		wrong = append(wrong, fmt.Sprintf("%d of %d untouched surviving entries are missing or changed", missing, nFill))
	}
	left := 0
	_ = dv.IterateKeys(kvstore.EmptyPrefix, func(kvstore.Key) bool { left++; return true })
	if left > 0 {
		wrong = append(wrong, fmt.Sprintf("%d entries of the deleted prefix are still there", left))
	}
	if len(wrong) > 0 {
		r.Fail("final-state", "large store, DeletePrefix/Clear of more than half racing writers of surviving keys ("+res.desc+"): "+strings.Join(wrong, "; "),
			map[string]string{"oracle": "final-state", "scenario": "large"})
	}
	r.Count("scenario:large")
	r.CountN("large-final-state-wrong", len(wrong))

	return res
}

func runCommitClose(rng *hx.Rng, r *hx.Run) result {
	wrap := rng.Intn(nWraps)
	w := newWorld(rng, wrap)
	w.reenter = false // not every call of this scenario is part of the recorded history
	res := result{desc: fmt.Sprintf("commitclose wrap=%d", wrap)}
	n := rng.Range(300, 1500)
	probes := []int{0, n / 2, n - 1, rng.Intn(n)}
	isProbe := map[int]bool{}
	for _, p := range probes {
		isProbe[p] = true
	}
	b, err := w.views[1].v.Batched()
	if err != nil {
		panic(err)
	}
	for i := 0; i < n; i++ {
		_ = b.Set([]byte(key4(0xcc, i)), []byte{0xcc, byte(i)})
	}
	var done atomic.Bool
	var sightings atomic.Int64
	sighted := make(chan struct{})
	var once sync.Once
	commitDone := make(chan struct{})
	readers := 2
	recs := make([][]*hop, readers)
	var wg sync.WaitGroup
	for i := 0; i < readers; i++ {
		wg.Add(1)
		go func(i int) {
			defer wg.Done()
			kept := 0
			for n := 0; !done.Load(); n++ {
				c := call{kind: []string{"has", "get"}[(n+i)%2], view: 0, key: "\x01" + key4(0xcc, probes[(n+i)%len(probes)])}
				ops := w.exec(&c, nil)
				seen := ops[0].out == "true" || strings.HasPrefix(ops[0].out, "val")
				if seen {
					sightings.Add(1)
					once.Do(func() { close(sighted) })
				}
				if (seen && kept < 60) || n < 20 {
					kept++
					recs[i] = append(recs[i], ops...)
				}
			}
		}(i)
	}
	var closeOps []*hop
	wg.Add(1)
	go func() {
		defer wg.Done()
		select {
		case <-sighted:
		case <-commitDone:
		case <-time.After(50 * time.Millisecond):
		}
		c := call{kind: "close", view: 2}
		closeOps = w.exec(&c, nil)
	}()
	inv := w.clock.Add(1)
	err = b.Commit()
	ret := w.clock.Add(1)
	close(commitDone)
	time.Sleep(50 * time.Microsecond)
	done.Store(true)
	wg.Wait()
	// the history keeps the batch's writes to the probed keys only: nobody reads the others
	for i := 0; i < n; i++ {
		if isProbe[i] {
			h := &hop{inv: inv, ret: ret, kind: "set", key: "\x01" + key4(0xcc, i), val: string([]byte{0xcc, byte(i)}), out: errAns(err)}
			h.mayApply = w.flush && h.out == "closed"
			res.ops = append(res.ops, h)
		}
	}
	res.ops = append(res.ops, closeOps...)
	for _, rs := range recs {
		res.ops = append(res.ops, rs...)
	}
	if errAns(err) == "closed" && sightings.Load() > 0 {
		r.Fail("failed-commit-wrote", fmt.Sprintf("Commit of %d writes answered ErrStoreClosed (the batch is not committed), but %d completed Has/Get calls on "+
			"another view had seen entries of that batch (%s)", n, sightings.Load(), res.desc), map[string]string{"oracle": "failed-commit-wrote", "scenario": "commitclose"})
	}
	r.Count("scenario:commitclose")
	r.Count("commitclose:commit-answered-" + errAns(err))
	if sightings.Load() > 0 {
		r.Count("commitclose:reader-saw-batch-before-close")
	}

	return res
}
