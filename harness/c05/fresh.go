package main

// Scenario family of the fifth round: views that are CREATED while their parent view is in use.
//
// runFreshView: "holder" goroutines keep the parent view's RWMutex busy (write mode: a Commit of many writes, or Sets of a
// large value; read mode: Gets of a large value), while "user" goroutines call WithRealm / WithExtendedRealm on that parent
// and immediately work through the view they got.  A view is a new object with its own, free lock (the model: a fresh
// LockId whose RW is RW.free), so none of these calls may block; the recorded calls of the users form an ordinary history.

import (
	"fmt"
	"sync"
	"sync/atomic"
	"time"

	"verifharness/hx"

	"github.com/iotaledger/hive.go/kvstore"
)

func (c *call) planLine() string {
	s := fmt.Sprintf("x call g=%d kind=%s view=%d realm=%s key=%s", c.g, c.kind, c.view, hx.Hex([]byte(c.realm)), hx.Hex([]byte(c.key)))
	if c.mk != "" {
		s += " via=" + c.mk
	}
	if c.val != "" && len(c.val) <= 8 {
		s += " val=" + hx.Hex([]byte(c.val))
	}
	if c.dirTok != "" {
		s += fmt.Sprintf(" dir=%s stop=%d", c.dirTok, c.stop)
	}
	for _, wr := range c.writes {
		s += " " + wr.kind + ":" + hx.Hex([]byte(wr.key))
		if wr.kind == "set" {
			s += "=" + hx.Hex([]byte(wr.val))
		}
	}

	return s
}

func planLines(plans [][]call) []string {
	var out []string
	for i := range plans {
		for j := range plans[i] {
			out = append(out, plans[i][j].planLine())
		}
	}
	if len(out) > 700 {
		out = out[:700]
	}

	return out
}

func runFreshView(rng *hx.Rng, r *hx.Run) result {
	wrap := rng.Intn(nWraps)
	w := newWorld(rng, wrap)
	w.reenter = false // not every call of this scenario is part of the recorded history
	root := w.views[0].v
	// the parent's realm slice has spare capacity: two views extended from it at the same time must not share a backing array
	parent, err := root.WithRealm(append(make([]byte, 0, 16), 0xb0))
	if err != nil {
		panic(err)
	}
	holder := hx.Pick(rng, []string{"commit", "set", "get"})
	users := 2
	perUser := rng.Range(8, 20)
	res := result{desc: fmt.Sprintf("freshview wrap=%d holder=%s users=%d views-per-user=%d", wrap, holder, users, perUser)}
	res.plan = []string{"x freshview " + res.desc,
		"x holder: keeps the view lock of the parent (realm b0) busy: " + map[string]string{
			"commit": "Commit of a batch of 20000-40000 Sets under b0ee (view lock in write mode for the whole Commit)",
			"set":    "Set(ff, 1 MiB value) in a loop (view lock in write mode while the value is copied)",
			"get":    "two goroutines Get(ff) of a 1 MiB value in a loop (view lock in read mode while the value is copied)"}[holder],
		"x user (2 goroutines): v := parent.WithExtendedRealm(01) | parent.WithRealm(b001); (or 02 / b002); then v.Set / v.Has / v.Get / v.Delete / v.Batched().Commit on keys 00..03 of that realm; repeated"}
	big := make([]byte, 1<<20)
	var stop atomic.Bool
	var hwg sync.WaitGroup
	holderDone := make(chan struct{})
	switch holder {
	case "commit":
		b, err := parent.Batched()
		if err != nil {
			panic(err)
		}
		n := rng.Range(20000, 40000)
		for i := 0; i < n; i++ {
			_ = b.Set([]byte(key4(0xee, i)), []byte{0xee})
		}
		hwg.Add(1)
		go func() { defer hwg.Done(); _ = b.Commit() }()
	case "set":
		hwg.Add(1)
		go func() {
			defer hwg.Done()
			for !stop.Load() {
				_ = parent.Set([]byte{0xff}, big)
			}
		}()
	case "get":
		_ = parent.Set([]byte{0xff}, big)
		for i := 0; i < 2; i++ {
			hwg.Add(1)
			go func() {
				defer hwg.Done()
				for !stop.Load() {
					_, _ = parent.Get([]byte{0xff})
				}
			}()
		}
	}
	go func() { hwg.Wait(); close(holderDone) }()
	// the users' views live in w.views from index 3 + u on (each user has one slot, rewritten by that user only)
	base := len(w.views)
	for u := 0; u < users; u++ {
		w.views = append(w.views, viewRec{})
	}
	recs := make([][]*hop, users)
	progress := make([]atomic.Int64, users)
	var uwg sync.WaitGroup
	for u := 0; u < users; u++ {
		prng, _ := rng.Fork()
		uwg.Add(1)
		go func(u int, prng *hx.Rng) {
			defer uwg.Done()
			slot := base + u
			for n := 0; n < perUser; n++ {
				var v kvstore.KVStore
				var err error
				sub := byte(1 + prng.Intn(2)) // realm b001 or b002: the two users often extend the parent differently at the same time
				inv := w.clock.Add(1)
				if prng.Chance(2, 3) {
					v, err = parent.WithExtendedRealm([]byte{sub})
				} else {
					v, err = parent.WithRealm([]byte{0xb0, sub})
				}
				ret := w.clock.Add(1)
				recs[u] = append(recs[u], &hop{inv: inv, ret: ret, kind: "flag", out: errAns(err)})
				if err != nil {
					continue
				}
				w.views[slot] = viewRec{v, string([]byte{0xb0, sub})}
				k := string([]byte{byte(prng.Intn(4))})
				val := string([]byte{byte(u + 1), byte(n)})
				calls := []call{{kind: "set", view: slot, key: k, val: val}, {kind: "has", view: slot, key: k},
					{kind: "get", view: slot, key: string([]byte{byte(prng.Intn(4))})}}
				switch prng.Intn(3) {
				case 0:
					calls = append(calls, call{kind: "del", view: slot, key: k})
				case 1:
					calls = append(calls, call{kind: "commit", view: slot, writes: []call{{kind: "set", key: k, val: val + "c"}}})
				}
				for i := range calls {
					recs[u] = append(recs[u], w.exec(&calls[i], nil)...)
					progress[u].Add(1)
				}
			}
		}(u, prng)
	}
	usersDone := make(chan struct{})
	go func() { uwg.Wait(); close(usersDone) }()
	select {
	case <-usersDone:
	case <-time.After(20 * time.Second):
		res.timedOut = true
		for u := 0; u < users; u++ {
			res.plan = append(res.plan, fmt.Sprintf("x blocked: user %d completed %d calls on fresh views, then a call on a view it had just created never returned", u, progress[u].Load()))
		}
	}
	stop.Store(true)
	if !res.timedOut {
		select {
		case <-holderDone:
		case <-time.After(20 * time.Second):
			res.timedOut = true
			res.plan = append(res.plan, "x blocked: the holder did not finish")
		}
	}
	if res.timedOut {
		return res
	}
	for _, rs := range recs {
		res.ops = append(res.ops, rs...)
	}
	r.Count("scenario:freshview")
	r.Count("freshview-holder:" + holder)

	return res
}
