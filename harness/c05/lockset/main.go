// lockset prints, for every struct type and EVERY function / method of the given Go packages, the facts a lockset-style
// data-race analysis needs, as a Lean module (go/ast + go/parser only, purely syntactic, no type checker):
//
//	lockset <out.lean> <LeanNamespace> <dirOfPackage>...
//
// Per package <pkg> (name of the package clause):
//
//	def <pkg>_structs   : List (String × List String)          -- struct name, field tokens "name type" / "embedded type"
//	def <pkg>_funcs     : List (String × List String)          -- "Recv.Method" | "Func" (files by name, source order), tokens
//	def <pkg>_structs_w : List (String × List (List String))   -- the same fields as words [name|"embedded", type, kind],
//	                                                           -- kind = map|slice|array|ptr|func|chan|iface|struct|named
//	def <pkg>_funcs_w   : List (String × List (List String))   -- the same tokens split into words, "T.f" split into T, f:
//	                                                           -- ["read", "T", "f", "X"], ["defer", "unlock", "X"], ["if{"]
//
// (the _w forms exist because the Lean kernel, which evaluates the analysis by `decide`, is slow at taking strings apart).
//
// Tokens of a function body, in source / evaluation order:
//
//   - lock tokens as in harness/tools/extract-sync: "lock X" "unlock X" "rlock X" "runlock X" "defer unlock X"
//     "defer runlock X" (X = receiver expression of the Lock/Unlock/RLock/RUnlock call, whitespace-free);
//   - control tokens "if{" "}else{" "}if" "for{" "}for" "return" "break" "continue" ("break L" / "goto L" / ... with a
//     label), "switch{" "case" "}switch", "select{" "case" "}select", "func{" "}func" around the body of a function
//     literal, "go" (followed by a "func{" … "}func" group), "defer func{" … "}func" for every deferred call that is not
//     a lock operation;
//   - field tokens for every selector expression X.f whose owner X has a syntactically resolvable struct type T of the
//     package (X = receiver, a parameter declared with a named struct type of the package, or a chain of field selections
//     from those, field types resolved through the struct declarations, pointer stars stripped):
//     "write T.f X"  X.f (or an index / slice / dereference of it) is the target of an assignment, op-assignment, ++/--,
//     the first argument of the builtin delete, or has its address taken;
//     "escape T.f X" f is declared with a map / slice / array type and X.f is used as a whole: call argument, returned,
//     assigned, stored in a composite literal, sent, or sliced (X.f[a:b] aliases the backing array);
//     "read T.f X"   everything else (index read, range, len, method call on it, call of a func-typed field);
//     a `range X.f` is reported before the loop and once more as first token inside "for{" (every iteration reads it);
//   - "unresolved f X" when X.f is selected, the type of X can NOT be resolved (local variable, result of a call, …), X is
//     not the name of an imported package, and f is the name of a field of some struct of the package;
//   - "new T" for a composite literal of type T (its element values are reported as ordinary reads / escapes).
//
// Output is deterministic.  Parse errors: message on stderr, exit 1.
package main

import (
	"bytes"
	"fmt"
	"go/ast"
	"go/parser"
	"go/printer"
	"go/token"
	"os"
	"path/filepath"
	"sort"
	"strconv"
	"strings"
)

var lockMethods = map[string]string{"Lock": "lock", "Unlock": "unlock", "RLock": "rlock", "RUnlock": "runlock"}

type field struct {
	name     string
	typ      ast.Expr
	embedded bool
}

type structInfo struct {
	name   string
	fields []field
}

type pkgInfo struct {
	name       string
	fset       *token.FileSet
	structs    []*structInfo
	byName     map[string]*structInfo
	fieldNames map[string]bool
}

func src(fset *token.FileSet, n ast.Node) string {
	var b bytes.Buffer
	printer.Fprint(&b, fset, n)

	return strings.Join(strings.Fields(b.String()), "")
}

// baseIdent strips pointer stars, parentheses and type arguments; returns the identifier of a named type or "".
func baseIdent(t ast.Expr) string {
	for {
		switch x := t.(type) {
		case *ast.StarExpr:
			t = x.X
		case *ast.ParenExpr:
			t = x.X
		case *ast.IndexExpr:
			t = x.X
		case *ast.IndexListExpr:
			t = x.X
		case *ast.Ident:
			return x.Name
		default:
			return ""
		}
	}
}

// embeddedName is the field name of an embedded field (the last identifier of its type).
func embeddedName(t ast.Expr) string {
	for {
		switch x := t.(type) {
		case *ast.StarExpr:
			t = x.X
		case *ast.ParenExpr:
			t = x.X
		case *ast.IndexExpr:
			t = x.X
		case *ast.IndexListExpr:
			t = x.X
		case *ast.SelectorExpr:
			return x.Sel.Name
		case *ast.Ident:
			return x.Name
		default:
			return ""
		}
	}
}

func isAggregate(t ast.Expr) bool {
	switch x := t.(type) {
	case *ast.ParenExpr:
		return isAggregate(x.X)
	case *ast.MapType, *ast.ArrayType:
		return true
	}

	return false
}

// walker produces the token list of one function.
type walker struct {
	p       *pkgInfo
	imports map[string]bool
	env     map[string]string // identifier -> struct type of the package
	toks    []string
}

func (w *walker) emit(s string)         { w.toks = append(w.toks, s) }
func (w *walker) src(n ast.Node) string { return src(w.p.fset, n) }

// typeOf resolves the struct type (of the package) of an owner expression, or "".
func (w *walker) typeOf(e ast.Expr) string {
	switch x := e.(type) {
	case *ast.ParenExpr:
		return w.typeOf(x.X)
	case *ast.StarExpr:
		return w.typeOf(x.X)
	case *ast.Ident:
		return w.env[x.Name]
	case *ast.SelectorExpr:
		t := w.typeOf(x.X)
		if t == "" {
			return ""
		}
		if f := w.fieldOf(t, x.Sel.Name); f != nil {
			if n := baseIdent(f.typ); n != "" && w.p.byName[n] != nil {
				return n
			}
		}
	}

	return ""
}

func (w *walker) fieldOf(t, name string) *field {
	si := w.p.byName[t]
	if si == nil {
		return nil
	}
	for i := range si.fields {
		if si.fields[i].name == name {
			return &si.fields[i]
		}
	}

	return nil
}

// selector reports one selector expression X.f in the given mode ("read" | "write" | "whole"); the owner X is walked
// first as a read.  Returns false if X.f is not a field access that could be classified (method value, package member…).
func (w *walker) selector(s *ast.SelectorExpr, mode string) {
	w.expr(s.X)
	t := w.typeOf(s.X)
	if t != "" {
		f := w.fieldOf(t, s.Sel.Name)
		if f == nil {
			return // method value or promoted member: not a field of T
		}
		kind := mode
		if mode == "whole" {
			kind = "read"
			if isAggregate(f.typ) {
				kind = "escape"
			}
		}
		w.emit(kind + " " + t + "." + s.Sel.Name + " " + w.src(s.X))

		return
	}
	if id, ok := s.X.(*ast.Ident); ok && w.imports[id.Name] && w.env[id.Name] == "" {
		return
	}
	if w.p.fieldNames[s.Sel.Name] {
		w.emit("unresolved " + s.Sel.Name + " " + w.src(s.X))
	}
}

// target walks the target of a write (assignment, ++, delete, &).
func (w *walker) target(e ast.Expr) {
	switch x := e.(type) {
	case *ast.ParenExpr:
		w.target(x.X)
	case *ast.IndexExpr:
		w.expr(x.Index)
		w.target(x.X)
	case *ast.SliceExpr:
		w.expr(x.Low)
		w.expr(x.High)
		w.expr(x.Max)
		w.target(x.X)
	case *ast.StarExpr:
		w.target(x.X)
	case *ast.SelectorExpr:
		w.selector(x, "write")
	case *ast.Ident:
	default:
		w.expr(e)
	}
}

// whole walks an expression whose value is handed on as a whole (argument, result, right-hand side, literal element).
func (w *walker) whole(e ast.Expr) {
	switch x := e.(type) {
	case nil:
	case *ast.ParenExpr:
		w.whole(x.X)
	case *ast.SelectorExpr:
		w.selector(x, "whole")
	default:
		w.expr(e)
	}
}

func (w *walker) funcLit(prefix string, fl *ast.FuncLit) {
	saved := w.env
	w.env = map[string]string{}
	for k, v := range saved {
		w.env[k] = v
	}
	w.bindParams(fl.Type.Params)
	w.emit(prefix + "func{")
	w.block(fl.Body.List)
	w.emit("}func")
	w.env = saved
}

func (w *walker) bindParams(fl *ast.FieldList) {
	if fl == nil {
		return
	}
	for _, f := range fl.List {
		t := baseIdent(f.Type)
		for _, n := range f.Names {
			if t != "" && w.p.byName[t] != nil {
				w.env[n.Name] = t
			} else {
				delete(w.env, n.Name)
			}
		}
	}
}

func (w *walker) shadow(e ast.Expr) {
	if id, ok := e.(*ast.Ident); ok {
		delete(w.env, id.Name)
	}
}

// call walks a call expression: arguments first (evaluation order), then the callee.
func (w *walker) call(c *ast.CallExpr) {
	if id, ok := c.Fun.(*ast.Ident); ok && w.env[id.Name] == "" {
		switch id.Name {
		case "delete":
			if len(c.Args) == 2 {
				w.expr(c.Args[1])
				w.target(c.Args[0])

				return
			}
		case "len", "cap":
			for _, a := range c.Args {
				w.expr(a)
			}

			return
		case "make", "new":
			for _, a := range c.Args[min(1, len(c.Args)):] {
				w.expr(a)
			}

			return
		}
	}
	for _, a := range c.Args {
		w.whole(a)
	}
	switch f := c.Fun.(type) {
	case *ast.SelectorExpr:
		if k, ok := lockMethods[f.Sel.Name]; ok && len(c.Args) == 0 {
			if t := w.typeOf(f.X); t == "" || w.fieldOf(t, f.Sel.Name) == nil {
				w.expr(f.X)
				w.emit(k + " " + w.src(f.X))

				return
			}
		}
		w.selector(f, "read") // call of a func-typed field = read; method call = the owner is walked, nothing else
	case *ast.FuncLit:
		w.funcLit("", f)
	case *ast.ArrayType, *ast.MapType, *ast.ChanType, *ast.FuncType, *ast.InterfaceType, *ast.StructType:
		// conversion to a literal type
	default:
		w.expr(c.Fun)
	}
}

// expr walks an expression in read context.
func (w *walker) expr(e ast.Expr) {
	switch x := e.(type) {
	case nil:
	case *ast.Ident, *ast.BasicLit:
	case *ast.ParenExpr:
		w.expr(x.X)
	case *ast.SelectorExpr:
		w.selector(x, "read")
	case *ast.IndexExpr:
		w.expr(x.X)
		w.expr(x.Index)
	case *ast.IndexListExpr:
		w.expr(x.X)
	case *ast.SliceExpr:
		// X.f[a:b] shares the backing array of X.f
		if s, ok := x.X.(*ast.SelectorExpr); ok {
			w.selector(s, "whole")
		} else {
			w.expr(x.X)
		}
		w.expr(x.Low)
		w.expr(x.High)
		w.expr(x.Max)
	case *ast.StarExpr:
		w.expr(x.X)
	case *ast.UnaryExpr:
		if x.Op == token.AND {
			if _, isLit := x.X.(*ast.CompositeLit); !isLit {
				w.target(x.X)

				return
			}
		}
		w.expr(x.X)
	case *ast.BinaryExpr:
		w.expr(x.X)
		w.expr(x.Y)
	case *ast.KeyValueExpr:
		w.expr(x.Key)
		w.whole(x.Value)
	case *ast.TypeAssertExpr:
		w.expr(x.X)
	case *ast.CallExpr:
		w.call(x)
	case *ast.FuncLit:
		w.funcLit("", x)
	case *ast.CompositeLit:
		if x.Type != nil {
			w.emit("new " + w.src(x.Type))
		}
		_, isStruct := w.p.byName[baseIdent(x.Type)]
		for _, el := range x.Elts {
			if kv, ok := el.(*ast.KeyValueExpr); ok {
				if _, isIdent := kv.Key.(*ast.Ident); !isIdent || !isStruct {
					w.whole(kv.Key)
				}
				w.whole(kv.Value)
			} else {
				w.whole(el)
			}
		}
	case *ast.Ellipsis, *ast.ArrayType, *ast.MapType, *ast.ChanType, *ast.FuncType, *ast.InterfaceType, *ast.StructType:
	default:
		w.emit("unknown-expr " + w.src(e))
	}
}

func (w *walker) block(stmts []ast.Stmt) {
	for _, s := range stmts {
		w.stmt(s)
	}
}

func (w *walker) branchLabel(s *ast.BranchStmt) string {
	t := strings.ToLower(s.Tok.String())
	if s.Label != nil {
		t += " " + s.Label.Name
	}

	return t
}

func (w *walker) stmt(s ast.Stmt) {
	switch s := s.(type) {
	case nil:
	case *ast.EmptyStmt:
	case *ast.BlockStmt:
		w.block(s.List)
	case *ast.ExprStmt:
		w.expr(s.X)
	case *ast.SendStmt:
		w.whole(s.Value)
		w.expr(s.Chan)
	case *ast.AssignStmt:
		for _, r := range s.Rhs {
			w.whole(r)
		}
		for _, l := range s.Lhs {
			if s.Tok == token.DEFINE {
				w.shadow(l)
			}
			w.target(l)
		}
	case *ast.DeclStmt:
		if gd, ok := s.Decl.(*ast.GenDecl); ok {
			for _, sp := range gd.Specs {
				if vs, ok := sp.(*ast.ValueSpec); ok {
					for _, v := range vs.Values {
						w.whole(v)
					}
					for _, n := range vs.Names {
						delete(w.env, n.Name)
					}
				}
			}
		}
	case *ast.IncDecStmt:
		w.target(s.X)
	case *ast.GoStmt:
		w.emit("go")
		if fl, ok := s.Call.Fun.(*ast.FuncLit); ok {
			for _, a := range s.Call.Args {
				w.whole(a)
			}
			w.funcLit("", fl)
		} else {
			w.emit("func{")
			w.call(s.Call)
			w.emit("}func")
		}
	case *ast.DeferStmt:
		if sel, ok := s.Call.Fun.(*ast.SelectorExpr); ok && len(s.Call.Args) == 0 {
			if k, isLock := lockMethods[sel.Sel.Name]; isLock {
				if t := w.typeOf(sel.X); t == "" || w.fieldOf(t, sel.Sel.Name) == nil {
					w.expr(sel.X)
					w.emit("defer " + k + " " + w.src(sel.X))

					return
				}
			}
		}
		if fl, ok := s.Call.Fun.(*ast.FuncLit); ok {
			for _, a := range s.Call.Args {
				w.whole(a)
			}
			w.funcLit("defer ", fl)
		} else {
			w.emit("defer func{")
			w.call(s.Call)
			w.emit("}func")
		}
	case *ast.ReturnStmt:
		for _, r := range s.Results {
			w.whole(r)
		}
		w.emit("return")
	case *ast.IfStmt:
		w.stmt(s.Init)
		w.expr(s.Cond)
		w.emit("if{")
		w.block(s.Body.List)
		if s.Else != nil {
			w.emit("}else{")
			w.stmt(s.Else)
		}
		w.emit("}if")
	case *ast.ForStmt:
		w.stmt(s.Init)
		w.emit("for{")
		w.expr(s.Cond)
		w.block(s.Body.List)
		w.stmt(s.Post)
		w.emit("}for")
	case *ast.RangeStmt:
		w.expr(s.X)
		if s.Tok == token.DEFINE {
			w.shadow(s.Key)
			w.shadow(s.Value)
		} else {
			if s.Key != nil {
				w.target(s.Key)
			}
			if s.Value != nil {
				w.target(s.Value)
			}
		}
		w.emit("for{")
		w.expr(s.X)
		w.block(s.Body.List)
		w.emit("}for")
	case *ast.SwitchStmt:
		w.stmt(s.Init)
		w.expr(s.Tag)
		w.emit("switch{")
		for _, c := range s.Body.List {
			cc := c.(*ast.CaseClause)
			w.emit("case")
			for _, x := range cc.List {
				w.expr(x)
			}
			w.block(cc.Body)
		}
		w.emit("}switch")
	case *ast.TypeSwitchStmt:
		w.stmt(s.Init)
		w.stmt(s.Assign)
		w.emit("switch{")
		for _, c := range s.Body.List {
			w.emit("case")
			w.block(c.(*ast.CaseClause).Body)
		}
		w.emit("}switch")
	case *ast.SelectStmt:
		w.emit("select{")
		for _, c := range s.Body.List {
			cc := c.(*ast.CommClause)
			w.emit("case")
			w.stmt(cc.Comm)
			w.block(cc.Body)
		}
		w.emit("}select")
	case *ast.LabeledStmt:
		w.emit("label " + s.Label.Name)
		w.stmt(s.Stmt)
	case *ast.BranchStmt:
		w.emit(w.branchLabel(s))
	default:
		w.emit("unknown-stmt")
	}
}

func recvOf(fd *ast.FuncDecl) (name, typ string) {
	if fd.Recv == nil || len(fd.Recv.List) == 0 {
		return "", ""
	}
	f := fd.Recv.List[0]
	if len(f.Names) > 0 {
		name = f.Names[0].Name
	}

	return name, baseIdent(f.Type)
}

func importName(is *ast.ImportSpec) string {
	if is.Name != nil {
		return is.Name.Name
	}
	path, _ := strconv.Unquote(is.Path.Value)
	parts := strings.Split(path, "/")
	n := parts[len(parts)-1]
	if len(parts) > 1 && len(n) > 1 && n[0] == 'v' && strings.Trim(n[1:], "0123456789") == "" {
		n = parts[len(parts)-2] // .../name/v2
	}

	return n
}

func leanIdent(s string) string {
	var b strings.Builder
	for _, r := range s {
		if r == '_' || r >= '0' && r <= '9' || r >= 'a' && r <= 'z' || r >= 'A' && r <= 'Z' {
			b.WriteRune(r)
		} else {
			b.WriteRune('_')
		}
	}

	return b.String()
}

func writeList(b *strings.Builder, toks []string) {
	b.WriteString("[")
	for i, t := range toks {
		if i > 0 {
			b.WriteString(",")
		}
		if i%5 == 0 && len(toks) > 5 {
			b.WriteString("\n    ")
		} else if i > 0 {
			b.WriteString(" ")
		}
		fmt.Fprintf(b, "%q", t)
	}
	b.WriteString("]")
}

func writeWordList(b *strings.Builder, toks [][]string) {
	b.WriteString("[")
	for i, t := range toks {
		if i > 0 {
			b.WriteString(",")
		}
		if i%4 == 0 && len(toks) > 4 {
			b.WriteString("\n    ")
		} else if i > 0 {
			b.WriteString(" ")
		}
		b.WriteString("[")
		for j, w := range t {
			if j > 0 {
				b.WriteString(", ")
			}
			fmt.Fprintf(b, "%q", w)
		}
		b.WriteString("]")
	}
	b.WriteString("]")
}

type pair struct {
	name  string
	toks  []string
	words [][]string
}

func writePairs(b *strings.Builder, name, doc string, pairs []pair) {
	fmt.Fprintf(b, "/-- %s -/\ndef %s : List (String × List String) := [", doc, name)
	for i, p := range pairs {
		if i > 0 {
			b.WriteString(",")
		}
		fmt.Fprintf(b, "\n  (%q, ", p.name)
		writeList(b, p.toks)
		b.WriteString(")")
	}
	b.WriteString("]\n\n")
	fmt.Fprintf(b, "/-- %s — split into words -/\ndef %s_w : List (String × List (List String)) := [", doc, name)
	for i, p := range pairs {
		if i > 0 {
			b.WriteString(",")
		}
		fmt.Fprintf(b, "\n  (%q, ", p.name)
		writeWordList(b, p.words)
		b.WriteString(")")
	}
	b.WriteString("]\n\n")
}

// tokenWords splits a function token into its words; the qualified field "T.f" of a field token becomes two words.
func tokenWords(tok string) []string {
	ws := strings.Fields(tok)
	if len(ws) == 3 && (ws[0] == "read" || ws[0] == "write" || ws[0] == "escape") {
		if i := strings.Index(ws[1], "."); i >= 0 {
			return []string{ws[0], ws[1][:i], ws[1][i+1:], ws[2]}
		}
	}

	return ws
}

func typeKind(t ast.Expr) string {
	switch x := t.(type) {
	case *ast.ParenExpr:
		return typeKind(x.X)
	case *ast.MapType:
		return "map"
	case *ast.ArrayType:
		if x.Len == nil {
			return "slice"
		}

		return "array"
	case *ast.StarExpr:
		return "ptr"
	case *ast.FuncType:
		return "func"
	case *ast.ChanType:
		return "chan"
	case *ast.InterfaceType:
		return "iface"
	case *ast.StructType:
		return "struct"
	}

	return "named"
}

func doPackage(b *strings.Builder, dir string) error {
	ents, err := os.ReadDir(dir)
	if err != nil {
		return err
	}
	var names []string
	for _, e := range ents {
		n := e.Name()
		if e.IsDir() || !strings.HasSuffix(n, ".go") || strings.HasSuffix(n, "_test.go") {
			continue
		}
		names = append(names, n)
	}
	sort.Strings(names)
	if len(names) == 0 {
		return fmt.Errorf("lockset: no non-test .go file in %s", dir)
	}
	p := &pkgInfo{fset: token.NewFileSet(), byName: map[string]*structInfo{}, fieldNames: map[string]bool{}}
	var files []*ast.File
	for _, n := range names {
		f, err := parser.ParseFile(p.fset, filepath.Join(dir, n), nil, 0)
		if err != nil {
			return err
		}
		if p.name == "" {
			p.name = f.Name.Name
		} else if p.name != f.Name.Name {
			return fmt.Errorf("lockset: %s: package %s, expected %s", filepath.Join(dir, n), f.Name.Name, p.name)
		}
		files = append(files, f)
	}
	// pass 1: struct declarations
	for _, f := range files {
		for _, d := range f.Decls {
			gd, ok := d.(*ast.GenDecl)
			if !ok || gd.Tok != token.TYPE {
				continue
			}
			for _, sp := range gd.Specs {
				ts := sp.(*ast.TypeSpec)
				st, ok := ts.Type.(*ast.StructType)
				if !ok {
					continue
				}
				si := &structInfo{name: ts.Name.Name}
				for _, fld := range st.Fields.List {
					if len(fld.Names) == 0 {
						si.fields = append(si.fields, field{name: embeddedName(fld.Type), typ: fld.Type, embedded: true})
					}
					for _, n := range fld.Names {
						si.fields = append(si.fields, field{name: n.Name, typ: fld.Type})
					}
				}
				for _, fl := range si.fields {
					p.fieldNames[fl.name] = true
				}
				p.structs = append(p.structs, si)
				p.byName[si.name] = si
			}
		}
	}
	var spairs []pair
	for _, si := range p.structs {
		sp := pair{name: si.name, toks: []string{}, words: [][]string{}}
		for _, fl := range si.fields {
			n := fl.name
			if fl.embedded {
				n = "embedded"
			}
			sp.toks = append(sp.toks, n+" "+src(p.fset, fl.typ))
			sp.words = append(sp.words, []string{n, src(p.fset, fl.typ), typeKind(fl.typ)})
		}
		spairs = append(spairs, sp)
	}
	// pass 2: functions
	var fpairs []pair
	for _, f := range files {
		imports := map[string]bool{}
		for _, is := range f.Imports {
			imports[importName(is)] = true
		}
		for _, d := range f.Decls {
			fd, ok := d.(*ast.FuncDecl)
			if !ok {
				continue
			}
			w := &walker{p: p, imports: imports, env: map[string]string{}, toks: []string{}}
			full := fd.Name.Name
			if rn, rt := recvOf(fd); rt != "" {
				full = rt + "." + fd.Name.Name
				if rn != "" && p.byName[rt] != nil {
					w.env[rn] = rt
				}
			}
			w.bindParams(fd.Type.Params)
			if fd.Type.Results != nil {
				for _, r := range fd.Type.Results.List {
					for _, n := range r.Names {
						delete(w.env, n.Name)
					}
				}
			}
			if fd.Body != nil {
				w.block(fd.Body.List)
			}
			fp := pair{name: full, toks: w.toks, words: [][]string{}}
			for _, t := range w.toks {
				fp.words = append(fp.words, tokenWords(t))
			}
			fpairs = append(fpairs, fp)
		}
	}
	id := leanIdent(p.name)
	writePairs(b, id+"_structs", "struct types of package "+p.name+" ("+strings.Join(names, ", ")+"): name, field tokens", spairs)
	writePairs(b, id+"_funcs", "every function / method of package "+p.name+" in source order: name, lockset tokens", fpairs)

	return nil
}

func main() {
	if len(os.Args) < 4 {
		fmt.Fprintln(os.Stderr, "usage: lockset <out.lean> <LeanNamespace> <dirOfPackage>...")
		os.Exit(2)
	}
	out, ns := os.Args[1], os.Args[2]
	var b strings.Builder
	fmt.Fprintf(&b, "/-! GENERATED by harness/c05/lockset — struct facts and lock / field-access tokens of every function of the given Go packages; do not edit. -/\nnamespace %s\n\n", ns)
	for _, dir := range os.Args[3:] {
		if err := doPackage(&b, dir); err != nil {
			fmt.Fprintln(os.Stderr, err)
			os.Exit(1)
		}
	}
	fmt.Fprintf(&b, "end %s\n", ns)
	if err := os.WriteFile(out, []byte(b.String()), 0o644); err != nil {
		fmt.Fprintln(os.Stderr, err)
		os.Exit(1)
	}
}
