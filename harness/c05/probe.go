package main

// Crash probe.  A fatal runtime error of the code under test ("concurrent map read and map write", "concurrent map
// writes", "all goroutines are asleep", "sync: unlock of unlocked mutex" ...) cannot be recovered: it kills the process, and
// with it every history recorded so far.  So before anything else the harness re-executes ITSELF as a child process
// (C05_PROBE_CHILD=<plan file>) that runs a plan - per goroutine a short list of calls through several view objects of one
// store, repeated `rounds` times, all goroutines released at once - and the parent turns the child's death into a finding
// whose replay is the plan (`x …` lines; `--replay` runs exactly that plan in a child again).  In the thorough tier the
// binary is built with -race, so a data race report of the child becomes a finding with its plan as well.

import (
	"fmt"
	"os"
	"os/exec"
	"regexp"
	"runtime"
	"strconv"
	"strings"
	"sync"
	"sync/atomic"
	"time"

	"verifharness/hx"

	"github.com/iotaledger/hive.go/kvstore"
	"github.com/iotaledger/hive.go/kvstore/debug"
	"github.com/iotaledger/hive.go/kvstore/flushkv"
	"github.com/iotaledger/hive.go/kvstore/mapdb"
)

// realms of the probe's view objects: index 3 is a second object of realm 01, index 5 a second root-realm view
var probeRealms = []string{"", "\x01", "\x01\xff", "\x01", "\x02", ""}

// genProbePlan: header + one line per call: `x p <goroutine> <view> <kind> <hexkey>`; the key is relative to the view.
// batchOnly: every goroutine hammers the ONE shared batch object of its home view (Set / Delete / Commit / Cancel and a rare Get):
// the batch mutex is then (nearly) the only synchronisation between them, so an access to the batch's private maps outside
// it is not ordered by anything else - what the race detector needs to see it.
var oneHome bool // set around genProbePlan for the single-view plan of the -race probe

func genProbePlan(rng *hx.Rng, wrap, g, perG, rounds int, batchOnly bool) []string {
	// every goroutine keeps to ONE view object for most of its calls (a lock that protects only "its" view is then not
	// enough to protect the map); the goroutines are spread over `homes` of the six objects: with 1..3 homes many goroutines
	// use the SAME object at the same time (whatever a view keeps per object besides its lock is then shared by them)
	homes := hx.Pick(rng, []int{1, 2, 3, len(probeRealms), len(probeRealms)})
	if batchOnly {
		homes = rng.Range(1, 2)
	}
	if oneHome {
		homes = 1 // every goroutine on ONE view object: whatever a view keeps per object is shared by all of them
	}
	first := rng.Intn(len(probeRealms))
	plan := []string{fmt.Sprintf("x probe wrap=%d goroutines=%d rounds=%d homes=%d batchonly=%v", wrap, g, rounds, homes, batchOnly)}
	for i := 0; i < g; i++ {
		home := (first + i%homes) % len(probeRealms)
		for j := 0; j < perG; j++ {
			view := home
			if rng.Chance(1, 5) && !batchOnly {
				view = rng.Intn(len(probeRealms))
			}
			var kind string
			switch x := rng.Intn(100); {
			case batchOnly:
				switch {
				case x < 40:
					kind = "bset"
				case x < 55:
					kind = "bdel"
				case x < 80:
					kind = "bcommit"
				case x < 95:
					kind = "bcancel"
				default:
					kind = "get"
				}
			case x < 22:
				kind = "has"
			case x < 40:
				kind = "get"
			case x < 62:
				kind = "set"
			case x < 74:
				kind = "del"
			case x < 77:
				kind = "delp"
			case x < 78:
				kind = "clear"
			case x < 84:
				kind = "iter"
			case x < 88:
				kind = "iterk"
			case x < 93:
				kind = "commit"
			case x < 96:
				kind = "mkview"
			case x < 97:
				kind = "flush"
			default:
				// ONE batch object per view shared by all goroutines: its mutex is all that protects its private maps
				kind = hx.Pick(rng, []string{"bset", "bset", "bdel", "bcommit", "bcancel"})
			}
			key := []byte{byte(rng.Intn(3)), byte(rng.Intn(24))}
			if kind == "delp" || kind == "iter" || kind == "iterk" {
				key = key[:1]
			}
			plan = append(plan, fmt.Sprintf("x p %d %d %s %s", i, view, kind, hx.Hex(key)))
		}
	}

	return plan
}

type probeCall struct {
	view int
	kind string
	key  []byte
}

// probeChild runs the plan of the given file and exits: 0 = ran to the end, 3 = hang (no call completed for 20 s).
func probeChild(planFile string) {
	if runtime.GOMAXPROCS(0) < 4 {
		runtime.GOMAXPROCS(4)
	}
	b, err := os.ReadFile(planFile)
	if err != nil {
		fmt.Fprintln(os.Stderr, "probe: ", err)
		os.Exit(4)
	}
	wrap, rounds := 0, 1
	plans := map[int][]probeCall{}
	for _, l := range strings.Split(string(b), "\n") {
		f := strings.Fields(l)
		if len(f) >= 2 && f[0] == "x" && f[1] == "probe" {
			for _, kv := range f[2:] {
				if v, ok := strings.CutPrefix(kv, "wrap="); ok {
					wrap, _ = strconv.Atoi(v)
				}
				if v, ok := strings.CutPrefix(kv, "rounds="); ok {
					rounds, _ = strconv.Atoi(v)
				}
			}
		}
		if len(f) == 6 && f[0] == "x" && f[1] == "p" {
			g, _ := strconv.Atoi(f[2])
			view, _ := strconv.Atoi(f[3])
			if view < 0 || view >= len(probeRealms) {
				continue
			}
			plans[g] = append(plans[g], probeCall{view: view, kind: f[4], key: hx.UnHex(f[5])})
		}
	}
	var root kvstore.KVStore = mapdb.NewMapDB()
	switch wrap {
	case 1:
		root = flushkv.New(root)
	case 2:
		root = debug.New(root, func(debug.Command, ...[]byte) {})
	case 3:
		root = flushkv.New(debug.New(root, func(debug.Command, ...[]byte) {}))
	case 4:
		root = debug.New(flushkv.New(root), func(debug.Command, ...[]byte) {}, debug.SetCommand, debug.GetCommand)
	}
	views := make([]kvstore.KVStore, len(probeRealms))
	for i, rl := range probeRealms {
		if i == 0 {
			views[i] = root

			continue
		}
		v, err := root.WithRealm([]byte(rl))
		if err != nil {
			panic(err)
		}
		views[i] = v
	}
	shared := make([]kvstore.BatchedMutations, len(views))
	for i, v := range views {
		if shared[i], err = v.Batched(); err != nil {
			panic(err)
		}
	}
	start := make(chan struct{})
	var progress atomic.Int64
	var wg sync.WaitGroup
	for g, calls := range plans {
		wg.Add(1)
		go func(g int, calls []probeCall) {
			defer wg.Done()
			var own kvstore.KVStore // the view this goroutine created last
			<-start
			for rd := 0; rd < rounds; rd++ {
				for i := range calls {
					c := &calls[i]
					v := views[c.view]
					if own != nil && (i+rd)%3 == 0 {
						v = own
					}
					val := []byte{byte(g), byte(rd), byte(i)}
					switch c.kind {
					case "get":
						_, _ = v.Get(c.key)
					case "has":
						_, _ = v.Has(c.key)
					case "set":
						_ = v.Set(c.key, val)
					case "del":
						_ = v.Delete(c.key)
					case "delp":
						_ = v.DeletePrefix(c.key)
					case "clear":
						_ = v.Clear()
					case "iter":
						_ = v.Iterate(c.key, func(kvstore.Key, kvstore.Value) bool { return true })
					case "iterk":
						_ = v.IterateKeys(c.key, func(kvstore.Key) bool { return true }, kvstore.IterDirectionBackward)
					case "commit":
						if bt, err := v.Batched(); err == nil {
							_ = bt.Set(c.key, val)
							_ = bt.Delete(append([]byte{c.key[0]}, 0x7f))
							_ = bt.Set(append([]byte{c.key[0]}, 0x7e), val)
							_ = bt.Commit()
						}
					case "mkview":
						if nv, err := views[c.view].WithExtendedRealm(nil); err == nil {
							own = nv
						}
					case "flush":
						_ = v.Flush()
						if rl := v.Realm(); len(rl) > 0 {
							rl[0] ^= 0xa5 // the caller owns what Realm() returned
						}
					case "bset":
						_ = shared[c.view].Set(c.key, val)
					case "bdel":
						_ = shared[c.view].Delete(c.key)
					case "bcommit":
						_ = shared[c.view].Commit()
					case "bcancel":
						shared[c.view].Cancel()
					}
					progress.Add(1)
				}
			}
		}(g, calls)
	}
	done := make(chan struct{})
	go func() { wg.Wait(); close(done) }()
	close(start)
	// watchdog by progress, not by wall-clock time (the machine may be heavily loaded): a hang is 20 s without a single
	// completed call
	last, idle := int64(-1), 0
	for {
		select {
		case <-done:
			os.Exit(0)
		case <-time.After(5 * time.Second):
		}
		if now := progress.Load(); now != last {
			last, idle = now, 0

			continue
		}
		if idle++; idle >= 4 {
			fmt.Fprintf(os.Stderr, "PROBE-HANG: no call of the plan completed for 20 s (%d completed so far), some never returned\n", last)
			buf := make([]byte, 1<<16)
			n := runtime.Stack(buf, true)
			os.Stderr.Write(buf[:n])
			os.Exit(3)
		}
	}
}

var frameRe = regexp.MustCompile(`hive\.go/kvstore[\w/]*\.(\(\*?\w+\)\.)?\w+`)

// runProbe executes the plan in a child process; returns true when the child died (finding recorded) and the oracle that failed.
func runProbe(r *hx.Run, sub uint64, plan []string, no int) (bool, string) {
	self, err := os.Executable()
	if err != nil {
		r.Count("probe-skipped-no-executable")

		return false, ""
	}
	if len(plan) > 0 && strings.Contains(plan[0], " race=1") {
		// a plan for the race-detector build of this harness (quick tier: built next to the plain one by checks/c05.py)
		rb := os.Getenv("C05_RACE_BIN")
		if st, err := os.Stat(rb); rb == "" || err != nil || st.IsDir() {
			r.Count("probe-skipped-no-race-binary") // never a finding: the build of the second binary is best effort

			return false, ""
		}
		self = rb
		r.Count("probe-children-race-build")
	}
	pf := fmt.Sprintf("%s/probe-plan-%d.txt", r.OutDir, no)
	if err := os.WriteFile(pf, []byte(strings.Join(plan, "\n")+"\n"), 0o644); err != nil {
		r.Count("probe-skipped-plan-not-written")

		return false, ""
	}
	cmd := exec.Command(self)
	cmd.Env = append(os.Environ(), "C05_PROBE_CHILD="+pf, "GORACE=halt_on_error=1 exitcode=66")
	t0 := time.Now()
	out, err := cmd.CombinedOutput()
	r.CountN("probe-child-ms", int(time.Since(t0).Milliseconds()))
	r.Count("probe-children")
	if err == nil {
		return false, ""
	}
	if _, isExit := err.(*exec.ExitError); !isExit {
		r.Count("probe-skipped-child-not-started") // fork/exec failed (resources of the machine), nothing ran

		return false, ""
	}
	text := string(out)
	oracle, msg := "no-fatal-error", "child exited: "+err.Error()
	switch {
	case strings.Contains(text, "WARNING: DATA RACE"):
		oracle, msg = "race-free", "WARNING: DATA RACE"
	case strings.Contains(text, "fatal error:"):
		i := strings.Index(text, "fatal error:")
		msg = strings.SplitN(text[i:], "\n", 2)[0]
	case strings.Contains(text, "PROBE-HANG"):
		oracle, msg = "deadlock", "PROBE-HANG"
	case strings.Contains(text, "panic:"):
		i := strings.Index(text, "panic:")
		oracle, msg = "no-panic", strings.SplitN(text[i:], "\n", 2)[0]
	}
	frame := ""
	if i := strings.Index(text, msg); i >= 0 {
		frame = frameRe.FindString(text[i:])
	}
	if len(text) > 2500 {
		text = text[:2500] + " …"
	}
	r.Case(sub)
	for _, l := range plan {
		r.Line(l, "ok")
	}
	r.Fail(oracle, fmt.Sprintf("the plan of this case, run by real goroutines in a child process, killed the process (%s; first frame of the package: %s). Output of the child: %s",
		msg, frame, text), map[string]string{"oracle": oracle, "scenario": "probe", "msg": msg, "frame": frame})
	r.Line("end", "accept")
	r.Count("probe-child-died")

	return true, oracle
}
