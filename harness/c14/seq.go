package main

// Sequential interpreters: every construct is driven one call at a time over the real ds/reactive code; the answer
// of each op line is what the Lean model (lean/Hive/Model/Derived*.lean) must reproduce.  After every op the
// defining function is recomputed independently in Go from the inputs' current values (property oracle).

import (
	"fmt"
	"sort"
	"strconv"
	"strings"
	"sync"
	"time"

	"github.com/iotaledger/hive.go/ds"
	"github.com/iotaledger/hive.go/ds/reactive"
)

func atoi(s string) int {
	n, err := strconv.Atoi(s)
	if err != nil {
		panic("bad number " + s)
	}

	return n
}

func parseInts(s string) []int {
	if s == "-" || s == "" {
		return nil
	}
	var out []int
	for _, p := range strings.Split(s, ",") {
		out = append(out, atoi(p))
	}

	return out
}

func joinInts(xs []int) string {
	if len(xs) == 0 {
		return "-"
	}
	ss := make([]string, len(xs))
	for i, x := range xs {
		ss[i] = strconv.Itoa(x)
	}

	return strings.Join(ss, ",")
}

func sortedCopy(xs []int) []int {
	out := append([]int(nil), xs...)
	sort.Ints(out)

	return out
}

func showList(xs []int) string {
	ss := make([]string, len(xs))
	for i, x := range xs {
		ss[i] = strconv.Itoa(x)
	}

	return "[" + strings.Join(ss, " ") + "]"
}

const digestP = 2147483647

// showOrDigest prints short lists in full and long ones (the size cases) as length + order-sensitive hash.
func showOrDigest(xs []int) string {
	if len(xs) <= 64 {
		return showList(xs)
	}
	h := uint64(7)
	for _, x := range xs {
		h = (h*1000003 + uint64(x)%digestP) % digestP
	}

	return fmt.Sprintf("#%d:%d", len(xs), h)
}

// showOrSums prints a set within the model's printed universe in full, any other as size + order-independent sums.
func showOrSums(xs []int) string {
	small := true
	var s1, s2 uint64
	for _, x := range xs {
		if x < 0 || x >= 16 {
			small = false
		}
		m := uint64(x) % digestP
		s1 = (s1 + m) % digestP
		s2 = (s2 + m*m) % digestP
	}
	if small {
		return showList(xs)
	}

	return fmt.Sprintf("#%d:%d:%d", len(xs), s1, s2)
}

func clip(s string) string {
	if len(s) > 300 {
		return s[:200] + " … " + s[len(s)-80:]
	}

	return s
}

func sortedKeys(m map[int]bool) []int {
	out := make([]int, 0, len(m))
	for k := range m {
		out = append(out, k)
	}
	sort.Ints(out)

	return out
}

func sameSet(a, b []int) bool {
	a, b = sortedCopy(a), sortedCopy(b)
	if len(a) != len(b) {
		return false
	}
	for i := range a {
		if a[i] != b[i] {
			return false
		}
	}

	return true
}

// failer receives property-oracle failures (hx.Run, or the per-case recorder of the sequential watchdog).
type failer interface {
	Fail(oracle, detail string, sig map[string]string)
}

// world is one construct under test.
type world interface {
	exec(r failer, f []string) string
}

// region set pool /////////////////////////////////////////////////////////////////////////////////////////////////

// pool is the set pool of a DerivedSet / SubtractReactive case.  The model's elements are 0..15; the elements the real
// sets hold are enc(x) = x*scale + off (an injective renaming: per-case, so that element values of every magnitude and
// sign occur).
type pool struct {
	sets       map[int]reactive.Set[int]
	scale, off int
}

func (p *pool) configure(tok string) bool {
	p.scale, p.off = 1, 0
	if tok == "" {
		return true
	}
	parts := strings.Split(strings.TrimPrefix(tok, "x"), "+")
	sc, err := strconv.Atoi(parts[0])
	if err != nil || sc == 0 || !strings.HasPrefix(tok, "x") {
		return false
	}
	p.scale = sc
	if len(parts) > 1 {
		if p.off, err = strconv.Atoi(parts[1]); err != nil {
			return false
		}
	}

	return true
}

func (p *pool) enc(x int) int {
	if p.scale == 0 {
		p.scale = 1
	}

	return x*p.scale + p.off
}

func (p *pool) encs(xs []int) []int {
	out := make([]int, len(xs))
	for i, x := range xs {
		out[i] = p.enc(x)
	}

	return out
}

// decs maps real elements back to model elements (elements that are no images are kept recognisable: negative).
func (p *pool) decs(xs []int) []int {
	if p.scale == 0 {
		p.scale = 1
	}
	out := make([]int, len(xs))
	for i, x := range xs {
		if (x-p.off)%p.scale != 0 {
			out[i] = -1 - i
		} else {
			out[i] = (x - p.off) / p.scale
		}
	}

	return out
}

func (p *pool) get(i int) reactive.Set[int] {
	if p.sets == nil {
		p.sets = map[int]reactive.Set[int]{}
	}
	if s, ok := p.sets[i]; ok {
		return s
	}
	s := reactive.NewSet[int]()
	p.sets[i] = s

	return s
}

// write executes a source write ("add i x" | "del i x" | "apply i A D" | "replace i X"); returns false if f is not one.
func (p *pool) write(f []string) bool {
	switch f[0] {
	case "add":
		p.get(atoi(f[1])).Add(p.enc(atoi(f[2])))
	case "del":
		p.get(atoi(f[1])).Delete(p.enc(atoi(f[2])))
	case "apply":
		p.get(atoi(f[1])).Apply(ds.NewSetMutations(p.encs(parseInts(f[2]))...).WithDeletedElements(ds.NewSet(p.encs(parseInts(f[3]))...)))
	case "replace":
		p.get(atoi(f[1])).Replace(ds.NewSet(p.encs(parseInts(f[2]))...))
	case "replaceset": // the argument is another set of the pool, the set itself, or (trailing "ro") its read-only view
		if len(f) > 3 && f[3] == "ro" {
			p.get(atoi(f[1])).Replace(p.get(atoi(f[2])).ReadOnly())
		} else {
			p.get(atoi(f[1])).Replace(p.get(atoi(f[2])))
		}
	case "addall":
		p.get(atoi(f[1])).AddAll(p.get(atoi(f[2])))
	case "delall":
		p.get(atoi(f[1])).DeleteAll(p.get(atoi(f[2])))
	case "replacemut": // the argument set is written (x added) right after Replace has read it
		arg := p.get(atoi(f[2]))
		if f[1] == f[2] {
			return false // a writer of the replaced set itself waits for Replace to finish: not expressible by the view
		}
		p.get(atoi(f[1])).Replace(&mutatedAfterRead{ReadableSet: arg, after: func() { arg.Add(p.enc(atoi(f[3]))) }})
	default:
		return false
	}

	return true
}

// mutatedAfterRead is a view of a set that is written by "somebody else" right after its first listing was taken: it
// stands for a concurrent writer of the argument of Replace.  A Replace that works on one private snapshot of its
// argument does not notice; one that reads the argument twice stores what it did not report.
type mutatedAfterRead struct {
	ds.ReadableSet[int]
	after func()
	done  bool
}

func (m *mutatedAfterRead) ToSlice() []int {
	out := m.ReadableSet.ToSlice()
	if !m.done {
		m.done = true
		m.after()
	}

	return out
}

// endregion

// region DerivedSet ///////////////////////////////////////////////////////////////////////////////////////////////

type dsGroup struct {
	members []int
	unsub   func()
}

type dsWorld struct {
	pool    pool
	derived reactive.DerivedSet[int]
	subSrc  []int
	subLive []bool
	groupOf []*dsGroup
}

func newDSWorld() *dsWorld { return &dsWorld{derived: reactive.NewDerivedSet[int]()} }

func (w *dsWorld) expected() []int {
	u := map[int]bool{}
	for j, src := range w.subSrc {
		if w.subLive[j] {
			for _, x := range w.pool.get(src).ToSlice() {
				u[x] = true
			}
		}
	}
	out := []int{}
	for x := range u {
		out = append(out, x)
	}
	sort.Ints(out)

	return out
}

func (w *dsWorld) exec(r failer, f []string) string {
	switch f[0] {
	case "new":
		if !w.pool.configure(strings.Join(f[1:], "")) {
			return "bad-op"
		}

		return "ok"
	case "inherit":
		srcs := parseInts(f[1])
		sets := make([]reactive.ReadableSet[int], len(srcs))
		g := &dsGroup{}
		for k, i := range srcs {
			sets[k] = w.pool.get(i)
			g.members = append(g.members, len(w.subSrc))
			w.subSrc = append(w.subSrc, i)
			w.subLive = append(w.subLive, true)
			w.groupOf = append(w.groupOf, g)
		}
		g.unsub = w.derived.InheritFrom(sets...)
	case "unsub":
		js := parseInts(f[1])
		if len(js) == 0 || js[0] >= len(w.groupOf) {
			return "bad-op"
		}
		g := w.groupOf[js[0]]
		if joinInts(g.members) != joinInts(js) {
			return "bad-op"
		}
		g.unsub()
		for _, j := range js {
			w.subLive[j] = false
		}
	default:
		if !w.pool.write(f) {
			return "bad-op"
		}
	}
	got := sortedCopy(w.pool.decs(w.derived.ToSlice()))
	if exp := sortedCopy(w.pool.decs(w.expected())); !sameSet(exp, got) {
		r.Fail("derived-set-union", fmt.Sprintf("after %q the DerivedSet holds %v but the union of its current sources is %v (elements x -> x*%d+%d)", strings.Join(f, " "), got, exp, w.pool.scale, w.pool.off),
			map[string]string{"construct": "DerivedSet", "trigger": f[0], "mode": "sequential"})
	}

	return showList(got)
}

// endregion

// region SubtractReactive /////////////////////////////////////////////////////////////////////////////////////////

type srWorld struct {
	pool   pool
	res    reactive.Set[int]
	src    int
	others []int
}

func (w *srWorld) expected() []int {
	out := []int{}
	for _, x := range w.pool.get(w.src).ToSlice() {
		keep := true
		for _, o := range w.others {
			if w.pool.get(o).Has(x) {
				keep = false
			}
		}
		if keep {
			out = append(out, x)
		}
	}
	sort.Ints(out)

	return out
}

func (w *srWorld) exec(r failer, f []string) string {
	switch f[0] {
	case "new":
		if !w.pool.configure(strings.Join(f[1:], "")) {
			return "bad-op"
		}

		return "ok"
	case "create":
		if w.res == nil {
			w.src, w.others = atoi(f[1]), parseInts(f[2])
			others := make([]reactive.ReadableSet[int], len(w.others))
			for k, o := range w.others {
				others[k] = w.pool.get(o)
			}
			w.res = w.pool.get(w.src).SubtractReactive(others...)
		}
	default:
		if !w.pool.write(f) {
			return "bad-op"
		}
	}
	if w.res == nil {
		return "-"
	}
	got := sortedCopy(w.pool.decs(w.res.ToSlice()))
	if exp := sortedCopy(w.pool.decs(w.expected())); !sameSet(exp, got) {
		r.Fail("subtract-reactive", fmt.Sprintf("after %q SubtractReactive holds %v but source minus others is %v (elements x -> x*%d+%d)", strings.Join(f, " "), got, exp, w.pool.scale, w.pool.off),
			map[string]string{"construct": "SubtractReactive", "trigger": f[0], "mode": "sequential"})
	}

	return showList(got)
}

// endregion

// region Counter //////////////////////////////////////////////////////////////////////////////////////////////////

func condOf(name string) func(int) bool {
	switch name {
	case "gt2":
		return func(v int) bool { return v > 2 }
	case "even":
		return func(v int) bool { return v%2 == 0 }
	}

	return func(v int) bool { return v != 0 }
}

type ctWorld struct {
	cond    func(int) bool
	counter reactive.Counter[int]
	vars    map[int]reactive.Variable[int]
	monVar  []int
	monLive []bool
	unmon   []func()
}

func (w *ctWorld) v(i int) reactive.Variable[int] {
	if w.vars == nil {
		w.vars = map[int]reactive.Variable[int]{}
	}
	if x, ok := w.vars[i]; ok {
		return x
	}
	x := reactive.NewVariable[int]()
	w.vars[i] = x

	return x
}

func (w *ctWorld) expected() int {
	n := 0
	for j, i := range w.monVar {
		if w.monLive[j] && w.cond(w.v(i).Get()) {
			n++
		}
	}

	return n
}

func (w *ctWorld) exec(r failer, f []string) string {
	ans := ""
	switch f[0] {
	case "new":
		w.cond = condOf(f[1])
		if f[1] == "nonzero" {
			w.counter = reactive.NewCounter[int]() // the default condition
		} else {
			w.counter = reactive.NewCounter[int](w.cond)
		}

		return "ok"
	case "set":
		w.v(atoi(f[1])).Set(atoi(f[2]))
		ans = strconv.Itoa(w.counter.Get())
	case "mon":
		i := atoi(f[1])
		w.monVar = append(w.monVar, i)
		w.monLive = append(w.monLive, true)
		w.unmon = append(w.unmon, w.counter.Monitor(w.v(i)))
		ans = fmt.Sprintf("%d %d", len(w.monVar)-1, w.counter.Get())
	case "monmany": // k more monitors of the same input
		i, k := atoi(f[1]), atoi(f[2])
		for ; k > 0; k-- {
			w.monVar = append(w.monVar, i)
			w.monLive = append(w.monLive, true)
			w.unmon = append(w.unmon, w.counter.Monitor(w.v(i)))
		}
		ans = fmt.Sprintf("%d %d", len(w.monVar), w.counter.Get())
	case "unmon":
		j := atoi(f[1])
		if j < len(w.unmon) {
			w.unmon[j]()
			w.monLive[j] = false
		}
		ans = strconv.Itoa(w.counter.Get())
	default:
		return "bad-op"
	}
	if exp, got := w.expected(), w.counter.Get(); exp != got {
		r.Fail("counter", fmt.Sprintf("after %q the Counter is %d but %d monitored inputs satisfy the condition", strings.Join(f, " "), got, exp),
			map[string]string{"construct": "Counter", "trigger": f[0], "mode": "sequential"})
	}

	return ans
}

// endregion

// region SortedSet ////////////////////////////////////////////////////////////////////////////////////////////////

type plainEl int

type lessEl int

// Less breaks ties between equal weights (the SortedSet looks for this method).
func (e lessEl) Less(other lessEl) bool { return e < other }

type elemType interface {
	~int
	comparable
}

type ssWorld[E elemType] struct {
	less    bool
	set     reactive.SortedSet[E]
	mu      sync.Mutex
	weights map[E]reactive.Variable[int]
	mk      func(E) reactive.Variable[int] // how a weight variable is created (nil: a plain variable)
}

// newSSWorldWith: a SortedSet whose weight variables are made by mk (e.g. DerivedVariables of other inputs).
func newSSWorldWith[E elemType](less bool, mk func(E) reactive.Variable[int]) *ssWorld[E] {
	w := &ssWorld[E]{less: less, weights: map[E]reactive.Variable[int]{}, mk: mk}
	w.set = reactive.NewSortedSet[E, int](w.weight)

	return w
}

func newSSWorld[E elemType](less bool) *ssWorld[E] {
	w := &ssWorld[E]{less: less, weights: map[E]reactive.Variable[int]{}}
	w.set = reactive.NewSortedSet[E, int](w.weight)

	return w
}

func (w *ssWorld[E]) weight(e E) reactive.Variable[int] {
	w.mu.Lock()
	defer w.mu.Unlock()
	if v, ok := w.weights[e]; ok {
		return v
	}
	v := reactive.NewVariable[int]()
	if w.mk != nil {
		v = w.mk(e)
	}
	w.weights[e] = v

	return v
}

func toInts[E elemType](xs []E) []int {
	out := make([]int, len(xs))
	for i, x := range xs {
		out[i] = int(x)
	}

	return out
}

func toElems[E elemType](xs []int) []E {
	out := make([]E, len(xs))
	for i, x := range xs {
		out[i] = E(x)
	}

	return out
}

// wouldSwap is the order the SortedSet promises: heavier first, ties by Less if the type has it.
func (w *ssWorld[E]) wouldSwap(l, r E) bool {
	wl, wr := w.weight(l).Get(), w.weight(r).Get()

	return wl < wr || (wl == wr && w.less && l < r)
}

// check evaluates the property on the real object: returns "" or a description of the violation.
func (w *ssWorld[E]) check() string {
	desc, asc := w.set.Descending(), w.set.Ascending()
	if !sameSet(toInts(desc), toInts(w.set.ToSlice())) || len(desc) != w.set.Size() {
		return fmt.Sprintf("Descending() %v does not list the elements %v", desc, sortedCopy(toInts(w.set.ToSlice())))
	}
	for i := 0; i+1 < len(desc); i++ {
		if w.wouldSwap(desc[i], desc[i+1]) {
			return fmt.Sprintf("Descending() %v is not sorted by current weight at position %d (weights %d,%d)", desc, i, w.weight(desc[i]).Get(), w.weight(desc[i+1]).Get())
		}
	}
	if len(asc) != len(desc) {
		return fmt.Sprintf("Ascending() %v is not the reverse of Descending() %v", asc, desc)
	}
	for i := range asc {
		if asc[i] != desc[len(desc)-1-i] {
			return fmt.Sprintf("Ascending() %v is not the reverse of Descending() %v", asc, desc)
		}
	}
	var h, l E
	if len(desc) > 0 {
		h, l = desc[0], desc[len(desc)-1]
	}
	if w.set.HeaviestElement().Get() != h || w.set.LightestElement().Get() != l {
		return fmt.Sprintf("HeaviestElement/LightestElement = %v/%v but Descending() is %v", w.set.HeaviestElement().Get(), w.set.LightestElement().Get(), desc)
	}

	return ""
}

func (w *ssWorld[E]) exec(r failer, f []string) string {
	switch f[0] {
	case "new":
		return "ok"
	case "window":
		return ssWindow(r)
	case "add":
		w.set.Add(E(atoi(f[1])))
	case "del":
		w.set.Delete(E(atoi(f[1])))
	case "apply":
		w.set.Apply(ds.NewSetMutations(toElems[E](parseInts(f[1]))...).WithDeletedElements(ds.NewSet(toElems[E](parseInts(f[2]))...)))
	case "w":
		w.weight(E(atoi(f[1]))).Set(atoi(f[2]))
	default:
		return "bad-op"
	}
	if bad := w.check(); bad != "" {
		r.Fail("sorted-set", "after \""+clip(strings.Join(f, " "))+"\": "+clip(bad),
			map[string]string{"construct": "SortedSet", "trigger": f[0], "mode": "sequential"})
	}

	return fmt.Sprintf("desc=%s h=%d l=%d", showOrDigest(toInts(w.set.Descending())), int(w.set.HeaviestElement().Get()), int(w.set.LightestElement().Get()))
}

// endregion

// region WaitGroup ////////////////////////////////////////////////////////////////////////////////////////////////

type wgWorld struct {
	wg      reactive.WaitGroup[int]
	pending map[int]bool
	expect  bool // some Done removed the last pending element
}

func (w *wgWorld) exec(r failer, f []string) string {
	switch f[0] {
	case "new":
		w.pending = map[int]bool{}
		xs := parseInts(f[1])
		w.wg = reactive.NewWaitGroup[int](xs...)
		for _, x := range xs {
			w.pending[x] = true
		}
	case "add":
		xs := parseInts(f[1])
		w.wg.Add(xs...)
		for _, x := range xs {
			w.pending[x] = true
		}
	case "done":
		xs := parseInts(f[1])
		w.wg.Done(xs...)
		for _, x := range xs {
			if w.pending[x] {
				delete(w.pending, x)
				if len(w.pending) == 0 {
					w.expect = true
				}
			}
		}
	case "race":
		return wgRace(r, atoi(f[1]))
	default:
		return "bad-op"
	}
	if w.wg == nil {
		return "bad-op"
	}
	if got, exp := sortedCopy(w.wg.PendingElements().ToSlice()), sortedKeys(w.pending); !sameSet(got, exp) {
		r.Fail("wait-group", fmt.Sprintf("after %q PendingElements() has %d elements but %d elements were added and not marked done", clip(strings.Join(f, " ")), len(got), len(exp)),
			map[string]string{"construct": "WaitGroup", "trigger": f[0] + "-pending", "mode": "sequential"})
	}
	if got := w.wg.WasTriggered(); got != w.expect {
		r.Fail("wait-group", fmt.Sprintf("after %q WasTriggered()=%v but 'a Done removed the last pending element'=%v", clip(strings.Join(f, " ")), got, w.expect),
			map[string]string{"construct": "WaitGroup", "trigger": f[0], "mode": "sequential"})
	}

	return fmt.Sprintf("pending=%s trig=%v", showOrSums(sortedCopy(w.wg.PendingElements().ToSlice())), w.wg.WasTriggered())
}

// wgRace replays the schedule of the Lean witness on the real code through the verif hook: Add(x) of an already
// pending x is parked between the failed set insertion and the counter correction, Done(x) runs to completion, then
// the Add continues.  Afterwards nothing is pending and the last pending element has been marked done.
func wgRace(r failer, x int) string {
	wg := reactive.NewWaitGroup[int](x)
	parked, resume := make(chan struct{}), make(chan struct{})
	reactive.VerifWaitGroupAddWindow = func() {
		close(parked)
		<-resume
	}
	defer func() { reactive.VerifWaitGroupAddWindow = nil }()
	finished := make(chan struct{})
	go func() {
		defer close(finished)
		wg.Add(x)
	}()
	select {
	case <-parked:
	case <-time.After(20 * time.Second):
		reactive.VerifWaitGroupAddWindow = nil
		r.Fail("wait-group", "the duplicate Add never reached the hook window", map[string]string{"construct": "WaitGroup", "trigger": "race", "mode": "hook-missing"})

		return "hook-not-reached"
	}
	wg.Done(x)
	close(resume)
	select {
	case <-finished:
	case <-time.After(20 * time.Second):
		r.Fail("progress-watchdog", "WaitGroup.Add did not return", map[string]string{"construct": "WaitGroup", "trigger": "race", "mode": "hang"})

		return "hang"
	}
	pending := sortedCopy(wg.PendingElements().ToSlice())
	if len(pending) == 0 && !wg.WasTriggered() {
		r.Fail("wait-group", fmt.Sprintf("Add(%d) of a pending element raced with Done(%d): nothing is pending, the last pending element was marked done, but the WaitGroup never triggered", x, x),
			map[string]string{"construct": "WaitGroup", "trigger": "duplicate-Add-vs-Done", "mode": "forced-schedule"})
	}

	return fmt.Sprintf("pending=%s trig=%v finished=true", showList(pending), wg.WasTriggered())
}

// endregion
