package main

// Forced schedules through the hook VerifOnUpdateWindow (ds/reactive OnUpdate: after the new callback was registered and
// the current value read under the value mutex, before the initial invocation): the subscribing call - the constructor of a
// DerivedVariable, InheritFrom of a variable or of a DerivedSet, SubtractReactive, Counter.Monitor - is parked in the k-th
// window and a writer runs.  A write to the input that is being subscribed must wait for the initial invocation (the new
// callback's execution lock is held since before the value mutex was released) and be delivered after it; a write to any
// other input runs to completion inside the window.  Whatever happens, once both have returned the derived value must
// equal its defining function.

import (
	"fmt"
	"strings"
	"sync/atomic"
	"time"

	"verifharness/hx"

	"github.com/iotaledger/hive.go/ds"
	"github.com/iotaledger/hive.go/ds/reactive"
)

// inWindow runs subscribe() with the k-th OnUpdate window parked until write() has returned (or, when the write has
// to wait for the subscriber, for `wait`).  The hook is global: scenarios run one at a time.
//
// mustWait: the writer changes the value of the input whose subscription is parked.  Its callback is registered and its
// execution lock is held by the subscriber, so the writer cannot return before the subscriber has left the window; if it
// does, the new callback was invoked (or skipped) ahead of the initial invocation, which will then deliver the stale
// snapshot - reported at once through overtaken() (the process may not survive what follows: UnlockExecution of a lock
// that was never taken is a fatal runtime error).
func inWindow(k int, wait time.Duration, mustWait bool, overtaken func(), subscribe, write func()) {
	var calls atomic.Int32
	parked, writerDone, subDone := make(chan struct{}), make(chan struct{}), make(chan struct{})
	reactive.VerifOnUpdateWindow = func() {
		if int(calls.Add(1)) == k {
			close(parked)
			select {
			case <-writerDone:
				if mustWait {
					overtaken()
				}
			case <-time.After(wait):
			}
		}
	}
	defer func() { reactive.VerifOnUpdateWindow = nil }()
	parMust(func() {
		defer close(subDone)
		subscribe()
	}, func() {
		defer close(writerDone)
		select {
		case <-parked:
		case <-subDone:
		}
		write()
	})
}

// stress onupdate dvar <fn> <inits> <k> <i:v,…> | inherit <init target> <init src> <v> | counter <cond> <init> <v>
// | dset <k> <set> <add|del> <x> | sub <k> <set> <add|del> <x>
func stressOnUpdate(r *hx.Run, f []string) {
	desc := strings.Join(f, " ")
	blockedWait, freeWait := 5*time.Millisecond, 3*time.Second
	// streamed at once (the main goroutine is waiting for the scenario and does not touch r meanwhile)
	overtaken := func() {
		r.Fail("onupdate-window", desc+": the writer that changed the input returned while the subscription to this input was between its registration and its initial invocation: "+
			"the new callback did not hold back the writer (execution lock not held), so the initial invocation delivers a stale snapshot after the newer value",
			map[string]string{"construct": f[2], "trigger": "writer-overtook-initial-invocation", "mode": "forced"})
	}
	switch f[2] {
	case "dvar":
		fn, inits, k := f[3], parseInts(f[4]), atoi(f[5])
		type write struct{ i, v int }
		var writes []write
		for _, p := range strings.Split(f[6], ",") {
			if iv := strings.Split(p, ":"); len(iv) == 2 {
				writes = append(writes, write{atoi(iv[0]), atoi(iv[1])})
			}
		}
		n := len(inits)
		guarded(r, "DerivedVariable", desc, func() (o outcome) {
			in := make([]reactive.Variable[int], n)
			for i := range in {
				in[i] = reactive.NewVariable[int]().Init(inits[i])
			}
			fun := fnOf(fn)
			wait, mustWait := freeWait, false
			cur := append([]int{}, inits...)
			for _, w := range writes {
				if w.i == k-1 {
					wait = blockedWait
					if w.i < n && cur[w.i] != w.v {
						mustWait = true
					}
				}
				if w.i < n {
					cur[w.i] = w.v
				}
			}
			var d reactive.DerivedVariable[int]
			inWindow(k, wait, mustWait, overtaken, func() { d = buildDerived(n, fun, in) }, func() {
				for _, w := range writes {
					if w.i < n {
						in[w.i].Set(w.v)
					}
				}
			})
			vals := make([]int, n)
			for i := range in {
				vals[i] = in[i].Get()
			}
			got := d.Get()
			o.lines = append(o.lines, fmt.Sprintf("q dvar %s %s %d", fn, joinInts(vals), got))
			o.pairs = append(o.pairs, [2]string{fmt.Sprintf("dvw %s %s %d %s", fn, joinInts(inits), k, f[6]), fmt.Sprintf("d=%d in=%v finished=true", got, vals)})
			if exp := fun(vals); exp != got {
				o.fails = append(o.fails, failure{"derived-variable", fmt.Sprintf("%s: a writer ran while the constructor (NewDerivedVariable%d, inputs at creation %v) was between the registration and the initial invocation of subscription %d: inputs now %v, compute = %d, DerivedVariable.Get() = %d",
					desc, n, inits, k, vals, exp, got), map[string]string{"construct": "DerivedVariable", "trigger": "write-in-onupdate-window", "mode": "forced"}})
			}
			d.Unsubscribe()

			return o
		})
	case "inherit":
		t0, s0, v := atoi(f[3]), atoi(f[4]), atoi(f[5])
		guarded(r, "InheritFrom", desc, func() (o outcome) {
			src := reactive.NewVariable[int]().Init(s0)
			target := reactive.NewVariable[int]().Init(t0)
			inWindow(1, blockedWait, v != s0, overtaken, func() { target.InheritFrom(src) }, func() { src.Set(v) })
			a, got := src.Get(), target.Get()
			o.lines = append(o.lines, fmt.Sprintf("q dvar sum %d %d", a, got))
			if a != got {
				o.fails = append(o.fails, failure{"inherit-from", fmt.Sprintf("%s: source = %d, inheriting variable = %d", desc, a, got),
					map[string]string{"construct": "InheritFrom", "trigger": "write-in-onupdate-window", "mode": "forced"}})
			}

			return o
		})
	case "counter":
		cname, v0, v := f[3], atoi(f[4]), atoi(f[5])
		guarded(r, "Counter", desc, func() (o outcome) {
			cond := condOf(cname)
			counter := reactive.NewCounter[int](cond)
			other := reactive.NewVariable[int]().Init(1)
			counter.Monitor(other)
			x := reactive.NewVariable[int]().Init(v0)
			inWindow(1, blockedWait, v != v0, overtaken, func() { counter.Monitor(x) }, func() { x.Set(v) })
			vals := []int{other.Get(), x.Get()}
			exp := 0
			for _, y := range vals {
				if cond(y) {
					exp++
				}
			}
			got := counter.Get()
			o.lines = append(o.lines, fmt.Sprintf("q counter %s %s %d", cname, joinInts(vals), got))
			if exp != got {
				o.fails = append(o.fails, failure{"counter", fmt.Sprintf("%s: monitored values %v, Counter = %d", desc, vals, got),
					map[string]string{"construct": "Counter", "trigger": "write-in-onupdate-window", "mode": "forced"}})
			}

			return o
		})
	case "dset", "sub":
		k, which, add, x := atoi(f[3]), atoi(f[4]), f[5] == "add", atoi(f[6])
		guarded(r, "Stacked", desc, func() (o outcome) {
			init := [3][]int{{9}, {8}, {}}
			if !add {
				init[which%2] = append(init[which%2], x)
			}
			nodes := newStackBases(init)
			spec := setNode{kind: f[2], in: []int{0, 1}}
			wait := freeWait
			if which%2 == k-1 {
				wait = blockedWait
			}
			inWindow(k, wait, which%2 == k-1 && x != 8 && x != 9, overtaken, func() { nodes = append(nodes, buildStackNode(nodes, spec)) }, func() {
				s := nodes[which%2].set
				if add {
					s.Add(x)
				} else {
					s.Apply(ds.NewSetMutations[int]().WithDeletedElements(ds.NewSet(x)))
				}
			})
			lines, bad := checkStack(nodes)
			o.lines = lines
			if bad != "" {
				o.fails = append(o.fails, failure{"stacked-derivation", fmt.Sprintf("%s (node 3 = %s[0 1]; a writer ran between the registration and the initial delivery of subscription %d): %s", desc, f[2], k, bad),
					map[string]string{"construct": "SetSubscription", "trigger": "write-in-onupdate-window", "mode": "forced"}})
			}

			return o
		})
	default:
		r.Line(desc, "bad-op")
	}
	r.Count("onupdate:" + f[2])
}

func genOnUpdate(rng *hx.Rng) string {
	switch rng.Intn(8) {
	case 0:
		return fmt.Sprintf("stress onupdate inherit %d %d %d", rng.Range(-1, 2), rng.Range(-1, 2), rng.Range(-1, 2))
	case 1:
		return fmt.Sprintf("stress onupdate counter %s %d %d", hx.Pick(rng, []string{"nonzero", "gt2", "even"}), rng.Range(-1, 3), rng.Range(-1, 3))
	case 2, 3:
		return fmt.Sprintf("stress onupdate %s %d %d %s %d", hx.Pick(rng, []string{"dset", "sub"}), rng.Range(1, 2), rng.Intn(2), hx.Pick(rng, []string{"add", "del"}), rng.Range(1, 5))
	}
	n := rng.Range(1, 4)
	inits := make([]int, n)
	for i := range inits {
		inits[i] = rng.Range(-1, 2)
	}
	k := rng.Range(1, n)
	var ws []string
	for c := rng.Range(1, 2); c > 0; c-- {
		i := rng.Intn(n)
		if rng.Bool() {
			i = k - 1
		}
		ws = append(ws, fmt.Sprintf("%d:%d", i, rng.Range(-1, 2)))
	}

	return fmt.Sprintf("stress onupdate dvar %s %s %d %s", hx.Pick(rng, []string{"lin", "sum", "firstnz"}), joinInts(inits), k, strings.Join(ws, ","))
}
