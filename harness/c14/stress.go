package main

// Stress to quiescence: real goroutines write the inputs (and change the structure: subscribe / unsubscribe sources,
// add / remove elements, monitor / unmonitor inputs) concurrently; after all of them have returned the inputs' final
// values and the derived value are read, the defining function is recomputed in Go (property oracle) and the pair is
// printed as a `q …` request that the Lean driver decides with the predicate the C14 theorems are about.
// Every scenario runs under a progress watchdog: a scenario that does not finish is an oracle failure (deadlock).

import (
	"fmt"
	"runtime"
	"sort"
	"strconv"
	"strings"
	"sync"
	"time"

	"verifharness/hx"

	"github.com/iotaledger/hive.go/ds"
	"github.com/iotaledger/hive.go/ds/reactive"
)

var watchdogTimeout = 40 * time.Second

// hung remembers constructs whose scenario already hung (their goroutines are still blocked): no point in waiting again.
var hung = map[string]bool{}

type outcome struct {
	lines []string    // requests answered `accept` by the implementation (the Lean driver decides them with its predicates)
	pairs [][2]string // requests with the implementation's own answer (replayed by the Lean driver on a protocol model)
	fails []failure
}

type failure struct {
	oracle, detail string
	sig            map[string]string
}

// guarded runs a scenario body under the watchdog.
func guarded(r *hx.Run, construct, desc string, body func() outcome) {
	r.Line(desc, "ok")
	if hung[construct] {
		r.Count("stress-skipped-after-hang:" + construct)

		return
	}
	ch := make(chan outcome, 1)
	go func() {
		var o outcome
		if p := hx.Safely(func() { o = body() }); p != "" {
			o.fails = append(o.fails, failure{"no-panic", "panic in " + desc + ": " + p,
				map[string]string{"construct": construct, "trigger": "panic", "mode": "stress"}})
		}
		ch <- o
	}()
	select {
	case o := <-ch:
		for _, l := range o.lines {
			r.Line(l, "accept")
		}
		for _, l := range o.pairs {
			r.Line(l[0], l[1])
		}
		for _, f := range o.fails {
			r.Fail(f.oracle, f.detail, f.sig)
		}
		r.Count("stress-done:" + construct)
	case <-time.After(watchdogTimeout):
		hung[construct] = true
		r.Fail("progress-watchdog", fmt.Sprintf("scenario %q did not reach quiescence within %s (deadlock)", desc, watchdogTimeout),
			map[string]string{"construct": construct, "trigger": "hang", "mode": "stress"})
	}
}

// par runs the jobs in goroutines released together and waits for all of them.  A panic inside a job is recovered
// and returned (a panic in a goroutine of the code under test must not take the harness down).
func par(fs ...func()) (panics []string) {
	var wg sync.WaitGroup
	var mu sync.Mutex
	start := make(chan struct{})
	for _, f := range fs {
		wg.Add(1)
		go func() {
			defer wg.Done()
			<-start
			if p := hx.Safely(f); p != "" {
				mu.Lock()
				panics = append(panics, p)
				mu.Unlock()
			}
		}()
	}
	close(start)
	wg.Wait()

	return panics
}

// parMust turns recovered panics of the jobs into a panic of the scenario body (reported by guarded as an oracle failure).
func parMust(fs ...func()) {
	if ps := par(fs...); len(ps) > 0 {
		panic(strings.Join(ps, " | "))
	}
}

// region derived variable /////////////////////////////////////////////////////////////////////////////////////////

func fnOf(name string) func([]int) int {
	switch name {
	case "lin":
		return func(a []int) int {
			s := 0
			for i, x := range a {
				s += (i + 1) * x
			}

			return s
		}
	case "max":
		return func(a []int) int {
			m := 0
			for _, x := range a {
				if x > m {
					m = x
				}
			}

			return m
		}
	case "firstnz":
		return func(a []int) int {
			for _, x := range a {
				if x != 0 {
					return x
				}
			}

			return 0
		}
	case "parity":
		return func(a []int) int {
			s := 0
			for _, x := range a {
				s += x
			}
			// Lean's Int.% is the non-negative remainder for a positive modulus
			return ((s % 2) + 2) % 2
		}
	}

	return func(a []int) int {
		s := 0
		for _, x := range a {
			s += x
		}

		return s
	}
}

func buildDerived(n int, f func([]int) int, in []reactive.Variable[int]) reactive.DerivedVariable[int] {
	switch n {
	case 1:
		return reactive.NewDerivedVariable[int](func(_ int, a int) int { return f([]int{a}) }, in[0])
	case 2:
		return reactive.NewDerivedVariable2[int](func(_ int, a, b int) int { return f([]int{a, b}) }, in[0], in[1])
	case 3:
		return reactive.NewDerivedVariable3[int](func(_ int, a, b, c int) int { return f([]int{a, b, c}) }, in[0], in[1], in[2])
	}

	return reactive.NewDerivedVariable4[int](func(_ int, a, b, c, d int) int { return f([]int{a, b, c, d}) }, in[0], in[1], in[2], in[3])
}

// stress dvar <fn> <n> <writersPerInput> <iters> <ctorConcurrent 0|1> <chain 0|1> <seed>
func stressDVar(r *hx.Run, f []string) {
	fn, n, wpi, iters, conc, chain, seed := f[2], atoi(f[3]), atoi(f[4]), atoi(f[5]), f[6] == "1", f[7] == "1", mustU64(f[8])
	guarded(r, "DerivedVariable", strings.Join(f, " "), func() (o outcome) {
		rng := hx.NewRng(seed)
		in := make([]reactive.Variable[int], n)
		for i := range in {
			in[i] = reactive.NewVariable[int]().Init(rng.Range(-2, 3))
		}
		fun := fnOf(fn)
		var d, d2 reactive.DerivedVariable[int]
		build := func() {
			d = buildDerived(n, fun, in)
			if chain {
				d2 = reactive.NewDerivedVariable2[int](func(_ int, x, y int) int { return x + 2*y }, d, in[0])
			}
		}
		var jobs []func()
		if conc {
			jobs = append(jobs, build)
		} else {
			build()
		}
		for i := 0; i < n; i++ {
			for k := 0; k < wpi; k++ {
				wr, _ := rng.Fork()
				v := in[i]
				jobs = append(jobs, func() {
					for it := 0; it < iters; it++ {
						switch wr.Intn(10) { // every write path of an input variable
						case 0:
							v.Compute(func(cur int) int {
								if cur > 0 {
									return cur - 1
								}

								return cur + 1
							})
						case 1:
							v.DefaultTo(wr.Range(1, 3))
						case 2:
							v.ToggleValue(wr.Range(-2, 3))() // set, then reset to the zero value
						default:
							v.Set(wr.Range(-2, 3))
						}
					}
				})
			}
		}
		parMust(jobs...)
		vals := make([]int, n)
		for i := range in {
			vals[i] = in[i].Get()
		}
		got := d.Get()
		o.lines = append(o.lines, fmt.Sprintf("q dvar %s %s %d", fn, joinInts(vals), got))
		if exp := fun(vals); exp != got {
			o.fails = append(o.fails, failure{"derived-variable", fmt.Sprintf("%s: inputs %v, compute = %d, DerivedVariable.Get() = %d", strings.Join(f, " "), vals, exp, got),
				map[string]string{"construct": "DerivedVariable", "trigger": "quiescence", "mode": "stress"}})
		}
		if chain {
			got2 := d2.Get()
			o.lines = append(o.lines, fmt.Sprintf("q dvar lin %d,%d %d", got, vals[0], got2))
			if exp := got + 2*vals[0]; exp != got2 {
				o.fails = append(o.fails, failure{"derived-variable", fmt.Sprintf("%s: chained variable: inputs (%d,%d), compute = %d, Get() = %d", strings.Join(f, " "), got, vals[0], exp, got2),
					map[string]string{"construct": "DerivedVariable", "trigger": "quiescence-chain", "mode": "stress"}})
			}
		}

		return o
	})
}

// stress inherit <writers> <iters> <seed>
func stressInherit(r *hx.Run, f []string) {
	writers, iters, seed := atoi(f[2]), atoi(f[3]), mustU64(f[4])
	guarded(r, "InheritFrom", strings.Join(f, " "), func() (o outcome) {
		rng := hx.NewRng(seed)
		src := reactive.NewVariable[int]().Init(rng.Range(0, 3))
		v := reactive.NewVariable[int]().Init(rng.Range(-1, 2)) // may hold a value that the source's zero value has to overwrite
		jobs := []func(){func() { v.InheritFrom(src) }}
		for k := 0; k < writers; k++ {
			wr, _ := rng.Fork()
			jobs = append(jobs, func() {
				for it := 0; it < iters; it++ {
					src.Set(wr.Range(-2, 3))
				}
			})
		}
		parMust(jobs...)
		a, got := src.Get(), v.Get()
		o.lines = append(o.lines, fmt.Sprintf("q dvar sum %d %d", a, got))
		if a != got {
			o.fails = append(o.fails, failure{"inherit-from", fmt.Sprintf("%s: source = %d, inheriting variable = %d", strings.Join(f, " "), a, got),
				map[string]string{"construct": "InheritFrom", "trigger": "quiescence", "mode": "stress"}})
		}

		return o
	})
}

// endregion

// region sets /////////////////////////////////////////////////////////////////////////////////////////////////////

// randomSetWrite makes one write to s; with peers given, some writes take another (concurrently written) set of the
// scenario, or s itself, as their argument.
func randomSetWrite(rng *hx.Rng, s reactive.Set[int], peers ...reactive.Set[int]) {
	if len(peers) > 0 && rng.Chance(1, 4) {
		arg := hx.Pick(rng, peers)
		switch x := rng.Intn(10); {
		case x < 6:
			s.Replace(arg)
		case x < 7:
			s.Replace(arg.ReadOnly())
		case x < 8:
			s.Replace(s)
		case x < 9:
			s.AddAll(arg)
		default:
			s.DeleteAll(arg)
		}

		return
	}
	switch x := rng.Intn(100); {
	case x < 35:
		s.Add(rng.Range(1, 5))
	case x < 65:
		s.Delete(rng.Range(1, 5))
	case x < 82:
		s.Replace(ds.NewSet(randomSubset(rng)...))
	default:
		s.Apply(ds.NewSetMutations(randomSubset(rng)...).WithDeletedElements(ds.NewSet(randomSubset(rng)...)))
	}
}

func randomSubset(rng *hx.Rng) []int {
	var out []int
	for x := 1; x <= 5; x++ {
		if rng.Chance(1, 3) {
			out = append(out, x)
		}
	}

	return out
}

// stress dset <sources> <iters> <seed>
func stressDSet(r *hx.Run, f []string) {
	k, iters, seed := atoi(f[2]), atoi(f[3]), mustU64(f[4])
	guarded(r, "DerivedSet", strings.Join(f, " "), func() (o outcome) {
		rng := hx.NewRng(seed)
		srcs := make([]reactive.Set[int], k)
		for i := range srcs {
			srcs[i] = reactive.NewSet[int](randomSubset(rng)...)
		}
		derived := reactive.NewDerivedSet[int]()
		type sub struct {
			src   int
			unsub func()
		}
		var live []sub
		structural, _ := rng.Fork()
		jobs := []func(){func() {
			for it := 0; it < iters/4+2; it++ {
				if len(live) > 0 && structural.Chance(2, 5) {
					j := structural.Intn(len(live))
					live[j].unsub()
					live = append(live[:j], live[j+1:]...)
				} else {
					i := structural.Intn(k)
					live = append(live, sub{i, derived.InheritFrom(srcs[i])})
				}
			}
		}}
		for i := range srcs {
			wr, _ := rng.Fork()
			s := srcs[i]
			jobs = append(jobs, func() {
				for it := 0; it < iters; it++ {
					randomSetWrite(wr, s, srcs...)
				}
			})
		}
		parMust(jobs...)
		union := map[int]bool{}
		parts := []string{}
		for _, l := range live {
			el := sortedCopy(srcs[l.src].ToSlice())
			parts = append(parts, joinInts(el))
			for _, x := range el {
				union[x] = true
			}
		}
		got := sortedCopy(derived.ToSlice())
		o.lines = append(o.lines, strings.TrimSpace(fmt.Sprintf("q dset %d %s", len(parts), strings.Join(parts, " ")))+" "+joinInts(got))
		exp := []int{}
		for x := range union {
			exp = append(exp, x)
		}
		if !sameSet(exp, got) {
			o.fails = append(o.fails, failure{"derived-set-union", fmt.Sprintf("%s: sources %v, DerivedSet %v", strings.Join(f, " "), parts, got),
				map[string]string{"construct": "DerivedSet", "trigger": "quiescence", "mode": "stress"}})
		}

		return o
	})
}

// stress sub <others> <iters> <createConcurrent 0|1> <seed>
func stressSub(r *hx.Run, f []string) {
	k, iters, conc, seed := atoi(f[2]), atoi(f[3]), f[4] == "1", mustU64(f[5])
	guarded(r, "SubtractReactive", strings.Join(f, " "), func() (o outcome) {
		rng := hx.NewRng(seed)
		src := reactive.NewSet[int](randomSubset(rng)...)
		others := make([]reactive.Set[int], k)
		ro := make([]reactive.ReadableSet[int], k)
		for i := range others {
			others[i] = reactive.NewSet[int](randomSubset(rng)...)
			ro[i] = others[i]
		}
		var res reactive.Set[int]
		create := func() { res = src.SubtractReactive(ro...) }
		var jobs []func()
		if conc {
			jobs = append(jobs, create)
		} else {
			create()
		}
		allSets := append([]reactive.Set[int]{src}, others...)
		for _, s := range allSets {
			wr, _ := rng.Fork()
			jobs = append(jobs, func() {
				for it := 0; it < iters; it++ {
					randomSetWrite(wr, s, allSets...)
				}
			})
		}
		parMust(jobs...)
		parts := []string{}
		exp := []int{}
		for _, x := range src.ToSlice() {
			keep := true
			for _, ot := range others {
				if ot.Has(x) {
					keep = false
				}
			}
			if keep {
				exp = append(exp, x)
			}
		}
		for _, ot := range others {
			parts = append(parts, joinInts(sortedCopy(ot.ToSlice())))
		}
		got := sortedCopy(res.ToSlice())
		o.lines = append(o.lines, strings.TrimSpace(fmt.Sprintf("q sub %s %d %s", joinInts(sortedCopy(src.ToSlice())), k, strings.Join(parts, " ")))+" "+joinInts(got))
		if !sameSet(exp, got) {
			o.fails = append(o.fails, failure{"subtract-reactive", fmt.Sprintf("%s: source %v others %v result %v", strings.Join(f, " "), src.ToSlice(), parts, got),
				map[string]string{"construct": "SubtractReactive", "trigger": "quiescence", "mode": "stress"}})
		}

		return o
	})
}

// endregion

// region counter //////////////////////////////////////////////////////////////////////////////////////////////////

// stress counter <cond> <vars> <iters> <seed>
func stressCounter(r *hx.Run, f []string) {
	cname, nv, iters, seed := f[2], atoi(f[3]), atoi(f[4]), mustU64(f[5])
	guarded(r, "Counter", strings.Join(f, " "), func() (o outcome) {
		rng := hx.NewRng(seed)
		cond := condOf(cname)
		counter := reactive.NewCounter[int](cond)
		vars := make([]reactive.Variable[int], nv)
		for i := range vars {
			vars[i] = reactive.NewVariable[int]().Init(rng.Range(-1, 4))
		}
		type mon struct {
			v     int
			unsub func()
		}
		var live []mon
		structural, _ := rng.Fork()
		jobs := []func(){func() {
			for it := 0; it < iters/3+2; it++ {
				if len(live) > 0 && structural.Chance(2, 5) {
					j := structural.Intn(len(live))
					live[j].unsub()
					live = append(live[:j], live[j+1:]...)
				} else {
					i := structural.Intn(nv)
					live = append(live, mon{i, counter.Monitor(vars[i])})
				}
			}
		}}
		for i := range vars {
			wr, _ := rng.Fork()
			v := vars[i]
			jobs = append(jobs, func() {
				for it := 0; it < iters; it++ {
					v.Set(wr.Range(-1, 4))
				}
			})
		}
		parMust(jobs...)
		vals, exp := []int{}, 0
		for _, m := range live {
			x := vars[m.v].Get()
			vals = append(vals, x)
			if cond(x) {
				exp++
			}
		}
		got := counter.Get()
		o.lines = append(o.lines, fmt.Sprintf("q counter %s %s %d", cname, joinInts(vals), got))
		if exp != got {
			o.fails = append(o.fails, failure{"counter", fmt.Sprintf("%s: monitored values %v, Counter = %d", strings.Join(f, " "), vals, got),
				map[string]string{"construct": "Counter", "trigger": "quiescence", "mode": "stress"}})
		}

		return o
	})
}

// endregion

// region sorted set ///////////////////////////////////////////////////////////////////////////////////////////////

func sortedQuiescence[E elemType](w *ssWorld[E], desc string) (o outcome) {
	mode := "plain"
	if w.less {
		mode = "less"
	}
	els := sortedCopy(toInts(w.set.ToSlice()))
	ws := make([]string, len(els))
	for i, e := range els {
		ws[i] = fmt.Sprintf("%d:%d", e, w.weight(E(e)).Get())
	}
	wss := "-"
	if len(ws) > 0 {
		wss = strings.Join(ws, ",")
	}
	o.lines = append(o.lines, fmt.Sprintf("q sorted %s %s %s %s %d %d", mode, wss, joinInts(toInts(w.set.Descending())), joinInts(toInts(w.set.Ascending())),
		int(w.set.HeaviestElement().Get()), int(w.set.LightestElement().Get())))
	if bad := w.check(); bad != "" {
		o.fails = append(o.fails, failure{"sorted-set", desc + ": " + bad, map[string]string{"construct": "SortedSet", "trigger": "quiescence", "mode": "stress"}})
	}

	return o
}

func stressSortedT[E elemType](r *hx.Run, f []string, less bool) {
	kind, iters, seed := f[1], atoi(f[3]), mustU64(f[4])
	desc := strings.Join(f, " ")
	guarded(r, "SortedSet", desc, func() outcome {
		rng := hx.NewRng(seed)
		w := newSSWorld[E](less)
		var jobs []func()
		if kind == "sortedrace" {
			// one element: Add/Delete against updates of its weight
			e := E(3)
			jobs = append(jobs, func() {
				for it := 0; it < iters; it++ {
					w.set.Add(e)
					w.set.Delete(e)
				}
			}, func() {
				for it := 0; it < iters; it++ {
					w.weight(e).Set(it % 7)
				}
			})
		} else {
			for k := 0; k < 2; k++ {
				st, _ := rng.Fork()
				jobs = append(jobs, func() {
					for it := 0; it < iters; it++ {
						switch x := st.Intn(10); {
						case x < 5:
							w.set.Add(E(st.Range(1, 6)))
						case x < 9:
							w.set.Delete(E(st.Range(1, 6)))
						default:
							w.set.Apply(ds.NewSetMutations(toElems[E](randomSubset(st))...).WithDeletedElements(ds.NewSet(toElems[E](randomSubset(st))...)))
						}
					}
				})
			}
			for k := 0; k < 3; k++ {
				wr, _ := rng.Fork()
				jobs = append(jobs, func() {
					for it := 0; it < iters; it++ {
						w.weight(E(wr.Range(1, 6))).Set(wr.Range(-2, 4))
					}
				})
			}
			jobs = append(jobs, func() {
				for it := 0; it < iters; it++ {
					_ = w.set.Ascending()
					_ = w.set.Descending()
				}
			})
		}
		parMust(jobs...)

		return sortedQuiescence(w, desc)
	})
}

// stress sorted|sortedrace <plain|less> <iters> <seed>
func stressSorted(r *hx.Run, f []string) {
	if f[2] == "less" {
		stressSortedT[lessEl](r, f, true)
	} else {
		stressSortedT[plainEl](r, f, false)
	}
}

// endregion

// region eviction state ///////////////////////////////////////////////////////////////////////////////////////////

// stress evict <iters> <seed>
func stressEvict(r *hx.Run, f []string) {
	iters, seed := atoi(f[2]), mustU64(f[3])
	guarded(r, "EvictionState", strings.Join(f, " "), func() (o outcome) {
		rng := hx.NewRng(seed)
		st := reactive.NewEvictionState[int]()
		var mu sync.Mutex
		type held struct {
			slot int
			ev   reactive.Event
		}
		var all []held
		var jobs []func()
		for k := 0; k < 2; k++ {
			ev, _ := rng.Fork()
			jobs = append(jobs, func() {
				slot := 0
				for it := 0; it < iters; it++ {
					slot += ev.Range(-1, 2)
					if slot < 0 {
						slot = 0
					}
					st.Evict(slot)
				}
			})
		}
		for k := 0; k < 3; k++ {
			rq, _ := rng.Fork()
			jobs = append(jobs, func() {
				for it := 0; it < iters; it++ {
					s := rq.Range(0, iters+2)
					e := st.EvictionEvent(s)
					mu.Lock()
					all = append(all, held{s, e})
					mu.Unlock()
				}
			})
		}
		parMust(jobs...)
		last := st.LastEvictedSlot()
		// probe: no untriggered event may be left in the map for an evicted slot (a request now gets a triggered event)
		for slot := 0; slot <= last; slot++ {
			all = append(all, held{slot, st.EvictionEvent(slot)})
		}
		seen := map[string]bool{}
		var parts []string
		bad := ""
		for _, h := range all {
			t := 0
			if h.ev.WasTriggered() {
				t = 1
			}
			if (t == 1) != (h.slot <= last) && bad == "" {
				bad = fmt.Sprintf("event of slot %d has triggered=%v but the last evicted slot is %d", h.slot, t == 1, last)
			}
			p := fmt.Sprintf("%d:%d", h.slot, t)
			if !seen[p] {
				seen[p] = true
				parts = append(parts, p)
			}
		}
		sort.Strings(parts)
		o.lines = append(o.lines, fmt.Sprintf("q evict %d %s", last, strings.Join(parts, ",")))
		if bad != "" {
			o.fails = append(o.fails, failure{"eviction", strings.Join(f, " ") + ": " + bad,
				map[string]string{"construct": "EvictionState", "trigger": "quiescence", "mode": "stress"}})
		}

		return o
	})
}

// stress evictsame <slots> <callers> <seed>: for every fresh slot, <callers> barrier-started goroutines ask for
// EvictionEvent(slot) while another goroutine evicts the previous slot.  EvictionEvent only holds the read lock of the
// eviction state and relies on ShrinkingMap.GetOrCreate being atomic: all callers must get the SAME event object, and
// once the slot is evicted every handed-out event must have triggered (an orphan created by a lost race never does).
func stressEvictSame(r *hx.Run, f []string) {
	slots, callers, seed := atoi(f[2]), atoi(f[3]), mustU64(f[4])
	_ = seed
	if runtime.GOMAXPROCS(0) < 4 {
		runtime.GOMAXPROCS(4)
	}
	guarded(r, "EvictionState", strings.Join(f, " "), func() (o outcome) {
		st := reactive.NewEvictionState[int]()
		type held struct {
			slot int
			ev   reactive.Event
		}
		var all []held
		distinct := ""
		for slot := 1; slot <= slots; slot++ {
			got := make([]reactive.Event, callers)
			jobs := make([]func(), 0, callers+1)
			for k := 0; k < callers; k++ {
				jobs = append(jobs, func() { got[k] = st.EvictionEvent(slot) })
			}
			prev := slot - 1
			jobs = append(jobs, func() { st.Evict(prev) })
			parMust(jobs...)
			for k, ev := range got {
				if ev != got[0] && distinct == "" {
					distinct = fmt.Sprintf("EvictionEvent(%d) returned different event objects to concurrent callers 0 and %d", slot, k)
				}
				if k == 0 || ev != got[0] {
					all = append(all, held{slot, ev})
				}
			}
		}
		st.Evict(slots)
		last := st.LastEvictedSlot()
		seen := map[string]bool{}
		var parts []string
		bad := ""
		for _, h := range all {
			t := 0
			if h.ev.WasTriggered() {
				t = 1
			}
			if (t == 1) != (h.slot <= last) && bad == "" {
				bad = fmt.Sprintf("an event handed out for slot %d has triggered=%v but the last evicted slot is %d", h.slot, t == 1, last)
			}
			if p := fmt.Sprintf("%d:%d", h.slot, t); !seen[p] {
				seen[p] = true
				parts = append(parts, p)
			}
		}
		o.lines = append(o.lines, fmt.Sprintf("q evict %d %s", last, strings.Join(parts, ",")))
		if distinct != "" {
			o.fails = append(o.fails, failure{"eviction", strings.Join(f, " ") + ": " + distinct,
				map[string]string{"construct": "EvictionState", "trigger": "same-event", "mode": "stress"}})
		}
		if bad != "" {
			o.fails = append(o.fails, failure{"eviction", strings.Join(f, " ") + ": " + bad,
				map[string]string{"construct": "EvictionState", "trigger": "quiescence-orphan", "mode": "stress"}})
		}

		return o
	})
}

// endregion

// region wait group ///////////////////////////////////////////////////////////////////////////////////////////////

// stress wg <workers> <iters> <seed>: element 0 is a guard that stays pending until all workers are done, so the group
// must not trigger before the guard is marked done and must trigger when it is.
func stressWG(r *hx.Run, f []string) {
	workers, iters, seed := atoi(f[2]), atoi(f[3]), mustU64(f[4])
	guarded(r, "WaitGroup", strings.Join(f, " "), func() (o outcome) {
		rng := hx.NewRng(seed)
		wg := reactive.NewWaitGroup[int](0)
		var jobs []func()
		for k := 0; k < workers; k++ {
			wr, _ := rng.Fork()
			jobs = append(jobs, func() {
				for it := 0; it < iters; it++ {
					xs := []int{wr.Range(1, 3)}
					if wr.Chance(1, 3) {
						xs = append(xs, wr.Range(1, 3))
					}
					if wr.Bool() {
						wg.Add(xs...)
					} else {
						wg.Done(xs...)
					}
				}
			})
		}
		parMust(jobs...)
		if wg.WasTriggered() {
			o.fails = append(o.fails, failure{"wait-group", strings.Join(f, " ") + ": triggered while the guard element was still pending",
				map[string]string{"construct": "WaitGroup", "trigger": "early-trigger", "mode": "stress"}})
		}
		rest := sortedCopy(wg.PendingElements().ToSlice())
		for _, x := range rest {
			if x != 0 {
				wg.Done(x)
			}
		}
		wg.Done(0)
		pending := sortedCopy(wg.PendingElements().ToSlice())
		o.lines = append(o.lines, fmt.Sprintf("q wg %s 1 %v", joinInts(pending), wg.WasTriggered()))
		if len(pending) != 0 || !wg.WasTriggered() {
			o.fails = append(o.fails, failure{"wait-group", fmt.Sprintf("%s: after the last pending element (guard) was marked done: pending=%v triggered=%v", strings.Join(f, " "), pending, wg.WasTriggered()),
				map[string]string{"construct": "WaitGroup", "trigger": "quiescence", "mode": "stress"}})
		}

		return o
	})
}

// endregion

func mustU64(s string) uint64 {
	n, err := strconv.ParseUint(s, 10, 64)
	if err != nil {
		panic("bad seed " + s)
	}

	return n
}

func runStress(r *hx.Run, f []string) {
	switch f[1] {
	case "dvar":
		stressDVar(r, f)
	case "inherit":
		stressInherit(r, f)
	case "dset":
		stressDSet(r, f)
	case "sub":
		stressSub(r, f)
	case "counter":
		stressCounter(r, f)
	case "sorted", "sortedrace":
		stressSorted(r, f)
	case "evict":
		stressEvict(r, f)
	case "evictsame":
		stressEvictSame(r, f)
	case "wg":
		stressWG(r, f)
	case "sizes":
		stressSizes(r, f)
	case "stack":
		stressStack(r, f)
	case "stackforced":
		stressStackForced(r, f)
	case "basewrite":
		stressBaseWrite(r, f)
	case "stackvar":
		stressStackVar(r, f)
	case "stacksorted":
		stressStackSorted(r, f)
	case "dvzero":
		stressDVZero(r, f)
	case "evictmax":
		stressEvictMax(r, f)
	case "ctorrace":
		stressCtorRace(r, f)
	case "onupdate":
		stressOnUpdate(r, f)
	default:
		r.Line(strings.Join(f, " "), "bad-op")
	}
}
