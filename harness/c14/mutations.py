#!/usr/bin/env python3
"""Mutation runs for C14 (development aid, not part of the check).

    git -C /repo worktree add /tmp/wt-c14 HEAD && python3 harness/c14/mutations.py [names...] ; git -C /repo worktree remove --force /tmp/wt-c14

Each mutation is applied to the scratch worktree, `VERIF_REPO=/tmp/wt-c14 ./check C14` is run, and the VIOLATION lines with the
failing input / broken obligation are printed.  Results are recorded in design/C14.md."""
import subprocess, sys, os, re
WT = "/tmp/wt-c14"
MUTS = {
 "M1-unsubscribe-under-mutex": ("ds/reactive/sorted_set_impl.go",
    "\t\tunsubscribeFromWeightUpdates = deletedElement.unsubscribeFromWeightUpdates\n",
    "\t\tdeletedElement.unsubscribeFromWeightUpdates()\n"),
 "M2-index-not-decremented": ("ds/reactive/sorted_set_impl.go",
    "\t\t\ts.sortedElements[i].index--\n", ""),
 "M3-swap-le": ("ds/reactive/sorted_set_impl.go",
    "if swapped = left.weight < right.weight; !swapped", "if swapped = left.weight <= right.weight; !swapped"),
 "M4-counter-flag-not-updated": ("ds/reactive/counter_impl.go",
    "\t\t\t\tconditionWasTrue = conditionIsTrue\n", ""),
 "M5-unsubscribe-keeps-source-elements": ("ds/reactive/set_impl.go",
    "unsubscribeCallbacks = append(unsubscribeCallbacks, unsubscribeFromSource, removeSourceElements)",
    "_ = removeSourceElements\n\t\tunsubscribeCallbacks = append(unsubscribeCallbacks, unsubscribeFromSource)"),
 "M6-collector-threshold": ("ds/set_impl.go",
    "== lo.Cond(increase, threshold, threshold-1) && !opposingSet.Delete(element)",
    "== lo.Cond(increase, threshold, threshold) && !opposingSet.Delete(element)"),
 "M7-compute-without-update-order-mutex": ("ds/reactive/variable_impl.go",
    "\tv.updateOrderMutex.Lock()\n\tdefer v.updateOrderMutex.Unlock()\n\n\tnewValue, previousValue, updateID, registeredCallbacks := v.updateValue(computeFunc)",
    "\tnewValue, previousValue, updateID, registeredCallbacks := v.updateValue(computeFunc)"),
 "M8-eviction-event-off-by-one": ("ds/reactive/eviction_state_impl.go",
    "if e.lastEvictedSlot == nil || slot > *e.lastEvictedSlot {", "if e.lastEvictedSlot == nil || slot >= *e.lastEvictedSlot {"),
 "M9-waitgroup-correction-does-not-trigger": ("ds/reactive/wait_group_impl.go",
    "\t\t\tif w.pendingElementsCounter.Add(-1) == 0 {\n\t\t\t\tw.Trigger()\n\t\t\t}\n", "\t\t\tw.pendingElementsCounter.Add(-1)\n"),
 "M10-evict-loop-stops-early": ("ds/reactive/eviction_state_impl.go",
    "for i := startingSlot; i <= slot; i++ {", "for i := startingSlot; i < slot; i++ {"),
 "M11-derived-var-stale-read": ("ds/reactive/variable.go",
    "d.Compute(func(currentValue Type) Type { return compute(currentValue, input1, input2.Get()) })",
    "other := input2.Get()\n\t\t\t\td.Compute(func(currentValue Type) Type { return compute(currentValue, input1, other) })"),
 "N1-window-fix-reverted": ("ds/reactive/sorted_set_impl.go",
    "\t\t\tif initialUpdate {\n\t\t\t\tinitialUpdate = false\n\t\t\t} else {",
    "\t\t\tif initialUpdate || listElement.unsubscribeFromWeightUpdates == nil {\n\t\t\t\tinitialUpdate = false\n\t\t\t} else {"),
 "N3-subtract-arith-outside-mutex": ("ds/reactive/set_impl.go",
    "\t\ts.Compute(func(ds.ReadableSet[ElementType]) ds.SetMutations[ElementType] {\n\t\t\treturn setArithmetic.Add(mutations)\n\t\t})",
    "\t\ts.Apply(setArithmetic.Add(mutations))"),
 "N5-onupdate-unlocks-before-lockexecution": ("ds/reactive/variable_impl.go",
    "\tcreatedCallback.LockExecution(r.uniqueUpdateID)\n\tdefer createdCallback.UnlockExecution()\n\n\tr.valueMutex.Unlock()",
    "\tr.valueMutex.Unlock()\n\n\tcreatedCallback.LockExecution(r.uniqueUpdateID)\n\tdefer createdCallback.UnlockExecution()"),
 "N6-getorcreate-without-recheck": ("ds/shrinkingmap/shrinkingmap.go",
    "\ts.mutex.RLock()\n\tif existingValue, exists := s.m[key]; exists {\n\t\ts.mutex.RUnlock()\n\n\t\treturn existingValue, false\n\t}\n\ts.mutex.RUnlock()\n\n\ts.mutex.Lock()\n\tdefer s.mutex.Unlock()\n\n\tif existingValue, exists := s.m[key]; exists {\n\t\treturn existingValue, false\n\t}\n\n\tvalue = defaultValueFunc()",
    "\tif existingValue, exists := s.Get(key); exists {\n\t\treturn existingValue, false\n\t}\n\n\ts.mutex.Lock()\n\tdefer s.mutex.Unlock()\n\n\tvalue = defaultValueFunc()"),
 "N7-replace-second-read-of-live-argument": ("ds/reactive/set_impl.go",
    "\ts.value.Replace(newElements)\n", "\ts.value.Replace(elements)\n"),
 "M12-replace-reports-everything": ("ds/reactive/set_impl.go",
    "addedElements := newElements.Filter(func(element ElementType) bool { return !s.value.Has(element) })",
    "addedElements := newElements.Filter(func(element ElementType) bool { return true })"),
}
which = sys.argv[1:] or list(MUTS)
for name in which:
    f, old, new = MUTS[name]
    subprocess.run(["git", "-C", WT, "checkout", "-q", "--", "."], check=True)
    p = os.path.join(WT, f)
    s = open(p).read()
    assert s.count(old) == 1, (name, s.count(old))
    open(p, "w").write(s.replace(old, new))
    e = dict(os.environ, VERIF_REPO=WT)
    r = subprocess.run(["./check", "C14"], cwd="/verif", env=e, stdout=subprocess.PIPE, stderr=subprocess.STDOUT, timeout=3000)
    out = r.stdout.decode()
    lines = [l for l in out.split("\n") if l.startswith("VIOLATION") or l.startswith("KNOWN") or "tier=" in l]
    print("=====", name, "exit", r.returncode)
    for l in lines: print("  ", l)
    # details of violations
    import json, glob
    for l in lines:
        m = re.search(r"replay=(\S+)", l)
        if m and os.path.exists(m.group(1)):
            d = json.load(open(m.group(1)))
            if d.get("kind") == "input":
                print("     ->", d.get("signature"), (d["property_oracle"]["detail"] or "")[:160])
            else:
                for b in d.get("broken", []):
                    fl = b.get("failures")
                    print("     -> broken:", b.get("theorem_or_correspondence"), str(fl)[:300])
                    print("        failing Lean files:", sorted(set(re.findall(r"(Hive/[\\w/]+\\.lean):\\d+:\\d+: error", str(fl)))))
    sys.stdout.flush()
subprocess.run(["git", "-C", WT, "checkout", "-q", "--", "."], check=True)
