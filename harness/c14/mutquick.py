#!/usr/bin/env python3
"""Harness-only mutation run for C14 (development aid, not part of the check): applies one textual mutation to a scratch
worktree of /repo, builds harness/c14 against it through an alternative go.mod, runs it (quick tier) and pipes ops.txt into the
already built Lean driver.  Does not touch lean/Hive/Gen and does not call lake, so it can run while the Lean side is being
worked on.  The skeleton / type-fact obligations are NOT evaluated here (use `VERIF_REPO=… ./check C14` for those).

    python3 harness/c14/mutquick.py NAME FILE 'old text' 'new text' [FILE2 old2 new2 …]
"""
import json, os, subprocess, sys, shutil
name = sys.argv[1]
edits = sys.argv[2:]
WT = f"/tmp/wt-c14-{name}"
SC = f"/verif/.scratch/mutquick-{name}"
env = dict(os.environ, GOFLAGS="-mod=mod", GOPROXY="off", GOSUMDB="off", GOTOOLCHAIN="local", GOMEMLIMIT="8GiB")
subprocess.run(["git", "-C", "/repo", "worktree", "remove", "--force", WT], stderr=subprocess.DEVNULL)
subprocess.run(["git", "-C", "/repo", "worktree", "add", "-q", "--detach", WT, "HEAD"], check=True)
try:
    if edits and edits[0] == "--patch":   # python3 mutquick.py NAME --patch FILE.diff
        subprocess.run(["git", "-C", WT, "apply", edits[1]], check=True)
        edits = []
    for i in range(0, len(edits), 3):
        f, old, new = edits[i:i + 3]
        old, new = old.encode().decode("unicode_escape"), new.encode().decode("unicode_escape")
        p = os.path.join(WT, f)
        s = open(p).read()
        assert s.count(old) == 1, (f, old, s.count(old))
        open(p, "w").write(s.replace(old, new))
    shutil.rmtree(SC, ignore_errors=True)
    os.makedirs(SC + "/out")
    mod = open("/verif/harness/go.mod").read().replace("=> /repo/", "=> " + WT + "/")
    open(SC + "/alt.mod", "w").write(mod)
    shutil.copy("/verif/harness/go.sum", SC + "/alt.sum")
    r = subprocess.run(["go", "build", "-tags", "verif", "-modfile", SC + "/alt.mod", "-o", SC + "/h", "./c14"], cwd="/verif/harness", env=env,
                       stdout=subprocess.PIPE, stderr=subprocess.STDOUT)
    if r.returncode != 0:
        print("BUILD FAILED\n", r.stdout.decode()[-2000:])
        sys.exit(2)
    r = subprocess.run([SC + "/h", "--seed", os.environ.get("VERIF_SEED", "1"), "--tier", "quick", "--out", SC + "/out"], env=env,
                       stdout=subprocess.PIPE, stderr=subprocess.STDOUT, timeout=1500)
    print("harness exit", r.returncode, r.stdout.decode()[-300:])
    drv = "/verif/lean/.lake/build/bin/drv_c14"
    model = subprocess.run([drv], stdin=open(SC + "/out/ops.txt"), stdout=subprocess.PIPE).stdout.decode().split("\n")
    impl = open(SC + "/out/impl.txt").read().split("\n")
    ops = open(SC + "/out/ops.txt").read().split("\n")
    mism = [(o, a, b) for o, a, b in zip(ops, impl, model) if a != b]
    print(f"== {name}: {len(mism)} mismatching lines")
    for o, a, b in mism[:3]:
        print("   ", o[:120], "| impl:", a[:100], "| model:", b[:100])
    fails = []
    for fn in ("oracle.json", "oracle.partial.jsonl"):
        p = SC + "/out/" + fn
        if os.path.exists(p):
            txt = open(p).read()
            try:
                d = json.loads(txt)
                fails = d if isinstance(d, list) else d.get("failures", d.get("findings", []))
            except ValueError:
                fails = [json.loads(l) for l in txt.split("\n") if l.strip()]
            if fails:
                break
    print(f"== {name}: {len(fails)} oracle findings")
    seen = set()
    for f in fails:
        k = json.dumps(f.get("signature"), sort_keys=True)
        if k in seen:
            continue
        seen.add(k)
        print("   ", f.get("oracle"), f.get("signature"), str(f.get("detail"))[:260])
        if len(seen) >= 6:
            break
finally:
    subprocess.run(["git", "-C", "/repo", "worktree", "remove", "--force", WT])
