#!/usr/bin/env python3
"""Development aid: prints `theorem C14_skeleton_* … := by decide` for every def of lean/Hive/Gen/C14_Skel.lean that has no
such theorem in lean/Hive/Props/C14.lean yet (paste the output into the Skeletons section)."""
import re, sys
src = open('/verif/lean/Hive/Gen/C14_Skel.lean').read()
props = open('/verif/lean/Hive/Props/C14.lean').read()
for doc, name, body in re.findall(r'/-- (.*?) -/\ndef (skel_\w+) : List String := \[\n(.*?)\]\n', src, re.S):
    short = name[len('skel_'):]
    if re.search(r'theorem C14_skeleton_' + short + r'\b', props) and '--all' not in sys.argv:
        continue
    items = re.findall(r'"(?:[^"\\]|\\.)*"', body)
    lines, cur = [], ''
    for it in items:
        if len(cur) + len(it) + 2 > 104:
            lines.append(cur.rstrip()); cur = ''
        cur += it + ', '
    lines.append(cur.rstrip().rstrip(','))
    print(f'/-- {doc} -/\ntheorem C14_skeleton_{short} : {name} = [\n' + '\n'.join('  ' + l for l in lines) + '] := by decide\n')
