package main

// Forced schedules and directed stress added in the sixth seeded round:
//
//   stress dvzero …    a writer runs INSIDE the construction of a DerivedVariable: the compute function (supplied by the
//                      harness) parks the constructor in its m-th computation until the writer has returned; the writer
//                      sets inputs to the ZERO value of their type (and to other values), for every arity and for
//                      int / bool / string inputs.  A subscription that is silent for a zero value must not leave the
//                      derived value stale.
//   stress evictmax …  several evictors per round released from one barrier with different slots, many rounds on fresh
//                      states: LastEvictedSlot() must be the maximum and every handed-out event up to it triggered.

import (
	"fmt"
	"runtime"
	"strconv"
	"strings"
	"sync"
	"sync/atomic"
	"time"

	"verifharness/hx"

	"github.com/iotaledger/hive.go/ds/reactive"
)

// region inputs of several types //////////////////////////////////////////////////////////////////////////////////

// dvIn is an input variable of some type whose values are carried as ints by the harness (0 = the zero value).
type dvIn interface {
	set(v int)
	get() int
}

type intIn struct{ v reactive.Variable[int] }

func (i intIn) set(v int) { i.v.Set(v) }
func (i intIn) get() int  { return i.v.Get() }

type boolIn struct{ v reactive.Variable[bool] }

func (i boolIn) set(v int) { i.v.Set(v != 0) }
func (i boolIn) get() int  { return b2i(i.v.Get()) }

type strIn struct{ v reactive.Variable[string] }

func (i strIn) set(v int) { i.v.Set(i2s(v)) }
func (i strIn) get() int  { return s2i(i.v.Get()) }

func b2i(b bool) int {
	if b {
		return 1
	}

	return 0
}

func i2s(v int) string {
	if v == 0 {
		return ""
	}

	return strconv.Itoa(v)
}

func s2i(s string) int {
	if s == "" {
		return 0
	}
	v, _ := strconv.Atoi(s)

	return v
}

// newInputs creates n inputs holding vals.  types "int": all int; "mix": int, bool, string, int.
func newInputs(types string, vals []int) (in []dvIn, iv []reactive.Variable[int], bv reactive.Variable[bool], sv reactive.Variable[string]) {
	for k, v := range vals {
		switch {
		case types == "mix" && k == 1:
			bv = reactive.NewVariable[bool]()
			in = append(in, boolIn{bv})
		case types == "mix" && k == 2:
			sv = reactive.NewVariable[string]()
			in = append(in, strIn{sv})
		default:
			x := reactive.NewVariable[int]()
			iv = append(iv, x)
			in = append(in, intIn{x})
		}
		in[k].set(v) // a variable that is to hold the zero value is never written (as in `NewVariable[T]()`)
	}

	return in, iv, bv, sv
}

// buildDerivedTyped calls the constructor of the arity; f gets the values converted back to ints.
func buildDerivedTyped(types string, n int, f func([]int) int, iv []reactive.Variable[int], bv reactive.Variable[bool], sv reactive.Variable[string]) reactive.DerivedVariable[int] {
	if types != "mix" {
		return buildDerived(n, f, iv)
	}
	switch n {
	case 1:
		return reactive.NewDerivedVariable[int](func(_ int, a int) int { return f([]int{a}) }, iv[0])
	case 2:
		return reactive.NewDerivedVariable2[int](func(_ int, a int, b bool) int { return f([]int{a, b2i(b)}) }, iv[0], bv)
	case 3:
		return reactive.NewDerivedVariable3[int](func(_ int, a int, b bool, c string) int { return f([]int{a, b2i(b), s2i(c)}) }, iv[0], bv, sv)
	}

	return reactive.NewDerivedVariable4[int](func(_ int, a int, b bool, c string, d int) int { return f([]int{a, b2i(b), s2i(c), d}) }, iv[0], bv, sv, iv[1])
}

// endregion

// stress dvzero <fn> <int|mix> <inits v,…> <pauseAt m> <writes i:v,i:v,…>: the constructor of a DerivedVariable over the
// inputs (holding <inits>) is parked inside its m-th computation (m = 1: the initial computation of the first
// subscription) until the writer - started at that moment - has made its writes and returned.  A write to an input
// that is not subscribed yet cannot block, so the schedule is then fully forced; a write to a subscribed input waits for
// the constructor, and the pause ends after 5 ms.
func stressDVZero(r *hx.Run, f []string) {
	if len(f) != 7 {
		r.Line(strings.Join(f, " "), "bad-op")

		return
	}
	fn, types, inits, m := f[2], f[3], parseInts(f[4]), atoi(f[5])
	type write struct{ i, v int }
	var writes []write
	for _, p := range strings.Split(f[6], ",") {
		if iv := strings.Split(p, ":"); len(iv) == 2 {
			writes = append(writes, write{atoi(iv[0]), atoi(iv[1])})
		}
	}
	n := len(inits)
	guarded(r, "DerivedVariable", strings.Join(f, " "), func() (o outcome) {
		in, iv, bv, sv := newInputs(types, inits)
		fun := fnOf(fn)
		forced := true // every write goes to an input whose subscription comes after the paused one
		for _, w := range writes {
			if w.i < m {
				forced = false
			}
		}
		wait := 5 * time.Millisecond
		if forced {
			wait = 3 * time.Second
		}
		var computations atomic.Int32
		paused, writerDone, ctorDone := make(chan struct{}), make(chan struct{}), make(chan struct{})
		var late atomic.Bool
		compute := func(a []int) int {
			if int(computations.Add(1)) == m {
				select {
				case <-ctorDone: // the constructor made fewer computations: this one belongs to the writer itself
				default:
					close(paused)
					select {
					case <-writerDone:
					case <-time.After(wait):
						late.Store(true)
					}
				}
			}

			return fun(a)
		}
		var d reactive.DerivedVariable[int]
		parMust(func() {
			defer close(ctorDone)
			d = buildDerivedTyped(types, n, compute, iv, bv, sv)
		}, func() {
			defer close(writerDone)
			select {
			case <-paused:
			case <-ctorDone: // fewer computations than m: the writes follow the construction
			}
			for _, w := range writes {
				if w.i < n {
					in[w.i].set(w.v)
				}
			}
		})
		vals := make([]int, n)
		for i := range in {
			vals[i] = in[i].get()
		}
		got := d.Get()
		o.lines = append(o.lines, fmt.Sprintf("q dvar %s %s %d", fn, joinInts(vals), got))
		if forced && !late.Load() {
			// the schedule was fully forced: the protocol model (with the flags of the code) replays it and must end with the
			// same derived value and inputs
			norm := func(i, v int) int {
				if types == "mix" && i == 1 {
					return b2i(v != 0)
				}

				return v
			}
			ni, nw := make([]int, n), make([]string, 0, len(writes))
			for i, v := range inits {
				ni[i] = norm(i, v)
			}
			for _, w := range writes {
				if w.i < n {
					nw = append(nw, fmt.Sprintf("%d:%d", w.i, norm(w.i, w.v)))
				}
			}
			if len(nw) == 0 {
				nw = []string{"-"}
			}
			o.pairs = append(o.pairs, [2]string{fmt.Sprintf("dvz %s %s %d %s", fn, joinInts(ni), m, strings.Join(nw, ",")),
				fmt.Sprintf("d=%d in=%v finished=true", got, vals)})
		}
		if exp := fun(vals); exp != got {
			o.fails = append(o.fails, failure{"derived-variable", fmt.Sprintf("%s: a writer ran inside computation %d of the constructor (NewDerivedVariable%d, inputs at creation %v, writes %s): inputs now %v, compute = %d, DerivedVariable.Get() = %d",
				strings.Join(f, " "), m, n, inits, f[6], vals, exp, got),
				map[string]string{"construct": "DerivedVariable", "trigger": "write-during-construction", "mode": "forced"}})
		}
		d.Unsubscribe()

		return o
	})
	r.Count(fmt.Sprintf("dvzero:arity=%d", n))
	r.Count("dvzero:types=" + types)
}

func genDVZero(rng *hx.Rng) string {
	n := rng.Range(1, 4)
	inits := make([]int, n)
	for i := range inits {
		if rng.Bool() {
			inits[i] = hx.Pick(rng, []int{1, 5, -3, 2, 4096})
		}
	}
	m := rng.Range(1, n)
	var ws []string
	for k := rng.Range(1, 2); k > 0; k-- {
		i := rng.Intn(n)
		if m < n && rng.Chance(7, 10) {
			i = rng.Range(m, n-1)
		}
		v := 0
		if rng.Chance(2, 5) {
			v = hx.Pick(rng, []int{1, 3, -1, 7})
		}
		ws = append(ws, fmt.Sprintf("%d:%d", i, v))
	}

	return fmt.Sprintf("stress dvzero %s %s %s %d %s", hx.Pick(rng, []string{"lin", "lin", "sum", "max", "firstnz", "parity"}), hx.Pick(rng, []string{"int", "mix"}),
		joinInts(inits), m, strings.Join(ws, ","))
}

// stress ctorrace <fn> <rounds> <seed>: per round fresh inputs (1-4), the constructor of a DerivedVariable and one writer per
// input - a single Set each - released from one barrier (GOMAXPROCS >= 4): the narrow windows inside OnUpdate (between
// the registration / snapshot under the value mutex and the initial invocation under the execution lock) are only
// reachable by chance, so the rounds are many and short.  After every round d must equal compute(inputs).
func stressCtorRace(r *hx.Run, f []string) {
	fn, rounds, seed := f[2], atoi(f[3]), mustU64(f[4])
	if runtime.GOMAXPROCS(0) < 4 {
		runtime.GOMAXPROCS(4)
	}
	guarded(r, "DerivedVariable", strings.Join(f, " "), func() (o outcome) {
		rng := hx.NewRng(seed)
		fun := fnOf(fn)
		lastLine, bad, badLine := "", "", ""
		for round := 0; round < rounds && bad == ""; round++ {
			n := rng.Range(1, 4)
			in := make([]reactive.Variable[int], n)
			inits := make([]int, n)
			for i := range in {
				inits[i] = rng.Range(-1, 2)
				in[i] = reactive.NewVariable[int]().Init(inits[i])
			}
			var d reactive.DerivedVariable[int]
			var ready, wg sync.WaitGroup
			start := make(chan struct{})
			spawn := func(job func()) {
				ready.Add(1)
				wg.Add(1)
				go func() {
					defer wg.Done()
					ready.Done()
					<-start
					job()
				}()
			}
			spawn(func() { d = buildDerived(n, fun, in) })
			writes := make([]int, n)
			for i := range in {
				v := in[i]
				writes[i] = rng.Range(-1, 2)
				w := writes[i]
				spawn(func() { v.Set(w) })
			}
			ready.Wait()
			close(start)
			wg.Wait()
			vals := make([]int, n)
			for i := range in {
				vals[i] = in[i].Get()
			}
			got := d.Get()
			lastLine = fmt.Sprintf("q dvar %s %s %d", fn, joinInts(vals), got)
			if exp := fun(vals); exp != got {
				bad = fmt.Sprintf("round %d: NewDerivedVariable%d over inputs %v racing one Set per input (%v): inputs now %v, compute = %d, DerivedVariable.Get() = %d", round, n, inits, writes, vals, exp, got)
				badLine = lastLine
			}
			d.Unsubscribe()
		}
		if badLine != "" {
			lastLine = badLine
		}
		if lastLine != "" {
			o.lines = append(o.lines, lastLine)
		}
		if bad != "" {
			o.fails = append(o.fails, failure{"derived-variable", strings.Join(f, " ") + ": " + bad,
				map[string]string{"construct": "DerivedVariable", "trigger": "constructor-race", "mode": "stress"}})
		}

		return o
	})
}

// region eviction: evictors from a barrier ////////////////////////////////////////////////////////////////////////

// stress evictmax <rounds> <evictors> <seed>: per round a fresh EvictionState; events of the slots 0..evictors+1 are
// requested first, then <evictors> goroutines - released together - evict the slots evictors, …, 1 (one slot each, in
// a random assignment).  After all of them have returned LastEvictedSlot() must be the largest evicted slot and every
// event up to it must have triggered (an Evict that decides "evicted already" outside of the critical section in
// which it stores the slot can set the last evicted slot back).
func stressEvictMax(r *hx.Run, f []string) {
	rounds, evictors, seed := atoi(f[2]), atoi(f[3]), mustU64(f[4])
	if runtime.GOMAXPROCS(0) < 4 {
		runtime.GOMAXPROCS(4)
	}
	guarded(r, "EvictionState", strings.Join(f, " "), func() (o outcome) {
		rng := hx.NewRng(seed)
		bad, badLine := "", ""
		lastLine := ""
		for round := 0; round < rounds; round++ {
			st := reactive.NewEvictionState[int]()
			base := 0
			if round%3 == 1 {
				base = rng.Range(1, 1000)
				st.Evict(base - 1)
			}
			// the events of every second slot are requested beforehand; the others are requested by two goroutines WHILE the
			// evictors run (no event of such a slot exists yet: an EvictionEvent that creates it after the slot was evicted
			// hands out an event that never triggers)
			events := make([]reactive.Event, evictors+2)
			for s := range events {
				if s%2 == 0 || s == evictors+1 {
					events[s] = st.EvictionEvent(base + s)
				}
			}
			type req struct {
				slot int
				ev   reactive.Event
			}
			racing := make([][]req, 2)
			slots := make([]int, evictors)
			for k := range slots {
				slots[k] = base + k + 1
			}
			shuffled(rng, slots)
			var ready, wg sync.WaitGroup
			start := make(chan struct{})
			for _, slot := range slots {
				ready.Add(1)
				wg.Add(1)
				go func() {
					defer wg.Done()
					ready.Done()
					<-start
					st.Evict(slot)
				}()
			}
			for q := range racing {
				qr, _ := rng.Fork()
				ready.Add(1)
				wg.Add(1)
				go func() {
					defer wg.Done()
					ready.Done()
					<-start
					for c := 0; c < 3; c++ {
						s := base + 1 + 2*qr.Intn((evictors+1)/2) // an odd offset: not requested beforehand
						racing[q] = append(racing[q], req{s, st.EvictionEvent(s)})
					}
				}()
			}
			ready.Wait()
			close(start)
			wg.Wait()
			last := st.LastEvictedSlot()
			var parts []string
			problem := ""
			for _, rs := range racing {
				for _, rq := range rs {
					if rq.ev.WasTriggered() != (rq.slot <= last) && problem == "" {
						problem = fmt.Sprintf("EvictionEvent(%d), called while the slots %d..%d were being evicted, handed out an event with triggered=%v after all calls have returned (LastEvictedSlot() = %d)",
							rq.slot, base+1, base+evictors, rq.ev.WasTriggered(), last)
					}
					parts = append(parts, fmt.Sprintf("%d:%d", rq.slot-base, b2i(rq.ev.WasTriggered())))
				}
			}
			if last != base+evictors {
				problem = fmt.Sprintf("LastEvictedSlot() is %d after concurrent Evict calls for the slots %d..%d have all returned", last, base+1, base+evictors)
			}
			probe := st.EvictionEvent(base + evictors) // an evicted slot: must be answered with a triggered event
			all := append(append([]reactive.Event{}, events...), probe)
			for s, ev := range all {
				if ev == nil {
					continue
				}
				slot := base + s
				if s == len(events) {
					slot = base + evictors
				}
				parts = append(parts, fmt.Sprintf("%d:%d", slot-base, b2i(ev.WasTriggered())))
				if ev.WasTriggered() != (slot <= base+evictors) && problem == "" {
					problem = fmt.Sprintf("the event of slot %d has triggered=%v although the slots up to %d were evicted (LastEvictedSlot() = %d)", slot, ev.WasTriggered(), base+evictors, last)
				}
			}
			// slots are printed relative to the base of the round (the model's slots are small integers)
			line := fmt.Sprintf("q evict %d %s", evictors, strings.Join(parts, ","))
			if last != base+evictors {
				line = fmt.Sprintf("q evict %d %s", last-base, strings.Join(parts, ","))
			}
			lastLine = line
			if problem != "" && bad == "" {
				bad, badLine = fmt.Sprintf("round %d: %s", round, problem), line
			}
		}
		if badLine != "" {
			o.lines = append(o.lines, badLine)
		} else if lastLine != "" {
			o.lines = append(o.lines, lastLine)
		}
		if bad != "" {
			o.fails = append(o.fails, failure{"eviction", strings.Join(f, " ") + ": " + bad,
				map[string]string{"construct": "EvictionState", "trigger": "concurrent-evictors", "mode": "stress"}})
		}

		return o
	})
}

// endregion
