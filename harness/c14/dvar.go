package main

// DerivedVariable, sequentially: NewDerivedVariable1..4 over inputs that already hold values, an initial value, writes
// to the inputs, Unsubscribe (more than once), DeriveValueFrom (a plain variable that follows the derived one; its
// teardown is the derived variable's Unsubscribe) and writes after the unsubscription.  Defining function: compute of the
// inputs as they were when the derived variable was unsubscribed (of the current inputs while it is subscribed).

import (
	"fmt"
	"strings"

	"verifharness/hx"

	"github.com/iotaledger/hive.go/ds/reactive"
)

type dvWorld struct {
	fn       func([]int) int
	in       []reactive.Variable[int]
	d        reactive.DerivedVariable[int]
	target   reactive.Variable[int]
	teardown func()
	frozen   []int // the inputs at the time of the unsubscription (nil while subscribed)
	resets   map[int]func()
}

func (w *dvWorld) inputs() []int {
	out := make([]int, len(w.in))
	for i, v := range w.in {
		out[i] = v.Get()
	}

	return out
}

func (w *dvWorld) exec(r failer, f []string) string {
	switch f[0] {
	case "new": // new <fn> <init> <v1,…,vn>
		if w.d != nil || len(f) != 4 {
			return "bad-op"
		}
		vals := parseInts(f[3])
		if len(vals) < 1 || len(vals) > 4 {
			return "bad-op"
		}
		w.fn = fnOf(f[1])
		for _, v := range vals {
			w.in = append(w.in, reactive.NewVariable[int]().Init(v))
		}
		w.d = buildDerivedInit(len(vals), w.fn, w.in, atoi(f[2]))
	case "set":
		if w.d == nil || atoi(f[1]) >= len(w.in) {
			return "bad-op"
		}
		w.in[atoi(f[1])].Set(atoi(f[2]))
	case "compute": // compute <i> <delta>: Variable.Compute(cur -> cur + delta)
		if w.d == nil || atoi(f[1]) >= len(w.in) {
			return "bad-op"
		}
		i, delta := atoi(f[1]), atoi(f[2])
		old := w.in[i].Get()
		if prev := w.in[i].Compute(func(cur int) int { return cur + delta }); prev != old {
			r.Fail("derived-variable", fmt.Sprintf("Compute on input %d returned the previous value %d, the input held %d", i, prev, old),
				map[string]string{"construct": "Variable", "trigger": "compute-return", "mode": "sequential"})
		}
	case "default": // default <i> <v>: Variable.DefaultTo(v) writes only over the zero value
		if w.d == nil || atoi(f[1]) >= len(w.in) {
			return "bad-op"
		}
		i, v := atoi(f[1]), atoi(f[2])
		old := w.in[i].Get()
		nv, updated := w.in[i].DefaultTo(v)
		wantV, wantU := old, false
		if old == 0 {
			wantV, wantU = v, true
		}
		if nv != wantV || updated != wantU || w.in[i].Get() != wantV {
			r.Fail("derived-variable", fmt.Sprintf("DefaultTo(%d) on input %d holding %d returned (%d, %v) and left %d", v, i, old, nv, updated, w.in[i].Get()),
				map[string]string{"construct": "Variable", "trigger": "default-to", "mode": "sequential"})
		}
	case "toggle": // toggle <i> <v>: ToggleValue(v); its reset function is kept for `reset <i>`
		if w.d == nil || atoi(f[1]) >= len(w.in) {
			return "bad-op"
		}
		if w.resets == nil {
			w.resets = map[int]func(){}
		}
		w.resets[atoi(f[1])] = w.in[atoi(f[1])].ToggleValue(atoi(f[2]))
		if got := w.in[atoi(f[1])].Get(); got != atoi(f[2]) {
			r.Fail("derived-variable", fmt.Sprintf("ToggleValue(%d) on input %d left %d", atoi(f[2]), atoi(f[1]), got),
				map[string]string{"construct": "Variable", "trigger": "toggle-value", "mode": "sequential"})
		}
	case "reset":
		if w.d == nil || w.resets[atoi(f[1])] == nil {
			return "bad-op"
		}
		w.resets[atoi(f[1])]()
		if got := w.in[atoi(f[1])].Get(); got != 0 {
			r.Fail("derived-variable", fmt.Sprintf("the reset function of ToggleValue on input %d left %d, not the zero value", atoi(f[1]), got),
				map[string]string{"construct": "Variable", "trigger": "toggle-reset", "mode": "sequential"})
		}
	case "unsub":
		if w.d == nil {
			return "bad-op"
		}
		if w.frozen == nil {
			w.frozen = w.inputs()
		}
		w.d.Unsubscribe()
	case "derive":
		if w.d == nil || w.target != nil {
			return "bad-op"
		}
		w.target = reactive.NewVariable[int]()
		if len(f) > 1 { // the deriving variable holds a value already (InheritFrom must overwrite it also with a zero value)
			w.target.Set(atoi(f[1]))
		}
		w.teardown = w.target.DeriveValueFrom(w.d)
	case "teardown":
		if w.teardown == nil {
			return "bad-op"
		}
		if w.frozen == nil {
			w.frozen = w.inputs()
		}
		w.teardown()
	default:
		return "bad-op"
	}
	seen := w.frozen
	if seen == nil {
		seen = w.inputs()
	}
	if got, want := w.d.Get(), w.fn(seen); got != want {
		r.Fail("derived-variable", fmt.Sprintf("after %q the DerivedVariable is %d but compute(%v) = %d (inputs now %v, unsubscribed=%v)", strings.Join(f, " "), got, seen, want, w.inputs(), w.frozen != nil),
			map[string]string{"construct": "DerivedVariable", "trigger": f[0], "mode": "sequential"})
	}
	ans := fmt.Sprintf("d=%d", w.d.Get())
	if w.target != nil {
		if got := w.target.Get(); got != w.d.Get() {
			r.Fail("derived-variable", fmt.Sprintf("after %q the variable that derives its value from the DerivedVariable is %d but the DerivedVariable is %d", strings.Join(f, " "), got, w.d.Get()),
				map[string]string{"construct": "DeriveValueFrom", "trigger": f[0], "mode": "sequential"})
		}
		ans += fmt.Sprintf(" t=%d", w.target.Get())
	}

	return ans
}

func buildDerivedInit(n int, f func([]int) int, in []reactive.Variable[int], init int) reactive.DerivedVariable[int] {
	switch n {
	case 1:
		return reactive.NewDerivedVariable[int](func(_ int, a int) int { return f([]int{a}) }, in[0], init)
	case 2:
		return reactive.NewDerivedVariable2[int](func(_ int, a, b int) int { return f([]int{a, b}) }, in[0], in[1], init)
	case 3:
		return reactive.NewDerivedVariable3[int](func(_ int, a, b, c int) int { return f([]int{a, b, c}) }, in[0], in[1], in[2], init)
	}

	return reactive.NewDerivedVariable4[int](func(_ int, a, b, c, d int) int { return f([]int{a, b, c, d}) }, in[0], in[1], in[2], in[3], init)
}

func dvValue(rng *hx.Rng) int {
	if rng.Chance(1, 6) {
		return hx.Pick(rng, []int{255, 256, -256, 4095, 4096, 4097, 65535, 65536, -65537, 1 << 31, -(1 << 31), 1 << 32, 1 << 40, -(1 << 40)})
	}

	return rng.Range(-2, 3)
}

func genDV(rng *hx.Rng, n int) []string {
	k := rng.Range(1, 4)
	vals := make([]int, k)
	for i := range vals {
		if rng.Bool() {
			vals[i] = dvValue(rng)
		}
	}
	ops := []string{fmt.Sprintf("dv new %s %d %s", hx.Pick(rng, []string{"sum", "lin", "max", "firstnz", "parity"}), dvValue(rng), joinInts(vals))}
	derived := false
	toggled := map[int]bool{}
	for len(ops) < n {
		switch x := rng.Intn(40); {
		case x < 2:
			ops = append(ops, "dv unsub")
		case x < 5 && !derived:
			derived = true
			if rng.Bool() {
				ops = append(ops, fmt.Sprintf("dv derive %d", dvValue(rng)))
			} else {
				ops = append(ops, "dv derive")
			}
		case x < 6 && derived:
			ops = append(ops, "dv teardown")
		case x < 10:
			ops = append(ops, fmt.Sprintf("dv compute %d %d", rng.Intn(k), rng.Range(-2, 2)))
		case x < 14:
			ops = append(ops, fmt.Sprintf("dv default %d %d", rng.Intn(k), dvValue(rng)))
		case x < 17:
			i := rng.Intn(k)
			toggled[i] = true
			ops = append(ops, fmt.Sprintf("dv toggle %d %d", i, dvValue(rng)))
		case x < 20 && len(toggled) > 0:
			for i := 0; i < k; i++ {
				if toggled[i] {
					ops = append(ops, fmt.Sprintf("dv reset %d", i))

					break
				}
			}
		default:
			ops = append(ops, fmt.Sprintf("dv set %d %d", rng.Intn(k), dvValue(rng)))
		}
	}

	return ops
}
