package main

// EvictionState, sequentially: every slot type the constraint EvictionStateSlotType admits (8/16/32/64-bit signed and
// unsigned integers, a named type, uintptr, floats with integral slots), slot jumps of every magnitude (1, 2, 100, 4095,
// 4096, 4097, 65535, 65536, 65537, 10^5, 2^20, 2^20+1, and up to the maximum of the 8- and 16-bit types), events
// requested at, right below and right above the evicted range.  Slots travel as uint64 in the op lines.

import (
	"fmt"
	"math"
	"sort"
	"strconv"
	"strings"

	"verifharness/hx"

	"github.com/iotaledger/hive.go/ds/reactive"
)

type evAPI interface {
	event(slot uint64) reactive.Event
	evict(slot uint64)
	last() uint64
}

type evTyped[T reactive.EvictionStateSlotType] struct {
	s reactive.EvictionState[T]
}

func (e evTyped[T]) event(slot uint64) reactive.Event { return e.s.EvictionEvent(T(slot)) }
func (e evTyped[T]) evict(slot uint64)               { e.s.Evict(T(slot)) }
func (e evTyped[T]) last() uint64                    { return uint64(e.s.LastEvictedSlot()) }

func mkEV[T reactive.EvictionStateSlotType]() evAPI {
	return evTyped[T]{s: reactive.NewEvictionState[T]()}
}

// slotIndex is a named slot type as applications declare them (iota.go: `type SlotIndex uint32`).
type slotIndex uint32

type evType struct {
	name string
	mk   func() evAPI
	max  uint64 // the largest slot of the type (floats: the largest one up to which every integer is a value of the type)
}

var evTypes = []evType{
	{"int", mkEV[int], math.MaxInt64}, {"i8", mkEV[int8], math.MaxInt8}, {"i16", mkEV[int16], math.MaxInt16},
	{"i32", mkEV[int32], math.MaxInt32}, {"i64", mkEV[int64], math.MaxInt64}, {"uint", mkEV[uint], math.MaxUint64},
	{"u8", mkEV[uint8], math.MaxUint8}, {"u16", mkEV[uint16], math.MaxUint16}, {"u32", mkEV[uint32], math.MaxUint32},
	{"u64", mkEV[uint64], math.MaxUint64}, {"uintptr", mkEV[uintptr], math.MaxUint64}, {"slot32", mkEV[slotIndex], math.MaxUint32},
	{"f32", mkEV[float32], 1 << 24}, {"f64", mkEV[float64], 1 << 53},
}

func evTypeOf(name string) *evType {
	for i := range evTypes {
		if evTypes[i].name == name {
			return &evTypes[i]
		}
	}

	return nil
}

type evWorld struct {
	ty      *evType
	state   evAPI
	held    map[uint64]reactive.Event
	evicted bool
	last    uint64
}

func newEVWorld(ty string) *evWorld {
	t := evTypeOf(ty)
	if t == nil {
		return &evWorld{}
	}

	return &evWorld{ty: t, state: t.mk(), held: map[uint64]reactive.Event{}}
}

func parseU64(s string) (uint64, bool) {
	n, err := strconv.ParseUint(s, 10, 64)

	return n, err == nil
}

func (w *evWorld) sig(trigger string) map[string]string {
	return map[string]string{"construct": "EvictionState", "trigger": trigger, "mode": "sequential"}
}

func (w *evWorld) exec(r failer, f []string) string {
	if w.ty == nil {
		return "bad-op"
	}
	ans := ""
	switch f[0] {
	case "new":
		return "ok"
	case "event":
		slot, ok := parseU64(f[1])
		if !ok || slot > w.ty.max {
			return "bad-op"
		}
		ev := w.state.event(slot)
		switch prev, ok := w.held[slot]; {
		case ev.WasTriggered():
			ans = "pre"
			if w.evicted && slot <= w.last {
				break
			}
			r.Fail("eviction", fmt.Sprintf("EvictionEvent(%d) is already triggered although the last evicted slot is %d (evicted=%v, slot type %s)", slot, w.last, w.evicted, w.ty.name), w.sig("event"))
		case !ok:
			w.held[slot] = ev
			ans = "held new"
			if w.evicted && slot <= w.last {
				r.Fail("eviction", fmt.Sprintf("EvictionEvent(%d) handed out a fresh untriggered event although the last evicted slot is %d (slot type %s)", slot, w.last, w.ty.name), w.sig("event-after-evict"))
			}
		case prev == ev:
			ans = "held same"
		default:
			ans = "held other"
		}
	case "evict":
		slot, ok := parseU64(f[1])
		if !ok || slot > w.ty.max {
			return "bad-op"
		}
		before := map[uint64]bool{}
		for s, ev := range w.held {
			before[s] = ev.WasTriggered()
		}
		prevLast, hadLast := w.last, w.evicted
		w.state.evict(slot)
		if !w.evicted || slot > w.last {
			w.evicted, w.last = true, slot
		}
		var fired []uint64
		for s, ev := range w.held {
			if ev.WasTriggered() && !before[s] {
				fired = append(fired, s)
			}
		}
		sort.Slice(fired, func(i, j int) bool { return fired[i] < fired[j] })
		fs := make([]string, len(fired))
		for i, s := range fired {
			fs[i] = strconv.FormatUint(s, 10)
		}
		got := w.state.last()
		ans = fmt.Sprintf("[%s] last=%d", strings.Join(fs, " "), got)
		// the clause itself, right after the call: the state names the evicted slot, and a request for any slot at or
		// below it (the ends of the evicted range, its middle, the distances at which an implementation may switch its
		// strategy) is answered with a triggered event
		if got != w.last {
			r.Fail("eviction", fmt.Sprintf("after Evict(%d) LastEvictedSlot() is %d but the highest evicted slot is %d (previously %d, evicted before=%v, slot type %s)", slot, got, w.last, prevLast, hadLast, w.ty.name), w.sig("evict-last"))
		}
		probes := []uint64{w.last, 0, w.last / 2}
		for _, d := range []uint64{1, 2, 4095, 4096, 4097, 65535, 65536} {
			if d <= w.last {
				probes = append(probes, w.last-d)
			}
		}
		if hadLast && prevLast < w.last {
			probes = append(probes, prevLast, prevLast+1)
		}
		for _, x := range probes {
			if ev := w.state.event(x); !ev.WasTriggered() {
				r.Fail("eviction", fmt.Sprintf("after Evict(%d) (previous last evicted slot %d, evicted before=%v) EvictionEvent(%d) is not triggered although %d <= %d (slot type %s)", slot, prevLast, hadLast, x, x, w.last, w.ty.name), w.sig("evict-probe"))

				break
			}
		}
	default:
		return "bad-op"
	}
	for s, ev := range w.held {
		if want := w.evicted && s <= w.last; ev.WasTriggered() != want {
			r.Fail("eviction", fmt.Sprintf("after %q the event of slot %d has triggered=%v but the last evicted slot is %d (evicted=%v, slot type %s)", strings.Join(f, " "), s, ev.WasTriggered(), w.last, w.evicted, w.ty.name), w.sig(f[0]))

			break
		}
	}

	return ans
}

// evJumps are the distances an Evict may jump over: every magnitude around the sizes at which an implementation could
// change its strategy.
var evJumpsMedium = []uint64{100, 255, 256, 1000, 4094, 4095, 4096, 4097, 5000, 8192}
var evJumpsLarge = []uint64{65535, 65536, 65537, 100000, 1 << 17, 1<<20 - 1, 1 << 20, 1<<20 + 1}

func genEV(rng *hx.Rng, n int) []string {
	ty := &evTypes[0]
	if !rng.Chance(2, 5) {
		ty = &evTypes[rng.Intn(len(evTypes))]
	}
	ops := []string{"ev new " + ty.name}
	if ty.name == "int" && rng.Bool() {
		ops[0] = "ev new"
	}
	class := rng.Intn(8) // 0-3 small steps only, 4-6 medium jumps too, 7 large jumps too
	var last uint64
	evicted := false
	budget := uint64(3 << 20) // slots probed by the implementation's loop (and by the model's) per case
	large := 0
	event := func(s uint64) {
		if s <= ty.max {
			ops = append(ops, fmt.Sprintf("ev event %d", s))
		}
	}
	for len(ops) < n {
		if rng.Chance(1, 2) {
			// an event somewhere: near the last evicted slot, below it, far above it, at the top of the type
			switch x := rng.Intn(20); {
			case x < 12:
				event(last + uint64(rng.Range(0, 4)))
			case x < 15:
				if last > 0 {
					event(rng.U64() % (last + 1))
				}
			case x < 17:
				event(last + hx.Pick(rng, evJumpsMedium))
			case x < 18:
				event(ty.max - uint64(rng.Intn(3)))
			default:
				event(last + hx.Pick(rng, evJumpsLarge))
			}

			continue
		}
		start := uint64(0)
		if evicted {
			start = last + 1
		}
		var target uint64
		switch x := rng.Intn(20); {
		case x < 3 && evicted: // at or below the last evicted slot: nothing happens
			target = last - uint64(rng.Intn(3))
			if target > last {
				target = 0
			}
		case class >= 4 && x < 8:
			target = last + hx.Pick(rng, evJumpsMedium)
		case class == 7 && x < 12 && large < 2:
			target = last + hx.Pick(rng, evJumpsLarge)
			large++
		case ty.max <= math.MaxUint16 && x < 14: // the end of a small slot type
			target = ty.max - uint64(rng.Intn(2))
		default:
			target = last + uint64(rng.Range(1, 3))
			if !evicted && rng.Bool() {
				target = uint64(rng.Intn(2))
			}
		}
		if target > ty.max {
			target = ty.max
		}
		if target >= start {
			if target-start+1 > budget {
				continue
			}
			budget -= target - start + 1
			// events inside and around the range that is about to be evicted
			for k := rng.Intn(4); k > 0; k-- {
				switch rng.Intn(6) {
				case 0:
					event(target)
				case 1:
					event(target + 1)
				case 2:
					event(start)
				case 3:
					event(start + (target-start)/2)
				case 4:
					if target > 0 {
						event(target - 1)
					}
				default:
					event(start + rng.U64()%(target-start+1))
				}
			}
		}
		ops = append(ops, fmt.Sprintf("ev evict %d", target))
		if !evicted || target > last {
			evicted, last = true, target
		}
		// requests for evicted slots right after the eviction
		for k := rng.Intn(3); k > 0; k-- {
			switch rng.Intn(4) {
			case 0:
				event(last)
			case 1:
				event(rng.U64() % (last + 1))
			case 2:
				if last >= 4096 {
					event(last - 4096)
				}
			default:
				event(0)
			}
		}
	}

	return ops
}
