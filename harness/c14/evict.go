package main

// EvictionState, sequentially: every slot type the constraint EvictionStateSlotType admits (8/16/32/64-bit signed and
// unsigned integers, a named type, uintptr, floats with integral slots), slot jumps of every magnitude (1, 2, 100, 4095,
// 4096, 4097, 65535, 65536, 65537, 10^5, 2^20, 2^20+1, and up to the maximum of the 8- and 16-bit types), events
// requested at, right below and right above the evicted range.  Slots travel as int64 in the op lines
// (negative for the signed and the float types; the types f32q / f64q count quarters: slot k stands for k/4).

import (
	"fmt"
	"math"
	"sort"
	"strconv"
	"strings"

	"verifharness/hx"

	"github.com/iotaledger/hive.go/ds/reactive"
)

type evAPI interface {
	event(slot int64) reactive.Event
	evict(slot int64)
	last() int64
}

// evTyped drives an EvictionState[T].  unit = 0: the op line's slot k is the slot T(k); unit = 0.25 (float types only):
// k counts quarters, the slot is T(k/4) — slots between two integers.
type evTyped[T reactive.EvictionStateSlotType] struct {
	s    reactive.EvictionState[T]
	unit float64
}

func (e evTyped[T]) conv(slot int64) T {
	if e.unit == 0 {
		return T(slot)
	}

	return T(float64(slot) * e.unit)
}

func (e evTyped[T]) event(slot int64) reactive.Event { return e.s.EvictionEvent(e.conv(slot)) }
func (e evTyped[T]) evict(slot int64)               { e.s.Evict(e.conv(slot)) }
func (e evTyped[T]) last() int64 {
	if e.unit == 0 {
		return int64(e.s.LastEvictedSlot())
	}

	return int64(float64(e.s.LastEvictedSlot()) / e.unit)
}

func mkEV[T reactive.EvictionStateSlotType](unit float64) func() evAPI {
	return func() evAPI { return evTyped[T]{s: reactive.NewEvictionState[T](), unit: unit} }
}

// slotIndex is a named slot type as applications declare them (iota.go: `type SlotIndex uint32`).
type slotIndex uint32

type evType struct {
	name     string
	mk       func() evAPI
	min, max int64 // range of the slots in the op lines (64-bit unsigned types: up to MaxInt64, the harness carries int64;
	// floats: the range in which every integer / every quarter is a value of the type)
}

var evTypes = []evType{
	{"int", mkEV[int](0), math.MinInt64, math.MaxInt64}, {"i8", mkEV[int8](0), math.MinInt8, math.MaxInt8}, {"i16", mkEV[int16](0), math.MinInt16, math.MaxInt16},
	{"i32", mkEV[int32](0), math.MinInt32, math.MaxInt32}, {"i64", mkEV[int64](0), math.MinInt64, math.MaxInt64}, {"uint", mkEV[uint](0), 0, math.MaxInt64},
	{"u8", mkEV[uint8](0), 0, math.MaxUint8}, {"u16", mkEV[uint16](0), 0, math.MaxUint16}, {"u32", mkEV[uint32](0), 0, math.MaxUint32},
	{"u64", mkEV[uint64](0), 0, math.MaxInt64}, {"uintptr", mkEV[uintptr](0), 0, math.MaxInt64}, {"slot32", mkEV[slotIndex](0), 0, math.MaxUint32},
	{"f32", mkEV[float32](0), -(1 << 24), 1 << 24}, {"f64", mkEV[float64](0), -(1 << 53), 1 << 53},
	{"f32q", mkEV[float32](0.25), -(1 << 24), 1 << 24}, {"f64q", mkEV[float64](0.25), -(1 << 53), 1 << 53},
}

func evTypeOf(name string) *evType {
	for i := range evTypes {
		if evTypes[i].name == name {
			return &evTypes[i]
		}
	}

	return nil
}

type evWorld struct {
	ty      *evType
	state   evAPI
	held    map[int64]reactive.Event
	evicted bool
	last    int64
}

func newEVWorld(ty string) *evWorld {
	t := evTypeOf(ty)
	if t == nil {
		return &evWorld{}
	}

	return &evWorld{ty: t, state: t.mk(), held: map[int64]reactive.Event{}}
}

func parseI64(s string) (int64, bool) {
	n, err := strconv.ParseInt(s, 10, 64)

	return n, err == nil
}

// satAdd is a + b clipped to the int64 range.
func satAdd(a, b int64) int64 {
	c := a + b
	if b > 0 && c < a {
		return math.MaxInt64
	}
	if b < 0 && c > a {
		return math.MinInt64
	}

	return c
}

// sig: oracle failures whose history involves a slot below 0 or a float slot between two integers carry that in the
// trigger (they are the two cases the probing loop of the unrepaired evict could not reach).
func (w *evWorld) sig(trigger string, slots ...int64) map[string]string {
	for _, s := range slots {
		if s < 0 {
			trigger += "-negative-slot"

			break
		}
	}
	if strings.HasSuffix(w.ty.name, "q") {
		trigger += "-fractional-slot"
	}

	return map[string]string{"construct": "EvictionState", "api": "Evict", "trigger": trigger, "mode": "sequential"}
}

func (w *evWorld) exec(r failer, f []string) string {
	if w.ty == nil {
		return "bad-op"
	}
	ans := ""
	switch f[0] {
	case "new":
		return "ok"
	case "event":
		slot, ok := parseI64(f[1])
		if !ok || slot < w.ty.min || slot > w.ty.max {
			return "bad-op"
		}
		ev := w.state.event(slot)
		switch prev, ok := w.held[slot]; {
		case ev.WasTriggered():
			ans = "pre"
			if w.evicted && slot <= w.last {
				break
			}
			r.Fail("eviction", fmt.Sprintf("EvictionEvent(%d) is already triggered although the last evicted slot is %d (evicted=%v, slot type %s)", slot, w.last, w.evicted, w.ty.name), w.sig("event", slot))
		case !ok:
			w.held[slot] = ev
			ans = "held new"
			if w.evicted && slot <= w.last {
				r.Fail("eviction", fmt.Sprintf("EvictionEvent(%d) handed out a fresh untriggered event although the last evicted slot is %d (slot type %s)", slot, w.last, w.ty.name), w.sig("event-after-evict", slot))
			}
		case prev == ev:
			ans = "held same"
		default:
			ans = "held other"
		}
	case "evict":
		slot, ok := parseI64(f[1])
		if !ok || slot < w.ty.min || slot > w.ty.max {
			return "bad-op"
		}
		before := map[int64]bool{}
		for s, ev := range w.held {
			before[s] = ev.WasTriggered()
		}
		prevLast, hadLast := w.last, w.evicted
		w.state.evict(slot)
		if !w.evicted || slot > w.last {
			w.evicted, w.last = true, slot
		}
		var fired []int64
		for s, ev := range w.held {
			if ev.WasTriggered() && !before[s] {
				fired = append(fired, s)
			}
		}
		sort.Slice(fired, func(i, j int) bool { return fired[i] < fired[j] })
		fs := make([]string, len(fired))
		for i, s := range fired {
			fs[i] = strconv.FormatInt(s, 10)
		}
		got := w.state.last()
		ans = fmt.Sprintf("[%s] last=%d", strings.Join(fs, " "), got)
		// the clause itself, right after the call: the state names the evicted slot, and a request for any slot at or
		// below it (the ends of the evicted range, its middle, the distances at which an implementation may switch its
		// strategy) is answered with a triggered event
		if got != w.last {
			r.Fail("eviction", fmt.Sprintf("after Evict(%d) LastEvictedSlot() is %d but the highest evicted slot is %d (previously %d, evicted before=%v, slot type %s)", slot, got, w.last, prevLast, hadLast, w.ty.name), w.sig("evict-last", slot))
		}
		probes := []int64{w.last, w.last / 2}
		if w.last >= 0 {
			probes = append(probes, 0)
		}
		for _, d := range []int64{1, 2, 3, 4095, 4096, 4097, 65535, 65536} {
			if x := satAdd(w.last, -d); x >= w.ty.min && x < w.last {
				probes = append(probes, x)
			}
		}
		probes = append(probes, w.ty.min)
		if hadLast && prevLast < w.last {
			probes = append(probes, prevLast, prevLast+1)
		}
		for _, x := range probes {
			if x > w.last || x < w.ty.min {
				continue
			}
			if ev := w.state.event(x); !ev.WasTriggered() {
				r.Fail("eviction", fmt.Sprintf("after Evict(%d) (previous last evicted slot %d, evicted before=%v) EvictionEvent(%d) is not triggered although %d <= %d (slot type %s)", slot, prevLast, hadLast, x, x, w.last, w.ty.name), w.sig("evict-probe", slot, x))

				break
			}
		}
	default:
		return "bad-op"
	}
	for s, ev := range w.held {
		if want := w.evicted && s <= w.last; ev.WasTriggered() != want {
			r.Fail("eviction", fmt.Sprintf("after %q the event of slot %d has triggered=%v but the last evicted slot is %d (evicted=%v, slot type %s)", strings.Join(f, " "), s, ev.WasTriggered(), w.last, w.evicted, w.ty.name), w.sig(f[0], s, w.last))

			break
		}
	}

	return ans
}

// evJumps are the distances an Evict may jump over: every magnitude around the sizes at which an implementation could
// change its strategy.
var evJumpsMedium = []int64{100, 255, 256, 1000, 4094, 4095, 4096, 4097, 5000, 8192}
var evJumpsLarge = []int64{65535, 65536, 65537, 100000, 1 << 17, 1<<20 - 1, 1 << 20, 1<<20 + 1}
var evJumpsHuge = []int64{1 << 24, 1 << 31, 1<<32 + 1, 1 << 40, 1 << 53, 1 << 62}

// genEV: the history starts somewhere in the slot type's range — at 0, below 0 for the signed and the float types, at
// the bottom of the type — and moves upwards.  budget bounds the total length of the evicted ranges while the
// implementation probes slot by slot (0 = unbounded: evict collects the registered events, its cost does not depend on
// the range).
func genEV(rng *hx.Rng, n int) []string {
	ty := &evTypes[0]
	if !rng.Chance(1, 3) {
		ty = &evTypes[rng.Intn(len(evTypes))]
	}
	ops := []string{"ev new " + ty.name}
	if ty.name == "int" && rng.Bool() {
		ops[0] = "ev new"
	}
	class := rng.Intn(8) // 0-3 small steps only, 4-6 medium jumps too, 7 large and huge jumps too
	// frontier: the last evicted slot, before the first eviction the slot the history starts around
	frontier := int64(0)
	if ty.min < 0 && rng.Chance(2, 3) {
		frontier = hx.Pick(rng, []int64{-1, -2, -3, -5, -100, -129, -4097, -65537, ty.min, ty.min + 2, ty.min / 2})
		if frontier < ty.min {
			frontier = ty.min
		}
	}
	evicted := false
	budget := evRangeBudget
	large := 0
	event := func(s int64) {
		if s >= ty.min && s <= ty.max {
			ops = append(ops, fmt.Sprintf("ev event %d", s))
		}
	}
	for len(ops) < n {
		if rng.Chance(1, 2) {
			// an event somewhere: near the frontier (both sides), below it, far above it, at the ends of the type
			switch x := rng.Intn(20); {
			case x < 12:
				event(satAdd(frontier, int64(rng.Range(-1, 5))))
			case x < 15:
				event(satAdd(frontier, -int64(rng.Intn(300))))
			case x < 17:
				event(satAdd(frontier, hx.Pick(rng, evJumpsMedium)))
			case x < 18:
				event(ty.max - int64(rng.Intn(3)))
			case x < 19:
				event(ty.min + int64(rng.Intn(3)))
			default:
				event(satAdd(frontier, hx.Pick(rng, evJumpsLarge)))
			}

			continue
		}
		var target int64
		switch x := rng.Intn(20); {
		case x < 3 && evicted: // at or below the last evicted slot: nothing happens
			target = satAdd(frontier, -int64(rng.Intn(3)))
		case class >= 4 && x < 8:
			target = satAdd(frontier, hx.Pick(rng, evJumpsMedium))
		case class == 7 && x < 12 && large < 2:
			target = satAdd(frontier, hx.Pick(rng, evJumpsLarge))
			if budget == 0 && rng.Bool() {
				target = satAdd(frontier, hx.Pick(rng, evJumpsHuge))
			}
			large++
		case (ty.max <= math.MaxUint16 || budget == 0 && class == 7) && x < 14: // the top of the slot type
			target = ty.max - int64(rng.Intn(2))
		default:
			target = satAdd(frontier, int64(rng.Range(1, 3)))
			if !evicted {
				target = satAdd(frontier, int64(rng.Range(-1, 1)))
			}
		}
		if target > ty.max {
			target = ty.max
		}
		if target < ty.min {
			target = ty.min
		}
		if !evicted || target > frontier {
			if budget > 0 {
				// the unrepaired implementation probes from 0 (first eviction) or from the last evicted slot
				from := frontier
				if !evicted {
					from = 0
				}
				if span := target - from; span > 0 {
					if span > budget {
						continue
					}
					budget -= span
				}
			}
			// events inside and around the range that is about to be evicted
			for k := rng.Intn(4); k > 0; k-- {
				switch rng.Intn(6) {
				case 0:
					event(target)
				case 1:
					event(satAdd(target, 1))
				case 2:
					event(satAdd(frontier, 1))
				case 3:
					event(frontier/2 + target/2)
				case 4:
					event(satAdd(target, -1))
				default:
					event(satAdd(target, -int64(rng.Intn(40))))
				}
			}
		}
		ops = append(ops, fmt.Sprintf("ev evict %d", target))
		if !evicted || target > frontier {
			evicted, frontier = true, target
		}
		// requests for evicted slots right after the eviction
		for k := rng.Intn(3); k > 0; k-- {
			switch rng.Intn(4) {
			case 0:
				event(frontier)
			case 1:
				event(satAdd(frontier, -int64(rng.Intn(5000))))
			case 2:
				event(satAdd(frontier, -4096))
			default:
				event(ty.min)
			}
		}
	}

	return ops
}

// evRangeBudget: see genEV.  0 since 1f64f76 (evict collects the registered events); it was 3<<20 while evict probed slot
// by slot.  An implementation that goes back to probing does not return from the huge jumps: progress watchdog.
var evRangeBudget = int64(0)
