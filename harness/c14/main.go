// C14 correspondence harness: derived reactive values (ds/reactive) converge to their defining function.
//
// Part 1 (sequential differential): random call histories over DerivedSet, SubtractReactive, Counter, SortedSet,
// EvictionState and WaitGroup; every op line is executed on the real code and must be answered identically by the
// Lean models (lean/Hive/Model/Derived*.lean).  Part 2 (stress to quiescence): concurrent writers and structural
// changes, then `q …` requests decided by the Lean driver with the predicates of the theorems.  Independent of
// Lean, the defining function is recomputed in Go after every op / at quiescence (property oracle, r.Fail).
package main

import (
	"crypto/sha256"
	"fmt"
	"strings"
	"sync/atomic"
	"time"

	"verifharness/hx"
)

func newWorld(kind string, first []string) world {
	switch kind {
	case "ds":
		return newDSWorld()
	case "sr":
		return &srWorld{}
	case "ct":
		return &ctWorld{}
	case "ss":
		if len(first) > 2 && first[2] == "less" {
			return newSSWorld[lessEl](true)
		}

		return newSSWorld[plainEl](false)
	case "ev":
		ty := "int"
		if len(first) > 2 {
			ty = first[2]
		}

		return newEVWorld(ty)
	case "wg":
		return &wgWorld{}
	case "dv":
		return &dvWorld{}
	case "gs":
		return &gsWorld{}
	}

	return nil
}

// recorder buffers what a sequential case produces, so that a case that hangs can be abandoned without its
// goroutine ever writing into a later case.
type recorder struct {
	lines  [][2]string
	fails  []failure
	counts []string
	cur    atomic.Int32 // index of the op in progress
}

func (c *recorder) Fail(oracle, detail string, sig map[string]string) {
	c.fails = append(c.fails, failure{oracle, detail, sig})
}

var seqTimeout = 40 * time.Second

// runCase interprets the op lines of one case (one construct, or stress scenarios).
func runCase(r *hx.Run, sub uint64, ops []string) {
	r.Case(sub)
	first := strings.Fields(ops[0])
	if first[0] == "stress" || first[0] == "q" {
		for _, op := range ops {
			f := strings.Fields(op)
			if len(f) == 0 || f[0] != "stress" {
				continue // `q` lines are produced by the stress scenarios themselves
			}
			if p := hx.Safely(func() { runStress(r, f) }); p != "" {
				r.Fail("no-panic", "panic in "+op+": "+p, map[string]string{"construct": f[1], "trigger": "panic", "mode": "stress"})
			}
			r.Count("stress:" + f[1])
			r.Nontrivial(op)
		}
		r.Sample(r.CaseLines())

		return
	}
	construct := first[0]
	if hung["seq:"+construct] {
		r.Count("sequential-skipped-after-hang:" + construct)

		return
	}
	rec := &recorder{}
	done := make(chan struct{})
	go func() {
		defer close(done)
		var w world
		for i, op := range ops {
			rec.cur.Store(int32(i))
			f := strings.Fields(op)
			if len(f) < 2 {
				continue
			}
			if w == nil {
				if w = newWorld(f[0], f); w == nil {
					rec.lines = append(rec.lines, [2]string{op, "bad-op"})

					continue
				}
			}
			ans := ""
			if p := hx.Safely(func() { ans = w.exec(rec, f[1:]) }); p != "" {
				ans = "panic"
				rec.Fail("no-panic", "panic in "+op+": "+p, map[string]string{"construct": f[0], "trigger": f[1], "mode": "sequential"})
			}
			rec.lines = append(rec.lines, [2]string{op, ans})
			rec.counts = append(rec.counts, "op:"+f[0]+" "+f[1])
		}
	}()
	select {
	case <-done:
	case <-time.After(seqTimeout):
		// the call never returned (endless loop or self-deadlock): the goroutine is abandoned, its buffer is dropped
		hung["seq:"+construct] = true
		i := int(rec.cur.Load())
		// the op lines up to the call that hangs go into the replay (the abandoned goroutine sits in that call and does
		// not append any more)
		for k := 0; k < i && k < len(rec.lines); k++ {
			r.Line(rec.lines[k][0], rec.lines[k][1])
		}
		r.Line(ops[i], "hang")
		r.Fail("progress-watchdog", fmt.Sprintf("sequential call %q did not return within %s; history: %s", ops[i], seqTimeout, strings.Join(ops[:i+1], "; ")),
			map[string]string{"construct": construct, "trigger": strings.Fields(ops[i])[1], "mode": "sequential-hang"})

		return
	}
	changes, prev := 0, ""
	for _, l := range rec.lines {
		r.Line(l[0], l[1])
		if l[1] != prev {
			changes++
		}
		prev = l[1]
	}
	for _, c := range rec.counts {
		r.Count(c)
	}
	for _, f := range rec.fails {
		r.Fail(f.oracle, f.detail, f.sig)
	}
	if changes >= 4 {
		h := sha256.Sum256([]byte(strings.Join(ops, "\n")))
		r.Nontrivial(string(h[:8]))
	}
	r.Sample(r.CaseLines())
}

// region generators ///////////////////////////////////////////////////////////////////////////////////////////////

func genSrcWrite(rng *hx.Rng, prefix string, nsets int) string {
	i := rng.Intn(nsets)
	switch x := rng.Intn(100); {
	case x < 35:
		return fmt.Sprintf("%s add %d %d", prefix, i, rng.Range(1, 5))
	case x < 62:
		return fmt.Sprintf("%s del %d %d", prefix, i, rng.Range(1, 5))
	case x < 82:
		return fmt.Sprintf("%s replace %d %s", prefix, i, joinInts(randomSubset(rng)))
	case x < 90:
		return fmt.Sprintf("%s apply %d %s %s", prefix, i, joinInts(randomSubset(rng)), joinInts(randomSubset(rng)))
	}
	// the argument is not private to the call: another input set, the written set itself, its read-only view, or a
	// set that is written while it is being read
	j := rng.Intn(nsets)
	if rng.Chance(1, 3) {
		j = i
	}
	switch x := rng.Intn(10); {
	case x < 3:
		return fmt.Sprintf("%s replaceset %d %d", prefix, i, j)
	case x < 5:
		return fmt.Sprintf("%s replaceset %d %d ro", prefix, i, j)
	case x < 6:
		return fmt.Sprintf("%s addall %d %d", prefix, i, j)
	case x < 7:
		return fmt.Sprintf("%s delall %d %d", prefix, i, j)
	default:
		if j == i {
			j = (i + 1) % nsets
		}

		return fmt.Sprintf("%s replacemut %d %d %d", prefix, i, j, rng.Range(1, 5))
	}
}

// elemScales: the real elements of a DerivedSet / SubtractReactive case are x*scale+off for the model's x in 0..15.
var elemScales = []string{"x1+4096", "x4096", "x4097+-5", "x65536+1", "x-1", "x-65537", "x1048576", "x1099511627776+3", "x288230376151711744"}

func newLine(rng *hx.Rng, prefix string) string {
	if rng.Chance(1, 4) {
		return prefix + " new " + hx.Pick(rng, elemScales)
	}

	return prefix + " new"
}

// rangeList is "a,a+1,…,b-1".
func rangeList(a, b int) string {
	xs := make([]int, 0, b-a)
	for x := a; x < b; x++ {
		xs = append(xs, x)
	}

	return joinInts(xs)
}

func repeatList(xs []int, n int) []int {
	out := make([]int, 0, n)
	for len(out) < n {
		out = append(out, xs[len(out)%len(xs)])
	}

	return out
}

// sizes around the places where a container or a counter may change its strategy or its width
var bigSizes = []int{255, 256, 257, 300, 1000, 4095, 4096, 4097, 5000}

// genBig: one case per construct in which a size parameter is large — a DerivedSet with hundreds / thousands of
// subscriptions (occurrence counts beyond 255 / 4096), a SubtractReactive with as many subtracted sets, a Counter with as
// many monitors, a SortedSet and a WaitGroup with as many elements — and values of every magnitude.
func genBig(rng *hx.Rng, kind int) []string {
	k := hx.Pick(rng, bigSizes)
	var ops []string
	switch kind % 5 {
	case 0:
		ops = []string{newLine(rng, "ds"), "ds add 0 1", "ds add 1 2", "ds add 1 3"}
		ops = append(ops, "ds inherit "+joinInts(repeatList([]int{0, 1, 0}, k)))
		for i := 0; i < 6; i++ {
			ops = append(ops, genSrcWrite(rng, "ds", 3))
		}
		members := make([]int, k)
		for i := range members {
			members[i] = i
		}
		ops = append(ops, "ds inherit 1,2", "ds unsub "+joinInts(members))
		for i := 0; i < 5; i++ {
			ops = append(ops, genSrcWrite(rng, "ds", 3))
		}
		ops = append(ops, fmt.Sprintf("ds unsub %d,%d", k, k+1), "ds add 1 7")
	case 1:
		ops = []string{newLine(rng, "sr"), "sr apply 0 1,2,3,4,5 -", "sr add 1 2", "sr add 2 3"}
		ops = append(ops, "sr create 0 "+joinInts(repeatList([]int{1, 2, 1, 3}, k)))
		for i := 0; i < 14; i++ {
			ops = append(ops, genSrcWrite(rng, "sr", 4))
		}
	case 2:
		ops = []string{"ct new " + hx.Pick(rng, []string{"nonzero", "gt2", "even"}), "ct mon 0", fmt.Sprintf("ct set 1 %d", bigValue(rng)), fmt.Sprintf("ct monmany 1 %d", k)}
		unmonitored := map[int]bool{}
		for i := 0; i < 10; i++ {
			switch rng.Intn(4) {
			case 0:
				if j := rng.Intn(k + 1); !unmonitored[j] { // an unsubscribe function is called at most once
					unmonitored[j] = true
					ops = append(ops, fmt.Sprintf("ct unmon %d", j))
				}
			case 1:
				ops = append(ops, fmt.Sprintf("ct monmany %d %d", rng.Intn(2), rng.Range(1, 300)))
			default:
				ops = append(ops, fmt.Sprintf("ct set %d %d", rng.Intn(2), bigValue(rng)))
			}
		}
	case 3:
		ops = []string{"ss new " + hx.Pick(rng, []string{"plain", "less"})}
		base := hx.Pick(rng, []int{1, 1, 4096, 1 << 20, 1 << 40})
		for i := 0; i < 6; i++ {
			ops = append(ops, fmt.Sprintf("ss w %d %d", base+rng.Intn(k), bigValue(rng)))
		}
		ops = append(ops, fmt.Sprintf("ss apply %s -", rangeList(base, base+k)))
		for i := 0; i < 8; i++ {
			switch rng.Intn(5) {
			case 0:
				ops = append(ops, fmt.Sprintf("ss del %d", base+rng.Intn(k)))
			case 1:
				ops = append(ops, fmt.Sprintf("ss add %d", base+k+rng.Intn(3)))
			default:
				ops = append(ops, fmt.Sprintf("ss w %d %d", base+rng.Intn(k), bigValue(rng)))
			}
		}
		ops = append(ops, fmt.Sprintf("ss apply - %s", rangeList(base+1, base+k)))
	default:
		base := hx.Pick(rng, []int{1, 16, 4096, 1 << 20, 1 << 40, 1 << 62})
		ops = []string{"wg new " + rangeList(base, base+k), "wg add " + rangeList(base, base+k), "wg done " + rangeList(base, base+k/2),
			"wg add " + rangeList(base+k/2-1, base+k/2+2), "wg done " + rangeList(base+k/2-1, base+k-1), "wg add " + joinInts([]int{base + k - 1, base + k - 1}),
			"wg done " + joinInts([]int{base + k - 1, base + k - 1}), "wg done " + joinInts([]int{base + k - 1}), "wg add 3", "wg done 3"}
	}

	return ops
}

// bigValue: input values / weights of every magnitude and sign.
func bigValue(rng *hx.Rng) int {
	vals := []int{0, 1, 2, 3, 4, -1, 255, 256, 4095, 4096, 4097, 65535, 65536, -65536, 1 << 31, 1<<31 - 1, -(1 << 31), 1 << 32, 1 << 40,
		1<<62 + 1, 1<<63 - 1, -(1 << 63), -(1 << 63) + 1}

	return hx.Pick(rng, vals)
}

func genDS(rng *hx.Rng, n int) []string {
	ops := []string{newLine(rng, "ds")}
	type group struct {
		members []int
		live    bool
	}
	var groups []*group
	nsubs := 0
	for len(ops) < n {
		switch x := rng.Intn(100); {
		case x < 18 || nsubs == 0:
			g := &group{live: true}
			srcs := []int{rng.Intn(3)}
			if rng.Chance(1, 4) {
				srcs = append(srcs, rng.Intn(3))
			}
			for range srcs {
				g.members = append(g.members, nsubs)
				nsubs++
			}
			groups = append(groups, g)
			ops = append(ops, "ds inherit "+joinInts(srcs))
		case x < 30:
			var live []*group
			for _, g := range groups {
				if g.live {
					live = append(live, g)
				}
			}
			if len(live) == 0 {
				continue
			}
			g := hx.Pick(rng, live)
			g.live = false
			ops = append(ops, "ds unsub "+joinInts(g.members))
		default:
			ops = append(ops, genSrcWrite(rng, "ds", 3))
		}
	}

	return ops
}

func genSR(rng *hx.Rng, n int) []string {
	ops := []string{newLine(rng, "sr")}
	createAt := rng.Intn(8)
	for len(ops) < n {
		if len(ops) == createAt+1 {
			others := []int{rng.Range(1, 3)}
			for rng.Chance(1, 2) && len(others) < 3 {
				others = append(others, rng.Range(0, 3))
			}
			ops = append(ops, fmt.Sprintf("sr create 0 %s", joinInts(others)))

			continue
		}
		ops = append(ops, genSrcWrite(rng, "sr", 4))
	}

	return ops
}

func genCT(rng *hx.Rng, n int) []string {
	ops := []string{"ct new " + hx.Pick(rng, []string{"nonzero", "nonzero", "gt2", "even"})}
	var live []int
	mons := 0
	for len(ops) < n {
		switch x := rng.Intn(100); {
		case x < 22 || mons == 0:
			ops = append(ops, fmt.Sprintf("ct mon %d", rng.Intn(4)))
			live = append(live, mons)
			mons++
		case x < 38 && len(live) > 0:
			k := rng.Intn(len(live))
			ops = append(ops, fmt.Sprintf("ct unmon %d", live[k]))
			live = append(live[:k], live[k+1:]...)
		default:
			v := rng.Range(-1, 4)
			if rng.Chance(1, 8) {
				v = bigValue(rng)
			}
			ops = append(ops, fmt.Sprintf("ct set %d %d", rng.Intn(4), v))
		}
	}

	return ops
}

func genSS(rng *hx.Rng, n int) []string {
	ops := []string{"ss new " + hx.Pick(rng, []string{"plain", "less"})}
	for len(ops) < n {
		switch x := rng.Intn(100); {
		case x < 28:
			ops = append(ops, fmt.Sprintf("ss add %d", rng.Range(1, 6)))
		case x < 42:
			ops = append(ops, fmt.Sprintf("ss del %d", rng.Range(1, 6)))
		case x < 54:
			ops = append(ops, fmt.Sprintf("ss apply %s %s", joinInts(shuffled(rng, randomSubset(rng))), joinInts(shuffled(rng, randomSubset(rng)))))
		default:
			v := rng.Range(-2, 4)
			if rng.Chance(1, 8) {
				v = bigValue(rng)
			}
			ops = append(ops, fmt.Sprintf("ss w %d %d", rng.Range(1, 6), v))
		}
	}

	return ops
}

func shuffled(rng *hx.Rng, xs []int) []int {
	for i := len(xs) - 1; i > 0; i-- {
		j := rng.Intn(i + 1)
		xs[i], xs[j] = xs[j], xs[i]
	}

	return xs
}

func genWG(rng *hx.Rng, n int) []string {
	els := func() []int {
		var xs []int
		for k := rng.Intn(4); k > 0; k-- {
			xs = append(xs, rng.Range(1, 4))
		}

		return xs
	}
	ops := []string{"wg new " + joinInts(els())}
	for len(ops) < n {
		if rng.Chance(2, 5) {
			ops = append(ops, "wg add "+joinInts(els()))
		} else {
			ops = append(ops, "wg done "+joinInts(els()))
		}
	}

	return ops
}

func genStress(rng *hx.Rng, kind string, scale int) string {
	seed := rng.U64()
	// two thirds of the scenarios are short bursts (1-4 calls per goroutine): what is compared is the state after the
	// last calls, so many short rounds expose a stale final value far more often than a few long ones
	it := func(lo, hi int) int {
		if rng.Chance(2, 3) {
			return rng.Range(1, 4)
		}

		return rng.Range(lo, hi)
	}
	switch kind {
	case "dvar":
		return fmt.Sprintf("stress dvar %s %d %d %d %d %d %d", hx.Pick(rng, []string{"sum", "lin", "max", "firstnz", "parity"}),
			rng.Range(1, 4), rng.Range(1, 2), it(20, 300), rng.Intn(2), rng.Intn(2), seed)
	case "inherit":
		return fmt.Sprintf("stress inherit %d %d %d", rng.Range(1, 3), it(20, 300), seed)
	case "dset":
		return fmt.Sprintf("stress dset %d %d %d", rng.Range(1, 3), it(20, 200), seed)
	case "sub":
		return fmt.Sprintf("stress sub %d %d %d %d", rng.Range(1, 3), it(20, 200), rng.Intn(2), seed)
	case "counter":
		return fmt.Sprintf("stress counter %s %d %d %d", hx.Pick(rng, []string{"nonzero", "gt2", "even"}), rng.Range(1, 4), it(20, 200), seed)
	case "sorted":
		return fmt.Sprintf("stress sorted %s %d %d", hx.Pick(rng, []string{"plain", "less"}), it(20, 200), seed)
	case "sortedrace":
		return fmt.Sprintf("stress sortedrace %s %d %d", hx.Pick(rng, []string{"plain", "less"}), rng.Range(20, 1500), seed)
	case "evict":
		return fmt.Sprintf("stress evict %d %d", it(10, 60), seed)
	case "evictsame":
		return fmt.Sprintf("stress evictsame %d 8 %d", rng.Range(50, 400), seed)
	case "dvzero":
		return genDVZero(rng)
	case "stack", "stackforced", "stackvar", "stacksorted", "basewrite":
		return genStack(rng, kind)
	case "evictmax":
		return fmt.Sprintf("stress evictmax %d %d %d", rng.Range(100, 300), rng.Range(2, 6), seed)
	case "onupdate":
		return genOnUpdate(rng)
	case "ctorrace":
		return fmt.Sprintf("stress ctorrace %s %d %d", hx.Pick(rng, []string{"lin", "sum", "firstnz"}), rng.Range(300, 1500), seed)
	}

	return fmt.Sprintf("stress wg %d %d %d", rng.Range(2, 4), it(20, 300), seed)
}

// endregion

func main() {
	r := hx.Start()
	r.Rule = "sequential: random call histories (25-40 ops) over DerivedSet (3 sources, InheritFrom/unsubscribe/Add/Delete/Apply/Replace), SubtractReactive, " +
		"Counter (3 conditions, Monitor/unsubscribe/Set), SortedSet (plain and Less-tie-broken elements; Add/Delete/Apply/weight Set incl. absent elements), " +
		"EvictionState, WaitGroup; non-trivial = the observed derived value changed at least 4 times in the case, distinct by sha256 of the op lines. " +
		"stress: one scenario per case (concurrent writers + structural changes, run to quiescence under a watchdog), distinct by its descriptor line"
	r.MaxSamples = 4
	if lines := r.ReplayLines(); lines != nil {
		runCase(r, 0, lines)
		r.Finish()

		return
	}
	// corpus: hand-written histories and minimised past failures run first
	corpus := [][]string{
		// reactive Replace with a retained element under a DerivedSet (C13/C14 finding, repaired by 036bec1)
		{"ds new", "ds add 0 1", "ds add 0 2", "ds inherit 0", "ds replace 0 2,3", "ds inherit 1", "ds add 1 2", "ds unsub 0", "ds unsub 1"},
		// Counter: unsubscribing a monitor whose input satisfies the condition
		{"ct new nonzero", "ct mon 0", "ct set 0 3", "ct mon 0", "ct unmon 0", "ct set 0 0", "ct unmon 1"},
		// WaitGroup duplicate Add racing Done (forced through the verif hook)
		{"wg new 1", "wg race 2", "wg add 1,1,2", "wg done 1", "wg done 2"},
		// SortedSet: weight updates of absent / removed elements, ties
		{"ss new plain", "ss w 2 3", "ss add 1", "ss add 2", "ss add 3", "ss w 3 3", "ss del 2", "ss w 2 9", "ss add 2", "ss w 1 -1", "ss del 2", "ss del 3", "ss del 1"},
		{"ss new less", "ss add 1", "ss add 2", "ss add 3", "ss w 1 1", "ss w 3 1", "ss w 2 1", "ss apply 4,5 1,4"},
		{"ev new", "ev event 3", "ev event 0", "ev evict 0", "ev event 0", "ev evict 5", "ev event 3", "ev event 9", "ev evict 2", "ev evict 9"},
		{"sr new", "sr add 0 1", "sr add 1 1", "sr add 0 2", "sr create 0 1,1", "sr del 1 1", "sr replace 0 2,3", "sr apply 1 2,3 3"},
		// weight update racing the Add of its element (verif hook + parking Less): forced schedule
		{"ss new less", "ss window"},
		// Replace / AddAll / DeleteAll whose argument is the set itself, its read-only view, another source, or a set that
		// is written while it is read (fourth seeded round)
		{"ds new", "ds apply 0 1,2,3 -", "ds inherit 0,1", "ds replaceset 0 0", "ds replaceset 0 0 ro", "ds add 1 4", "ds replacemut 0 1 5",
			"ds addall 1 0", "ds delall 0 0", "ds replaceset 1 0"},
		{"sr new", "sr apply 0 1,2,3 -", "sr add 1 2", "sr create 0 1", "sr replaceset 0 0 ro", "sr replacemut 1 0 4", "sr replacemut 0 1 5", "sr delall 1 1"},
		// the SortedSet lock inversion (repaired): Add/Delete of an element against updates of its weight
		{"stress sortedrace plain 1500 1", "stress sortedrace less 1500 2"},
		// Evict of the largest value of a narrow slot type (the probing loop wrapped around and never ended: 4972df2), of
		// ranges at and around 4096 / 65536 / 2^20 slots, requests for evicted slots right afterwards
		{"ev new u8", "ev event 255", "ev event 254", "ev evict 250", "ev event 253", "ev evict 255", "ev event 255", "ev event 0", "ev evict 255"},
		{"ev new i8", "ev evict 127", "ev event 127", "ev event 1"},
		{"ev new u16", "ev event 65535", "ev event 4096", "ev evict 4095", "ev event 4095", "ev evict 65534", "ev evict 65535", "ev event 65535"},
		{"ev new i16", "ev event 32767", "ev evict 32767"},
		{"ev new slot32", "ev event 4096", "ev event 4097", "ev event 5000", "ev evict 4096", "ev event 0", "ev event 4096", "ev evict 8193", "ev event 4097", "ev event 8193",
			"ev event 73730", "ev evict 73729", "ev event 73729", "ev evict 73730", "ev event 1122306", "ev event 1122307", "ev evict 1122306", "ev event 1122306", "ev event 73731"},
		{"ev new u64", "ev event 9223372036854775807", "ev event 1048576", "ev evict 1048576", "ev event 1048576", "ev event 9223372036854775807", "ev evict 1048577"},
		{"ev new f64", "ev event 4097", "ev evict 4096", "ev event 4096", "ev evict 4097", "ev event 9007199254740992"},
		{"ev new f32", "ev event 16777216", "ev event 70000", "ev evict 65536", "ev evict 70000"},
		// DerivedVariable: inputs that hold values already, initial value, Unsubscribe twice, DeriveValueFrom and its teardown
		{"dv new lin 7 1,0,4096", "dv set 1 5", "dv derive", "dv set 2 -65537", "dv set 0 1", "dv unsub", "dv set 1 9", "dv unsub", "dv teardown", "dv set 0 3"},
		{"dv new firstnz -3 0", "dv derive", "dv set 0 0", "dv set 0 1099511627776", "dv teardown", "dv set 0 2"},
		// the deriving variable holds 7 and the derived one the zero value: InheritFrom must copy the zero value too
		{"dv new sum 0 0,0", "dv derive 7", "dv set 1 3", "dv toggle 0 2", "dv reset 0", "dv default 1 9", "dv default 0 9", "dv compute 1 -3"},
		// slots below 0 registered before the first eviction, and float slots between two integers (f32q / f64q count
		// quarters: 6 = 1.5, 8 = 2.0): the probing loop of the unrepaired evict never reached them
		{"ev new i8", "ev event -3", "ev event 2", "ev evict -1", "ev event -3", "ev evict -1", "ev evict 5", "ev event -128"},
		{"ev new int", "ev event -9223372036854775808", "ev event -9223372036854775806", "ev evict -9223372036854775807", "ev event -9223372036854775808", "ev evict -9223372036854775806"},
		{"ev new i16", "ev evict -32768", "ev event -32767", "ev event -32768", "ev evict -32767", "ev event 32767", "ev evict 32767"},
		{"ev new f64q", "ev event 6", "ev evict 8", "ev event 6", "ev event 9", "ev event 10", "ev evict 9", "ev evict 12"},
		{"ev new f32q", "ev evict 0", "ev event 6", "ev event 9", "ev event -2", "ev evict 8", "ev evict 12", "ev event -3"},
		{"ev new f64", "ev event -3", "ev evict -2", "ev event -3", "ev evict 4"},
		// concurrent EvictionEvent callers per fresh slot must share one event (GetOrCreate must re-check under its lock)
		{"stress evictsame 4000 8 1"},
		// a writer clears a later input while the constructor of a DerivedVariable sits in its first computation (sixth
		// seeded round: every subscription - the last one above all - must trigger also for the zero value), every arity,
		// int / bool / string inputs
		{"stress dvzero lin int 1,5 1 1:0", "stress dvzero lin int 1,0,7 1 2:0", "stress dvzero lin mix 1,1,0,0 1 1:0", "stress dvzero lin mix 1,0,7 1 2:0",
			"stress dvzero lin int 1,5,2 2 2:0", "stress dvzero lin int 0,0,0,9 1 3:0", "stress dvzero lin int 1,2,3,4 3 3:0", "stress dvzero firstnz int 0,5 1 1:0",
			"stress dvzero lin int 3 1 0:0", "stress dvzero lin int 1,5 1 1:0,0:0", "stress dvzero lin int 1,5 2 0:0", "stress dvzero lin mix 1,1 1 1:0"},
		// derived objects fed by derived objects: writer 1 parked inside its notification of the intermediate node's
		// subscribers while writer 2 makes the inverse change (a write path that notifies outside of its write mutex lets the
		// two notifications overtake each other)
		{"stress stackforced ds-sub 0 1", "stress stackforced ds-sub 1 2", "stress stackforced ds-sub 2 3", "stress stackforced ds-ds 0 1", "stress stackforced ds-ds 1 4",
			"stress stackforced ds-ds-sub 0 2", "stress stackforced sub-sub 0 1", "stress stackforced sub-ds 0 5", "stress stackforced ds-sub-sub 1 1"},
		// every write path of a plain reactive set as the writer whose notification is delayed (adding and removing)
		{"stress basewrite single compute 1 1", "stress basewrite all replace 1 2", "stress basewrite apply single 1 3", "stress basewrite replace all 1 4",
			"stress basewrite compute apply 1 5", "stress basewrite single apply 0 1", "stress basewrite all single 0 2", "stress basewrite apply compute 0 3",
			"stress basewrite replace single 0 4", "stress basewrite compute all 0 5"},
		// compositions, sequentially (differential with the graph model): non-empty base sets at construction, diamond
		{"gs new ds-sub-ds 1,2 2,3 3,4", "gs add 0 5", "gs add 2 5", "gs del 0 5", "gs replace 1 1,5", "gs apply 2 1 5", "gs del 1 1", "gs replace 0 -"},
		{"gs new ds-ds-sub 1,2,3 3 4", "gs inherit 3", "gs inherit 0", "gs add 1 1", "gs unsub 3", "gs del 0 1", "gs add 0 5", "gs unsub 0", "gs inherit 3", "gs del 1 3", "gs inherit 4",
			"gs replace 2 -", "gs unsub 4", "gs unsub 3"},
		{"gs new sub-subs 1,2,3 2 1,2", "gs del 1 2", "gs add 1 3", "gs add 1 1", "gs replace 2 -", "gs replace 1 -"},
		// a writer inside the OnUpdate window (registration + snapshot done, initial invocation not yet) of every subscribing call
		{"stress onupdate dvar lin 1,5 1 0:3", "stress onupdate dvar lin 1,5 2 1:0", "stress onupdate dvar lin 1,5 2 0:4", "stress onupdate dvar lin 1,2,3 2 1:7,2:0",
			"stress onupdate dvar sum 0,0,0,1 4 3:0", "stress onupdate inherit 7 1 0", "stress onupdate inherit 0 0 3", "stress onupdate counter even 1 0",
			"stress onupdate counter nonzero 0 2", "stress onupdate dset 1 0 del 3", "stress onupdate dset 2 1 del 3", "stress onupdate dset 1 0 add 3",
			"stress onupdate sub 1 0 del 3", "stress onupdate sub 2 1 del 3", "stress onupdate sub 2 1 add 9", "stress onupdate sub 1 1 add 9"},
		// evictors released together with different slots: the last evicted slot must be the maximum
		{"stress evictmax 3000 4 1", "stress evictmax 1500 2 2", "stress evictmax 1000 8 3"},
	}
	for _, c := range corpus {
		runCase(r, 0, c)
	}
	gens := []func(*hx.Rng, int) []string{genDS, genDS, genSR, genCT, genSS, genSS, genEV, genWG, genEV, genDV, genGS}
	nseq := 3200 * r.Scale
	for i := 0; i < nseq; i++ {
		rng, sub := r.Rng.Fork()
		runCase(r, sub, gens[i%len(gens)](rng, rng.Range(25, 40)))
	}
	// size cases: few (they are long), every construct in turn
	for i := 0; i < 10*r.Scale; i++ {
		rng, sub := r.Rng.Fork()
		runCase(r, sub, genBig(rng, i))
		r.Count("size-case")
	}
	// the same far beyond the sizes the line-by-line model can replay (Go oracle after every phase)
	sizeNs := []int{32767, 32768, 65535, 65536, 65537, 70000}
	if r.Scale > 1 {
		sizeNs = append(sizeNs, 1<<20, 1<<20+1)
	}
	for i, n := range sizeNs {
		for _, c := range []string{"wg", "counter", "dset", "sorted"} {
			if (c == "sorted" && i%3 != int(r.Seed%3)) || (c == "dset" && i%2 == 0) || (n > 70000 && (c == "sorted" || c == "dset")) {
				continue // deleteSorted shifts the tail: two sizes per run; a million subscriptions / sorted elements are too slow
			}
			runCase(r, uint64(n), []string{fmt.Sprintf("stress sizes %s %d %d", c, n, r.Seed+uint64(i))})
		}
	}
	kinds := []string{"dvar", "dvar", "inherit", "dset", "sub", "counter", "sorted", "sorted", "sortedrace", "evict", "evictsame", "wg", "dvzero", "dvzero", "evictmax", "stack", "stack", "stackvar", "stacksorted", "onupdate", "ctorrace"}
	nstress := 150 * r.Scale
	if r.Scale > 1 {
		nstress *= 2 // thorough: spend the budget on interleavings
	}
	for i := 0; i < nstress; i++ {
		if i%10 == 0 && i < 600 { // forced schedules wait for a writer that (on correct code) is blocked: few of them
			rng, sub := r.Rng.Fork()
			runCase(r, sub, []string{genStress(rng, "stackforced", r.Scale)})
			rng, sub = r.Rng.Fork()
			runCase(r, sub, []string{genStress(rng, "basewrite", r.Scale)})
		}
		for _, k := range kinds {
			if k == "ctorrace" && r.Scale > 1 && i%4 != 0 {
				continue // many short rounds per scenario: a quarter of them in the thorough tier
			}
			rng, sub := r.Rng.Fork()
			runCase(r, sub, []string{genStress(rng, k, r.Scale)})
		}
	}
	r.Finish()
}
