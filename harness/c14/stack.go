package main

// Compositions of derived objects (sixth seeded round): acyclic graphs in which a derived object is fed by the result
// of another one, two and three levels deep.
//
//   stress stack <shape> <rounds> <conc 0|1> <seed>   DerivedSet / SubtractReactive graphs over three base sets; per round
//       one writer per base set, released together, 1-2 writes each on a hot element (the same element is added to the
//       source and to the subtracted set at the same moment); after every round (= quiescence) every derived node must
//       equal its defining function of the CURRENT VALUES OF ITS DIRECT INPUTS.
//   stress stackforced <shape> <x>   the same graphs with the interleaving forced: an observer subscribed to the
//       intermediate node before the top node parks writer 1 inside its notification and is unsubscribed meanwhile;
//       writer 2 - whose mutation of the intermediate node is the inverse - runs; writer 1 is released.  With the
//       notification inside the intermediate node's write mutex writer 2 waits for writer 1 and nothing can overtake.
//   stress stackvar <rounds> <seed>   DerivedVariable of DerivedVariable of inputs (three levels), a Counter that monitors
//       the derived variables and a variable that inherits from the last one; writers on the inputs incl. zero values.
//   stress stacksorted <rounds> <seed>   a SortedSet whose weights are DerivedVariables (per-element input + shared input).

import (
	"fmt"
	"strings"
	"sync"
	"sync/atomic"
	"time"

	"verifharness/hx"

	"github.com/iotaledger/hive.go/ds"
	"github.com/iotaledger/hive.go/ds/reactive"
)

type setNode struct {
	kind string // base | dset | sub
	set  reactive.Set[int]
	in   []int // dset: the sources; sub: source, others…

	// WithElements consumer of a derived node: number of set-ups minus tear-downs per element (1 for a member, else 0)
	mu     *sync.Mutex
	active map[int]int
}

// track subscribes a WithElements consumer (a per-element set-up that is torn down when the element leaves the set).
func (n *setNode) track() {
	n.active, n.mu = map[int]int{}, &sync.Mutex{}
	n.set.WithElements(func(x int) func() {
		n.mu.Lock()
		n.active[x]++
		n.mu.Unlock()

		return func() {
			n.mu.Lock()
			n.active[x]--
			n.mu.Unlock()
		}
	})
}

// stackShapes: the derived nodes (numbered from 3) over the base sets 0, 1, 2.
var stackShapes = map[string][]setNode{
	"ds-sub":     {{kind: "sub", in: []int{0, 1}}, {kind: "dset", in: []int{3}}},
	"ds-ds":      {{kind: "dset", in: []int{0, 1}}, {kind: "dset", in: []int{3, 2}}},
	"ds-ds-sub":  {{kind: "sub", in: []int{0, 1}}, {kind: "dset", in: []int{3, 2}}, {kind: "dset", in: []int{4}}},
	"sub-sub":    {{kind: "sub", in: []int{0, 1}}, {kind: "sub", in: []int{3, 2}}},
	"sub-ds":     {{kind: "dset", in: []int{0, 1}}, {kind: "sub", in: []int{3, 2}}},
	"ds-sub-ds":  {{kind: "dset", in: []int{0, 1}}, {kind: "sub", in: []int{3, 2}}, {kind: "dset", in: []int{4, 0}}},
	"sub-subs":   {{kind: "sub", in: []int{0, 1}}, {kind: "sub", in: []int{2, 1}}, {kind: "sub", in: []int{3, 4}}},
	"ds-sub-sub": {{kind: "sub", in: []int{0, 1}}, {kind: "sub", in: []int{3, 2}}, {kind: "dset", in: []int{4, 3}}},
}

var stackShapeNames = []string{"ds-sub", "ds-ds", "ds-ds-sub", "sub-sub", "sub-ds", "ds-sub-ds", "sub-subs", "ds-sub-sub"}

func newStackBases(init [3][]int) []*setNode {
	nodes := make([]*setNode, 3)
	for i := range nodes {
		nodes[i] = &setNode{kind: "base", set: reactive.NewSet[int](init[i]...)}
	}

	return nodes
}

// buildStackNode creates derived node k of the shape on top of the nodes that exist already.
func buildStackNode(nodes []*setNode, spec setNode) *setNode {
	n := &setNode{kind: spec.kind, in: spec.in}
	switch spec.kind {
	case "dset":
		d := reactive.NewDerivedSet[int]()
		srcs := make([]reactive.ReadableSet[int], len(spec.in))
		for i, j := range spec.in {
			srcs[i] = nodes[j].set
		}
		d.InheritFrom(srcs...)
		n.set = d
	case "sub":
		others := make([]reactive.ReadableSet[int], 0, len(spec.in)-1)
		for _, j := range spec.in[1:] {
			others = append(others, nodes[j].set)
		}
		n.set = nodes[spec.in[0]].set.SubtractReactive(others...)
	}
	n.track()

	return n
}

// checkStack compares every derived node with its defining function of the current values of its direct inputs;
// returns the q lines and the first discrepancy.
func checkStack(nodes []*setNode) (lines []string, bad string) {
	vals := make([][]int, len(nodes))
	for i, n := range nodes {
		vals[i] = sortedCopy(n.set.ToSlice())
	}
	for k, n := range nodes {
		switch n.kind {
		case "dset":
			parts := make([]string, len(n.in))
			union := map[int]bool{}
			for i, j := range n.in {
				parts[i] = joinInts(vals[j])
				for _, x := range vals[j] {
					union[x] = true
				}
			}
			exp := []int{}
			for x := range union {
				exp = append(exp, x)
			}
			lines = append(lines, strings.TrimSpace(fmt.Sprintf("q dset %d %s", len(parts), strings.Join(parts, " ")))+" "+joinInts(vals[k]))
			if !sameSet(exp, vals[k]) && bad == "" {
				bad = fmt.Sprintf("node %d = DerivedSet of the nodes %v holds %v but its sources hold %v", k, n.in, vals[k], parts)
			}
		case "sub":
			parts := []string{}
			exp := []int{}
			for _, x := range vals[n.in[0]] {
				keep := true
				for _, j := range n.in[1:] {
					for _, y := range vals[j] {
						if x == y {
							keep = false
						}
					}
				}
				if keep {
					exp = append(exp, x)
				}
			}
			for _, j := range n.in[1:] {
				parts = append(parts, joinInts(vals[j]))
			}
			lines = append(lines, strings.TrimSpace(fmt.Sprintf("q sub %s %d %s", joinInts(vals[n.in[0]]), len(parts), strings.Join(parts, " ")))+" "+joinInts(vals[k]))
			if !sameSet(exp, vals[k]) && bad == "" {
				bad = fmt.Sprintf("node %d = node %d SubtractReactive nodes %v holds %v but the source holds %v and the subtracted sets %v", k, n.in[0], n.in[1:], vals[k], vals[n.in[0]], parts)
			}
		}
		if n.kind != "base" && bad == "" {
			// the other read paths of the derived set must show the same content as ToSlice (quiescent: nothing changes)
			exp := ds.NewSet(vals[k]...)
			var each, filtered []int
			_ = n.set.ForEach(func(x int) error { each = append(each, x); return nil })
			n.set.Range(func(x int) { filtered = append(filtered, x) })
			any, has := n.set.Any()
			switch {
			case n.set.Size() != len(vals[k]) || n.set.IsEmpty() != (len(vals[k]) == 0):
				bad = fmt.Sprintf("node %d: Size() = %d, IsEmpty() = %v, ToSlice() = %v", k, n.set.Size(), n.set.IsEmpty(), vals[k])
			case !sameSet(each, vals[k]) || !sameSet(filtered, vals[k]):
				bad = fmt.Sprintf("node %d: ForEach lists %v, Range lists %v, ToSlice() = %v", k, each, filtered, vals[k])
			case !n.set.Equals(exp) || !n.set.HasAll(exp) || !exp.HasAll(n.set) || !sameSet(n.set.Intersect(exp).ToSlice(), vals[k]) || !sameSet(n.set.Clone().ToSlice(), vals[k]):
				bad = fmt.Sprintf("node %d: Equals / HasAll / Intersect / Clone disagree with ToSlice() = %v", k, vals[k])
			case !sameSet(n.set.Filter(func(x int) bool { return x%2 == 1 }).ToSlice(), oddOnes(vals[k])):
				bad = fmt.Sprintf("node %d: Filter(odd) = %v, ToSlice() = %v", k, n.set.Filter(func(x int) bool { return x%2 == 1 }).ToSlice(), vals[k])
			case has != (len(vals[k]) > 0) || (has && !n.set.Has(any)):
				bad = fmt.Sprintf("node %d: Any() = (%d, %v), ToSlice() = %v", k, any, has, vals[k])
			}
		}
		if n.active != nil {
			n.mu.Lock()
			act := []int{}
			odd := ""
			for x, c := range n.active {
				if c == 1 {
					act = append(act, x)
				} else if c != 0 {
					odd = fmt.Sprintf("element %d was set up %d times more often than torn down", x, c)
				}
			}
			n.mu.Unlock()
			act = sortedCopy(act)
			lines = append(lines, fmt.Sprintf("q dset 1 %s %s", joinInts(vals[k]), joinInts(act)))
			if (odd != "" || !sameSet(act, vals[k])) && bad == "" {
				bad = fmt.Sprintf("the WithElements consumer of node %d has the elements %v set up but the node holds %v %s", k, act, vals[k], odd)
			}
		}
	}

	return lines, bad
}

func oddOnes(xs []int) []int {
	out := []int{}
	for _, x := range xs {
		if x%2 == 1 || x%2 == -1 {
			out = append(out, x)
		}
	}

	return out
}

func describeStack(shape string) string {
	var parts []string
	for k, n := range stackShapes[shape] {
		parts = append(parts, fmt.Sprintf("node %d = %s%v", k+3, n.kind, n.in))
	}

	return strings.Join(parts, ", ")
}

// stress stack <shape> <rounds> <conc 0|1> <seed>
func stressStack(r *hx.Run, f []string) {
	shape, rounds, conc, seed := f[2], atoi(f[3]), f[4] == "1", mustU64(f[5])
	specs, ok := stackShapes[shape]
	if !ok {
		r.Line(strings.Join(f, " "), "bad-op")

		return
	}
	guarded(r, "Stacked", strings.Join(f, " "), func() (o outcome) {
		rng := hx.NewRng(seed)
		nodes := newStackBases([3][]int{randomSubset(rng), randomSubset(rng), randomSubset(rng)})
		build := func() {
			for _, spec := range specs {
				nodes = append(nodes, buildStackNode(nodes, spec))
			}
		}
		if !conc {
			build()
		}
		bases := []reactive.Set[int]{nodes[0].set, nodes[1].set, nodes[2].set}
		var lines []string
		bad := ""
		// structural changes inside the composition: a DerivedSet at the top inherits from one more node (a derived one
		// or a base set) in some rounds and unsubscribes from it in others, while the writers run
		var extraUnsub func()
		top := 3 + len(specs) - 1
		baseIn := append([]int{}, specs[len(specs)-1].in...)
		for round := 0; round < rounds && bad == ""; round++ {
			hot := rng.Range(1, 3)
			var jobs []func()
			if conc && round == 0 {
				jobs = append(jobs, build)
			} else if specs[len(specs)-1].kind == "dset" && rng.Chance(1, 3) {
				j := rng.Intn(top)
				jobs = append(jobs, func() {
					d := nodes[top].set.(reactive.DerivedSet[int])
					if extraUnsub == nil {
						extraUnsub = d.InheritFrom(nodes[j].set)
						nodes[top].in = append(append([]int{}, baseIn...), j)
					} else {
						extraUnsub()
						extraUnsub = nil
						nodes[top].in = baseIn
					}
				})
			}
			for i := range bases {
				wr, _ := rng.Fork()
				s := bases[i]
				jobs = append(jobs, func() {
					for k := wr.Range(1, 2); k > 0; k-- {
						switch x := wr.Intn(10); {
						case x < 4:
							s.Add(hot)
						case x < 7:
							s.Delete(hot)
						case x < 8:
							s.Compute(func(cur ds.ReadableSet[int]) ds.SetMutations[int] {
								if cur.Has(hot) {
									return ds.NewSetMutations[int]().WithDeletedElements(ds.NewSet(hot))
								}

								return ds.NewSetMutations(hot)
							})
						default:
							randomSetWrite(wr, s, bases...)
						}
					}
				})
			}
			parMust(jobs...)
			var b string
			lines, b = checkStack(nodes)
			if b != "" {
				bad = fmt.Sprintf("round %d: %s", round, b)
			}
		}
		o.lines = lines
		if bad != "" {
			o.fails = append(o.fails, failure{"stacked-derivation", fmt.Sprintf("%s (%s): %s", strings.Join(f, " "), describeStack(shape), bad),
				map[string]string{"construct": "Stacked", "trigger": "quiescence", "mode": "stress"}})
		}

		return o
	})
	r.Count("stack:" + shape)
}

// forcedPlans: per shape the initial contents of the base sets and the two writes whose mutations of the intermediate
// node (node 3) are inverse to each other: writer 1 is parked while it notifies the subscribers of node 3.
type forcedPlan struct {
	init   func(x int) [3][]int
	w1, w2 func(b []reactive.Set[int], x int)
}

var forcedPlans = map[string][]forcedPlan{
	// node 3 = 0 \ 1: +x by Add to the source, -x by Add to the subtracted set; +x by Delete from the subtracted set, -x by
	// Delete from the source
	"sub": {
		{func(x int) [3][]int { return [3][]int{{}, {}, {}} }, func(b []reactive.Set[int], x int) { b[0].Add(x) }, func(b []reactive.Set[int], x int) { b[1].Add(x) }},
		{func(x int) [3][]int { return [3][]int{{x}, {x}, {}} }, func(b []reactive.Set[int], x int) { b[1].Delete(x) }, func(b []reactive.Set[int], x int) { b[0].Delete(x) }},
		{func(x int) [3][]int { return [3][]int{{}, {}, {}} }, func(b []reactive.Set[int], x int) { b[0].AddAll(ds.NewSet(x)) }, func(b []reactive.Set[int], x int) { b[1].Replace(ds.NewSet(x)) }},
	},
	// node 3 = 0 ∪ 1: -x by Delete from the only source that holds it, +x by Add to the other source
	"dset": {
		{func(x int) [3][]int { return [3][]int{{x}, {}, {}} }, func(b []reactive.Set[int], x int) { b[0].Delete(x) }, func(b []reactive.Set[int], x int) { b[1].Add(x) }},
		{func(x int) [3][]int { return [3][]int{{}, {x}, {}} }, func(b []reactive.Set[int], x int) { b[1].Replace(ds.NewSet[int]()) }, func(b []reactive.Set[int], x int) { b[0].AddAll(ds.NewSet(x)) }},
	},
}

// stress stackforced <shape> <plan> <x>: shape in stackShapes; the intermediate node is node 3.
func stressStackForced(r *hx.Run, f []string) {
	shape, planNo, x := f[2], atoi(f[3]), atoi(f[4])
	specs, ok := stackShapes[shape]
	if !ok || planNo >= len(forcedPlans[specs[0].kind]) {
		r.Line(strings.Join(f, " "), "bad-op")

		return
	}
	plan := forcedPlans[specs[0].kind][planNo]
	guarded(r, "Stacked", strings.Join(f, " "), func() (o outcome) {
		nodes := newStackBases(plan.init(x))
		nodes = append(nodes, buildStackNode(nodes, specs[0]))
		// the observer is subscribed to the intermediate node BEFORE the nodes on top of it
		entered, release := make(chan struct{}), make(chan struct{})
		var armed atomic.Bool
		unsubscribeObserver := nodes[3].set.OnUpdate(func(ds.SetMutations[int]) {
			if armed.CompareAndSwap(true, false) { // the first notification after the construction only
				close(entered)
				<-release
			}
		})
		for _, spec := range specs[1:] {
			nodes = append(nodes, buildStackNode(nodes, spec))
		}
		bases := []reactive.Set[int]{nodes[0].set, nodes[1].set, nodes[2].set}
		armed.Store(true)
		w1, w2, unsub := make(chan struct{}), make(chan struct{}), make(chan struct{})
		go func() {
			defer close(w1)
			hx.Safely(func() { plan.w1(bases, x) })
		}()
		reached := true
		select {
		case <-entered:
		case <-w1: // writer 1 did not change the intermediate node
			reached = false
		case <-time.After(20 * time.Second):
			reached = false
		}
		if reached {
			// from now on the observer is not in the list of callbacks any more (the call itself returns when the running
			// notification has ended)
			go func() {
				defer close(unsub)
				hx.Safely(unsubscribeObserver)
			}()
			time.Sleep(20 * time.Millisecond)
		} else {
			close(unsub)
		}
		go func() {
			defer close(w2)
			hx.Safely(func() { plan.w2(bases, x) })
		}()
		select {
		case <-w2: // writer 2 overtook writer 1
		case <-time.After(150 * time.Millisecond): // writer 2 waits for writer 1 (the notification is inside the write mutex)
		}
		armed.Store(false) // a notification that comes only now is not parked
		close(release)
		for _, ch := range []chan struct{}{w1, w2, unsub} {
			<-ch // the watchdog of the scenario turns a call that never returns into a finding
		}
		lines, bad := checkStack(nodes)
		o.lines = lines
		if bad != "" {
			o.fails = append(o.fails, failure{"stacked-derivation", fmt.Sprintf("%s (%s; writer 1 parked in an observer of node 3 while writer 2 ran): %s", strings.Join(f, " "), describeStack(shape), bad),
				map[string]string{"construct": "Stacked", "trigger": "quiescence", "mode": "forced"}})
		}

		return o
	})
	r.Count("stackforced:" + shape)
}

// setWritePaths: the write paths of a reactive Set, each making `x` a member (add = true) or removing it.
var setWritePaths = []string{"single", "all", "apply", "replace", "compute"}

func writeVia(path string, s reactive.Set[int], x int, add bool) {
	switch path {
	case "single":
		if add {
			s.Add(x)
		} else {
			s.Delete(x)
		}
	case "all":
		if add {
			s.AddAll(ds.NewSet(x))
		} else {
			s.DeleteAll(ds.NewSet(x))
		}
	case "apply":
		if add {
			s.Apply(ds.NewSetMutations(x))
		} else {
			s.Apply(ds.NewSetMutations[int]().WithDeletedElements(ds.NewSet(x)))
		}
	case "replace":
		if add {
			s.Replace(ds.NewSet(x, 9))
		} else {
			s.Replace(ds.NewSet(9))
		}
	default:
		s.Compute(func(cur ds.ReadableSet[int]) ds.SetMutations[int] {
			if add {
				return ds.NewSetMutations(x)
			}

			return ds.NewSetMutations[int]().WithDeletedElements(ds.NewSet(x))
		})
	}
}

// stress basewrite <path1> <path2> <add 0|1> <x>: one plain reactive set A (holding 9, and x iff writer 1 removes it)
// with an observer subscribed first, then D = DerivedSet(A), S = A \ {} and a WithElements consumer.  Writer 1 changes
// the membership of x through <path1> and is parked in the observer; the observer is unsubscribed; writer 2 makes the
// inverse change through <path2>; writer 1 is released.  Every write path must notify inside the set's write mutex
// (writer 2 then simply waits): otherwise the consumers hear the two changes in the wrong order.
func stressBaseWrite(r *hx.Run, f []string) {
	p1, p2, add, x := f[2], f[3], f[4] == "1", atoi(f[5])
	guarded(r, "Stacked", strings.Join(f, " "), func() (o outcome) {
		init := []int{9}
		if !add {
			init = append(init, x)
		}
		a := &setNode{kind: "base", set: reactive.NewSet[int](init...)}
		entered, release := make(chan struct{}), make(chan struct{})
		var armed atomic.Bool
		unsubscribeObserver := a.set.OnUpdate(func(ds.SetMutations[int]) {
			if armed.CompareAndSwap(true, false) {
				close(entered)
				<-release
			}
		})
		nodes := []*setNode{a, {kind: "base", set: reactive.NewSet[int]()}, {kind: "base", set: reactive.NewSet[int]()}}
		nodes = append(nodes, buildStackNode(nodes, setNode{kind: "dset", in: []int{0}}), buildStackNode(nodes, setNode{kind: "sub", in: []int{0, 1}}))
		armed.Store(true)
		w1, w2, unsub := make(chan struct{}), make(chan struct{}), make(chan struct{})
		go func() {
			defer close(w1)
			hx.Safely(func() { writeVia(p1, a.set, x, add) })
		}()
		reached := true
		select {
		case <-entered:
		case <-w1:
			reached = false
		case <-time.After(20 * time.Second):
			reached = false
		}
		if reached {
			go func() {
				defer close(unsub)
				hx.Safely(unsubscribeObserver)
			}()
			time.Sleep(20 * time.Millisecond)
		} else {
			close(unsub)
		}
		go func() {
			defer close(w2)
			hx.Safely(func() { writeVia(p2, a.set, x, !add) })
		}()
		select {
		case <-w2:
		case <-time.After(150 * time.Millisecond):
		}
		armed.Store(false)
		close(release)
		for _, ch := range []chan struct{}{w1, w2, unsub} {
			<-ch
		}
		lines, bad := checkStack(nodes)
		o.lines = lines
		if bad != "" {
			o.fails = append(o.fails, failure{"stacked-derivation", fmt.Sprintf("%s (node 0 = plain set, node 3 = dset[0], node 4 = sub[0 1]; writer 1 parked in an observer of node 0 while writer 2 ran): %s", strings.Join(f, " "), bad),
				map[string]string{"construct": "SetWritePath", "trigger": "quiescence", "mode": "forced"}})
		}

		return o
	})
	r.Count("basewrite:" + p1)
}

// stress stackvar <rounds> <seed>
func stressStackVar(r *hx.Run, f []string) {
	rounds, seed := atoi(f[2]), mustU64(f[3])
	guarded(r, "Stacked", strings.Join(f, " "), func() (o outcome) {
		rng := hx.NewRng(seed)
		in := make([]reactive.Variable[int], 3)
		for i := range in {
			in[i] = reactive.NewVariable[int]().Init(rng.Range(-1, 2))
		}
		sum, lin, par := fnOf("sum"), fnOf("lin"), fnOf("parity")
		d1 := reactive.NewDerivedVariable2[int](func(_ int, a, b int) int { return sum([]int{a, b}) }, in[0], in[1])
		d2 := reactive.NewDerivedVariable3[int](func(_ int, a, b, c int) int { return lin([]int{a, b, c}) }, reactive.Variable[int](d1), in[2], in[0])
		d3 := reactive.NewDerivedVariable[int](func(_ int, a int) int { return par([]int{a}) }, reactive.Variable[int](d2))
		follower := reactive.NewVariable[int]()
		follower.InheritFrom(d3)
		counter := reactive.NewCounter[int](condOf("nonzero"))
		for _, v := range []reactive.Variable[int]{d1, d2, d3, in[0]} {
			counter.Monitor(v)
		}
		var lines []string
		bad := ""
		for round := 0; round < rounds && bad == ""; round++ {
			var jobs []func()
			for i := range in {
				wr, _ := rng.Fork()
				v := in[i]
				jobs = append(jobs, func() {
					for k := wr.Range(1, 3); k > 0; k-- {
						v.Set(wr.Range(-1, 2))
					}
				})
			}
			parMust(jobs...)
			a, b, c := in[0].Get(), in[1].Get(), in[2].Get()
			g1, g2, g3, gf, gc := d1.Get(), d2.Get(), d3.Get(), follower.Get(), counter.Get()
			lines = []string{fmt.Sprintf("q dvar sum %d,%d %d", a, b, g1), fmt.Sprintf("q dvar lin %d,%d,%d %d", g1, c, a, g2), fmt.Sprintf("q dvar parity %d %d", g2, g3),
				fmt.Sprintf("q dvar sum %d %d", g3, gf), fmt.Sprintf("q counter nonzero %d,%d,%d,%d %d", g1, g2, g3, a, gc)}
			cnt := 0
			for _, v := range []int{g1, g2, g3, a} {
				if v != 0 {
					cnt++
				}
			}
			switch {
			case g1 != a+b:
				bad = fmt.Sprintf("d1 = %d but its inputs are %d, %d", g1, a, b)
			case g2 != lin([]int{g1, c, a}):
				bad = fmt.Sprintf("d2 = %d but lin(d1 = %d, %d, %d) = %d", g2, g1, c, a, lin([]int{g1, c, a}))
			case g3 != par([]int{g2}):
				bad = fmt.Sprintf("d3 = %d but parity(d2 = %d) = %d", g3, g2, par([]int{g2}))
			case gf != g3:
				bad = fmt.Sprintf("the variable inheriting from d3 holds %d, d3 = %d", gf, g3)
			case gc != cnt:
				bad = fmt.Sprintf("the Counter over d1, d2, d3, input 0 (= %d, %d, %d, %d) is %d", g1, g2, g3, a, gc)
			}
			if bad != "" {
				bad = fmt.Sprintf("round %d: %s", round, bad)
			}
		}
		o.lines = lines
		if bad != "" {
			o.fails = append(o.fails, failure{"stacked-derivation", strings.Join(f, " ") + ": " + bad,
				map[string]string{"construct": "StackedVariables", "trigger": "quiescence", "mode": "stress"}})
		}

		return o
	})
}

// stress stacksorted <rounds> <seed>: weight(e) = DerivedVariable2(sum; own input of e, shared input).
func stressStackSorted(r *hx.Run, f []string) {
	rounds, seed := atoi(f[2]), mustU64(f[3])
	desc := strings.Join(f, " ")
	guarded(r, "Stacked", desc, func() (o outcome) {
		rng := hx.NewRng(seed)
		shared := reactive.NewVariable[int]()
		own := map[plainEl]reactive.Variable[int]{}
		for e := plainEl(1); e <= 4; e++ {
			own[e] = reactive.NewVariable[int]().Init(rng.Range(-2, 3))
		}
		w := newSSWorldWith[plainEl](false, func(e plainEl) reactive.Variable[int] {
			in, ok := own[e]
			if !ok {
				in = reactive.NewVariable[int]()
			}

			return reactive.NewDerivedVariable2[int](func(_ int, a, b int) int { return a + b }, in, shared)
		})
		for round := 0; round < rounds && len(o.fails) == 0; round++ {
			var jobs []func()
			st, _ := rng.Fork()
			jobs = append(jobs, func() {
				for k := st.Range(1, 3); k > 0; k-- {
					if st.Chance(3, 5) {
						w.set.Add(plainEl(st.Range(1, 4)))
					} else {
						w.set.Delete(plainEl(st.Range(1, 4)))
					}
				}
			})
			sh, _ := rng.Fork()
			jobs = append(jobs, func() {
				for k := sh.Range(1, 2); k > 0; k-- {
					shared.Set(sh.Range(-2, 3))
				}
			})
			for k := 0; k < 2; k++ {
				wr, _ := rng.Fork()
				jobs = append(jobs, func() { own[plainEl(wr.Range(1, 4))].Set(wr.Range(-3, 4)) })
			}
			parMust(jobs...)
			o = sortedQuiescence(w, desc)
			for e := plainEl(1); e <= 4; e++ {
				if got, exp := w.weight(e).Get(), own[e].Get()+shared.Get(); got != exp && len(o.fails) == 0 {
					o.fails = append(o.fails, failure{"stacked-derivation", fmt.Sprintf("%s: round %d: the weight of element %d (a DerivedVariable) is %d but own input + shared input = %d", desc, round, e, got, exp),
						map[string]string{"construct": "StackedSorted", "trigger": "quiescence", "mode": "stress"}})
				}
				o.lines = append(o.lines, fmt.Sprintf("q dvar sum %d,%d %d", own[e].Get(), shared.Get(), w.weight(e).Get()))
			}
		}

		return o
	})
}

func genStack(rng *hx.Rng, kind string) string {
	switch kind {
	case "stackvar":
		return fmt.Sprintf("stress stackvar %d %d", rng.Range(20, 120), rng.U64())
	case "stacksorted":
		return fmt.Sprintf("stress stacksorted %d %d", rng.Range(20, 100), rng.U64())
	case "basewrite":
		return fmt.Sprintf("stress basewrite %s %s %d %d", hx.Pick(rng, setWritePaths), hx.Pick(rng, setWritePaths), rng.Intn(2), rng.Range(1, 5))
	case "stackforced":
		shape := hx.Pick(rng, stackShapeNames)
		return fmt.Sprintf("stress stackforced %s %d %d", shape, rng.Intn(len(forcedPlans[stackShapes[shape][0].kind])), rng.Range(1, 5))
	}

	return fmt.Sprintf("stress stack %s %d %d %d", hx.Pick(rng, stackShapeNames), rng.Range(20, 150), rng.Intn(2), rng.U64())
}

// region sequential differential of the compositions ///////////////////////////////////////////////////////////////

// gsWorld: `gs new <shape> <A> <B> <C>` builds one of the stacked shapes over three base sets with the given contents,
// `gs add|del|apply|replace <i> …` writes base set i; the answer lists the derived nodes.  The Lean driver runs the same
// history on the graph model (Hive/Model/DerivedGraph.lean: gStep with every report delivered after each request).
type gsWorld struct {
	nodes  []*setNode
	baseIn []int          // the sources the top node was built with
	extra  map[int]func() // unsubscribe functions of the sources the top DerivedSet inherited later (`gs inherit j`)
}

// topIn: the current sources of the top node.
func (w *gsWorld) topIn() []int {
	in := append([]int{}, w.baseIn...)
	for j := 0; j < len(w.nodes); j++ {
		if w.extra[j] != nil {
			in = append(in, j)
		}
	}

	return in
}

func (w *gsWorld) exec(r failer, f []string) string {
	switch f[0] {
	case "new":
		if w.nodes != nil || len(f) != 5 {
			return "bad-op"
		}
		specs, ok := stackShapes[f[1]]
		if !ok {
			return "bad-op"
		}
		w.nodes = newStackBases([3][]int{parseInts(f[2]), parseInts(f[3]), parseInts(f[4])})
		for _, spec := range specs {
			w.nodes = append(w.nodes, buildStackNode(w.nodes, spec))
		}
		w.baseIn, w.extra = specs[len(specs)-1].in, map[int]func(){}
	case "inherit", "unsub": // the DerivedSet at the top inherits from one more node / unsubscribes from it again
		top := len(w.nodes) - 1
		if w.nodes == nil || w.nodes[top].kind != "dset" || atoi(f[1]) >= top {
			return "bad-op"
		}
		j := atoi(f[1])
		if f[0] == "inherit" {
			if w.extra[j] != nil {
				return "bad-op"
			}
			w.extra[j] = w.nodes[top].set.(reactive.DerivedSet[int]).InheritFrom(w.nodes[j].set)
		} else {
			if w.extra[j] == nil {
				return "bad-op"
			}
			w.extra[j]()
			w.extra[j] = nil
		}
		w.nodes[top].in = w.topIn()
	case "add", "del", "apply", "replace":
		if w.nodes == nil || atoi(f[1]) > 2 {
			return "bad-op"
		}
		p := &pool{sets: map[int]reactive.Set[int]{0: w.nodes[0].set, 1: w.nodes[1].set, 2: w.nodes[2].set}, scale: 1}
		if !p.write(f) {
			return "bad-op"
		}
	default:
		return "bad-op"
	}
	if _, bad := checkStack(w.nodes); bad != "" {
		r.Fail("stacked-derivation", fmt.Sprintf("after %q: %s", strings.Join(f, " "), bad), map[string]string{"construct": "Stacked", "trigger": f[0], "mode": "sequential"})
	}
	parts := make([]string, 0, len(w.nodes)-3)
	for k := 3; k < len(w.nodes); k++ {
		parts = append(parts, fmt.Sprintf("%d=%s", k, showSetLike(sortedCopy(w.nodes[k].set.ToSlice()))))
	}

	return strings.Join(parts, " ")
}

// showSetLike prints a sorted listing as the Lean side prints a set: [1 2 3].
func showSetLike(xs []int) string {
	parts := make([]string, len(xs))
	for i, x := range xs {
		parts[i] = fmt.Sprint(x)
	}

	return "[" + strings.Join(parts, " ") + "]"
}

func genGS(rng *hx.Rng, n int) []string {
	shape := hx.Pick(rng, stackShapeNames)
	ops := []string{fmt.Sprintf("gs new %s %s %s %s", shape, joinInts(randomSubset(rng)), joinInts(randomSubset(rng)), joinInts(randomSubset(rng)))}
	inherited := map[int]bool{}
	for len(ops) < n {
		i := rng.Intn(3)
		switch x := rng.Intn(100); {
		case x < 38:
			ops = append(ops, fmt.Sprintf("gs add %d %d", i, rng.Range(1, 5)))
		case x < 70:
			ops = append(ops, fmt.Sprintf("gs del %d %d", i, rng.Range(1, 5)))
		case x < 82:
			ops = append(ops, fmt.Sprintf("gs replace %d %s", i, joinInts(randomSubset(rng))))
		case x < 90 || !strings.HasPrefix(shape, "ds-"):
			ops = append(ops, fmt.Sprintf("gs apply %d %s %s", i, joinInts(randomSubset(rng)), joinInts(randomSubset(rng))))
		default: // the top node is a DerivedSet: structural change
			var on []int
			for j := 0; j < 2+len(stackShapes[shape]); j++ {
				if inherited[j] {
					on = append(on, j)
				}
			}
			j := rng.Intn(2 + len(stackShapes[shape]))
			if len(on) > 0 && rng.Bool() {
				j = hx.Pick(rng, on)
			}
			if inherited[j] {
				ops = append(ops, fmt.Sprintf("gs unsub %d", j))
			} else {
				ops = append(ops, fmt.Sprintf("gs inherit %d", j))
			}
			inherited[j] = !inherited[j]
		}
	}

	return ops
}

// endregion
