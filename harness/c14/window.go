package main

// Forced schedule for the addSorted window (verif hook VerifSortedSetAddWindow + an element type whose Less method
// parks the caller): a weight update of an element that is being added runs its callback after OnUpdate released
// the execution lock and before addSorted stored the unsubscribe function; the callback then takes the "initial
// update" branch and moves the element WITHOUT sortedSet.mutex.  Parked in the middle of that move (inside Less),
// another weight update (properly locked) rearranges the slice; the resumed move then exchanges two entries that
// are no longer neighbours.  On code that locks correctly the second goroutine never reaches Less while the adder
// is parked, and everything serialises.

import (
	"fmt"
	"sync"
	"sync/atomic"
	"time"

	"github.com/iotaledger/hive.go/ds/reactive"
)

type hookEl int

var lessHookMu sync.Mutex
var lessHook func(a, b hookEl)

func (e hookEl) Less(other hookEl) bool {
	lessHookMu.Lock()
	h := lessHook
	lessHookMu.Unlock()
	if h != nil {
		h(e, other)
	}

	return e < other
}

func setLessHook(h func(a, b hookEl)) {
	lessHookMu.Lock()
	lessHook = h
	lessHookMu.Unlock()
}

func waitFor(ch <-chan struct{}, d time.Duration) bool {
	select {
	case <-ch:
		return true
	case <-time.After(d):
		return false
	}
}

// ssWindow runs the schedule; the answer is the final `desc= h= l=` line (the Lean driver answers with the
// sequential model run of: add 1 (weight 9), add 2 (5), add 3 (5), weight(3)=9, weight(1)=1).
func ssWindow(r failer) string {
	const long = 20 * time.Second
	sig := func(mode string) map[string]string {
		return map[string]string{"construct": "SortedSet", "trigger": "add-window", "mode": mode}
	}
	var stage atomic.Int32
	var storedOnce sync.Once
	stored := make(chan struct{})
	w := &ssWorld[hookEl]{less: true, weights: map[hookEl]reactive.Variable[int]{}}
	w.weights[1] = reactive.NewVariable[int]().Init(9)
	w.weights[2] = reactive.NewVariable[int]().Init(5)
	w.weights[3] = reactive.NewVariable[int](func(_ int, newValue int) int {
		if stage.Load() == 1 {
			storedOnce.Do(func() { close(stored) })
		}

		return newValue
	}).Init(5)
	w.set = reactive.NewSortedSet[hookEl, int](w.weight)
	w.set.Add(1)
	w.set.Add(2)

	parked1, resume1 := make(chan struct{}), make(chan struct{})
	parked2, resume2 := make(chan struct{}), make(chan struct{})
	parkedH, resumeH := make(chan struct{}), make(chan struct{})
	var once1, once2, onceH sync.Once
	setLessHook(func(a, b hookEl) {
		switch {
		case stage.Load() == 1 && a == 2 && b == 3: // adder, initial weight callback: a.Less(e)
			once1.Do(func() {
				close(parked1)
				<-resume1
			})
		case stage.Load() == 2 && a == 1 && b == 3: // weight writer of e, moving e past b
			once2.Do(func() {
				close(parked2)
				<-resume2
			})
		}
	})
	reactive.VerifSortedSetAddWindow = func() {
		onceH.Do(func() {
			close(parkedH)
			<-resumeH
		})
	}
	release := func() {
		for _, ch := range []chan struct{}{resume1, resume2, resumeH} {
			select {
			case <-ch:
			default:
				close(ch)
			}
		}
	}
	defer func() {
		release()
		setLessHook(nil)
		reactive.VerifSortedSetAddWindow = nil
	}()

	stage.Store(1)
	t1, t2, t3 := make(chan struct{}), make(chan struct{}), make(chan struct{})
	go func() { defer close(t1); w.set.Add(3) }()
	if !waitFor(parked1, long) {
		r.Fail("sorted-set", "add-window schedule: the adder never reached Less inside the initial weight callback", sig("schedule-not-reached"))

		return "schedule-not-reached"
	}
	go func() { defer close(t2); w.weight(3).Set(9) }()
	if !waitFor(stored, long) {
		r.Fail("sorted-set", "add-window schedule: the weight writer never stored its value", sig("schedule-not-reached"))

		return "schedule-not-reached"
	}
	time.Sleep(100 * time.Millisecond) // the writer has its snapshot and now waits for the execution lock of the new callback
	stage.Store(2)
	close(resume1)
	if !waitFor(parkedH, long) {
		r.Fail("sorted-set", "add-window schedule: addSorted never reached the hook", sig("hook-missing"))

		return "hook-not-reached"
	}
	// the adder holds sortedSet.mutex and is parked before it stores the unsubscribe function
	unlocked := waitFor(parked2, 1500*time.Millisecond)
	close(resumeH)
	if !waitFor(t1, long) {
		r.Fail("progress-watchdog", "add-window schedule: Add did not return", sig("hang"))

		return "hang"
	}
	if !unlocked && !waitFor(parked2, long) {
		r.Fail("sorted-set", "add-window schedule: the weight writer never reached Less", sig("schedule-not-reached"))

		return "schedule-not-reached"
	}
	// the weight writer of element 3 is parked in the middle of moving it; another weight update tries to run
	go func() { defer close(t3); w.weight(1).Set(1) }()
	interleaved := waitFor(t3, 1500*time.Millisecond)
	close(resume2)
	if !waitFor(t2, long) || !waitFor(t3, long) {
		r.Fail("progress-watchdog", "add-window schedule: the weight updates did not return", sig("hang"))

		return "hang"
	}
	if bad := w.check(); bad != "" {
		r.Fail("sorted-set", fmt.Sprintf("weight update of an element racing its own Add (callback ran without sortedSet.mutex=%v, another update interleaved=%v): %s", unlocked, interleaved, bad),
			sig("forced-schedule"))
	} else if unlocked {
		r.Fail("sorted-set", "the weight callback of an element that is being added moved the element while addSorted still held sortedSet.mutex (it ran unlocked)",
			sig("forced-schedule-unlocked"))
	}

	return fmt.Sprintf("desc=%s h=%d l=%d", showList(toInts(w.set.Descending())), int(w.set.HeaviestElement().Get()), int(w.set.LightestElement().Get()))
}
