package main

// Size scenarios ("stress sizes <construct> <n> <seed>"): the constructs at sizes far beyond what the line-by-line model
// can replay (2^15, 2^16, 70000, 2^20 elements / subscriptions / monitors), sequentially, checked by the Go property
// oracle after every phase; the final values also go to the Lean driver as `q …` requests where the predicate is cheap.
// A counter or an index narrower than the platform int, or a strategy switch at a size threshold, shows up here.

import (
	"fmt"
	"strings"

	"verifharness/hx"

	"github.com/iotaledger/hive.go/ds"
	"github.com/iotaledger/hive.go/ds/reactive"
)

func stressSizes(r *hx.Run, f []string) {
	construct, n, seed := f[2], atoi(f[3]), mustU64(f[4])
	desc := strings.Join(f, " ")
	fail := func(o *outcome, c, what string) {
		o.fails = append(o.fails, failure{"size", desc + ": " + what, map[string]string{"construct": c, "trigger": "size", "mode": "sizes"}})
	}
	switch construct {
	case "wg":
		guarded(r, "WaitGroup", desc, func() (o outcome) {
			base := int(seed % 1000)
			els := make([]int, n)
			for i := range els {
				els[i] = base + i
			}
			wg := reactive.NewWaitGroup[int](els...)
			wg.Add(els...) // every element a second time: n corrections of the counter
			if wg.WasTriggered() {
				fail(&o, "WaitGroup", fmt.Sprintf("triggered after adding %d elements twice, nothing done yet", n))
			}
			wg.Done(els[:n-1]...)
			if got := wg.PendingElements().Size(); got != 1 || wg.WasTriggered() {
				fail(&o, "WaitGroup", fmt.Sprintf("after Done of %d of %d elements: %d pending, triggered=%v", n-1, n, got, wg.WasTriggered()))
			}
			wg.Done(els[:n-1]...) // already done: nothing happens
			if wg.WasTriggered() {
				fail(&o, "WaitGroup", "triggered by Done of elements that are not pending while one element is pending")
			}
			wg.Done(els[n-1])
			pending := wg.PendingElements().ToSlice()
			if len(pending) != 0 || !wg.WasTriggered() {
				fail(&o, "WaitGroup", fmt.Sprintf("after the last of %d elements was marked done: %d pending, triggered=%v", n, len(pending), wg.WasTriggered()))
			}
			o.lines = append(o.lines, fmt.Sprintf("q wg %s 1 %v", joinInts(sortedCopy(pending)), wg.WasTriggered()))

			return o
		})
	case "counter":
		guarded(r, "Counter", desc, func() (o outcome) {
			c := reactive.NewCounter[int]()
			vars := make([]reactive.Variable[int], 8)
			for i := range vars {
				vars[i] = reactive.NewVariable[int]()
			}
			unsubs := make([]func(), n)
			for i := 0; i < n; i++ {
				unsubs[i] = c.Monitor(vars[i%8])
			}
			expect := func(phase string) {
				want := 0
				for i := 0; i < n; i++ {
					if unsubs[i] != nil && vars[i%8].Get() != 0 {
						want++
					}
				}
				if got := c.Get(); got != want {
					fail(&o, "Counter", fmt.Sprintf("%s: Counter is %d but %d of the monitored inputs (of %d monitors) satisfy the condition", phase, got, want, n))
				}
			}
			expect("after Monitor")
			for i := 0; i < 8; i += 2 {
				vars[i].Set(1 << uint(7*i))
			}
			expect("after setting half of the inputs")
			for i := 0; i < n; i += 3 {
				unsubs[i]()
				unsubs[i] = nil
			}
			expect("after unsubscribing every third monitor")
			vars[0].Set(0)
			vars[1].Set(-1)
			expect("after two more writes")
			var vals []string
			for i := 0; i < n; i++ {
				if unsubs[i] != nil {
					vals = append(vals, fmt.Sprint(vars[i%8].Get()))
				}
			}
			o.lines = append(o.lines, fmt.Sprintf("q counter nonzero %s %d", strings.Join(vals, ","), c.Get()))

			return o
		})
	case "dset":
		guarded(r, "DerivedSet", desc, func() (o outcome) {
			srcs := []reactive.Set[int]{reactive.NewSet[int](), reactive.NewSet[int]()}
			srcs[0].AddAll(ds.NewSet(1, 2, 3))
			srcs[1].Add(3)
			d := reactive.NewDerivedSet[int]()
			many := make([]reactive.ReadableSet[int], n)
			for i := range many {
				many[i] = srcs[i%2]
			}
			unsubMany := d.InheritFrom(many...)
			unsubOne := d.InheritFrom(srcs[1])
			live := []bool{true, true}
			expect := func(phase string) {
				want := map[int]bool{}
				for i, s := range srcs {
					if live[i] {
						for _, x := range s.ToSlice() {
							want[x] = true
						}
					}
				}
				if got := sortedCopy(d.ToSlice()); !sameSet(got, sortedKeys(want)) {
					fail(&o, "DerivedSet", fmt.Sprintf("%s (%d subscriptions): DerivedSet holds %v but the union of its sources is %v", phase, n+1, got, sortedKeys(want)))
				}
			}
			expect("after InheritFrom")
			srcs[0].Delete(2)
			srcs[1].Add(4)
			expect("after Delete/Add")
			srcs[0].Replace(ds.NewSet(2, 5))
			expect("after Replace")
			srcs[0].Delete(2)
			srcs[0].Add(2)
			expect("after deleting and re-adding an element")
			unsubMany()
			live[0] = false
			expect("after unsubscribing the big group")
			srcs[1].Delete(3)
			expect("after Delete on the remaining source")
			o.lines = append(o.lines, fmt.Sprintf("q dset 1 %s %s", joinInts(sortedCopy(srcs[1].ToSlice())), joinInts(sortedCopy(d.ToSlice()))))
			unsubOne()
			live[1] = false
			expect("after unsubscribing everything")

			return o
		})
	case "sorted":
		guarded(r, "SortedSet", desc, func() (o outcome) {
			rng := hx.NewRng(seed)
			w := newSSWorld[plainEl](false)
			els := make([]plainEl, n)
			for i := range els {
				els[i] = plainEl(i + 1)
			}
			check := func(phase string) {
				if bad := w.check(); bad != "" {
					fail(&o, "SortedSet", phase+": "+clip(bad))
				}
			}
			w.weight(els[n/2]).Set(7)
			w.set.AddAll(ds.NewSet(els...))
			check("after adding the elements")
			for k := 0; k < 6; k++ {
				w.weight(els[rng.Intn(n)]).Set(bigValue(rng))
				check("after a weight update")
			}
			w.weight(els[n-1]).Set(1<<62 + 5)
			check("after making the last element the heaviest")
			w.set.Delete(els[n-1])
			w.set.Delete(els[0])
			check("after deleting both ends")
			rest := make([]plainEl, 0, n)
			for i := n - 2; i >= 2; i-- { // from the light end: deleteSorted shifts the tail of the slice
				rest = append(rest, els[i])
			}
			w.set.DeleteAll(ds.NewSet(rest...))
			check("after deleting all but one element")
			if w.set.Size() != 1 || !w.set.Has(els[1]) {
				fail(&o, "SortedSet", fmt.Sprintf("%d elements left, expected 1 (element 2)", w.set.Size()))
			}

			return o
		})
	default:
		r.Line(desc, "bad-op")
	}
}
