// serix.Decode of the catalogue types and of randomly generated registered universes of harness/serixgen (shared with the
// serix part of C01/C02/C03, which compares outcome and value with the Lean model but has no allocation / time oracle)
// under the RESOURCE oracle of this harness:
//
//	x K:<catalogue name> V HEX      x G:<seed>:<depth> V HEX     (answer "oracle-only")
//	jx K:<catalogue name> V TEXTHEX jx G:<seed>:<depth> V TEXTHEX  serix.JSONDecode of a JSON text into the universe's top type
//
// The universe is rebuilt in the child process from its name / seed (deterministic) and cached; the call is made once
// unmeasured (first use of a type fills the struct-field cache and reflect's type tables) and then measured.
package main

import (
	"context"
	"encoding/json"
	"fmt"
	"reflect"
	"strconv"
	"strings"

	"verifharness/hx"
	"verifharness/serixgen"
)

var envCache = map[string]*serixgen.Env{}

func envOf(tok string) *serixgen.Env {
	if e, ok := envCache[tok]; ok {
		return e
	}
	var e *serixgen.Env
	z := strings.Split(tok, ":")
	switch z[0] {
	case "K":
		e = serixgen.CatalogueEnv(z[1])
	case "G":
		seed, err := strconv.ParseUint(z[1], 10, 64)
		if err != nil {
			panic("bad universe seed " + z[1])
		}
		e = serixgen.GenEnv(hx.NewRng(seed), atoi(z[2]))
	}
	if e == nil {
		panic("unknown universe " + tok)
	}
	envCache[tok] = e

	return e
}

func isUniverse(target string) bool {
	return strings.HasPrefix(target, "K:") || strings.HasPrefix(target, "G:")
}

// rawU decodes without recovering.
func rawU(f []string) string {
	e := envOf(f[1])
	if e.Err != nil || e.Schema == nil || zeroWidthSlice(e.Schema) {
		// never generated (genUniverse leaves these universes out); the guard keeps a replayed or hand-written request
		// away from the known zero-width defect
		return "err"
	}
	dst := reflect.New(e.Top)
	n, err := e.API.Decode(context.Background(), hx.UnHex(f[3]), dst.Interface(), e.Opts(f[2] == "1")...)
	if err != nil {
		return "err"
	}

	return fmt.Sprintf("ok %d", n)
}

// zeroWidthSlice: the schema contains a slice whose elements may be zero bytes wide - the known defect of the unchanged
// tree (such a slice iterates as often as its count says); those universes stay with the Z: requests.
func zeroWidthSlice(s *serixgen.Schema) bool {
	bad := false
	s.Walk(func(n *serixgen.Schema) {
		if n.K == serixgen.KSlice && !n.Elem.NonEmpty() {
			bad = true
		}
	})

	return bad
}

// genUniverse emits the requests of one universe: valid encodings of generated values as they are, and with EVERY
// offset overwritten by a huge little-endian value of every prefix width (the bytes behind it intact).
func genUniverse(rng *hx.Rng, tok string, values int, emit func(string, string)) bool {
	var e *serixgen.Env
	if p := hx.Safely(func() { e = envOf(tok) }); p != "" || e.Err != nil || e.Schema == nil || zeroWidthSlice(e.Schema) {
		return false
	}
	vg := &serixgen.VGen{Rng: rng, API: e.API}
	for k := 0; k < values; k++ {
		var b []byte
		var err error
		if p := hx.Safely(func() {
			v := vg.Gen(e.Schema)
			b, err = e.API.Encode(context.Background(), v.Interface(), e.Opts(false)...)
		}); p != "" || err != nil || len(b) > 160 {
			continue
		}
		emit(fmt.Sprintf("x %s %d %s", tok, rng.Intn(2), hx.Hex(b)), "universe:valid")
		for off := 0; off < len(b); off++ {
			for _, pat := range [][]byte{{0xff}, {0xff, 0xff}, {0xff, 0xff, 0xff, 0x7f}} {
				if off+len(pat) > len(b)+1 {
					continue
				}
				d2 := append(append([]byte(nil), b[:off]...), pat...)
				if off+len(pat) < len(b) {
					d2 = append(d2, b[off+len(pat):]...)
				}
				emit(fmt.Sprintf("x %s %d %s", tok, (off+k)%2, hx.Hex(d2)), "universe:offset-sweep")
				if len(pat) == 4 && off+len(pat) < len(b) {
					// the input ENDS behind the hostile value: if it is a count, no element can be decoded from what is left
					emit(fmt.Sprintf("x %s %d %s", tok, (off+k+1)%2, hx.Hex(d2[:off+len(pat)])), "universe:offset-sweep-cut")
				}
			}
		}
	}

	return true
}

// rawJX runs serix.JSONDecode of a text into the top type of a universe without recovering.
func rawJX(f []string) string {
	e := envOf(f[1])
	dst := reflect.New(e.Top)
	if err := e.API.JSONDecode(context.Background(), hx.UnHex(f[3]), dst.Interface(), e.Opts(f[2] == "1")...); err != nil {
		return "err"
	}

	return "ok"
}

func execJX(f []string) string {
	out := ""
	if p := hx.Safely(func() { out = rawJX(f) }); p != "" {
		return "panic"
	}

	return out
}

// the pool values that stand for the six JSON kinds
var jxKinds = []any{nil, true, float64(7), "", []any{}, map[string]any{}}

// genUniverseJSON emits the JSON requests of one universe: the JSONEncode text of a generated value as it is, and with up to
// 12 of its nodes replaced by a value of EVERY JSON kind (plus two other pool values: syntax classes of the string parsers,
// shapes of arrays and objects) - MapDecode/JSONDecode must answer with a value or an error for every registered target type.
func genUniverseJSON(rng *hx.Rng, tok string, emit func(string, string)) bool {
	var e *serixgen.Env
	if p := hx.Safely(func() { e = envOf(tok) }); p != "" || e.Err != nil || e.Schema == nil {
		return false
	}
	vg := &serixgen.VGen{Rng: rng, API: e.API}
	var text []byte
	usable := false
	for try := 0; try < 5 && !usable; try++ {
		// a generated value the encoder refuses (a nil pointer where none is allowed, a map whose keys are not written as
		// strings - MapEncode panics on those, which is the encoder's business) is replaced by the next one
		var err error
		p := hx.Safely(func() {
			v := vg.Gen(e.Schema)
			text, err = e.API.JSONEncode(context.Background(), v.Interface(), e.Opts(false)...)
		})
		usable = p == "" && err == nil && len(text) <= 4096
	}
	if !usable {
		return false
	}
	text = []byte(canonJSON(text)) // object keys sorted: the request line must not depend on the iteration order of a Go map
	emit(fmt.Sprintf("jx %s %d %s", tok, rng.Intn(2), hx.Hex(text)), "universe-json:valid")
	var tree any
	if json.Unmarshal(text, &tree) != nil {
		return true
	}
	m, ok := tree.(map[string]any)
	if !ok {
		return true // the top type is not written as an object: JSONDecode refuses the text as it is
	}
	var ps [][]any
	paths(m, nil, &ps)
	pl := pool()
	for n := 0; n < 12 && len(ps) > 0; n++ {
		k := rng.Intn(len(ps))
		p := ps[k]
		ps = append(ps[:k], ps[k+1:]...)
		if len(p) == 0 {
			continue
		}
		repls := append([]any(nil), jxKinds...)
		repls = append(repls, hx.Pick(rng, pl), hx.Pick(rng, pl))
		for _, repl := range repls {
			t2, err := json.Marshal(replaceAt(m, p, repl, false))
			if err != nil {
				continue
			}
			emit(fmt.Sprintf("jx %s %d %s", tok, rng.Intn(2), hx.Hex(t2)), "universe-json:kind:"+kindOf(repl))
		}
		if rng.Chance(1, 2) {
			if t2, err := json.Marshal(replaceAt(m, p, nil, true)); err == nil {
				emit(fmt.Sprintf("jx %s %d %s", tok, rng.Intn(2), hx.Hex(t2)), "universe-json:delete")
			}
		}
	}

	return true
}
