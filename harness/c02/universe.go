// serix.Decode of the catalogue types and of randomly generated registered universes of harness/serixgen (shared with the
// serix part of C01/C02/C03, which compares outcome and value with the Lean model but has no allocation / time oracle)
// under the RESOURCE oracle of this harness:
//
//	x K:<catalogue name> V HEX      x G:<seed>:<depth> V HEX     (answer "oracle-only")
//
// The universe is rebuilt in the child process from its name / seed (deterministic) and cached; the call is made once
// unmeasured (first use of a type fills the struct-field cache and reflect's type tables) and then measured.
package main

import (
	"context"
	"fmt"
	"reflect"
	"strconv"
	"strings"

	"verifharness/hx"
	"verifharness/serixgen"
)

var envCache = map[string]*serixgen.Env{}

func envOf(tok string) *serixgen.Env {
	if e, ok := envCache[tok]; ok {
		return e
	}
	var e *serixgen.Env
	z := strings.Split(tok, ":")
	switch z[0] {
	case "K":
		e = serixgen.CatalogueEnv(z[1])
	case "G":
		seed, err := strconv.ParseUint(z[1], 10, 64)
		if err != nil {
			panic("bad universe seed " + z[1])
		}
		e = serixgen.GenEnv(hx.NewRng(seed), atoi(z[2]))
	}
	if e == nil {
		panic("unknown universe " + tok)
	}
	envCache[tok] = e

	return e
}

func isUniverse(target string) bool {
	return strings.HasPrefix(target, "K:") || strings.HasPrefix(target, "G:")
}

// rawU decodes without recovering.
func rawU(f []string) string {
	e := envOf(f[1])
	dst := reflect.New(e.Top)
	n, err := e.API.Decode(context.Background(), hx.UnHex(f[3]), dst.Interface(), e.Opts(f[2] == "1")...)
	if err != nil {
		return "err"
	}

	return fmt.Sprintf("ok %d", n)
}

// zeroWidthSlice: the schema contains a slice whose elements may be zero bytes wide - the known defect of the unchanged
// tree (such a slice iterates as often as its count says); those universes stay with the Z: requests.
func zeroWidthSlice(s *serixgen.Schema) bool {
	bad := false
	s.Walk(func(n *serixgen.Schema) {
		if n.K == serixgen.KSlice && !n.Elem.NonEmpty() {
			bad = true
		}
	})

	return bad
}

// genUniverse emits the requests of one universe: valid encodings of generated values as they are, and with EVERY
// offset overwritten by a huge little-endian value of every prefix width (the bytes behind it intact).
func genUniverse(rng *hx.Rng, tok string, values int, emit func(string, string)) bool {
	var e *serixgen.Env
	if p := hx.Safely(func() { e = envOf(tok) }); p != "" || e.Err != nil || e.Schema == nil || zeroWidthSlice(e.Schema) {
		return false
	}
	vg := &serixgen.VGen{Rng: rng, API: e.API}
	for k := 0; k < values; k++ {
		var b []byte
		var err error
		if p := hx.Safely(func() {
			v := vg.Gen(e.Schema)
			b, err = e.API.Encode(context.Background(), v.Interface(), e.Opts(false)...)
		}); p != "" || err != nil || len(b) > 160 {
			continue
		}
		emit(fmt.Sprintf("x %s %d %s", tok, rng.Intn(2), hx.Hex(b)), "universe:valid")
		for off := 0; off < len(b); off++ {
			for _, pat := range [][]byte{{0xff}, {0xff, 0xff}, {0xff, 0xff, 0xff, 0x7f}} {
				if off+len(pat) > len(b)+1 {
					continue
				}
				d2 := append(append([]byte(nil), b[:off]...), pat...)
				if off+len(pat) < len(b) {
					d2 = append(d2, b[off+len(pat):]...)
				}
				emit(fmt.Sprintf("x %s %d %s", tok, (off+k)%2, hx.Hex(d2)), "universe:offset-sweep")
			}
		}
	}

	return true
}
