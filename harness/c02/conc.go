package main

// Concurrent first use of one serix.API: the struct-field cache and the registries of an API are shared
// by every Decode/Encode on it.  A scenario is: a fresh API, G goroutines released together by a barrier,
// each encoding and decoding (binary and JSON) values of struct types no other goroutine uses and the API
// has not seen yet, so that the first-time cache fills overlap.  A data race on the cache map is not a
// recoverable panic but a runtime abort ("fatal error: concurrent map read and map write"): the scenario
// runs in the child process and the abort is the oracle failure `fatal`, with the request as replay.

import (
	"context"
	"fmt"
	"sync"

	"github.com/iotaledger/hive.go/serializer/v2/serix"
)

type (
	cI1 struct {
		A uint8 `serix:"a"`
	}
	cI2 struct {
		B uint16 `serix:"b"`
	}
	cI3 struct {
		C uint32 `serix:"c"`
	}
	cI4 struct {
		D uint64 `serix:"d"`
	}
	cI5 struct {
		E bool `serix:"e"`
	}
	cI6 struct {
		F int8 `serix:"f"`
	}
	cI7 struct {
		G int16 `serix:"g"`
	}
	cI8 struct {
		H int32 `serix:"h"`
	}
	cJ1 struct {
		A cI1 `serix:"a"`
	}
	cJ2 struct {
		A cI2 `serix:"a"`
	}
	cJ3 struct {
		A cI3 `serix:"a"`
	}
	cJ4 struct {
		A cI4 `serix:"a"`
	}
	cJ5 struct {
		A cI5 `serix:"a"`
	}
	cJ6 struct {
		A cI6 `serix:"a"`
	}
	cJ7 struct {
		A cI7 `serix:"a"`
	}
	cJ8 struct {
		A cI8 `serix:"a"`
	}
	cT1 struct {
		X cJ1   `serix:"x"`
		Y cI1   `serix:"y"`
		N uint8 `serix:"n"`
	}
	cT2 struct {
		X cJ2   `serix:"x"`
		Y cI2   `serix:"y"`
		N uint8 `serix:"n"`
	}
	cT3 struct {
		X cJ3   `serix:"x"`
		Y cI3   `serix:"y"`
		N uint8 `serix:"n"`
	}
	cT4 struct {
		X cJ4   `serix:"x"`
		Y cI4   `serix:"y"`
		N uint8 `serix:"n"`
	}
	cT5 struct {
		X cJ5   `serix:"x"`
		Y cI5   `serix:"y"`
		N uint8 `serix:"n"`
	}
	cT6 struct {
		X cJ6   `serix:"x"`
		Y cI6   `serix:"y"`
		N uint8 `serix:"n"`
	}
	cT7 struct {
		X cJ7   `serix:"x"`
		Y cI7   `serix:"y"`
		N uint8 `serix:"n"`
	}
	cT8 struct {
		X cJ8   `serix:"x"`
		Y cI8   `serix:"y"`
		N uint8 `serix:"n"`
	}
)

// one (value, fresh destination) pair per goroutine
var concTargets = []func() (any, any){
	func() (any, any) { return &cT1{N: 1}, &cT1{} },
	func() (any, any) { return &cT2{N: 2}, &cT2{} },
	func() (any, any) { return &cT3{N: 3}, &cT3{} },
	func() (any, any) { return &cT4{N: 4}, &cT4{} },
	func() (any, any) { return &cT5{N: 5}, &cT5{} },
	func() (any, any) { return &cT6{N: 6}, &cT6{} },
	func() (any, any) { return &cT7{N: 7}, &cT7{} },
	func() (any, any) { return &cT8{N: 8}, &cT8{} },
}

// rawConc runs `rounds` scenarios with `g` goroutines each; "ok 0" or the first failure.
func rawConc(rounds, g int, validate bool) string {
	ctx := context.Background()
	var opts []serix.Option
	if validate {
		opts = append(opts, serix.WithValidation())
	}
	for r := 0; r < rounds; r++ {
		api := serix.NewAPI()
		start := make(chan struct{})
		var wg sync.WaitGroup
		fails := make([]string, g)
		for i := 0; i < g; i++ {
			wg.Add(1)
			go func(i int) {
				defer wg.Done()
				defer func() {
					if e := recover(); e != nil {
						fails[i] = fmt.Sprint("panic: ", e)
					}
				}()
				v, dst := concTargets[i%len(concTargets)]()
				v2, dst2 := concTargets[i%len(concTargets)]()
				<-start
				if (i+r)%2 == 0 {
					// decode first: bytes of the zero value are all zeros of the right length
					if _, err := api.Decode(ctx, make([]byte, 64), dst, opts...); err != nil {
						fails[i] = "decode of zero bytes: " + err.Error()

						return
					}
				}
				b, err := api.Encode(ctx, v, opts...)
				if err != nil {
					fails[i] = "encode: " + err.Error()

					return
				}
				if n, err := api.Decode(ctx, b, dst2, opts...); err != nil || n != len(b) {
					fails[i] = fmt.Sprint("decode: ", err, " consumed ", n, " of ", len(b))

					return
				}
				j, err := api.JSONEncode(ctx, v2, opts...)
				if err != nil {
					fails[i] = "json encode: " + err.Error()

					return
				}
				_, dst3 := concTargets[i%len(concTargets)]()
				if err := api.JSONDecode(ctx, j, dst3, opts...); err != nil {
					fails[i] = "json decode: " + err.Error()
				}
			}(i)
		}
		close(start)
		wg.Wait()
		for _, f := range fails {
			if f != "" {
				if len(f) >= 5 && f[:5] == "panic" {
					panic(f)
				}

				return "err"
			}
		}
	}

	return "ok 0"
}
