package main

// Interpreter of "read programs" over the real serializer.Deserializer: every primitive of the
// program is one call in a Deserializer chain (sticky error, Done() at the end).  The same program is
// run by Hive/Model/Deser.lean.

import (
	"encoding/binary"
	"errors"
	"fmt"
	"math"
	"math/big"
	"strconv"
	"strings"
	"time"

	"verifharness/c02/sx"
	"verifharness/hx"

	"github.com/iotaledger/hive.go/serializer/v2"
)

type alt struct {
	code uint32
	prog []prim
}

type prim struct {
	k        string
	n        int
	lp       string
	min, max int
	den      string
	code     uint32
	val      bool
	flag     bool
	mode     int
	must     []uint32
	item     []prim
	alts     []alt
}

func atoi(s string) int {
	n, err := strconv.Atoi(s)
	if err != nil {
		panic("bad number " + s)
	}

	return n
}

func parseAlts(toks []string) ([]alt, []string) {
	if toks[0] != "[" {
		panic("alternatives need [")
	}
	toks = toks[1:]
	var out []alt
	for toks[0] != "]" {
		if toks[0] != "(" {
			panic("alternative needs (")
		}
		code := uint32(atoi(toks[1]))
		p, rest := parseD(toks[2:])
		out = append(out, alt{code, p})
		toks = rest
	}

	return out, toks[1:]
}

// parseD parses a program up to the matching ")" or the end.
func parseD(toks []string) ([]prim, []string) {
	var out []prim
	for len(toks) > 0 {
		t := toks[0]
		switch t {
		case ")":
			return out, toks[1:]
		case "b", "y", "u", "t", "l", "a", "R", "D":
			out = append(out, prim{k: t})
			toks = toks[1:]
		case "g":
			out = append(out, prim{k: t, den: toks[1]})
			toks = toks[2:]
		case "A":
			out = append(out, prim{k: t, flag: toks[1] == "1"})
			toks = toks[2:]
		case "W":
			out = append(out, prim{k: t, val: toks[1] == "1", flag: toks[2] == "1"})
			toks = toks[3:]
		case "n", "f", "i", "k":
			out = append(out, prim{k: t, n: atoi(toks[1])})
			toks = toks[2:]
		case "v", "s":
			out = append(out, prim{k: t, lp: toks[1], min: atoi(toks[2]), max: atoi(toks[3])})
			toks = toks[4:]
		case "c":
			out = append(out, prim{k: t, den: toks[1], code: uint32(atoi(toks[2]))})
			toks = toks[3:]
		case "q":
			p := prim{k: t, lp: toks[1], val: toks[2] == "1", min: atoi(toks[3]), max: atoi(toks[4]), mode: atoi(toks[5])}
			if toks[6] != "(" {
				panic("q needs ( item )")
			}
			p.item, toks = parseD(toks[7:])
			out = append(out, p)
		case "o":
			p := prim{k: t, den: toks[1]}
			p.alts, toks = parseAlts(toks[2:])
			out = append(out, p)
		case "r":
			p := prim{k: t, lp: toks[1], den: toks[2], val: toks[3] == "1", min: atoi(toks[4]), max: atoi(toks[5]), mode: atoi(toks[6])}
			if toks[7] != "-" {
				for _, m := range strings.Split(toks[7], ",") {
					p.must = append(p.must, uint32(atoi(m)))
				}
			}
			p.alts, toks = parseAlts(toks[8:])
			out = append(out, p)
		case "p":
			p := prim{k: t}
			p.alts, toks = parseAlts(toks[1:])
			out = append(out, p)
		default:
			panic("unknown read primitive " + t)
		}
	}

	return out, nil
}

func showAlts(a []alt) string {
	s := []string{"["}
	for _, x := range a {
		s = append(s, "(", strconv.Itoa(int(x.code)), showD(x.prog), ")")
	}

	return strings.Join(append(s, "]"), " ")
}

func showD(p []prim) string {
	var s []string
	for _, x := range p {
		switch x.k {
		case "b", "y", "u", "t", "l", "a", "R", "D":
			s = append(s, x.k)
		case "g":
			s = append(s, x.k, x.den)
		case "A":
			s = append(s, x.k, b01(x.flag))
		case "W":
			s = append(s, x.k, b01(x.val), b01(x.flag))
		case "n", "f", "i", "k":
			s = append(s, x.k, strconv.Itoa(x.n))
		case "v", "s":
			s = append(s, x.k, x.lp, strconv.Itoa(x.min), strconv.Itoa(x.max))
		case "c":
			s = append(s, x.k, x.den, strconv.Itoa(int(x.code)))
		case "q":
			s = append(s, x.k, x.lp, b01(x.val), strconv.Itoa(x.min), strconv.Itoa(x.max), strconv.Itoa(x.mode), "(", showD(x.item), ")")
		case "o":
			s = append(s, x.k, x.den, showAlts(x.alts))
		case "r":
			m := "-"
			if len(x.must) > 0 {
				ms := make([]string, len(x.must))
				for i, c := range x.must {
					ms[i] = strconv.Itoa(int(c))
				}
				m = strings.Join(ms, ",")
			}
			s = append(s, x.k, x.lp, x.den, b01(x.val), strconv.Itoa(x.min), strconv.Itoa(x.max), strconv.Itoa(x.mode), m, showAlts(x.alts))
		case "p":
			s = append(s, x.k, showAlts(x.alts))
		}
	}

	return strings.Join(strings.Fields(strings.Join(s, " ")), " ")
}

func b01(b bool) string {
	if b {
		return "1"
	}

	return "0"
}

func den(tok string) serializer.TypeDenotationType {
	switch tok {
	case "d0":
		return serializer.TypeDenotationNone
	case "d1":
		return serializer.TypeDenotationByte
	case "d4":
		return serializer.TypeDenotationUint32
	}
	panic("bad type denotation " + tok)
}

var errAbort = errors.New("aborted by the caller")

type dtrace struct {
	vals   []string
	misuse []string // contract violations of the chain helpers seen by the interpreter (independent Go oracle)
	iters  int
	k      int // rotates the destination types of ReadNum
}

func keep(err error) error { return err }

// progObj is a Serializable whose Deserialize runs a read program on a fresh Deserializer.
type progObj struct {
	prog []prim
	tr   *dtrace
}

func (o *progObj) MarshalJSON() ([]byte, error) { return []byte("null"), nil }
func (o *progObj) UnmarshalJSON([]byte) error   { return nil }
func (o *progObj) Serialize(serializer.DeSerializationMode, interface{}) ([]byte, error) {
	return nil, nil
}

func (o *progObj) Deserialize(data []byte, _ serializer.DeSerializationMode, _ interface{}) (int, error) {
	sub := serializer.NewDeserializer(data)
	runD(o.prog, sub, o.tr)

	return sub.Done()
}

func guardOf(alts []alt, tr *dtrace, countIter bool) serializer.SerializableReadGuardFunc {
	return func(ty uint32) (serializer.Serializable, error) {
		if countIter {
			tr.iters++
		}
		for _, a := range alts {
			if a.code == ty {
				return &progObj{prog: a.prog, tr: tr}, nil
			}
		}

		return nil, fmt.Errorf("type %d not allowed", ty)
	}
}

func seriMode(v bool) serializer.DeSerializationMode {
	if v {
		return serializer.DeSeriModePerformValidation
	}

	return serializer.DeSeriModeNoValidation
}

func failed(d *serializer.Deserializer) bool {
	_, err := d.Done()

	return err != nil
}

// runD runs every primitive of the program as the next call of the Deserializer chain.
func runD(p []prim, d *serializer.Deserializer, tr *dtrace) {
	for _, x := range p {
		before := failed(d)
		var val string
		has := false
		switch x.k {
		case "n":
			tr.k++
			switch x.n {
			case 1:
				if tr.k%2 == 0 {
					var v uint8
					d.ReadNum(&v, keep)
					val = hx.Hex([]byte{v})
				} else {
					var v int8
					d.ReadNum(&v, keep)
					val = hx.Hex([]byte{byte(v)})
				}
			case 2:
				b := make([]byte, 2)
				if tr.k%2 == 0 {
					var v uint16
					d.ReadNum(&v, keep)
					binary.LittleEndian.PutUint16(b, v)
				} else {
					var v int16
					d.ReadNum(&v, keep)
					binary.LittleEndian.PutUint16(b, uint16(v))
				}
				val = hx.Hex(b)
			case 4:
				b := make([]byte, 4)
				switch tr.k % 3 {
				case 0:
					var v uint32
					d.ReadNum(&v, keep)
					binary.LittleEndian.PutUint32(b, v)
				case 1:
					var v int32
					d.ReadNum(&v, keep)
					binary.LittleEndian.PutUint32(b, uint32(v))
				default:
					var v float32
					d.ReadNum(&v, keep)
					binary.LittleEndian.PutUint32(b, math.Float32bits(v))
				}
				val = hx.Hex(b)
			case 8:
				b := make([]byte, 8)
				switch tr.k % 3 {
				case 0:
					var v uint64
					d.ReadNum(&v, keep)
					binary.LittleEndian.PutUint64(b, v)
				case 1:
					var v int64
					d.ReadNum(&v, keep)
					binary.LittleEndian.PutUint64(b, uint64(v))
				default:
					var v float64
					d.ReadNum(&v, keep)
					binary.LittleEndian.PutUint64(b, math.Float64bits(v))
				}
				val = hx.Hex(b)
			default:
				panic("bad num width")
			}
			has = true
		case "b":
			var v bool
			d.ReadBool(&v, keep)
			val, has = "0"+b01(v), true
		case "y":
			var v byte
			d.ReadByte(&v, keep)
			val, has = hx.Hex([]byte{v}), true
		case "u":
			var v *big.Int
			d.ReadUint256(&v, keep)
			if v != nil {
				be := v.FillBytes(make([]byte, 32))
				for i, j := 0, 31; i < j; i, j = i+1, j-1 {
					be[i], be[j] = be[j], be[i]
				}
				val, has = hx.Hex(be), true
			}
		case "t":
			var v time.Time
			d.ReadTime(&v, keep)
			b := make([]byte, 8)
			binary.LittleEndian.PutUint64(b, uint64(v.UnixNano()))
			val, has = hx.Hex(b), true
		case "f":
			var v []byte
			d.ReadBytes(&v, x.n, keep)
			val, has = hx.Hex(v), true
		case "i":
			v := make([]byte, x.n)
			d.ReadBytesInPlace(v, keep)
			val, has = hx.Hex(v), true
		case "v":
			var v []byte
			d.ReadVariableByteSlice(&v, sx.LP(x.lp), keep, x.min, x.max)
			val, has = hx.Hex(v), true
		case "s":
			var v string
			d.ReadString(&v, sx.LP(x.lp), keep, x.min, x.max)
			val, has = hx.Hex([]byte(v)), true
		case "k":
			d.Skip(x.n, keep)
		case "c":
			d.CheckTypePrefix(x.code, den(x.den), keep)
		case "l":
			// ReadPayloadLength is not a chain call: it ignores (and does not set) the sticky error;
			// its own error is put into the chain the way decodeStructFields aborts on it.
			if before {
				// (a caller looks at the error before it goes on: after a failure the call would still move the offset)
				break
			}
			n, err := d.ReadPayloadLength()
			if err != nil {
				d.AbortIf(func(error) error { return err })
			} else {
				b := make([]byte, 4)
				binary.LittleEndian.PutUint32(b, n)
				tr.vals = append(tr.vals, hx.Hex(b))
			}
		case "a":
			d.ConsumedAll(func(_ int, err error) error { return err })
		case "R":
			// RemainingBytes is not a chain call either: it slices d.src[d.offset:] whatever the sticky error is
			// (it can only be evaluated because the offset never exceeds the input: C02_deser_offset_le)
			rem := d.RemainingBytes()
			val, has = hx.Hex(rem), true
		case "D":
			ran := false
			d.Do(func() { ran = true })
			if ran {
				val, has = "#0", true
			}
			if ran == before {
				tr.misuse = append(tr.misuse, "Do ran its callback although the chain had failed (or skipped it although it had not)")
			}
		case "g":
			// GetObjectType as a call of its own (peeks, never moves the offset); its error aborts the chain
			off0, _ := d.Done()
			ty, err := d.GetObjectType(den(x.den))
			if off1, _ := d.Done(); off1 != off0 {
				tr.misuse = append(tr.misuse, fmt.Sprintf("GetObjectType moved the offset from %d to %d", off0, off1))
			}
			if err != nil {
				d.AbortIf(func(error) error { return err })
			} else {
				val, has = "#"+strconv.FormatUint(uint64(ty), 10), true
			}
		case "A":
			d.AbortIf(func(error) error {
				if x.flag {
					return errAbort
				}

				return nil
			})
		case "W":
			off0, _ := d.Done()
			called := false
			d.WithValidation(seriMode(x.val), func(read []byte, err error) error {
				called = true
				if len(read) != off0 || err != nil {
					tr.misuse = append(tr.misuse, fmt.Sprintf("WithValidation handed %d read bytes / err %v to its producer at offset %d", len(read), err, off0))
				}
				if x.flag {
					return errAbort
				}

				return nil
			})
			if called != (x.val && !before) {
				tr.misuse = append(tr.misuse, "WithValidation called its producer in the wrong mode / after a failure")
			}
			if called && !x.flag {
				val, has = "#1", true
			}
		case "q":
			rules := &serializer.ArrayRules{Min: uint(x.min), Max: uint(x.max), ValidationMode: serializer.ArrayValidationMode(x.mode)}
			d.ReadSequenceOfObjects(func(b []byte) (int, error) {
				tr.iters++
				sub := serializer.NewDeserializer(b)
				runD(x.item, sub, tr)

				return sub.Done()
			}, seriMode(x.val), sx.LP(x.lp), rules, keep)
		case "o":
			d.ReadObject(func(serializer.Serializable) {}, serializer.DeSeriModeNoValidation, nil, den(x.den), guardOf(x.alts, tr, false), keep)
		case "r":
			rules := &serializer.ArrayRules{Min: uint(x.min), Max: uint(x.max), ValidationMode: serializer.ArrayValidationMode(x.mode)}
			if len(x.must) > 0 {
				rules.MustOccur = serializer.TypePrefixes{}
				for _, m := range x.must {
					rules.MustOccur[m] = struct{}{}
				}
			}
			rules.Guards.ReadGuard = guardOf(x.alts, tr, true)
			n := -1
			d.ReadSliceOfObjects(func(s serializer.Serializables) { n = len(s) }, seriMode(x.val), nil, sx.LP(x.lp), den(x.den), rules, keep)
			if n >= 0 {
				val, has = "#"+strconv.Itoa(n), true
			}
		case "p":
			d.ReadPayload(func(serializer.Serializable) {}, serializer.DeSeriModeNoValidation, nil, guardOf(x.alts, tr, false), keep)
		default:
			panic("unknown read primitive " + x.k)
		}
		if has && !before && !failed(d) {
			tr.vals = append(tr.vals, val)
		}
	}
}

// lastMisuse: what the interpreter of the last "d" request saw the chain helpers do against their contract.
var lastMisuse []string

// execD executes "d HEX prog...".
func execD(f []string) string {
	out := ""
	if p := hx.Safely(func() { out = execDRaw(f) }); p != "" {
		return "panic"
	}

	return out
}

func execDRaw(f []string) string {
	data := hx.UnHex(f[1])
	prog, _ := parseD(f[2:])
	d := serializer.NewDeserializer(data)
	tr := &dtrace{}
	runD(prog, d, tr)
	n, err := d.Done()
	lastMisuse = tr.misuse
	if err != nil {
		// the offset Done() reports next to an error is compared too (model: derr)
		return fmt.Sprintf("err %d %d", n, tr.iters)
	}

	return fmt.Sprintf("ok %d %d %s", n, tr.iters, sx.ShowVals(tr.vals))
}
