// The string decoders of serializer/serix/numbers.go called directly, and JSONDecode on raw JSON texts.
//
//	nx hex|big|u64 "HEX           serix.DecodeHex / DecodeUint256 / DecodeUint64 of the string whose bytes are HEX
//	                              answer: ok N (hex: N = decoded bytes; big: N = bytes of the number - the oracle wants N <= len; u64: plain ok) | err | panic
//	jt TARGET V TEXTHEX schema | doc
//	                              serix.JSONDecode of the raw JSON text TEXTHEX (any text: malformed, a top-level null /
//	                              array / scalar, duplicate keys, deep nesting); doc = the tree encoding/json makes of the
//	                              text (X = the text is not JSON), which is all the model sees of it
package main

import (
	"context"
	"encoding/hex"
	"encoding/json"
	"fmt"
	"strings"

	"verifharness/hx"

	"github.com/iotaledger/hive.go/serializer/v2/serix"
)

func keyBytes(tok string) string {
	b, err := hex.DecodeString(tok[1:])
	if err != nil {
		panic("bad string token " + tok)
	}

	return string(b)
}

// rawNX runs the decoder without recovering.
func rawNX(f []string) string {
	s := keyBytes(f[2])
	switch f[1] {
	case "hex":
		b, err := serix.DecodeHex(s)
		if err != nil {
			return "err"
		}

		return fmt.Sprintf("ok %d", len(b))
	case "big":
		n, err := serix.DecodeUint256(s)
		if err != nil {
			return "err"
		}

		return fmt.Sprintf("ok %d", (n.BitLen()+7)/8)
	case "u64":
		if _, err := serix.DecodeUint64(s); err != nil {
			return "err"
		}

		return "ok"
	}
	panic("bad numbers op")
}

func execNX(f []string) string {
	out := ""
	if p := hx.Safely(func() { out = rawNX(f) }); p != "" {
		return "panic"
	}

	return out
}

// the syntax classes of the three string decoders
var nxPool = []string{
	"", "0x", "0X", "0", "x", "0x0", "0x00", "0x000", "0x1", "0x01", "0x0102", "0X0a0B", "0xzz", "0x0g", "0x 01", " 0x01", "0x01 ", "0x-1", "0x+1", "0x_1", "0x1_0",
	"0102", "abc", "0xé", "\x00", "0x\x00\x00",
	"1", "12", "-5", "+5", "1.5", "007", "1_0", "_1", "1e3", " 1", "1 ", "0b1", "0o7", "0x7",
	"18446744073709551615", "18446744073709551616", "18446744073709551614", "99999999999999999999", "-0", "+0",
	"9223372036854775807", "9223372036854775808",
	"0x" + strings.Repeat("ff", 32), "0x1" + strings.Repeat("ff", 32), "0x0" + strings.Repeat("ff", 32), "0x" + strings.Repeat("ab", 31) + "a",
	"0x" + strings.Repeat("0", 64), "0x" + strings.Repeat("0", 65), "0x1" + strings.Repeat("0", 63), "0x1" + strings.Repeat("0", 64),
}

func genNX(rng *hx.Rng) string {
	var s string
	switch rng.Intn(8) {
	case 0, 1:
		s = hx.Pick(rng, nxPool)
	case 2:
		// a valid hex string of random bytes, now and then long
		n := rng.Range(0, 40)
		if rng.Chance(1, 10) {
			n = rng.Range(1000, 5000)
		}
		s = "0x" + hex.EncodeToString(rbytes(rng, n, n))
		if rng.Chance(1, 4) {
			s = strings.ToUpper(s[2:])
			s = "0x" + s
		}
	case 3:
		// a valid hex string damaged in one place
		b := []byte("0x" + hex.EncodeToString(rbytes(rng, 0, 36)))
		switch rng.Intn(4) {
		case 0:
			b = b[:rng.Intn(len(b)+1)]
		case 1:
			b[rng.Intn(len(b))] = "gxz_ -+.0"[rng.Intn(9)]
		case 2:
			k := rng.Intn(len(b) + 1)
			b = append(b[:k:k], append([]byte{"0123456789abcdefABCDEFg"[rng.Intn(23)]}, b[k:]...)...)
		default:
			b = b[1:]
		}
		s = string(b)
	case 4:
		// decimal digits around the 64-bit boundary
		n := rng.Range(1, 24)
		b := make([]byte, n)
		for i := range b {
			b[i] = byte('0' + rng.Intn(10))
		}
		if rng.Chance(1, 6) {
			b[rng.Intn(n)] = "_-+. e"[rng.Intn(6)]
		}
		s = string(b)
	case 5:
		// a big number: 0x + 1..66 digits, with or without a leading zero
		n := rng.Range(1, 66)
		b := make([]byte, n)
		for i := range b {
			b[i] = "0123456789abcdefABCDEF"[rng.Intn(22)]
		}
		if rng.Chance(1, 4) {
			b[0] = '0'
		}
		s = hx.Pick(rng, []string{"0x", "0x", "0X", ""}) + string(b)
	case 6:
		s = string(rbytes(rng, 0, 12))
	default:
		s = fmt.Sprint(rng.U64() >> uint(rng.Intn(64)))
	}

	return "nx " + hx.Pick(rng, []string{"hex", "big", "u64"}) + " " + key(s)
}

// ---- JSONDecode on raw texts ------------------------------------------------------------------------

func jtParts(f []string) (t *jtarget, validate bool, text []byte) {
	t = jtargetByName(f[1])
	validate = f[2] == "1"
	text = hx.UnHex(f[3])

	return
}

func rawJT(f []string) string {
	t, validate, text := jtParts(f)
	var opts []serix.Option
	if validate {
		opts = append(opts, serix.WithValidation())
	}
	if err := jsonAPI.JSONDecode(context.Background(), text, t.fresh(), opts...); err != nil {
		return "err"
	}

	return "ok"
}

func execJT(f []string) string {
	out := ""
	if p := hx.Safely(func() { out = rawJT(f) }); p != "" {
		return "panic"
	}

	return out
}

// jtLine renders the request for a raw text: the tree is what encoding/json (trusted) makes of the text.
func jtLine(t *jtarget, v string, text string) string {
	var tree any
	doc := "X"
	if err := json.Unmarshal([]byte(text), &tree); err == nil {
		doc = strings.Join(showTree(tree), " ")
	}

	return "jt " + t.name + " " + v + " " + hx.Hex([]byte(text)) + " " + t.schema + " | " + doc
}

// canonJSON re-marshals a JSON text through the generic tree (object keys sorted), so that a text does not depend on the
// iteration order of a Go map.
func canonJSON(b []byte) string {
	var tree any
	if err := json.Unmarshal(b, &tree); err != nil {
		return string(b)
	}
	out, err := json.Marshal(tree)
	if err != nil {
		return string(b)
	}

	return string(out)
}

// texts that are not an object, or not JSON at all
var jtTexts = []string{
	"null", " null ", "true", "false", "0", "1", "-1.5e3", "1e400", "\"x\"", "\"\"", "[]", "[1]", "[{}]", "[null]", "{}", " { } ", "{\"type\":1}",
	"", " ", "{", "}", "[", "{]", "{\"a\"}", "{\"a\":}", "{\"a\":1,}", "{}x", "{}{}", "nul", "NULL", "'x'", "{a:1}", "\x00", "\xff\xfe", "{\"a\":\"\xff\"}",
	"{\"a\":1,\"a\":2}", "{\"type\":1,\"type\":\"x\"}", "{\"\":null}", "{\"a\":{\"a\":{\"a\":{\"a\":[[[[[[]]]]]]}}}}",
}

func genJT(rng *hx.Rng, emit func(string, string)) {
	for ti := range jtargets {
		t := &jtargets[ti]
		for _, txt := range jtTexts {
			emit(jtLine(t, fmt.Sprint(rng.Intn(2)), txt), "text:fixed")
		}
		// nesting at and beyond the depth limit of encoding/json (10000), in every bracket kind (first target only: long lines)
		for _, d := range []int{100, 9999, 10000, 10001, 100000} {
			if ti != 0 {
				break
			}
			emit(jtLine(t, "1", strings.Repeat("[", d)+strings.Repeat("]", d)), "text:deep")
			emit(jtLine(t, "0", strings.Repeat("{\"a\":", d)+"1"+strings.Repeat("}", d)), "text:deep")
			emit(jtLine(t, "0", strings.Repeat("[", d)), "text:deep")
		}
		// the JSONEncode output of a valid value: as it is, cut, wrapped, with a field replaced by text fragments
		for i := 0; i < 6; i++ {
			v := t.seeds(rng)
			if _, ok := v.(map[string]any); ok {
				break
			}
			b, err := jsonAPI.JSONEncode(context.Background(), v)
			if err != nil {
				panic(err)
			}
			txt := canonJSON(b) // JSONEncode writes Go maps in iteration order: the request lines must not depend on it
			emit(jtLine(t, fmt.Sprint(rng.Intn(2)), txt), "text:valid")
			emit(jtLine(t, fmt.Sprint(rng.Intn(2)), txt[:rng.Intn(len(txt))]), "text:cut")
			emit(jtLine(t, fmt.Sprint(rng.Intn(2)), "["+txt+"]"), "text:wrapped")
			emit(jtLine(t, fmt.Sprint(rng.Intn(2)), txt+txt), "text:twice")
			if k := strings.IndexByte(txt, ':'); k > 0 {
				for _, frag := range []string{"null", "1e999", "-0", "18446744073709551616", "1.0000000000000000000000000000001", "\"\\ud800\"", "\"\\u0000\"", "[", "{}"} {
					// the first value of the object replaced by a fragment (the rest of the text may be damaged by it: then it is not JSON)
					end := strings.IndexAny(txt[k+1:], ",}")
					if end < 0 {
						continue
					}
					emit(jtLine(t, fmt.Sprint(rng.Intn(2)), txt[:k+1]+frag+txt[k+1+end:]), "text:fragment")
				}
			}
		}
	}
}
