// facts regenerates lean/Hive/Gen/C02_Facts.lean from the working tree: the VALUES of the constants the decoder
// models use (evaluated by go/types) and the normalised BODIES of the small functions the models were written
// against - control structure, guards, calls and assignments as source text without white space, error
// construction (ierrors.*, errProducer(..), fmt.Sprintf) collapsed to ERR so that a changed message changes nothing.
//
//	facts <out.lean> <LeanNamespace> <repo-root>
//
// The Lean side (Props/C02.lean, Props/C01c.lean) ties the constants to the model by `decide` (C02_facts_*) and pins
// the bodies: a changed guard, a dropped branch, a swapped order of check and allocation breaks a proof obligation.
package main

import (
	"bytes"
	"fmt"
	"go/ast"
	"go/constant"
	"go/importer"
	"go/parser"
	"go/printer"
	"go/token"
	"go/types"
	"os"
	"path/filepath"
	"sort"
	"strings"
)

type fakeImporter struct {
	std types.Importer
}

func (f fakeImporter) Import(path string) (*types.Package, error) {
	if !strings.Contains(path, ".") {
		if p, err := f.std.Import(path); err == nil {
			return p, nil
		}
	}
	name := path[strings.LastIndex(path, "/")+1:]
	p := types.NewPackage(path, name)
	p.MarkComplete()

	return p, nil
}

func parseDir(fset *token.FileSet, dir string) []*ast.File {
	ents, err := os.ReadDir(dir)
	if err != nil {
		fail(err.Error())
	}
	var files []*ast.File
	for _, e := range ents {
		n := e.Name()
		if !strings.HasSuffix(n, ".go") || strings.HasSuffix(n, "_test.go") || strings.HasPrefix(n, "verif_") {
			continue
		}
		f, err := parser.ParseFile(fset, filepath.Join(dir, n), nil, 0)
		if err != nil {
			fail(err.Error())
		}
		files = append(files, f)
	}

	return files
}

func fail(msg string) {
	fmt.Fprintln(os.Stderr, "facts:", msg)
	os.Exit(1)
}

func consts(fset *token.FileSet, files []*ast.File, names []string) map[string]string {
	conf := types.Config{Importer: fakeImporter{importer.ForCompiler(fset, "source", nil)}, Error: func(error) {}}
	pkg, _ := conf.Check("p", fset, files, nil)
	out := map[string]string{}
	for _, n := range names {
		o := pkg.Scope().Lookup(n)
		c, ok := o.(*types.Const)
		if !ok || c.Val().Kind() != constant.Int {
			fail("constant " + n + " not found / not an integer")
		}
		out[n] = c.Val().ExactString()
	}

	return out
}

type norm struct {
	fset *token.FileSet
	toks []string
}

func (n *norm) src(x ast.Node) string {
	var b bytes.Buffer
	_ = printer.Fprint(&b, n.fset, x)

	return strings.Join(strings.Fields(b.String()), "")
}

// isErrCall: a call that only builds an error / a message
func isErrCall(c *ast.CallExpr) bool {
	switch f := c.Fun.(type) {
	case *ast.SelectorExpr:
		if id, ok := f.X.(*ast.Ident); ok && (id.Name == "ierrors" || (id.Name == "fmt" && strings.HasPrefix(f.Sel.Name, "Sprint"))) {
			return f.Sel.Name != "Is" && f.Sel.Name != "As"
		}
	case *ast.Ident:
		return f.Name == "errProducer"
	}

	return false
}

// expr renders an expression with error construction collapsed
func (n *norm) expr(e ast.Expr) string {
	cp := e
	var repl func(ast.Node) bool
	subs := map[*ast.CallExpr]bool{}
	repl = func(x ast.Node) bool {
		if c, ok := x.(*ast.CallExpr); ok && isErrCall(c) {
			subs[c] = true

			return false
		}

		return true
	}
	ast.Inspect(cp, repl)
	s := n.src(e)
	for c := range subs {
		s = strings.ReplaceAll(s, n.src(c), "ERR")
	}

	return s
}

func (n *norm) emit(s string) { n.toks = append(n.toks, s) }

func (n *norm) stmts(l []ast.Stmt) {
	for _, s := range l {
		n.stmt(s)
	}
}

func (n *norm) stmt(s ast.Stmt) {
	switch x := s.(type) {
	case *ast.BlockStmt:
		n.stmts(x.List)
	case *ast.IfStmt:
		if x.Init != nil {
			n.stmt(x.Init)
		}
		n.emit("if " + n.expr(x.Cond) + " {")
		n.stmts(x.Body.List)
		if x.Else != nil {
			n.emit("} else {")
			n.stmt(x.Else)
		}
		n.emit("}")
	case *ast.ForStmt:
		h := ""
		if x.Init != nil {
			h += n.src(x.Init)
		}
		h += ";"
		if x.Cond != nil {
			h += n.expr(x.Cond)
		}
		h += ";"
		if x.Post != nil {
			h += n.src(x.Post)
		}
		n.emit("for " + h + " {")
		n.stmts(x.Body.List)
		n.emit("}")
	case *ast.RangeStmt:
		k := ""
		if x.Key != nil {
			k = n.src(x.Key)
		}
		if x.Value != nil {
			k += "," + n.src(x.Value)
		}
		n.emit("for " + k + " range " + n.expr(x.X) + " {")
		n.stmts(x.Body.List)
		n.emit("}")
	case *ast.SwitchStmt:
		if x.Init != nil {
			n.stmt(x.Init)
		}
		tag := ""
		if x.Tag != nil {
			tag = n.expr(x.Tag)
		}
		n.emit("switch " + tag + " {")
		for _, c := range x.Body.List {
			cc := c.(*ast.CaseClause)
			if cc.List == nil {
				n.emit("default:")
			} else {
				var es []string
				for _, e := range cc.List {
					es = append(es, n.expr(e))
				}
				n.emit("case " + strings.Join(es, ",") + ":")
			}
			n.stmts(cc.Body)
		}
		n.emit("}")
	case *ast.ReturnStmt:
		var es []string
		for _, e := range x.Results {
			es = append(es, n.expr(e))
		}
		n.emit(strings.TrimSpace("return " + strings.Join(es, ",")))
	case *ast.AssignStmt:
		var l, r []string
		for _, e := range x.Lhs {
			l = append(l, n.src(e))
		}
		for _, e := range x.Rhs {
			r = append(r, n.expr(e))
		}
		n.emit(strings.Join(l, ",") + x.Tok.String() + strings.Join(r, ","))
	case *ast.ExprStmt:
		if c, ok := x.X.(*ast.CallExpr); ok {
			if id, ok := c.Fun.(*ast.Ident); ok && id.Name == "panic" {
				n.emit("panic")

				return
			}
		}
		n.emit(n.expr(x.X))
	case *ast.DeclStmt:
		n.emit(n.src(x))
	case *ast.IncDecStmt:
		n.emit(n.src(x))
	case *ast.DeferStmt:
		n.emit("defer " + n.expr(x.Call))
	case *ast.BranchStmt:
		n.emit(x.Tok.String())
	default:
		n.emit(n.src(s))
	}
}

func findFunc(files []*ast.File, name string) *ast.FuncDecl {
	recv, fn := "", name
	if i := strings.Index(name, "."); i >= 0 {
		recv, fn = name[:i], name[i+1:]
	}
	for _, f := range files {
		for _, d := range f.Decls {
			fd, ok := d.(*ast.FuncDecl)
			if !ok || fd.Name.Name != fn || fd.Body == nil {
				continue
			}
			r := ""
			if fd.Recv != nil && len(fd.Recv.List) > 0 {
				t := fd.Recv.List[0].Type
				if s, ok := t.(*ast.StarExpr); ok {
					t = s.X
				}
				if ix, ok := t.(*ast.IndexExpr); ok {
					t = ix.X
				}
				if ix, ok := t.(*ast.IndexListExpr); ok {
					t = ix.X
				}
				if id, ok := t.(*ast.Ident); ok {
					r = id.Name
				}
			}
			if r == recv {
				return fd
			}
		}
	}
	fail("function " + name + " not found")

	return nil
}

// assertions lists every type assertion x.(T) (type switches are total by construction and not listed) of the
// functions declared in the given file: function, operand and asserted type as source text, and whether the
// assertion is of the comma-ok form (`v, ok := x.(T)`, `_, ok = x.(T)`, `if _, ok := ...`), i.e. cannot panic.
func assertions(fset *token.FileSet, files []*ast.File, base string) [][4]string {
	var out [][4]string
	n := &norm{fset: fset}
	for _, f := range files {
		if filepath.Base(fset.Position(f.Pos()).Filename) != base {
			continue
		}
		for _, d := range f.Decls {
			fd, ok := d.(*ast.FuncDecl)
			if !ok || fd.Body == nil {
				continue
			}
			checked := map[*ast.TypeAssertExpr]bool{}
			unparen := func(e ast.Expr) ast.Expr {
				for {
					p, ok := e.(*ast.ParenExpr)
					if !ok {
						return e
					}
					e = p.X
				}
			}
			ast.Inspect(fd.Body, func(x ast.Node) bool {
				switch a := x.(type) {
				case *ast.AssignStmt:
					if len(a.Lhs) == 2 && len(a.Rhs) == 1 {
						if ta, ok := unparen(a.Rhs[0]).(*ast.TypeAssertExpr); ok {
							checked[ta] = true
						}
					}
				case *ast.ValueSpec:
					if len(a.Names) == 2 && len(a.Values) == 1 {
						if ta, ok := unparen(a.Values[0]).(*ast.TypeAssertExpr); ok {
							checked[ta] = true
						}
					}
				}

				return true
			})
			ast.Inspect(fd.Body, func(x ast.Node) bool {
				if ta, ok := x.(*ast.TypeAssertExpr); ok && ta.Type != nil {
					c := "unchecked"
					if checked[ta] {
						c = "ok"
					}
					out = append(out, [4]string{fd.Name.Name, n.src(ta.X), n.src(ta.Type), c})
				}

				return true
			})
		}
	}

	return out
}

// reflectValueOf lists the calls reflect.ValueOf(x) of the functions declared in the given file (function, operand):
// a decoded JSON value that is wrapped and then Set into the target panics when its dynamic type is not the target's.
func reflectValueOf(fset *token.FileSet, files []*ast.File, base string) [][2]string {
	var out [][2]string
	n := &norm{fset: fset}
	for _, f := range files {
		if filepath.Base(fset.Position(f.Pos()).Filename) != base {
			continue
		}
		for _, d := range f.Decls {
			fd, ok := d.(*ast.FuncDecl)
			if !ok || fd.Body == nil {
				continue
			}
			ast.Inspect(fd.Body, func(x ast.Node) bool {
				if c, ok := x.(*ast.CallExpr); ok && len(c.Args) == 1 {
					if se, ok := c.Fun.(*ast.SelectorExpr); ok && se.Sel.Name == "ValueOf" {
						if id, ok := se.X.(*ast.Ident); ok && id.Name == "reflect" {
							out = append(out, [2]string{fd.Name.Name, n.src(c.Args[0])})
						}
					}
				}

				return true
			})
		}
	}

	return out
}

func leanStr(s string) string {
	return "\"" + strings.ReplaceAll(strings.ReplaceAll(s, "\\", "\\\\"), "\"", "\\\"") + "\""
}

func main() {
	if len(os.Args) != 4 {
		fail("usage: facts <out.lean> <namespace> <repo-root>")
	}
	out, ns, root := os.Args[1], os.Args[2], os.Args[3]
	fset := token.NewFileSet()
	seri := parseDir(fset, filepath.Join(root, "serializer"))
	strm := parseDir(fset, filepath.Join(root, "serializer/stream"))
	tu := parseDir(fset, filepath.Join(root, "serializer/typeutils"))
	srx := parseDir(fset, filepath.Join(root, "serializer/serix"))
	omap := parseDir(fset, filepath.Join(root, "ds/serializableorderedmap"))
	var b strings.Builder
	fmt.Fprintf(&b, "-- GENERATED by harness/c02/facts from the Go working tree (checks/c02.py, checks/c01c.py); do not edit.\nnamespace %s\n\n", ns)
	cs := consts(fset, seri, []string{"OneByte", "UInt16ByteSize", "UInt32ByteSize", "UInt64ByteSize", "UInt256ByteSize",
		"TypeDenotationByteSize", "SmallTypeDenotationByteSize", "PayloadLengthByteSize", "MinPayloadByteSize", "MaxNanoTimestampInt64Seconds",
		"TypeDenotationUint32", "TypeDenotationByte", "TypeDenotationNone",
		"SeriLengthPrefixTypeAsByte", "SeriLengthPrefixTypeAsUint16", "SeriLengthPrefixTypeAsUint32", "SeriLengthPrefixTypeAsUint64",
		"DeSeriModeNoValidation", "DeSeriModePerformValidation",
		"ArrayValidationModeNoDuplicates", "ArrayValidationModeLexicalOrdering", "ArrayValidationModeAtMostOneOfEachTypeByte", "ArrayValidationModeAtMostOneOfEachTypeUint32"})
	for k, v := range consts(fset, strm, []string{"maxReadBytesPreallocation"}) {
		cs[k] = v
	}
	keys := make([]string, 0, len(cs))
	for k := range cs {
		keys = append(keys, k)
	}
	sort.Strings(keys)
	for _, k := range keys {
		fmt.Fprintf(&b, "def const_%s : Nat := %s\n", k, cs[k])
	}
	b.WriteString("\n")
	// the type set of stream.Read / stream.Write
	for _, f := range strm {
		for _, d := range f.Decls {
			gd, ok := d.(*ast.GenDecl)
			if !ok {
				continue
			}
			for _, sp := range gd.Specs {
				if ts, ok := sp.(*ast.TypeSpec); ok && ts.Name.Name == "allowedGenericTypes" {
					n := &norm{fset: fset}
					fmt.Fprintf(&b, "def type_allowedGenericTypes : String := %s\n\n", leanStr(n.src(ts.Type)))
				}
			}
		}
	}
	bodies := []struct {
		files []*ast.File
		name  string
	}{
		{strm, "ReadBytes"}, {strm, "ReadBytesWithSize"}, {strm, "ReadObject"}, {strm, "ReadObjectWithSize"}, {strm, "PeekSize"},
		{strm, "ReadCollection"}, {strm, "readFixedSize"}, {strm, "writeFixedSize"}, {strm, "WriteCollection"}, {strm, "WriteBytesWithSize"},
		{strm, "ByteBuffer.Write"}, {strm, "ByteBuffer.Seek"}, {strm, "ByteReader.BytesRead"}, {strm, "Offset"}, {strm, "Skip"}, {strm, "GoTo"},
		{tu, "Uint64FromBytes"}, {tu, "ByteArray32FromBytes"},
		{seri, "Deserializer.readSliceLength"}, {seri, "Deserializer.ReadVariableByteSlice"}, {seri, "Deserializer.ReadString"},
		{seri, "Deserializer.ReadBytes"}, {seri, "Deserializer.ReadPayloadLength"}, {seri, "Deserializer.GetObjectType"},
		{seri, "Deserializer.ReadSequenceOfObjects"}, {seri, "Deserializer.RemainingBytes"}, {seri, "Deserializer.Done"},
		{seri, "Deserializer.Skip"}, {seri, "Deserializer.ReadTime"}, {seri, "Deserializer.ReadPayload"},
		{srx, "DecodeHex"}, {srx, "DecodeUint256"}, {srx, "DecodeUint64"},
		// round 6: the remaining Deserializer primitives, the element validators, the entry points and small helpers of the JSON decoder, the ordered map
		{seri, "Deserializer.ReadBool"}, {seri, "Deserializer.ReadByte"}, {seri, "Deserializer.ReadUint256"}, {seri, "Deserializer.ReadNum"},
		{seri, "Deserializer.ReadBytesInPlace"}, {seri, "Deserializer.ReadObject"}, {seri, "Deserializer.readObject"}, {seri, "Deserializer.ReadSliceOfObjects"},
		{seri, "Deserializer.CheckTypePrefix"}, {seri, "Deserializer.ConsumedAll"}, {seri, "Deserializer.AbortIf"}, {seri, "Deserializer.WithValidation"}, {seri, "Deserializer.Do"},
		{seri, "ArrayRules.CheckBounds"}, {seri, "ArrayRules.ElementUniqueValidator"}, {seri, "ArrayRules.LexicalOrderValidator"},
		{seri, "ArrayRules.LexicalOrderWithoutDupsValidator"}, {seri, "ArrayRules.AtMostOneOfEachTypeValidator"}, {seri, "ArrayRules.ElementValidationFunc"},
		{srx, "API.JSONDecode"}, {srx, "API.MapDecode"}, {srx, "API.mapDecode"}, {srx, "mapDecodeBytes"}, {srx, "API.mapDecodeFloat"}, {srx, "API.mapDecodeNum"},
		{omap, "SerializableOrderedMap.Decode"},
		{seri, "CheckType"}, {seri, "CheckTypeByte"}, {seri, "numSize"},
	}
	for _, bd := range bodies {
		fd := findFunc(bd.files, bd.name)
		n := &norm{fset: fset}
		n.stmts(fd.Body.List)
		fmt.Fprintf(&b, "def body_%s : List String := [\n", strings.ReplaceAll(bd.name, ".", "_"))
		for i, t := range n.toks {
			sep := ","
			if i == len(n.toks)-1 {
				sep = ""
			}
			fmt.Fprintf(&b, "  %s%s\n", leanStr(t), sep)
		}
		b.WriteString("]\n\n")
	}
	// every type assertion of map_decode.go (the decoded JSON document arrives as `any`)
	b.WriteString("/-- (function, operand, asserted type, comma-ok form) of every type assertion of serializer/serix/map_decode.go, in source order -/\n")
	b.WriteString("def assertions_map_decode : List (String × String × String × Bool) := [\n")
	as := assertions(fset, srx, "map_decode.go")
	for i, a := range as {
		sep := ","
		if i == len(as)-1 {
			sep = ""
		}
		fmt.Fprintf(&b, "  (%s, %s, %s, %v)%s\n", leanStr(a[0]), leanStr(a[1]), leanStr(a[2]), a[3] == "ok", sep)
	}
	b.WriteString("]\n\n")
	b.WriteString("/-- (function, operand) of every reflect.ValueOf call of serializer/serix/map_decode.go, in source order -/\n")
	b.WriteString("def reflectValueOf_map_decode : List (String × String) := [\n")
	rv := reflectValueOf(fset, srx, "map_decode.go")
	for i, a := range rv {
		sep := ","
		if i == len(rv)-1 {
			sep = ""
		}
		fmt.Fprintf(&b, "  (%s, %s)%s\n", leanStr(a[0]), leanStr(a[1]), sep)
	}
	b.WriteString("]\n\n")
	fmt.Fprintf(&b, "end %s\n", ns)
	if err := os.WriteFile(out, []byte(b.String()), 0o644); err != nil {
		fail(err.Error())
	}
}
