package main

// Zero-width element, key and value types under serix.Decode: a length field in front of elements that
// consume no input is bounded by nothing in the bytes.  For maps the duplicate-key rejection is what ends
// the item loop (the second empty key is a duplicate); the oracle counts the element decodes through a
// self-deserialising counting type and bounds the wall time of every call.  Slices of zero-width
// elements iterate (and append) as often as their count says — a defect of the unchanged tree against the
// last clause of C02 (known finding, trigger zero-width-sequence-elements; Lean: C02_zero_size_items_witness):
// they are decoded with counts up to 2^20, enough to show the proportionality without burning time.

import (
	"context"
	"fmt"

	"verifharness/hx"

	"github.com/iotaledger/hive.go/serializer/v2/serix"
)

// zcDecodes counts the element decodes of the current call.
var zcDecodes int64

// ZC is a zero-width type that deserialises itself and counts how often it is asked to.
type ZC struct{}

func (z ZC) Encode() ([]byte, error) { return []byte{}, nil }

func (z *ZC) Decode([]byte) (int, error) {
	zcDecodes++

	return 0, nil
}

type zTarget struct {
	kind  string
	fresh func() any
	// a zero-width *sequence*: iterates by its count (known finding)
	seq bool
}

var zTargets = []zTarget{
	{"mss", func() any { return &map[struct{}]struct{}{} }, false},
	{"mas", func() any { return &map[[0]byte]struct{}{} }, false},
	{"mau", func() any { return &map[[0]byte]uint8{} }, false},
	{"mus", func() any { return &map[uint8]struct{}{} }, false},
	{"mcc", func() any { return &map[ZC]ZC{} }, false},
	{"mcu", func() any { return &map[ZC]uint16{} }, false},
	{"muc", func() any { return &map[uint8]ZC{} }, false},
	{"ss", func() any { return &[]struct{}{} }, true},
	{"sa", func() any { return &[][0]byte{} }, true},
	{"sc", func() any { return &[]ZC{} }, true},
}

func zTargetOf(kind string) *zTarget {
	for i := range zTargets {
		if zTargets[i].kind == kind {
			return &zTargets[i]
		}
	}
	panic("unknown zero-width target " + kind)
}

var zWidths = []string{"u8", "u16", "u32"}

// one API per prefix width: the same Go types with the length prefix type registered for the collection
var zAPIs = func() map[string]*serix.API {
	out := map[string]*serix.API{}
	for w, lp := range map[string]serix.LengthPrefixType{"u8": serix.LengthPrefixTypeAsByte, "u16": serix.LengthPrefixTypeAsUint16, "u32": serix.LengthPrefixTypeAsUint32} {
		api := serix.NewAPI()
		ts := serix.TypeSettings{}.WithLengthPrefixType(lp)
		for _, t := range zTargets {
			v := t.fresh()
			switch x := v.(type) {
			case *map[struct{}]struct{}:
				must(api.RegisterTypeSettings(*x, ts))
			case *map[[0]byte]struct{}:
				must(api.RegisterTypeSettings(*x, ts))
			case *map[[0]byte]uint8:
				must(api.RegisterTypeSettings(*x, ts))
			case *map[uint8]struct{}:
				must(api.RegisterTypeSettings(*x, ts))
			case *map[ZC]ZC:
				must(api.RegisterTypeSettings(*x, ts))
			case *map[ZC]uint16:
				must(api.RegisterTypeSettings(*x, ts))
			case *map[uint8]ZC:
				must(api.RegisterTypeSettings(*x, ts))
			case *[]struct{}:
				must(api.RegisterTypeSettings(*x, ts))
			case *[][0]byte:
				must(api.RegisterTypeSettings(*x, ts))
			case *[]ZC:
				must(api.RegisterTypeSettings(*x, ts))
			default:
				panic("unregistered zero-width target")
			}
		}
		out[w] = api
	}

	return out
}()

// rawZ executes "x Z:KIND:WIDTH V HEX".
func rawZ(kind, width string, validate bool, data []byte) string {
	var opts []serix.Option
	if validate {
		opts = append(opts, serix.WithValidation())
	}
	n, err := zAPIs[width].Decode(context.Background(), data, zTargetOf(kind).fresh(), opts...)
	if err != nil {
		return "err"
	}

	return fmt.Sprintf("ok %d", n)
}

// genZ yields the requests for one zero-width target and one prefix width: the honest encodings and every
// hostile count the width can express.
func genZ(rng *hx.Rng, t zTarget, width string) []string {
	w := map[string]int{"u8": 1, "u16": 2, "u32": 4}[width]
	counts := []uint64{0, 1, 2, 3, 0x7f, 0xff}
	if w >= 2 {
		counts = append(counts, 0x100, 0x7fff, 0xffff)
	}
	if w >= 4 && !t.seq {
		counts = append(counts, 0x10000, 1<<24, 1<<28, 1<<31-1, 1<<31, 1<<32-1)
	}
	var out []string
	if w >= 4 && t.seq {
		// 4-6 input bytes, 2^16 and 2^20 rounds: proportional to the count field, cheap enough for every run
		for _, c := range []uint64{1 << 16, 1 << 20} {
			for _, tail := range [][]byte{nil, {1, 2}} {
				data := make([]byte, w)
				putLE(data, 0, w, c)
				out = append(out, fmt.Sprintf("x Z:%s:%s %d %s", t.kind, width, rng.Intn(2), hx.Hex(append(data, tail...))))
			}
		}
	}
	for _, c := range counts {
		for _, tail := range [][]byte{nil, {0}, {1, 2, 3}, rbytes(rng, 4, 9)} {
			data := make([]byte, w)
			putLE(data, 0, w, c)
			data = append(data, tail...)
			out = append(out, fmt.Sprintf("x Z:%s:%s %d %s", t.kind, width, rng.Intn(2), hx.Hex(data)))
		}
	}

	return out
}
