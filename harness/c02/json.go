package main

// JSON / map-form decoding: a catalogue of target types (with the schema descriptor the Lean model
// Hive/Model/JsonDec.lean decodes against), documents as token trees, and type-wise mutation
// (every node replaced by values of every JSON kind).

import (
	"context"
	"encoding/hex"
	"encoding/json"
	"errors"
	"math/big"
	"reflect"
	"sort"
	"strconv"
	"strings"
	"time"

	"verifharness/hx"

	"github.com/iotaledger/hive.go/serializer/v2/serix"
)

// ---- catalogue ------------------------------------------------------------------------------

type J1 struct {
	B   bool    `serix:"b"`
	S   string  `serix:"s,lenPrefix=uint8,minLen=1,maxLen=8"`
	U8  uint8   `serix:"u8"`
	I32 int32   `serix:"i32"`
	U64 uint64  `serix:"u64"`
	I64 int64   `serix:"i64"`
	F32 float32 `serix:"f32"`
	F64 float64 `serix:"f64"`
}

type J2 struct {
	Big   *big.Int   `serix:"big"`
	T     time.Time  `serix:"t"`
	PT    *time.Time `serix:"pt,optional"`
	Bytes []byte     `serix:"bytes,lenPrefix=uint16,minLen=1,maxLen=4"`
	Arr   [4]byte    `serix:"arr"`
}

type JSmall struct {
	A uint16 `serix:"a"`
	N string `serix:"n,lenPrefix=uint8"`
}

type J3 struct {
	Nums  []uint16  `serix:"nums,lenPrefix=uint8,minLen=1,maxLen=3"`
	Inner []JSmall  `serix:"inner,lenPrefix=uint8"`
	Fix   [3]uint16 `serix:"fix"`
	Strs  []string  `serix:"strs,lenPrefix=uint8,omitempty"`
}

type J4 struct {
	M  map[string]uint8  `serix:"m,lenPrefix=uint8,maxLen=2"`
	MU map[uint64]string `serix:"mu,lenPrefix=uint8"`
	MA map[[2]byte]bool  `serix:"ma,lenPrefix=uint8"`
}

type Emb struct {
	E uint8 `serix:"e"`
}

type Inl struct {
	X uint16 `serix:"x"`
}

type EmbP struct {
	Q uint8 `serix:"q"`
}

type J5 struct {
	Emb   `serix:""`
	*EmbP `serix:""`
	In    Inl     `serix:",inlined"`
	Opt   *JSmall `serix:"opt,optional"`
	Sl    []byte  `serix:"sl,omitempty,lenPrefix=uint8"`
}

type Shape interface{ isShape() }

type Circle struct {
	R uint8 `serix:"r"`
}

type Square struct {
	S string `serix:"s,lenPrefix=uint8"`
}

func (Circle) isShape() {}
func (Square) isShape() {}

type J6 struct {
	Sh  Shape   `serix:"sh"`
	Shs []Shape `serix:"shs,lenPrefix=uint8"`
	OSh Shape   `serix:"osh,optional"`
}

type ID4 [4]byte

type J7 struct {
	P *ID4 `serix:"p"`
}

type Unreg interface{ unreg() }

type J8 struct {
	PU *uint8    `serix:"pu,optional"`
	An Unreg     `serix:"an,optional"`
	C  complex64 `serix:"c,omitempty"`
}

// typed byte types held BY VALUE: a byte array type and byte slice types registered with an object code are written
// (and read back) as the object {"type": code, <key>: "0x.."}; a named byte slice type without settings as a bare hex string
type Blob []byte

type Tag []byte

type Plain []byte

type J9 struct {
	V  ID4    `serix:"v"`
	BL Blob   `serix:"bl,lenPrefix=uint8"`
	TG Tag    `serix:"tg,lenPrefix=uint8,omitempty"`
	PL Plain  `serix:"pl,lenPrefix=uint8,minLen=1,maxLen=3"`
	VS []ID4  `serix:"vs,lenPrefix=uint8"`
	BS []Blob `serix:"bs,lenPrefix=uint8,omitempty"`
}

// types that decode themselves (serix.DeserializableJSON): CJ through a pointer receiver from a string (a registered
// syntactic validator refuses "bad"), CV through a value receiver from a number
type CJ struct{ S string }

func (c *CJ) DecodeJSON(v any) error {
	s, ok := v.(string)
	if !ok {
		return errors.New("CJ wants a string")
	}
	c.S = s

	return nil
}

func (c CJ) EncodeJSON() (any, error) { return c.S, nil }

type CV uint8

func (c CV) DecodeJSON(v any) error {
	if _, ok := v.(float64); !ok {
		return errors.New("CV wants a number")
	}

	return nil
}

func (c CV) EncodeJSON() (any, error) { return float64(c), nil }

type J10 struct {
	A  CJ            `serix:"a"`
	P  *CJ           `serix:"p"`
	O  *CJ           `serix:"o,optional"`
	L  []CJ          `serix:"l,lenPrefix=uint8"`
	LP []*CJ         `serix:"lp,lenPrefix=uint8,omitempty"`
	M  map[string]CJ `serix:"m,lenPrefix=uint8,omitempty"`
	V  CV            `serix:"v"`
}

// NAMED types of every scalar kind, a named slice, array and map type: the decoder must convert, not assume the basic type
type (
	NStr  string
	NBool bool
	NU8   uint8
	NI32  int32
	NU64  uint64
	NI64  int64
	NF32  float32
	NF64  float64
	NSl   []uint16
	NArr  [2]uint16
	NMap  map[NStr]NU8
)

type J11 struct {
	S  NStr   `serix:"s,lenPrefix=uint8,minLen=1,maxLen=8"`
	B  NBool  `serix:"b"`
	U  NU8    `serix:"u"`
	I  NI32   `serix:"i"`
	UL NU64   `serix:"ul"`
	IL NI64   `serix:"il"`
	F  NF32   `serix:"f"`
	D  NF64   `serix:"d"`
	L  NSl    `serix:"l,lenPrefix=uint8,maxLen=3"`
	A  NArr   `serix:"a"`
	M  NMap   `serix:"m,lenPrefix=uint8,omitempty"`
	PS *NStr  `serix:"ps,optional"`
	LS []NStr `serix:"ls,lenPrefix=uint8,omitempty"`
}

func key(s string) string { return "\"" + hex.EncodeToString([]byte(s)) }

func fld(k, flag, ty string) string { return key(k) + " " + flag + " " + ty }

func st(code string, fields ...string) string {
	return "st " + code + " [ " + strings.Join(fields, " ") + " ]"
}

var (
	sJ1     = st("-", fld("b", "r", "bool"), fld("s", "r", "str 1 8"), fld("u8", "r", "f64"), fld("i32", "r", "f64"), fld("u64", "r", "u64"), fld("i64", "r", "i64"), fld("f32", "r", "flt 32"), fld("f64", "r", "flt 64"))
	sJ2     = st("-", fld("big", "r", "big"), fld("t", "r", "time"), fld("pt", "o", "time"), fld("bytes", "r", "hex 1 4"), fld("arr", "r", "harr"))
	sJSmall = st("-", fld("a", "r", "f64"), fld("n", "r", "str 0 0"))
	sJ3     = st("-", fld("nums", "r", "sl 1 3 f64"), fld("inner", "r", "sl 0 0 "+sJSmall), fld("fix", "r", "arr 3 f64"), fld("strs", "o", "sl 0 0 str 0 0"))
	sJ4     = st("-", fld("m", "r", "map 0 2 str 0 0 f64"), fld("mu", "r", "map 0 0 u64 str 0 0"), fld("ma", "r", "map 0 0 harr bool"))
	sJ5     = st("5", "\" e "+st("-", fld("e", "r", "f64")), "\" e "+st("-", fld("q", "r", "f64")), "\" i "+st("-", fld("x", "r", "f64")), fld("opt", "o", sJSmall), fld("sl", "o", "hex 0 0"))
	sCircle = st("1", fld("r", "r", "f64"))
	sSquare = st("2", fld("s", "r", "str 0 0"))
	sShape  = "if [ ( 1 " + sCircle + " ) ( 2 " + sSquare + " ) ]"
	sJ6     = st("-", fld("sh", "r", sShape), fld("shs", "r", "sl 0 0 "+sShape), fld("osh", "o", sShape))
	sJ7     = st("-", fld("p", "r", "pharr "+key("id")))
	sJ8     = st("-", fld("pu", "o", "uns"), fld("an", "o", "ifu"), fld("c", "o", "uns"))
	sJ11    = st("-", fld("s", "r", "str 1 8"), fld("b", "r", "bool"), fld("u", "r", "f64"), fld("i", "r", "f64"), fld("ul", "r", "u64"), fld("il", "r", "i64"), fld("f", "r", "flt 32"), fld("d", "r", "flt 64"),
		fld("l", "r", "sl 0 3 f64"), fld("a", "r", "arr 2 f64"), fld("m", "o", "map 0 0 str 0 0 f64"), fld("ps", "o", "uns"), fld("ls", "o", "sl 0 0 str 0 0"))
	sJ10 = st("-", fld("a", "r", "cstr"), fld("p", "r", "cstr"), fld("o", "o", "cstr"), fld("l", "r", "sl 0 0 cstr"), fld("lp", "o", "sl 0 0 cstr"), fld("m", "o", "map 0 0 str 0 0 cstr"), fld("v", "r", "cnum"))
	sJ9  = st("-", fld("v", "r", "pharr "+key("v")), fld("bl", "r", "ohex "+key("bl")+" 1 3"), fld("tg", "o", "ohex "+key("tg")+" 0 0"), fld("pl", "r", "hex 1 3"),
		fld("vs", "r", "sl 0 0 pharr "+key("id")), fld("bs", "o", "sl 0 0 ohex "+key("data")+" 1 3"))
)

type jtarget struct {
	name   string
	schema string
	fresh  func() any
	seeds  func(rng *hx.Rng) any // a value for JSONEncode, or a hand-written tree (map[string]any)
}

var jsonAPI = func() *serix.API {
	api := serix.NewAPI()
	must(api.RegisterTypeSettings(J5{}, serix.TypeSettings{}.WithObjectType(uint8(5))))
	must(api.RegisterTypeSettings(Circle{}, serix.TypeSettings{}.WithObjectType(uint8(1))))
	must(api.RegisterTypeSettings(Square{}, serix.TypeSettings{}.WithObjectType(uint8(2))))
	must(api.RegisterInterfaceObjects((*Shape)(nil), Circle{}, Square{}))
	must(api.RegisterTypeSettings(ID4{}, serix.TypeSettings{}.WithObjectType(uint8(9)).WithFieldKey("id")))
	must(api.RegisterValidator(CJ{}, func(_ context.Context, c CJ) error {
		if c.S == "bad" {
			return errors.New("bad CJ")
		}

		return nil
	}))
	must(api.RegisterTypeSettings(Blob{}, serix.TypeSettings{}.WithObjectType(uint8(11)).WithLengthPrefixType(serix.LengthPrefixTypeAsByte).WithMinLen(1).WithMaxLen(3)))
	must(api.RegisterTypeSettings(Tag{}, serix.TypeSettings{}.WithObjectType(uint32(70000)).WithFieldKey("tag").WithLengthPrefixType(serix.LengthPrefixTypeAsByte)))

	return api
}()

func must(err error) {
	if err != nil {
		panic(err)
	}
}

func rstr(rng *hx.Rng, lo, hi int) string {
	n := rng.Range(lo, hi)
	b := make([]byte, n)
	for i := range b {
		b[i] = "abcxyz019 _-"[rng.Intn(12)]
	}

	return string(b)
}

func rbytes(rng *hx.Rng, lo, hi int) []byte {
	b := make([]byte, rng.Range(lo, hi))
	for i := range b {
		b[i] = byte(rng.U64())
	}

	return b
}

func rshape(rng *hx.Rng) Shape {
	if rng.Bool() {
		return Circle{R: uint8(rng.U64())}
	}

	return Square{S: rstr(rng, 0, 4)}
}

var jtargets = []jtarget{
	{"J1", sJ1, func() any { return &J1{} }, func(rng *hx.Rng) any {
		return &J1{B: rng.Bool(), S: rstr(rng, 1, 8), U8: uint8(rng.U64()), I32: int32(rng.U64()), U64: rng.U64() >> uint(rng.Intn(64)), I64: int64(rng.U64()) >> uint(rng.Intn(64)),
			F32: float32(rng.Intn(2000)-1000) / 8, F64: float64(rng.Intn(200000)-100000) / 64}
	}},
	{"J2", sJ2, func() any { return &J2{} }, func(rng *hx.Rng) any {
		v := &J2{Big: new(big.Int).SetBytes(rbytes(rng, 0, 32)), T: time.Unix(0, int64(rng.U64()>>2)).UTC(), Bytes: rbytes(rng, 1, 4)}
		copy(v.Arr[:], rbytes(rng, 4, 4))
		if rng.Bool() {
			t := time.Unix(0, int64(rng.U64()>>2)).UTC()
			v.PT = &t
		}

		return v
	}},
	{"J3", sJ3, func() any { return &J3{} }, func(rng *hx.Rng) any {
		v := &J3{Nums: make([]uint16, rng.Range(1, 3)), Inner: make([]JSmall, rng.Range(0, 2)), Strs: make([]string, rng.Range(0, 2))}
		for i := range v.Nums {
			v.Nums[i] = uint16(rng.U64())
		}
		for i := range v.Inner {
			v.Inner[i] = JSmall{A: uint16(rng.U64()), N: rstr(rng, 0, 3)}
		}
		for i := range v.Strs {
			v.Strs[i] = rstr(rng, 0, 3)
		}
		for i := range v.Fix {
			v.Fix[i] = uint16(rng.U64())
		}

		return v
	}},
	{"J4", sJ4, func() any { return &J4{} }, func(rng *hx.Rng) any {
		v := &J4{M: map[string]uint8{}, MU: map[uint64]string{}, MA: map[[2]byte]bool{}}
		for i := rng.Range(0, 2); i > 0; i-- {
			v.M[rstr(rng, 0, 3)] = uint8(rng.U64())
		}
		for i := rng.Range(0, 2); i > 0; i-- {
			v.MU[rng.U64()>>uint(rng.Intn(64))] = rstr(rng, 0, 3)
		}
		for i := rng.Range(0, 2); i > 0; i-- {
			v.MA[[2]byte{byte(rng.U64()), byte(rng.U64())}] = rng.Bool()
		}

		return v
	}},
	{"J5", sJ5, func() any { return &J5{} }, func(rng *hx.Rng) any {
		v := &J5{Emb: Emb{E: uint8(rng.U64())}, EmbP: &EmbP{Q: uint8(rng.U64())}, In: Inl{X: uint16(rng.U64())}, Sl: rbytes(rng, 0, 3)}
		if rng.Bool() {
			v.Opt = &JSmall{A: uint16(rng.U64()), N: rstr(rng, 0, 3)}
		}

		return v
	}},
	{"J6", sJ6, func() any { return &J6{} }, func(rng *hx.Rng) any {
		v := &J6{Sh: rshape(rng)}
		for i := rng.Range(0, 2); i > 0; i-- {
			v.Shs = append(v.Shs, rshape(rng))
		}
		if v.Shs == nil {
			v.Shs = []Shape{}
		}
		if rng.Bool() {
			v.OSh = rshape(rng)
		}

		return v
	}},
	{"J7", sJ7, func() any { return &J7{} }, func(rng *hx.Rng) any {
		id := ID4{}
		copy(id[:], rbytes(rng, 4, 4))

		return &J7{P: &id}
	}},
	{"J8", sJ8, func() any { return &J8{} }, func(rng *hx.Rng) any {
		return map[string]any{}
	}},
	{"J11", sJ11, func() any { return &J11{} }, func(rng *hx.Rng) any {
		v := &J11{S: NStr(rstr(rng, 1, 8)), B: NBool(rng.Bool()), U: NU8(rng.U64()), I: NI32(rng.U64()), UL: NU64(rng.U64() >> uint(rng.Intn(64))), IL: NI64(int64(rng.U64()) >> uint(rng.Intn(64))),
			F: NF32(rng.Intn(2000)-1000) / 8, D: NF64(rng.Intn(200000)-100000) / 64, L: NSl{}, A: NArr{uint16(rng.U64()), uint16(rng.U64())}}
		for i := rng.Range(0, 3); i > 0; i-- {
			v.L = append(v.L, uint16(rng.U64()))
		}
		if rng.Bool() {
			v.M = NMap{NStr(rstr(rng, 0, 3)): NU8(rng.U64())}
		}
		for i := rng.Range(0, 2); i > 0; i-- {
			v.LS = append(v.LS, NStr(rstr(rng, 0, 3)))
		}

		return v
	}},
	{"J10", sJ10, func() any { return &J10{} }, func(rng *hx.Rng) any {
		v := &J10{A: CJ{rstr(rng, 0, 4)}, P: &CJ{rstr(rng, 0, 4)}, L: []CJ{}, V: CV(rng.U64())}
		if rng.Bool() {
			v.O = &CJ{rstr(rng, 1, 3)}
		}
		for i := rng.Range(0, 2); i > 0; i-- {
			v.L = append(v.L, CJ{rstr(rng, 0, 3)})
		}
		for i := rng.Range(0, 2); i > 0; i-- {
			v.LP = append(v.LP, &CJ{rstr(rng, 0, 3)})
		}
		if rng.Bool() {
			v.M = map[string]CJ{rstr(rng, 0, 3): {rstr(rng, 0, 3)}}
		}

		return v
	}},
	{"J9", sJ9, func() any { return &J9{} }, func(rng *hx.Rng) any {
		v := &J9{BL: Blob(rbytes(rng, 1, 3)), PL: Plain(rbytes(rng, 1, 3)), VS: []ID4{}}
		copy(v.V[:], rbytes(rng, 4, 4))
		if rng.Bool() {
			v.TG = Tag(rbytes(rng, 1, 5))
		}
		for i := rng.Range(0, 2); i > 0; i-- {
			id := ID4{}
			copy(id[:], rbytes(rng, 4, 4))
			v.VS = append(v.VS, id)
		}
		for i := rng.Range(0, 2); i > 0; i-- {
			v.BS = append(v.BS, Blob(rbytes(rng, 1, 3)))
		}

		return v
	}},
}

func jtargetByName(n string) *jtarget {
	for i := range jtargets {
		if jtargets[i].name == n {
			return &jtargets[i]
		}
	}
	panic("unknown json target " + n)
}

// ---- documents as token trees ----------------------------------------------------------------

func showNum(f float64) string { return "#" + strconv.FormatFloat(f, 'f', -1, 64) }

func showTree(v any) []string {
	switch x := v.(type) {
	case nil:
		return []string{"N"}
	case bool:
		if x {
			return []string{"T"}
		}

		return []string{"F"}
	case float64:
		return []string{showNum(x)}
	case string:
		return []string{"\"" + hex.EncodeToString([]byte(x))}
	case []any:
		out := []string{"["}
		for _, e := range x {
			out = append(out, showTree(e)...)
		}

		return append(out, "]")
	case map[string]any:
		keys := make([]string, 0, len(x))
		for k := range x {
			keys = append(keys, k)
		}
		sort.Strings(keys)
		out := []string{"{"}
		for _, k := range keys {
			out = append(out, "\""+hex.EncodeToString([]byte(k)))
			out = append(out, showTree(x[k])...)
		}

		return append(out, "}")
	}
	panic("unsupported tree node " + reflect.TypeOf(v).String())
}

func parseTree(toks []string) (any, []string) {
	t := toks[0]
	switch {
	case t == "N":
		return nil, toks[1:]
	case t == "T":
		return true, toks[1:]
	case t == "F":
		return false, toks[1:]
	case t[0] == '#':
		f, err := strconv.ParseFloat(t[1:], 64)
		if err != nil {
			panic("bad number token " + t)
		}

		return f, toks[1:]
	case t[0] == '"':
		b, err := hex.DecodeString(t[1:])
		if err != nil {
			panic("bad string token " + t)
		}

		return string(b), toks[1:]
	case t == "[":
		out := []any{}
		toks = toks[1:]
		for toks[0] != "]" {
			var e any
			e, toks = parseTree(toks)
			out = append(out, e)
		}

		return out, toks[1:]
	case t == "{":
		out := map[string]any{}
		toks = toks[1:]
		for toks[0] != "}" {
			kb, err := hex.DecodeString(toks[0][1:])
			if err != nil {
				panic("bad key token " + toks[0])
			}
			var e any
			e, toks = parseTree(toks[1:])
			out[string(kb)] = e
		}

		return out, toks[1:]
	}
	panic("bad document token " + t)
}

// the replacement pool: values of every JSON kind (and strings of every syntax class the decoders parse)
func pool() []any {
	return []any{
		nil, true, false, float64(7), 3.5, float64(-1), float64(1), float64(2), float64(300), float64(70000),
		"", "abc", "bad", "12", "-5", "+5", "1.5", "0x0102", "0x1", "0x", "0xzz", "0x00", "0X0A", "18446744073709551615", "18446744073709551616",
		"9223372036854775807", "9223372036854775808", "-9223372036854775808", "-9223372036854775809", "1e3", "3.5e38", "1e400", "inf", "-Infinity", "NaN", "1_0", "_1", "1_", "1__0", "1_.5", "1e1_0", ".5", "5.", "e5", "1e", "1.5e-3", "--1", "é",
		"0x" + strings.Repeat("ab", 32), "0x1" + strings.Repeat("ab", 32), "a very long string, longer than eight",
		[]any{}, []any{float64(1)}, []any{"x"}, []any{float64(1), float64(2), float64(3)}, []any{map[string]any{}}, []any{float64(1), float64(2), float64(3), float64(4)},
		map[string]any{}, map[string]any{"type": float64(1)}, map[string]any{"type": "x"}, map[string]any{"type": float64(2), "s": "q"},
		map[string]any{"data": "0x01"}, map[string]any{"id": "0x01020304"}, map[string]any{"id": float64(4)}, map[string]any{"a": float64(1), "n": "x"},
		map[string]any{"type": float64(1), "r": float64(3)}, map[string]any{"12": "v"}, map[string]any{"0x0102": true}, map[string]any{"k": float64(1), "l": float64(2), "m": float64(3)},
	}
}

// paths enumerates the nodes of a tree (as paths of map keys / slice indices).
func paths(v any, cur []any, out *[][]any) {
	*out = append(*out, append([]any(nil), cur...))
	switch x := v.(type) {
	case []any:
		for i, e := range x {
			paths(e, append(cur, i), out)
		}
	case map[string]any:
		keys := make([]string, 0, len(x))
		for k := range x {
			keys = append(keys, k)
		}
		sort.Strings(keys)
		for _, k := range keys {
			paths(x[k], append(cur, k), out)
		}
	}
}

func clone(v any) any {
	switch x := v.(type) {
	case []any:
		out := make([]any, len(x))
		for i, e := range x {
			out[i] = clone(e)
		}

		return out
	case map[string]any:
		out := make(map[string]any, len(x))
		for k, e := range x {
			out[k] = clone(e)
		}

		return out
	}

	return v
}

// replaceAt returns a copy of the tree with the node at path replaced (del: the map entry / slice element removed).
func replaceAt(v any, path []any, repl any, del bool) any {
	if len(path) == 0 {
		return clone(repl)
	}
	switch x := v.(type) {
	case []any:
		i, _ := path[0].(int)
		out := make([]any, 0, len(x))
		for j, e := range x {
			if j == i {
				if len(path) == 1 && del {
					continue
				}
				out = append(out, replaceAt(e, path[1:], repl, del))
			} else {
				out = append(out, clone(e))
			}
		}

		return out
	case map[string]any:
		k, _ := path[0].(string)
		out := make(map[string]any, len(x))
		for kk, e := range x {
			if kk == k {
				if len(path) == 1 && del {
					continue
				}
				out[kk] = replaceAt(e, path[1:], repl, del)
			} else {
				out[kk] = clone(e)
			}
		}

		return out
	}

	return clone(v)
}

// seedTree produces a valid document of the target through the repository's own JSONEncode.
func seedTree(t *jtarget, rng *hx.Rng) map[string]any {
	v := t.seeds(rng)
	if m, ok := v.(map[string]any); ok {
		return m
	}
	b, err := jsonAPI.JSONEncode(context.Background(), v)
	if err != nil {
		panic("JSONEncode of a catalogue value failed: " + err.Error())
	}
	m := map[string]any{}
	if err := json.Unmarshal(b, &m); err != nil {
		panic(err)
	}

	return m
}

// execJRaw runs both decoders without recovering (used to locate a panic).
func execJRaw(f []string) {
	t := jtargetByName(f[1])
	bar := -1
	for i, x := range f {
		if x == "|" {
			bar = i
		}
	}
	tree, _ := parseTree(f[bar+1:])
	m, _ := tree.(map[string]any)
	var opts []serix.Option
	if f[2] == "1" {
		opts = append(opts, serix.WithValidation())
	}
	_ = jsonAPI.MapDecode(context.Background(), clone(m).(map[string]any), t.fresh(), opts...)
}

// execJ executes "j TARGET V schema... | doc...": MapDecode of the tree and JSONDecode of its JSON text.
func execJ(f []string) string {
	t := jtargetByName(f[1])
	validate := f[2] == "1"
	bar := -1
	for i, x := range f {
		if x == "|" {
			bar = i
		}
	}
	tree, _ := parseTree(f[bar+1:])
	m, ok := tree.(map[string]any)
	if !ok {
		panic("top-level document must be an object")
	}
	var opts []serix.Option
	if validate {
		opts = append(opts, serix.WithValidation())
	}
	class := func(run func() error) string {
		var err error
		if p := hx.Safely(func() { err = run() }); p != "" {
			return "panic"
		}
		if err != nil {
			return "err"
		}

		return "ok"
	}
	a := class(func() error {
		return jsonAPI.MapDecode(context.Background(), clone(m).(map[string]any), t.fresh(), opts...)
	})
	text, err := json.Marshal(m)
	if err != nil {
		panic(err)
	}
	b := class(func() error { return jsonAPI.JSONDecode(context.Background(), text, t.fresh(), opts...) })
	if a != b {
		return "map=" + a + "/json=" + b
	}

	return a
}
