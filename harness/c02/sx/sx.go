// Package sx interprets the stream op lines of C02 (hostile reads) and C01c (write -> read round trips)
// over the real serializer/stream package.  The reader is a ChunkReader: data plus a list of chunk
// sizes, every Read returns at most the next chunk (exactly the reader of Hive/Model/Stream.lean).
package sx

import (
	"encoding/binary"
	"errors"
	"fmt"
	"io"
	"strconv"
	"strings"

	"verifharness/hx"

	"github.com/iotaledger/hive.go/serializer/v2"
	"github.com/iotaledger/hive.go/serializer/v2/stream"
	"github.com/iotaledger/hive.go/serializer/v2/typeutils"
)

// ChunkReader is an io.ReadSeeker that splits its reads: the k-th Read call that finds data returns at
// most chunks[k] bytes (0 is allowed: "0, nil"); once the list is used up reads are unlimited.
type ChunkReader struct {
	Data   []byte
	Pos    int
	Chunks []int
	Reads  int
	// EOFWithData: the Read that delivers the last byte returns io.EOF together with it (the io.Reader contract allows both).
	EOFWithData bool
	// Broken / FailAt: once FailAt bytes were delivered every Read fails with an error that is not io.EOF.
	Broken bool
	FailAt int
}

var errBroken = errors.New("reader broke")

func (c *ChunkReader) Read(p []byte) (int, error) {
	c.Reads++
	if len(p) == 0 {
		return 0, nil
	}
	if c.Pos >= len(c.Data) {
		return 0, io.EOF
	}
	if c.Broken && c.Pos >= c.FailAt {
		return 0, errBroken
	}
	n := len(p)
	if len(c.Chunks) > 0 {
		if c.Chunks[0] < n {
			n = c.Chunks[0]
		}
		c.Chunks = c.Chunks[1:]
	}
	if rem := len(c.Data) - c.Pos; rem < n {
		n = rem
	}
	if c.Broken && c.FailAt-c.Pos < n {
		n = c.FailAt - c.Pos
	}
	copy(p, c.Data[c.Pos:c.Pos+n])
	c.Pos += n
	if c.EOFWithData && c.Pos == len(c.Data) {
		return n, io.EOF
	}

	return n, nil
}

// NewReader builds the reader of a request from its reader token "CHUNKS[!][@K]".
func NewReader(tok string, data []byte) *ChunkReader {
	rd := &ChunkReader{Data: data}
	if i := strings.Index(tok, "@"); i >= 0 {
		k, err := strconv.Atoi(tok[i+1:])
		if err != nil {
			panic("bad reader token " + tok)
		}
		rd.Broken, rd.FailAt = true, k
		tok = tok[:i]
	}
	if strings.HasSuffix(tok, "!") {
		rd.EOFWithData = true
		tok = tok[:len(tok)-1]
	}
	rd.Chunks = ParseChunks(tok)

	return rd
}

func (c *ChunkReader) Seek(offset int64, whence int) (int64, error) {
	var np int64
	switch whence {
	case io.SeekStart:
		np = offset
	case io.SeekCurrent:
		np = int64(c.Pos) + offset
	case io.SeekEnd:
		np = int64(len(c.Data)) + offset
	}
	if np < 0 {
		return 0, errors.New("negative position")
	}
	c.Pos = int(np)

	return np, nil
}

// ParseChunks parses "3,1,7" / "-".
func ParseChunks(s string) []int {
	if s == "-" || s == "" {
		return nil
	}
	var out []int
	for _, f := range strings.Split(s, ",") {
		n, err := strconv.Atoi(f)
		if err != nil {
			panic("bad chunk list " + s)
		}
		out = append(out, n)
	}

	return out
}

func ShowChunks(c []int) string {
	if len(c) == 0 {
		return "-"
	}
	s := make([]string, len(c))
	for i, x := range c {
		s[i] = strconv.Itoa(x)
	}

	return strings.Join(s, ",")
}

func LP(tok string) serializer.SeriLengthPrefixType {
	switch tok {
	case "u8":
		return serializer.SeriLengthPrefixTypeAsByte
	case "u16":
		return serializer.SeriLengthPrefixTypeAsUint16
	case "u32":
		return serializer.SeriLengthPrefixTypeAsUint32
	case "u64":
		return serializer.SeriLengthPrefixTypeAsUint64
	}
	panic("bad length prefix token " + tok)
}

func LPWidth(tok string) int {
	switch tok {
	case "u8":
		return 1
	case "u16":
		return 2
	case "u32":
		return 4
	case "u64":
		return 8
	}
	panic("bad length prefix token " + tok)
}

// ROp is one operation of a reader program.
type ROp struct {
	K    string // num bool arr bytes bws obj ows peek coll
	N    int    // width / fixed length (may be negative for "bytes")
	LPt  string
	From string
	Item []ROp
}

// ParseR parses a reader program up to the matching ")" (or the end of the tokens).
func ParseR(toks []string) ([]ROp, []string) {
	var out []ROp
	for len(toks) > 0 {
		t := toks[0]
		switch t {
		case ")":
			return out, toks[1:]
		case "num", "arr", "bytes":
			n, err := strconv.Atoi(toks[1])
			if err != nil {
				panic("bad number in reader program")
			}
			out = append(out, ROp{K: t, N: n})
			toks = toks[2:]
		case "bool":
			out = append(out, ROp{K: t})
			toks = toks[1:]
		case "bws", "peek":
			out = append(out, ROp{K: t, LPt: toks[1]})
			toks = toks[2:]
		case "obj":
			n, err := strconv.Atoi(toks[1])
			if err != nil {
				panic("bad number in reader program")
			}
			out = append(out, ROp{K: t, N: n, From: toks[2]})
			toks = toks[3:]
		case "ows":
			out = append(out, ROp{K: t, LPt: toks[1], From: toks[2]})
			toks = toks[3:]
		case "coll":
			if toks[2] != "(" {
				panic("coll needs ( item program )")
			}
			item, rest := ParseR(toks[3:])
			out = append(out, ROp{K: t, LPt: toks[1], Item: item})
			toks = rest
		case "ofr":
			if toks[1] != "(" {
				panic("ofr needs ( program )")
			}
			item, rest := ParseR(toks[2:])
			out = append(out, ROp{K: t, Item: item})
			toks = rest
		default:
			panic("unknown reader op " + t)
		}
	}

	return out, nil
}

func ShowR(p []ROp) string {
	var s []string
	for _, o := range p {
		switch o.K {
		case "num", "arr", "bytes":
			s = append(s, o.K, strconv.Itoa(o.N))
		case "bool":
			s = append(s, o.K)
		case "bws", "peek":
			s = append(s, o.K, o.LPt)
		case "obj":
			s = append(s, o.K, strconv.Itoa(o.N), o.From)
		case "ows":
			s = append(s, o.K, o.LPt, o.From)
		case "coll":
			s = append(s, o.K, o.LPt, "(", ShowR(o.Item), ")")
		case "ofr":
			s = append(s, o.K, "(", ShowR(o.Item), ")")
		}
	}

	return strings.Join(strings.Fields(strings.Join(s, " ")), " ")
}

// RTrace is what a reader program observes.
type RTrace struct {
	Vals  []string
	Iters int
	k     int // rotates signed / unsigned destination types of Read[T]
	// every slice a helper (or a parser that keeps its input) handed out, with its content at that time: results
	// must stay what they were when later reads happen on the same reader ("retained-result-changed")
	kept []kept
}

type kept struct {
	b    []byte
	snap string
	what string
}

// Changed is set by the last RunR when a result that was handed out earlier changed under a later read
// (the independent aliasing oracle; read and reset with TakeChanged).
var changed string

func TakeChanged() string {
	c := changed
	changed = ""

	return c
}

func (tr *RTrace) keep(b []byte, what string) {
	tr.kept = append(tr.kept, kept{b: b, snap: string(b), what: what})
}

// recheck compares every retained result with its content at the time it was returned.
func (tr *RTrace) recheck(after string) {
	for i, k := range tr.kept {
		if string(k.b) != k.snap && changed == "" {
			changed = fmt.Sprintf("result #%d (%s, %d bytes) was %x when it was returned and is %x after a later %s on the same reader",
				i, k.what, len(k.b), clipB([]byte(k.snap)), clipB(k.b), after)
		}
	}
}

func clipB(b []byte) []byte {
	if len(b) > 48 {
		return b[:48]
	}

	return b
}

func fromBytes(kind string) func([]byte) ([]byte, int, error) {
	switch kind {
	case "id":
		// keeps its input slice (what any byte-slice based type does): the result aliases whatever ReadObject handed in
		return func(b []byte) ([]byte, int, error) { return b, len(b), nil }
	case "idc":
		// the copying twin
		return func(b []byte) ([]byte, int, error) { return append([]byte(nil), b...), len(b), nil }
	case "u64":
		return func(b []byte) ([]byte, int, error) {
			v, n, err := typeutils.Uint64FromBytes(b)
			if err != nil {
				return nil, 0, err
			}
			out := make([]byte, 8)
			binary.LittleEndian.PutUint64(out, v)

			return out, n, nil
		}
	case "a32":
		return func(b []byte) ([]byte, int, error) {
			v, n, err := typeutils.ByteArray32FromBytes(b)
			if err != nil {
				return nil, 0, err
			}

			return v[:], n, nil
		}
	case "half":
		return func(b []byte) ([]byte, int, error) { return b[:len(b)/2], len(b) / 2, nil }
	case "fail":
		return func(b []byte) ([]byte, int, error) { return nil, 0, errors.New("refused") }
	}
	panic("unknown fromBytes kind " + kind)
}

func le(v uint64, w int) []byte {
	b := make([]byte, 8)
	binary.LittleEndian.PutUint64(b, v)

	return b[:w]
}

// named types of every kind stream.Read is instantiated for (its constraint is a set of ~T terms)
type (
	NU8   uint8
	NU16  uint16
	NU32  uint32
	NU64  uint64
	NI8   int8
	NI16  int16
	NI32  int32
	NI64  int64
	NBool bool
	NA32  [32]byte
)

// RunR executes a reader program over the real stream package; it stops at the first error, as a
// caller of the helpers would.
func RunR(p []ROp, r io.ReadSeeker, tr *RTrace) error {
	for _, o := range p {
		if err := runR1(o, r, tr); err != nil {
			tr.recheck(o.K + " (failed)")

			return err
		}
		tr.recheck(o.K)
	}

	return nil
}

func runR1(o ROp, r io.ReadSeeker, tr *RTrace) error {
	{
		switch o.K {
		case "num":
			var v uint64
			var err error
			tr.k++
			signed := tr.k%2 == 1
			named := tr.k%4 >= 2 // every other pair through a NAMED type of the same kind (the constraint is ~uintN / ~intN)
			switch {
			case named && o.N == 1 && signed:
				var x NI8
				x, err = stream.Read[NI8](r)
				v = uint64(uint8(x))
			case named && o.N == 1:
				var x NU8
				x, err = stream.Read[NU8](r)
				v = uint64(x)
			case named && o.N == 2 && signed:
				var x NI16
				x, err = stream.Read[NI16](r)
				v = uint64(uint16(x))
			case named && o.N == 2:
				var x NU16
				x, err = stream.Read[NU16](r)
				v = uint64(x)
			case named && o.N == 4 && signed:
				var x NI32
				x, err = stream.Read[NI32](r)
				v = uint64(uint32(x))
			case named && o.N == 4:
				var x NU32
				x, err = stream.Read[NU32](r)
				v = uint64(x)
			case named && o.N == 8 && signed:
				var x NI64
				x, err = stream.Read[NI64](r)
				v = uint64(x)
			case named && o.N == 8:
				var x NU64
				x, err = stream.Read[NU64](r)
				v = uint64(x)
			case o.N == 1 && signed:
				var x int8
				x, err = stream.Read[int8](r)
				v = uint64(uint8(x))
			case o.N == 1:
				var x uint8
				x, err = stream.Read[uint8](r)
				v = uint64(x)
			case o.N == 2 && signed:
				var x int16
				x, err = stream.Read[int16](r)
				v = uint64(uint16(x))
			case o.N == 2:
				var x uint16
				x, err = stream.Read[uint16](r)
				v = uint64(x)
			case o.N == 4 && signed:
				var x int32
				x, err = stream.Read[int32](r)
				v = uint64(uint32(x))
			case o.N == 4:
				var x uint32
				x, err = stream.Read[uint32](r)
				v = uint64(x)
			case o.N == 8 && signed:
				var x int64
				x, err = stream.Read[int64](r)
				v = uint64(x)
			case o.N == 8:
				v, err = stream.Read[uint64](r)
			default:
				panic("bad num width")
			}
			if err != nil {
				return err
			}
			tr.Vals = append(tr.Vals, hx.Hex(le(v, o.N)))
		case "bool":
			tr.k++
			var b bool
			var err error
			if tr.k%2 == 0 {
				var nb NBool
				nb, err = stream.Read[NBool](r)
				b = bool(nb)
			} else {
				b, err = stream.Read[bool](r)
			}
			if err != nil {
				return err
			}
			if b {
				tr.Vals = append(tr.Vals, "01")
			} else {
				tr.Vals = append(tr.Vals, "00")
			}
		case "arr":
			switch o.N {
			case 32:
				tr.k++
				if tr.k%2 == 0 {
					a, err := stream.Read[NA32](r)
					if err != nil {
						return err
					}
					tr.Vals = append(tr.Vals, hx.Hex(a[:]))

					break
				}
				a, err := stream.Read[[32]byte](r)
				if err != nil {
					return err
				}
				tr.Vals = append(tr.Vals, hx.Hex(a[:]))
			case 36:
				a, err := stream.Read[[36]byte](r)
				if err != nil {
					return err
				}
				tr.Vals = append(tr.Vals, hx.Hex(a[:]))
			case 38:
				a, err := stream.Read[[38]byte](r)
				if err != nil {
					return err
				}
				tr.Vals = append(tr.Vals, hx.Hex(a[:]))
			default:
				panic("bad arr width")
			}
		case "bytes":
			b, err := stream.ReadBytes(r, o.N)
			if err != nil {
				return err
			}
			tr.keep(b, "ReadBytes")
			tr.Vals = append(tr.Vals, hx.Hex(b))
		case "bws":
			b, err := stream.ReadBytesWithSize(r, LP(o.LPt))
			if err != nil {
				return err
			}
			tr.keep(b, "ReadBytesWithSize")
			tr.Vals = append(tr.Vals, hx.Hex(b))
		case "obj":
			b, err := stream.ReadObject(r, o.N, fromBytes(o.From))
			if err != nil {
				return err
			}
			tr.keep(b, "ReadObject/"+o.From)
			tr.Vals = append(tr.Vals, hx.Hex(b))
		case "ows":
			b, err := stream.ReadObjectWithSize(r, LP(o.LPt), fromBytes(o.From))
			if err != nil {
				return err
			}
			tr.keep(b, "ReadObjectWithSize/"+o.From)
			tr.Vals = append(tr.Vals, hx.Hex(b))
		case "peek":
			n, err := stream.PeekSize(r, LP(o.LPt))
			if err != nil {
				return err
			}
			tr.Vals = append(tr.Vals, "#"+strconv.Itoa(n))
		case "coll":
			err := stream.ReadCollection(r, LP(o.LPt), func(int) error {
				tr.Iters++

				return RunR(o.Item, r, tr)
			})
			if err != nil {
				return err
			}
		case "ofr":
			// ReadObjectFromReader: the callback reads its object from the same reader with the helpers
			_, err := stream.ReadObjectFromReader(r, func(rs io.ReadSeeker) (struct{}, error) {
				return struct{}{}, RunR(o.Item, rs, tr)
			})
			if err != nil {
				return err
			}
		default:
			panic("unknown reader op " + o.K)
		}
	}

	return nil
}

// ExecSR executes "sr CHUNKS DATAHEX prog..." and returns the canonical answer.
func ExecSR(f []string) string { return PrepSR(f)() }

// PrepSR parses "sr CHUNKS DATAHEX prog..." and returns the call itself, so that a caller measuring
// allocations measures the readers and not the parsing of the request (a 1-byte chunk list for 64 KiB of
// data is itself a megabyte of tokens).
func PrepSR(f []string) func() string {
	rd := NewReader(f[1], hx.UnHex(f[2]))
	prog, _ := ParseR(f[3:])

	return func() string {
		out := ""
		if p := hx.Safely(func() { out = runSR(rd, prog) }); p != "" {
			return "panic"
		}

		return out
	}
}

// ExecSRRaw is ExecSR without the recover.
func ExecSRRaw(f []string) string {
	prog, _ := ParseR(f[3:])

	return runSR(NewReader(f[1], hx.UnHex(f[2])), prog)
}

func runSR(rd *ChunkReader, prog []ROp) string {
	tr := &RTrace{}
	err := RunR(prog, rd, tr)
	if err != nil {
		return fmt.Sprintf("err %d %d", rd.Pos, tr.Iters)
	}

	return fmt.Sprintf("ok %d %d %s", rd.Pos, tr.Iters, ShowVals(tr.Vals))
}

func ShowVals(v []string) string {
	if len(v) == 0 {
		return "."
	}

	return strings.Join(v, ",")
}

// ---------------------------------------------------------------------------------------------
// writer programs (C01c)

// WOp is one operation of a writer program.
type WOp struct {
	K     string // num bool arr bytes bws obj ows coll
	N     int
	LPt   string
	Data  []byte
	IKind string // coll: item kind "bws" "ows" "num" "obj"
	ILP   string
	IN    int
	Items [][]byte
}

// ParseW parses a writer program.
func ParseW(toks []string) []WOp {
	var out []WOp
	for len(toks) > 0 {
		t := toks[0]
		switch t {
		case "num", "arr":
			n, _ := strconv.Atoi(toks[1])
			out = append(out, WOp{K: t, N: n, Data: hx.UnHex(toks[2])})
			toks = toks[3:]
		case "bool", "bytes", "obj":
			out = append(out, WOp{K: t, Data: hx.UnHex(toks[1])})
			toks = toks[2:]
		case "bws", "ows":
			out = append(out, WOp{K: t, LPt: toks[1], Data: hx.UnHex(toks[2])})
			toks = toks[3:]
		case "coll":
			o := WOp{K: t, LPt: toks[1], IKind: toks[2]}
			toks = toks[3:]
			switch o.IKind {
			case "bws", "ows":
				o.ILP = toks[0]
				toks = toks[1:]
			case "num", "obj":
				o.IN, _ = strconv.Atoi(toks[0])
				toks = toks[1:]
			default:
				panic("bad collection item kind " + o.IKind)
			}
			if toks[0] != "(" {
				panic("coll needs ( items )")
			}
			toks = toks[1:]
			for toks[0] != ")" {
				o.Items = append(o.Items, hx.UnHex(toks[0]))
				toks = toks[1:]
			}
			toks = toks[1:]
			out = append(out, o)
		default:
			panic("unknown writer op " + t)
		}
	}

	return out
}

func leVal(b []byte) uint64 {
	x := make([]byte, 8)
	copy(x, b)

	return binary.LittleEndian.Uint64(x)
}

func writeNum(w io.Writer, width int, b []byte) error {
	v := leVal(b)
	switch width {
	case 1:
		return stream.Write(w, uint8(v))
	case 2:
		return stream.Write(w, uint16(v))
	case 4:
		return stream.Write(w, uint32(v))
	case 8:
		return stream.Write(w, v)
	}
	panic("bad num width")
}

func idBytes(b []byte) ([]byte, error) { return b, nil }

// RunW executes a writer program over the real stream package into a ByteBuffer.
func RunW(p []WOp, w *stream.ByteBuffer) error {
	for _, o := range p {
		var err error
		switch o.K {
		case "num":
			err = writeNum(w, o.N, o.Data)
		case "bool":
			err = stream.Write(w, len(o.Data) > 0 && o.Data[0] != 0)
		case "arr":
			switch o.N {
			case 32:
				var a [32]byte
				copy(a[:], o.Data)
				err = stream.Write(w, a)
			case 36:
				var a [36]byte
				copy(a[:], o.Data)
				err = stream.Write(w, a)
			case 38:
				var a [38]byte
				copy(a[:], o.Data)
				err = stream.Write(w, a)
			default:
				panic("bad arr width")
			}
		case "bytes":
			err = stream.WriteBytes(w, o.Data)
		case "bws":
			err = stream.WriteBytesWithSize(w, o.Data, LP(o.LPt))
		case "obj":
			err = stream.WriteObject(w, o.Data, idBytes)
		case "ows":
			err = stream.WriteObjectWithSize(w, o.Data, LP(o.LPt), idBytes)
		case "coll":
			err = stream.WriteCollection(w, LP(o.LPt), func() (int, error) {
				for _, it := range o.Items {
					var e error
					switch o.IKind {
					case "bws":
						e = stream.WriteBytesWithSize(w, it, LP(o.ILP))
					case "ows":
						e = stream.WriteObjectWithSize(w, it, LP(o.ILP), idBytes)
					case "num":
						e = writeNum(w, o.IN, it)
					case "obj":
						e = stream.WriteObject(w, it, idBytes)
					}
					if e != nil {
						return 0, e
					}
				}

				return len(o.Items), nil
			})
		}
		if err != nil {
			return err
		}
	}

	return nil
}

// ReadOf maps a writer program to the reader program that reads it back, and the values expected.
func ReadOf(p []WOp) ([]ROp, []string) {
	var r []ROp
	var vals []string
	for _, o := range p {
		switch o.K {
		case "num":
			r = append(r, ROp{K: "num", N: o.N})
			vals = append(vals, hx.Hex(le(leVal(o.Data), o.N)))
		case "bool":
			r = append(r, ROp{K: "bool"})
			if len(o.Data) > 0 && o.Data[0] != 0 {
				vals = append(vals, "01")
			} else {
				vals = append(vals, "00")
			}
		case "arr":
			r = append(r, ROp{K: "arr", N: o.N})
			a := make([]byte, o.N)
			copy(a, o.Data)
			vals = append(vals, hx.Hex(a))
		case "bytes", "obj":
			r = append(r, ROp{K: map[string]string{"bytes": "bytes", "obj": "obj"}[o.K], N: len(o.Data), From: "id"})
			vals = append(vals, hx.Hex(o.Data))
		case "bws":
			r = append(r, ROp{K: "bws", LPt: o.LPt})
			vals = append(vals, hx.Hex(o.Data))
		case "ows":
			r = append(r, ROp{K: "ows", LPt: o.LPt, From: "id"})
			vals = append(vals, hx.Hex(o.Data))
		case "coll":
			var item ROp
			switch o.IKind {
			case "bws":
				item = ROp{K: "bws", LPt: o.ILP}
			case "ows":
				item = ROp{K: "ows", LPt: o.ILP, From: "id"}
			case "num":
				item = ROp{K: "num", N: o.IN}
			case "obj":
				item = ROp{K: "obj", N: o.IN, From: "id"}
			}
			r = append(r, ROp{K: "coll", LPt: o.LPt, Item: []ROp{item}})
			for _, it := range o.Items {
				if o.IKind == "num" {
					vals = append(vals, hx.Hex(le(leVal(it), o.IN)))
				} else {
					vals = append(vals, hx.Hex(it))
				}
			}
		}
	}

	return r, vals
}

// ExecRT executes "rt CHUNKS TAILHEX wprog...": write with the real writers, read back through a
// chunking reader over (written ++ tail).  Answer: "ok WRITTENHEX CONSUMED VALS" | "werr" | "rerr CONSUMED" | "panic".
// want/got are returned for the independent round-trip oracle.
func ExecRT(f []string) (answer string, written []byte, want []string, got []string, consumed int) {
	tail := hx.UnHex(f[2])
	wp := ParseW(f[3:])
	buf := stream.NewByteBuffer()
	var werr error
	if p := hx.Safely(func() { werr = RunW(wp, buf) }); p != "" {
		return "panic", nil, nil, nil, 0
	}
	if werr != nil {
		return "werr", nil, nil, nil, 0
	}
	b, _ := buf.Bytes()
	written = append([]byte(nil), b...)
	rp, want := ReadOf(wp)
	rd := NewReader(f[1], append(append([]byte(nil), written...), tail...))
	tr := &RTrace{}
	var rerr error
	if p := hx.Safely(func() { rerr = RunR(rp, rd, tr) }); p != "" {
		return "panic", written, want, nil, rd.Pos
	}
	if rerr != nil {
		return fmt.Sprintf("rerr %d", rd.Pos), written, want, tr.Vals, rd.Pos
	}

	return fmt.Sprintf("ok %s %d %s", hx.Hex(written), rd.Pos, ShowVals(tr.Vals)), written, want, tr.Vals, rd.Pos
}

// RWInfo is what an in-place write/read-back observed (for the oracles of harness/c01c).
type RWInfo struct {
	Storage   []byte   // the whole buffer after phase 2
	Pos       int      // the write position after phase 2
	Off       int      // where phase 2 started (the position the seek call returned)
	OffWant   int      // where the seek had to land
	SeekMoved bool     // a refused seek changed the position
	Want      []string // the values phase 2 wrote
	Got       []string // the values read back
	Consumed  int
	Enc1      []byte // what phase 1 / phase 2 write into a fresh append-only buffer
	Enc2      []byte
	Init      int
	Ops2      int
}

func splitBar(f []string) ([]string, []string) {
	for i, t := range f {
		if t == "|" {
			return f[:i], f[i+1:]
		}
	}

	return f, nil
}

func freshEnc(p []WOp) []byte {
	b := stream.NewByteBuffer()
	if err := RunW(p, b); err != nil {
		return nil
	}
	out, _ := b.Bytes()

	return append([]byte(nil), out...)
}

// ExecRW executes "rw INIT CHUNKS phase1... | OFF | phase2...": a ByteBuffer created with INIT bytes of
// storage, phase 1 written from offset 0, Seek to OFF, phase 2 written in place (in front of / over
// whatever is there), then phase 2 is read back from OFF of the final storage through a chunking reader.
// Answer: "ok STORAGEHEX POS CONSUMED VALS" | "werr" | "rerr STORAGEHEX POS CONSUMED" | "panic".
func ExecRW(f []string) (string, *RWInfo) {
	init, err := strconv.Atoi(f[1])
	if err != nil {
		panic("bad initial length")
	}
	chunks := ParseChunks(f[2])
	t1, rest := splitBar(f[3:])
	if len(rest) < 2 || rest[1] != "|" {
		panic("rw needs phase1 | OFF | phase2")
	}
	// the seek token: "N" = stream.GoTo(N), "c+N" / "c-N" = stream.Skip(+-N), "e+N" / "e-N" = Seek(+-N, io.SeekEnd)
	tok := rest[0]
	whence, num := io.SeekStart, tok
	switch tok[0] {
	case 'c':
		whence, num = io.SeekCurrent, tok[1:]
	case 'e':
		whence, num = io.SeekEnd, tok[1:]
	}
	delta, err := strconv.Atoi(strings.TrimPrefix(num, "+"))
	if err != nil {
		panic("bad offset")
	}
	p1, p2 := ParseW(t1), ParseW(rest[2:])
	info := &RWInfo{Init: init, Ops2: len(p2), Enc1: freshEnc(p1), Enc2: freshEnc(p2)}
	// where the seek must land, by the harness's own arithmetic: phase 1 wrote Enc1 from offset 0 of INIT bytes of storage
	switch whence {
	case io.SeekStart:
		info.OffWant = delta
	case io.SeekCurrent:
		info.OffWant = len(info.Enc1) + delta
	default:
		info.OffWant = max(init, len(info.Enc1)) + delta
	}
	buf := stream.NewByteBuffer(init)
	var werr, serr error
	if p := hx.Safely(func() {
		if werr = RunW(p1, buf); werr != nil {
			return
		}
		var np int64
		switch whence {
		case io.SeekStart:
			np, serr = stream.GoTo(buf, int64(delta))
		case io.SeekCurrent:
			np, serr = stream.Skip(buf, int64(delta))
		default:
			np, serr = buf.Seek(int64(delta), io.SeekEnd)
		}
		if serr != nil {
			// a refused seek must leave the position where it was
			if cur, _ := stream.Offset(buf); int(cur) != len(info.Enc1) {
				info.SeekMoved = true
			}

			return
		}
		info.Off = int(np)
		werr = RunW(p2, buf)
	}); p != "" {
		return "panic", info
	}
	if werr != nil {
		return "werr", info
	}
	if serr != nil {
		return "serr", info
	}
	off := info.Off
	pos, _ := stream.Offset(buf)
	b, _ := buf.Bytes()
	info.Storage = append([]byte(nil), b...)
	info.Pos = int(pos)
	rp, want := ReadOf(p2)
	info.Want = want
	var from []byte
	if off <= len(info.Storage) {
		from = info.Storage[off:]
	}
	rd := &ChunkReader{Data: append([]byte(nil), from...), Chunks: chunks}
	tr := &RTrace{}
	var rerr error
	if p := hx.Safely(func() { rerr = RunR(rp, rd, tr) }); p != "" {
		return "panic", info
	}
	info.Got, info.Consumed = tr.Vals, rd.Pos
	if rerr != nil {
		return fmt.Sprintf("rerr %s %d %d %d", hx.Hex(info.Storage), off, info.Pos, rd.Pos), info
	}

	return fmt.Sprintf("ok %s %d %d %d %s", hx.Hex(info.Storage), off, info.Pos, rd.Pos, ShowVals(tr.Vals)), info
}

// Overlay is what in-place writing must amount to: the bytes e written over the storage at offset off
// (zero padding if off lies beyond the storage), everything else kept.
func Overlay(storage []byte, off int, e []byte, pad bool) []byte {
	out := append([]byte(nil), storage...)
	if !pad {
		return out
	}
	for len(out) < off {
		out = append(out, 0)
	}
	for i, x := range e {
		if off+i < len(out) {
			out[off+i] = x
		} else {
			out = append(out, x)
		}
	}

	return out
}

// ExecSK executes "sk DATAHEX sprog...": reader programs over a stream.ByteReader between stream.GoTo / Skip /
// Offset calls, with ByteReader.BytesRead observed.  Tokens: "run ( prog )", "goto N", "skip N", "off", "br".
// Answer: "ok POS VALS" | "err POS VALS" | "panic" (POS = the reader's offset at the end / at the failure).
func ExecSK(f []string) string {
	out := ""
	if p := hx.Safely(func() { out = execSK(f) }); p != "" {
		return "panic"
	}

	return out
}

// ExecSKRaw runs the request without recovering (used to locate a panic).
func ExecSKRaw(f []string) string { return execSK(f) }

func execSK(f []string) string {
	data := hx.UnHex(f[1])
	rd := stream.NewByteReader(data)
	tr := &RTrace{}
	toks := f[2:]
	fail := func() string {
		pos, _ := stream.Offset(rd)

		return fmt.Sprintf("err %d %s", pos, ShowVals(tr.Vals))
	}
	for len(toks) > 0 {
		switch toks[0] {
		case "run":
			prog, rest := ParseR(toks[2:])
			toks = rest
			if err := RunR(prog, rd, tr); err != nil {
				return fail()
			}
		case "goto", "skip":
			n, err := strconv.Atoi(toks[1])
			if err != nil {
				panic("bad seek distance")
			}
			if toks[0] == "goto" {
				_, err = stream.GoTo(rd, int64(n))
			} else {
				_, err = stream.Skip(rd, int64(n))
			}
			toks = toks[2:]
			if err != nil {
				return fail()
			}
		case "off":
			pos, err := stream.Offset(rd)
			if err != nil {
				return fail()
			}
			tr.Vals = append(tr.Vals, "#"+strconv.FormatInt(pos, 10))
			toks = toks[1:]
		case "br":
			tr.Vals = append(tr.Vals, "#"+strconv.Itoa(rd.BytesRead()))
			toks = toks[1:]
		default:
			panic("unknown seek program token " + toks[0])
		}
	}
	pos, _ := stream.Offset(rd)

	return fmt.Sprintf("ok %d %s", pos, ShowVals(tr.Vals))
}
