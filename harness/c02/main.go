// C02 correspondence harness: decoders are total and resource-bounded on arbitrary input.
//
// Every request line is one decoder call on the real code:
//
//	d HEX prog...            a chain of serializer.Deserializer primitives (deser.go)
//	sr CHUNKS HEX prog...    serializer/stream readers over a chunking reader (sx/sx.go)
//	j TARGET V schema | doc  serix MapDecode + JSONDecode of a document tree (json.go)
//	m KW VW HEX              SerializableOrderedMap[uintKW,uintVW].Decode
//	tu u64|a32 HEX           typeutils.*FromBytes
//	nx hex|big|u64 "HEX      serix.DecodeHex / DecodeUint256 / DecodeUint64 called directly (numbers.go)
//	jt TARGET V TEXT sch|doc serix.JSONDecode of a raw JSON text (numbers.go)
//	x TARGET V HEX           serix.Decode of a catalogue type: property oracle only (answer "oracle-only")
//
// The calls are executed in a child process (same binary, "--child") with an address-space limit, so
// that a fatal runtime error (out of memory on a hostile length, stack exhaustion) is observed as an
// outcome instead of killing the run.  The parent generates the inputs, evaluates the property
// oracle on what the child observed (recovered panic, consumed > len, TotalAlloc delta above
// 64 KiB + K*len) and writes the request/answer lines compared with the Lean driver drv_c02.
package main

import (
	"bufio"
	"context"
	"crypto/sha256"
	"encoding/binary"
	"fmt"
	"io"
	"math/big"
	"os"
	"os/exec"
	"runtime"
	"runtime/debug"
	"sort"
	"strconv"
	"strings"
	"sync"
	"syscall"
	"time"

	"verifharness/c02/sx"
	"verifharness/hx"
	"verifharness/serixgen"

	"github.com/iotaledger/hive.go/ds/serializableorderedmap"
	"github.com/iotaledger/hive.go/serializer/v2/serix"
	"github.com/iotaledger/hive.go/serializer/v2/stream"
	"github.com/iotaledger/hive.go/serializer/v2/typeutils"
)

// ---- execution of one request (child side) ----------------------------------------------------

type result struct {
	answer  string
	real    string // x ops: the observed "class consumed"
	alloc   uint64
	micros  int64  // wall time of the call
	decodes int64  // x ops: element decodes counted by the counting zero-width type
	pmsg    string // panic message and innermost hive.go frame
}

func execOp(op string) result {
	f := strings.Fields(op)
	var run func() (string, string)
	switch f[0] {
	case "d":
		run = func() (string, string) { return execD(f), "" }
	case "sr":
		call := sx.PrepSR(f) // parsed outside the measured window
		run = func() (string, string) { return call(), "" }
	case "sk":
		run = func() (string, string) { return sx.ExecSK(f), "" }
	case "j":
		run = func() (string, string) { return execJ(f), "" }
	case "m":
		run = func() (string, string) { return execM(f), "" }
	case "tu":
		run = func() (string, string) { return execTU(f), "" }
	case "nx":
		run = func() (string, string) { return execNX(f), "" }
	case "jt":
		run = func() (string, string) { return execJT(f), "" }
	case "jx":
		execJX(f) // first use of the universe and of its types, outside the measured window
		run = func() (string, string) { return "oracle-only", execJX(f) }
	case "x":
		if isUniverse(f[1]) {
			execX(f) // first use of the universe and of its types, outside the measured window
		}
		run = func() (string, string) { return "oracle-only", execX(f) }
	default:
		return result{answer: "bad-op"}
	}
	var m0, m1 runtime.MemStats
	zcDecodes = 0
	lastMisuse = nil
	runtime.ReadMemStats(&m0)
	t0 := time.Now()
	ans, real := run()
	el := time.Since(t0)
	runtime.ReadMemStats(&m1)
	res := result{answer: ans, real: real, alloc: m1.TotalAlloc - m0.TotalAlloc, micros: el.Microseconds(), decodes: zcDecodes}
	if ans == "panic" || strings.HasPrefix(real, "panic") || strings.Contains(ans, "panic") {
		res.pmsg = panicSite(op)
	} else if len(lastMisuse) > 0 {
		res.pmsg = "MISUSE chain-contract: " + lastMisuse[0]
	} else if c := sx.TakeChanged(); c != "" {
		res.pmsg = "MISUSE retained-result-changed: " + c
	}
	sx.TakeChanged()

	return res
}

// panicSite re-runs a panicking op to find the message and the innermost frame inside hive.go.
func panicSite(op string) string {
	f := strings.Fields(op)
	msg, frame := "", ""
	func() {
		defer func() {
			if e := recover(); e != nil {
				msg = fmt.Sprint(e)
				for _, l := range strings.Split(string(debug.Stack()), "\n") {
					if strings.Contains(l, "iotaledger/hive.go/") && !strings.HasPrefix(l, "\t") && frame == "" {
						l = l[strings.Index(l, "iotaledger/hive.go/")+len("iotaledger/hive.go/"):]
						if i := strings.LastIndex(l, "("); i > 0 {
							l = l[:i]
						}
						frame = l
					}
				}
			}
		}()
		switch f[0] {
		case "d":
			rawD(f)
		case "sr":
			rawSR(f)
		case "sk":
			sx.ExecSKRaw(f)
		case "j":
			rawJ(f)
		case "m":
			rawM(f)
		case "x":
			rawX(f)
		case "nx":
			rawNX(f)
		case "jt":
			rawJT(f)
		case "jx":
			rawJX(f)
		}
	}()
	if len(msg) > 120 {
		msg = msg[:120]
	}

	return frame + ": " + msg
}

func childLoop() {
	// address-space limit: a length field that escapes every check must fail fast instead of
	// exhausting the machine
	lim := &syscall.Rlimit{Cur: 24 << 30, Max: 24 << 30}
	_ = syscall.Setrlimit(syscall.RLIMIT_AS, lim)
	debug.SetGCPercent(400)
	in := bufio.NewReaderSize(os.Stdin, 1<<22)
	out := bufio.NewWriter(os.Stdout)
	for {
		line, err := in.ReadString('\n')
		if line == "" && err != nil {
			return
		}
		res := execOp(strings.TrimRight(line, "\n"))
		fmt.Fprintf(out, "%s\t%s\t%d\t%d\t%d\t%s\n", res.answer, res.real, res.alloc, res.micros, res.decodes, strings.ReplaceAll(strings.ReplaceAll(res.pmsg, "\n", " "), "\t", " "))
		out.Flush()
		if err != nil {
			return
		}
	}
}

// ---- the child process as seen from the parent ------------------------------------------------

type child struct {
	cmd   *exec.Cmd
	in    io.WriteCloser
	lines chan string
	errs  *headBuf
}

// headBuf keeps the beginning of the child's stderr (the "fatal error: ..." line of a runtime abort).
type headBuf struct {
	mu sync.Mutex
	b  []byte
}

func (h *headBuf) Write(p []byte) (int, error) {
	h.mu.Lock()
	defer h.mu.Unlock()
	if len(h.b) < 400 {
		h.b = append(h.b, p...)
	}

	return len(p), nil
}

func (h *headBuf) firstLine() string {
	h.mu.Lock()
	defer h.mu.Unlock()
	s := string(h.b)
	if i := strings.Index(s, "\n"); i >= 0 {
		s = s[:i]
	}
	if len(s) > 200 {
		s = s[:200]
	}

	return s
}

func startChild() *child {
	cmd := exec.Command(os.Args[0], "--child")
	cmd.Env = append(os.Environ(), "GOMEMLIMIT=6GiB")
	in, err := cmd.StdinPipe()
	if err != nil {
		panic(err)
	}
	out, err := cmd.StdoutPipe()
	if err != nil {
		panic(err)
	}
	errs := &headBuf{}
	cmd.Stderr = errs
	if err := cmd.Start(); err != nil {
		panic(err)
	}
	c := &child{cmd: cmd, in: in, lines: make(chan string, 4), errs: errs}
	go func() {
		rd := bufio.NewReaderSize(out, 1<<22)
		for {
			l, err := rd.ReadString('\n')
			if l != "" && strings.HasSuffix(l, "\n") {
				c.lines <- strings.TrimRight(l, "\n")
			}
			if err != nil {
				close(c.lines)

				return
			}
		}
	}()

	return c
}

func (c *child) stop() {
	_ = c.in.Close()
	_ = c.cmd.Process.Kill()
	_ = c.cmd.Wait()
}

var theChild *child

// watchdog: no decoder call on a few hundred KiB may take longer
const watchdog = 10 * time.Second

// run executes one op in the child; a crash or a timeout is an outcome.
func runIsolated(op string) result {
	if theChild == nil {
		theChild = startChild()
	}
	if _, err := io.WriteString(theChild.in, op+"\n"); err != nil {
		theChild.stop()
		theChild = nil

		return result{answer: "crash", pmsg: "child not writable"}
	}
	select {
	case l, ok := <-theChild.lines:
		if !ok {
			theChild.stop()
			msg := theChild.errs.firstLine()
			theChild = nil

			return result{answer: "crash", pmsg: "runtime abort of the child process: " + msg}
		}
		p := strings.SplitN(l, "\t", 6)
		for len(p) < 6 {
			p = append(p, "")
		}
		a, _ := strconv.ParseUint(p[2], 10, 64)
		us, _ := strconv.ParseInt(p[3], 10, 64)
		dc, _ := strconv.ParseInt(p[4], 10, 64)

		return result{answer: p[0], real: p[1], alloc: a, micros: us, decodes: dc, pmsg: p[5]}
	case <-time.After(watchdog):
		// a runaway call (e.g. an item loop driven by a length field alone) is cut off here
		theChild.stop()
		theChild = nil

		return result{answer: "timeout", pmsg: "no answer within " + watchdog.String()}
	}
}

// ---- SerializableOrderedMap, typeutils, serix catalogue ------------------------------------------

var plainAPI = serix.NewAPI()

func execM(f []string) string {
	if p := hx.Safely(func() { f = []string{rawM(f)} }); p != "" {
		return "panic"
	}

	return f[0]
}

func rawM(f []string) string {
	data := hx.UnHex(f[3])
	var n int
	var err error
	switch f[1] + "," + f[2] {
	case "1,1":
		n, err = serializableorderedmap.New[uint8, uint8]().Decode(plainAPI, data)
	case "2,4":
		n, err = serializableorderedmap.New[uint16, uint32]().Decode(plainAPI, data)
	case "4,8":
		n, err = serializableorderedmap.New[uint32, uint64]().Decode(plainAPI, data)
	case "0,0":
		// zero-width keys: every round yields the same key, the second one is a duplicate
		n, err = serializableorderedmap.New[struct{}, struct{}]().Decode(plainAPI, data)
	case "0,1":
		n, err = serializableorderedmap.New[[0]byte, uint8]().Decode(plainAPI, data)
	default:
		panic("unsupported omap instance")
	}
	if err != nil {
		return "err"
	}

	return fmt.Sprintf("ok %d", n)
}

func execTU(f []string) string {
	data := hx.UnHex(f[2])
	out := ""
	if p := hx.Safely(func() {
		switch f[1] {
		case "u64":
			v, n, err := typeutils.Uint64FromBytes(data)
			if err != nil {
				out = "err"

				return
			}
			b := make([]byte, 8)
			binary.LittleEndian.PutUint64(b, v)
			out = fmt.Sprintf("ok %d %s", n, hx.Hex(b))
		case "a32":
			v, n, err := typeutils.ByteArray32FromBytes(data)
			if err != nil {
				out = "err"

				return
			}
			out = fmt.Sprintf("ok %d %s", n, hx.Hex(v[:]))
		default:
			panic("bad typeutils op")
		}
	}); p != "" {
		return "panic"
	}

	return out
}

type XInner struct {
	K uint8  `serix:""`
	V []byte `serix:",lenPrefix=uint8"`
}

type X1 struct {
	A   uint32            `serix:""`
	S   string            `serix:",lenPrefix=uint16"`
	B   []byte            `serix:",lenPrefix=uint32"`
	L   []uint16          `serix:",lenPrefix=uint8"`
	M   map[uint8]uint16  `serix:",lenPrefix=uint16"`
	O   *XInner           `serix:",optional"`
	T   time.Time         `serix:""`
	In  []XInner          `serix:",lenPrefix=uint32"`
	Arr [6]byte           `serix:""`
	MS  map[uint16]string `serix:",lenPrefix=uint8"`
}

type X2 struct {
	Sh  Shape   `serix:""`
	Shs []Shape `serix:",lenPrefix=uint16,maxLen=4"`
	BB  []byte  `serix:",lenPrefix=uint32,maxLen=16"`
	Str string  `serix:",lenPrefix=uint32,minLen=1,maxLen=9"`
}

// XOpt: every field is optional - on the wire an absent field still costs its 4-byte zero length, so an element is
// never zero bytes wide (a decoder that lets an absent field decode from NO bytes makes it zero-width).
type XOpt struct {
	Ext  *XInner `serix:",optional"`
	More *XInner `serix:",optional"`
}

type X3 struct {
	Version uint8  `serix:""`
	Entries []XOpt `serix:",lenPrefix=uint32"`
	Tail    *XOpt  `serix:",optional"`
}

// X4: the shapes X1..X3 lack - slices of slices / strings / pointers / byte arrays / bools, a slice of a NAMED byte type,
// an array of numbers, a big number, a map onto slices, wide prefixes where an element is small
type XFlag uint8

type X4 struct {
	BB   [][]byte          `serix:",lenPrefix=uint16"`
	SS   []string          `serix:",lenPrefix=uint32"`
	PS   []*XInner         `serix:",lenPrefix=uint32"`
	H    [][32]byte        `serix:",lenPrefix=uint32"`
	Fl   []XFlag           `serix:",lenPrefix=uint32"`
	Bo   []bool            `serix:",lenPrefix=uint32"`
	N    [3]uint32         `serix:",lenPrefix=uint8"`
	Big  *big.Int          `serix:""`
	MB   map[uint32][]byte `serix:",lenPrefix=uint32"`
	Deep [][][]uint8       `serix:",lenPrefix=uint8"`
}

var xAPI = func() *serix.API {
	api := serix.NewAPI()
	must(api.RegisterTypeSettings(Circle{}, serix.TypeSettings{}.WithObjectType(uint8(1))))
	must(api.RegisterTypeSettings(Square{}, serix.TypeSettings{}.WithObjectType(uint8(2))))
	must(api.RegisterInterfaceObjects((*Shape)(nil), Circle{}, Square{}))
	must(api.RegisterTypeSettings("", serix.TypeSettings{}.WithLengthPrefixType(serix.LengthPrefixTypeAsByte)))
	must(api.RegisterTypeSettings([]byte{}, serix.TypeSettings{}.WithLengthPrefixType(serix.LengthPrefixTypeAsUint32)))
	must(api.RegisterTypeSettings([][]uint8{}, serix.TypeSettings{}.WithLengthPrefixType(serix.LengthPrefixTypeAsUint16)))

	return api
}()

func xFresh(name string) any {
	switch name {
	case "X1":
		return &X1{}
	case "X2":
		return &X2{}
	case "X3":
		return &X3{}
	case "X4":
		return &X4{}
	}
	panic("unknown serix target " + name)
}

func xSeed(name string, rng *hx.Rng) []byte {
	var v any
	switch name {
	case "X1":
		x := &X1{A: uint32(rng.U64()), S: rstr(rng, 0, 6), B: rbytes(rng, 0, 6), T: time.Unix(0, int64(rng.U64()>>2)).UTC(), M: map[uint8]uint16{}, MS: map[uint16]string{}}
		for i := rng.Range(0, 3); i > 0; i-- {
			x.L = append(x.L, uint16(rng.U64()))
		}
		for i := rng.Range(0, 3); i > 0; i-- {
			x.M[uint8(rng.U64())] = uint16(rng.U64())
		}
		for i := rng.Range(0, 2); i > 0; i-- {
			x.MS[uint16(rng.U64())] = rstr(rng, 0, 3)
		}
		for i := rng.Range(0, 2); i > 0; i-- {
			x.In = append(x.In, XInner{K: uint8(rng.U64()), V: rbytes(rng, 0, 3)})
		}
		if rng.Bool() {
			x.O = &XInner{K: 3, V: rbytes(rng, 0, 3)}
		}
		v = x
	case "X2":
		x := &X2{Sh: rshape(rng), BB: rbytes(rng, 0, 8), Str: rstr(rng, 1, 9)}
		for i := rng.Range(0, 3); i > 0; i-- {
			x.Shs = append(x.Shs, rshape(rng))
		}
		v = x
	case "X3":
		x := &X3{Version: uint8(rng.U64())}
		for i := rng.Range(0, 4); i > 0; i-- {
			o := XOpt{}
			if rng.Bool() {
				o.Ext = &XInner{K: uint8(rng.U64()), V: rbytes(rng, 0, 3)}
			}
			if rng.Chance(1, 3) {
				o.More = &XInner{K: 1}
			}
			x.Entries = append(x.Entries, o)
		}
		if rng.Bool() {
			x.Tail = &XOpt{}
		}
		v = x
	case "X4":
		x := &X4{Big: new(big.Int).SetBytes(rbytes(rng, 0, 32)), MB: map[uint32][]byte{}, N: [3]uint32{uint32(rng.U64()), 1, 2}}
		for i := rng.Range(0, 2); i > 0; i-- {
			x.BB = append(x.BB, rbytes(rng, 0, 3))
			x.SS = append(x.SS, rstr(rng, 0, 3))
			x.PS = append(x.PS, &XInner{K: uint8(rng.U64()), V: rbytes(rng, 0, 2)})
			var h [32]byte
			copy(h[:], rbytes(rng, 32, 32))
			x.H = append(x.H, h)
			x.Fl = append(x.Fl, XFlag(rng.U64()))
			x.Bo = append(x.Bo, rng.Bool())
			x.MB[uint32(rng.U64())] = rbytes(rng, 0, 3)
			x.Deep = append(x.Deep, [][]uint8{rbytes(rng, 0, 2), rbytes(rng, 0, 2)})
		}
		v = x
	}
	b, err := xAPI.Encode(context.Background(), v)
	if err != nil {
		panic("serix.Encode of a catalogue value failed: " + err.Error())
	}

	return b
}

func rawX(f []string) string {
	data := hx.UnHex(f[3])
	if strings.HasPrefix(f[1], "Z:") {
		z := strings.Split(f[1], ":")

		return rawZ(z[1], z[2], f[2] == "1", data)
	}
	if strings.HasPrefix(f[1], "C:") {
		// x C:ROUNDS:GOROUTINES V -   concurrent first use of fresh serix.APIs
		z := strings.Split(f[1], ":")

		return rawConc(atoi(z[1]), atoi(z[2]), f[2] == "1")
	}
	if isUniverse(f[1]) {
		return rawU(f)
	}
	var opts []serix.Option
	if f[2] == "1" {
		opts = append(opts, serix.WithValidation())
	}
	n, err := xAPI.Decode(context.Background(), data, xFresh(f[1]), opts...)
	if err != nil {
		return "err"
	}

	return fmt.Sprintf("ok %d", n)
}

func execX(f []string) string {
	out := ""
	if p := hx.Safely(func() { out = rawX(f) }); p != "" {
		return "panic"
	}

	return out
}

func rawD(f []string)  { execDRaw(f) }
func rawSR(f []string) { sx.ExecSRRaw(f) }
func rawJ(f []string)  { execJRaw(f) }

func newBuf() *stream.ByteBuffer { return stream.NewByteBuffer() }

// ---- generation -----------------------------------------------------------------------------------

var hostile32 = []uint64{0, 1, 0x7f, 0x80, 0xff, 0x100, 0xffff, 0x10000, 1 << 24, 1 << 28, 1 << 30, 1<<31 - 1, 1 << 31, 1<<32 - 1}
var hostile64 = []uint64{1 << 31, 1 << 32, 1 << 40, 1 << 47, 1 << 48, 1 << 62, 1<<63 - 1, 1 << 63, 1<<64 - 1}

type prefixPos struct{ off, width int }

func putLE(b []byte, off, width int, v uint64) {
	for i := 0; i < width && off+i < len(b); i++ {
		b[off+i] = byte(v >> (8 * uint(i)))
	}
}

func getLE(b []byte, off, width int) uint64 {
	var v uint64
	for i := 0; i < width && off+i < len(b); i++ {
		v |= uint64(b[off+i]) << (8 * uint(i))
	}

	return v
}

// mutate returns a hostile variant of a valid encoding and the kind of mutation.
func mutate(rng *hx.Rng, valid []byte, other []byte, pos []prefixPos) ([]byte, string) {
	b := append([]byte(nil), valid...)
	switch k := rng.Intn(100); {
	case k < 10:
		return b, "valid"
	case k < 25 && len(b) > 0:
		for i := rng.Range(1, 3); i > 0; i-- {
			b[rng.Intn(len(b))] ^= 1 << uint(rng.Intn(8))
		}

		return b, "bitflip"
	case k < 38 && len(b) > 0:
		return b[:rng.Intn(len(b))], "truncate"
	case k < 46:
		return append(b, rbytes(rng, 1, 9)...), "extend"
	case k < 56:
		cut := 0
		if len(b) > 0 {
			cut = rng.Intn(len(b) + 1)
		}
		cut2 := 0
		if len(other) > 0 {
			cut2 = rng.Intn(len(other) + 1)
		}

		return append(b[:cut:cut], other[cut2:]...), "splice"
	case k < 90 && len(pos) > 0:
		p := hx.Pick(rng, pos)
		cur := getLE(b, p.off, p.width)
		var v uint64
		switch c := rng.Intn(10); {
		case c == 0:
			v = cur + 1
		case c == 1 && cur > 0:
			v = cur - 1
		case p.width == 8 && c < 7:
			v = hx.Pick(rng, hostile64)
		default:
			v = hx.Pick(rng, hostile32)
		}
		putLE(b, p.off, p.width, v)
		if rng.Chance(1, 4) && len(b) > p.off+p.width {
			b = b[:p.off+p.width+rng.Intn(len(b)-p.off-p.width+1)]
		}

		return b, "prefix"
	case len(b) > 0:
		off := rng.Intn(len(b))
		w := hx.Pick(rng, []int{1, 2, 4, 8})
		if rng.Bool() {
			putLE(b, off, w, hx.Pick(rng, hostile32))
		} else {
			putLE(b, off, w, ^uint64(0))
		}

		return b, "window"
	}

	return rbytes(rng, 0, 24), "random"
}

// -- Deserializer programs

var dCatalogue = []string{
	"n 1 n 2 n 4 n 8 b y a",
	"u t f 5 i 3 k 2",
	"v u8 0 0 v u16 0 0 v u32 0 0",
	"v u8 2 4 s u8 1 5",
	"v u32 0 16 a",
	"v u32 3 0 s u32 0 8",
	"s u16 0 0 s u32 0 0 n 2",
	"c d1 7 n 2 c d4 1000 b",
	"l l n 1",
	"q u8 0 0 0 0 ( n 2 )",
	"q u16 0 0 0 0 ( v u8 0 0 )",
	"q u32 0 0 0 0 ( n 1 b )",
	"q u32 1 1 3 0 ( n 2 ) a",
	"q u8 1 0 0 1 ( v u8 0 0 )",
	"q u8 1 0 0 2 ( s u8 0 0 )",
	"q u8 1 0 0 3 ( n 2 )",
	"q u8 1 0 0 4 ( y n 1 )",
	"q u16 1 0 4 8 ( n 4 y )",
	"q u8 0 0 0 0 ( q u8 0 0 0 0 ( n 1 ) )",
	"q u32 0 0 0 0 ( q u32 0 0 0 0 ( v u32 0 0 ) n 1 )",
	"o d1 [ ( 1 c d1 1 n 2 ) ( 2 c d1 2 v u8 0 0 ) ]",
	"o d4 [ ( 5 c d4 5 s u16 0 0 ) ] n 1",
	"o d0 [ ( 0 n 2 ) ]",
	"r u8 d1 0 0 0 0 - [ ( 1 c d1 1 n 1 ) ( 2 c d1 2 v u8 0 0 ) ]",
	"r u16 d1 1 1 3 4 1 [ ( 1 c d1 1 n 1 ) ( 2 c d1 2 v u8 0 0 ) ] a",
	"r u32 d4 1 0 0 3 - [ ( 9 c d4 9 n 2 ) ]",
	"p [ ( 3 c d4 3 v u8 0 0 ) ( 4 c d4 4 n 8 ) ] n 1",
	"n 1 p [ ( 3 c d4 3 q u8 0 0 0 0 ( n 2 ) ) ]",
	"q u8 0 0 0 0 ( )",
	"q u16 0 0 0 0 ( k 0 )",
	"v u64 0 0",
	"c d0 1",
	"n 2 R v u8 0 0 R",
	"g d1 y g d4 n 4 g d0 R",
	"D n 1 D A 0 W 1 0 W 0 1 n 1 A 1 D n 1",
	"n 1 W 1 1 D",
	"q u8 1 0 0 1 ( g d1 v u8 0 0 R ) W 1 0",
	"o d1 [ ( 1 c d1 1 n 2 R ) ( 2 g d1 y A 1 ) ] D",
	"v u8 2 4 D",
	"s u8 0 2 D",
	"p [ ( 3 c d4 3 v u8 0 0 ) ] D",
}

var lpToks = []string{"u8", "u16", "u32"}

func randLeaf(rng *hx.Rng) string {
	if rng.Chance(1, 8) {
		// the helpers of the chain that read nothing: RemainingBytes, Do, GetObjectType, AbortIf, WithValidation
		switch rng.Intn(6) {
		case 0:
			return "R"
		case 1:
			return "D"
		case 2:
			return "g " + hx.Pick(rng, []string{"d0", "d1", "d4"})
		case 3:
			return "A " + hx.Pick(rng, []string{"0", "0", "0", "1"})
		default:
			return "W " + hx.Pick(rng, []string{"0", "1"}) + " " + hx.Pick(rng, []string{"0", "0", "0", "1"})
		}
	}
	switch rng.Intn(12) {
	case 0:
		return "n " + strconv.Itoa(hx.Pick(rng, []int{1, 2, 4, 8}))
	case 1:
		return "b"
	case 2:
		return "y"
	case 3:
		return "u"
	case 4:
		return "t"
	case 5:
		return "f " + strconv.Itoa(rng.Intn(6))
	case 6:
		return "i " + strconv.Itoa(rng.Intn(6))
	case 7, 8:
		mn, mx := 0, 0
		if rng.Chance(1, 3) {
			mn = rng.Intn(4)
		}
		if rng.Chance(1, 3) {
			mx = mn + rng.Intn(6)
		}

		return hx.Pick(rng, []string{"v", "s"}) + " " + hx.Pick(rng, lpToks) + " " + strconv.Itoa(mn) + " " + strconv.Itoa(mx)
	case 9:
		return "k " + strconv.Itoa(rng.Intn(4))
	case 10:
		return "l"
	default:
		return "c " + hx.Pick(rng, []string{"d1", "d4"}) + " " + strconv.Itoa(rng.Intn(3))
	}
}

// randItem builds an item program that consumes at least one byte when it succeeds.
func randItem(rng *hx.Rng, depth int) string {
	s := []string{hx.Pick(rng, []string{"n 1", "n 2", "y", "b", "v u8 0 0", "n 4"})}
	for i := rng.Intn(3); i > 0; i-- {
		s = append(s, randPrim(rng, depth))
	}

	return strings.Join(s, " ")
}

func randAlts(rng *hx.Rng, d string, depth int) string {
	s := []string{"["}
	n := rng.Range(1, 3)
	for i := 0; i < n; i++ {
		s = append(s, "(", strconv.Itoa(i+1), "c", d, strconv.Itoa(i+1), randItem(rng, depth), ")")
	}

	return strings.Join(append(s, "]"), " ")
}

func randRules(rng *hx.Rng) string {
	val, mn, mx, mode := "0", 0, 0, 0
	if rng.Bool() {
		val = "1"
		if rng.Chance(1, 3) {
			mn = rng.Intn(3)
		}
		if rng.Chance(1, 3) {
			mx = mn + rng.Intn(4)
		}
		mode = hx.Pick(rng, []int{0, 0, 1, 2, 3, 4, 8, 5})
		switch rng.Intn(8) {
		case 0, 1:
			mode = rng.Intn(16) // every combination of the four validators
		case 2:
			mode = rng.Intn(256) // bits no validator is attached to
		}
	}

	return fmt.Sprintf("%s %d %d %d", val, mn, mx, mode)
}

func randPrim(rng *hx.Rng, depth int) string {
	if depth <= 0 || rng.Chance(3, 5) {
		return randLeaf(rng)
	}
	switch rng.Intn(9) {
	case 0:
		// ReadPayload: a length, then an object chosen by its uint32 type
		return "p " + randAlts(rng, "d4", depth-1)
	case 1, 2, 3, 4:
		return "q " + hx.Pick(rng, lpToks) + " " + randRules(rng) + " ( " + randItem(rng, depth-1) + " )"
	case 5, 6:
		d := hx.Pick(rng, []string{"d1", "d4"})

		return "o " + d + " " + randAlts(rng, d, depth-1)
	default:
		d := hx.Pick(rng, []string{"d1", "d4"})
		must := "-"
		if rng.Chance(1, 4) {
			must = "1"
		}

		return "r " + hx.Pick(rng, lpToks) + " " + d + " " + randRules(rng) + " " + must + " " + randAlts(rng, d, depth-1)
	}
}

func randProg(rng *hx.Rng) string {
	var s []string
	for i := rng.Range(1, 4); i > 0; i-- {
		s = append(s, randPrim(rng, 2))
	}
	if rng.Chance(1, 5) {
		s = append(s, "a")
	}

	return strings.Join(s, " ")
}

type enc struct {
	b   []byte
	pos []prefixPos
	rng *hx.Rng
}

func (e *enc) le(v uint64, w int) {
	for i := 0; i < w; i++ {
		e.b = append(e.b, byte(v>>(8*uint(i))))
	}
}

func (e *enc) prefix(lp string, v int) {
	w := sx.LPWidth(lp)
	e.pos = append(e.pos, prefixPos{len(e.b), w})
	e.le(uint64(v), w)
}

func denWidth(d string) int {
	switch d {
	case "d1":
		return 1
	case "d4":
		return 4
	}

	return 0
}

// encodeD writes a (mostly) valid encoding for a read program and records where the length fields are.
func (e *enc) encodeD(p []prim) {
	rng := e.rng
	for _, x := range p {
		switch x.k {
		case "n":
			e.b = append(e.b, rbytes(rng, x.n, x.n)...)
		case "b":
			e.b = append(e.b, byte(rng.Intn(2)))
		case "y":
			e.b = append(e.b, byte(rng.U64()))
		case "u":
			e.b = append(e.b, rbytes(rng, 32, 32)...)
		case "t":
			e.le(rng.U64()>>uint(rng.Intn(8)), 8)
		case "f", "i", "k":
			e.b = append(e.b, rbytes(rng, x.n, x.n)...)
		case "v", "s":
			hi := x.min + 5
			if x.max > 0 {
				hi = x.max
			}
			if hi < x.min {
				hi = x.min
			}
			n := rng.Range(x.min, hi)
			e.prefix(x.lp, n)
			if x.k == "s" {
				e.b = append(e.b, []byte(rstr(rng, n, n))...)
			} else {
				e.b = append(e.b, rbytes(rng, n, n)...)
			}
		case "c":
			e.le(uint64(x.code), denWidth(x.den))
		case "l":
			e.pos = append(e.pos, prefixPos{len(e.b), 4})
			e.le(uint64(rng.Intn(4)), 4)
		case "q", "r":
			hi := x.min + 3
			if x.max > 0 {
				hi = x.max
			}
			if hi < x.min {
				hi = x.min
			}
			n := rng.Range(x.min, hi)
			var items [][]byte
			for i := 0; i < n; i++ {
				sub := &enc{rng: rng}
				if x.k == "q" {
					sub.encodeD(x.item)
				} else if len(x.alts) > 0 {
					sub.encodeD(hx.Pick(rng, x.alts).prog)
				}
				items = append(items, sub.b)
			}
			if x.mode&2 != 0 {
				sort.Slice(items, func(i, j int) bool { return string(items[i]) < string(items[j]) })
			}
			e.prefix(x.lp, len(items))
			for _, it := range items {
				// nested length fields are found again by the window mutation; only the positions of this level are exact
				e.b = append(e.b, it...)
			}
		case "o":
			if len(x.alts) > 0 {
				e.encodeD(hx.Pick(rng, x.alts).prog)
			}
		case "p":
			if len(x.alts) == 0 || rng.Chance(1, 6) {
				e.pos = append(e.pos, prefixPos{len(e.b), 4})
				e.le(0, 4)

				break
			}
			sub := &enc{rng: rng}
			sub.encodeD(hx.Pick(rng, x.alts).prog)
			e.pos = append(e.pos, prefixPos{len(e.b), 4})
			e.le(uint64(len(sub.b)), 4)
			for _, q := range sub.pos {
				e.pos = append(e.pos, prefixPos{len(e.b) + q.off, q.width})
			}
			e.b = append(e.b, sub.b...)
		}
	}
}

// zeroSizeLoop reports whether a program contains a sequence with a wide count and an item that may
// consume nothing: such a read iterates as often as the count says (Lean: C02_deser_zero_size_items_witness),
// which is outside the property (the remaining input can hold any number of empty items) and only slow.
func zeroSizeLoop(p []prim) bool { return zeroSizeSeq(p, true) }

// zeroSizeSeq: some sequence of the program has an item that may consume nothing (wideOnly: and a uint32 count).
func zeroSizeSeq(p []prim, wideOnly bool) bool {
	for _, x := range p {
		switch x.k {
		case "q":
			if (x.lp == "u32" || !wideOnly) && minSize(x.item) == 0 {
				return true
			}
			if zeroSizeSeq(x.item, wideOnly) {
				return true
			}
		case "o", "r", "p":
			for _, a := range x.alts {
				if (x.k == "r" && (x.lp == "u32" || !wideOnly) && minSize(a.prog) == 0) || zeroSizeSeq(a.prog, wideOnly) {
					return true
				}
			}
		}
	}

	return false
}

func minSize(p []prim) int {
	n := 0
	for _, x := range p {
		switch x.k {
		case "n", "f", "i", "k":
			n += x.n
		case "b", "y":
			n++
		case "u":
			n += 32
		case "t":
			n += 8
		case "v", "s", "q", "r":
			n += sx.LPWidth(x.lp)
		case "c":
			n += denWidth(x.den)
		case "l", "p":
			n += 4
		}
	}

	return n
}

// -- stream programs

func randWProg(rng *hx.Rng) string {
	var s []string
	lps := []string{"u8", "u16", "u32", "u64"}
	for i := rng.Range(1, 4); i > 0; i-- {
		switch rng.Intn(9) {
		case 0:
			w := hx.Pick(rng, []int{1, 2, 4, 8})
			s = append(s, "num", strconv.Itoa(w), hx.Hex(rbytes(rng, w, w)))
		case 1:
			s = append(s, "bool", hx.Hex([]byte{byte(rng.Intn(3))}))
		case 2:
			w := hx.Pick(rng, []int{32, 36, 38})
			s = append(s, "arr", strconv.Itoa(w), hx.Hex(rbytes(rng, w, w)))
		case 3:
			s = append(s, "bytes", hx.Hex(rbytes(rng, 0, 9)))
		case 4, 5:
			s = append(s, "bws", hx.Pick(rng, lps), hx.Hex(rbytes(rng, 0, 12)))
		case 6:
			s = append(s, "ows", hx.Pick(rng, lps), hx.Hex(rbytes(rng, 0, 12)))
		case 7:
			s = append(s, "obj", hx.Hex(rbytes(rng, 0, 9)))
		default:
			n := rng.Range(0, 4)
			switch rng.Intn(4) {
			case 0:
				s = append(s, "coll", hx.Pick(rng, lps), "bws", hx.Pick(rng, lps), "(")
				for j := 0; j < n; j++ {
					s = append(s, hx.Hex(rbytes(rng, 0, 5)))
				}
			case 1:
				s = append(s, "coll", hx.Pick(rng, lps), "ows", hx.Pick(rng, lps), "(")
				for j := 0; j < n; j++ {
					s = append(s, hx.Hex(rbytes(rng, 0, 5)))
				}
			case 2:
				w := hx.Pick(rng, []int{1, 2, 4, 8})
				s = append(s, "coll", hx.Pick(rng, lps), "num", strconv.Itoa(w), "(")
				for j := 0; j < n; j++ {
					s = append(s, hx.Hex(rbytes(rng, w, w)))
				}
			default:
				w := rng.Range(1, 5)
				s = append(s, "coll", hx.Pick(rng, lps), "obj", strconv.Itoa(w), "(")
				for j := 0; j < n; j++ {
					s = append(s, hx.Hex(rbytes(rng, w, w)))
				}
			}
			s = append(s, ")")
		}
	}

	return strings.Join(s, " ")
}

// wLayout finds the positions of the length fields in what a writer program writes.
func wLayout(p []sx.WOp) []prefixPos {
	var pos []prefixPos
	off := 0
	for _, o := range p {
		switch o.K {
		case "num", "arr":
			off += o.N
		case "bool":
			off++
		case "bytes", "obj":
			off += len(o.Data)
		case "bws", "ows":
			w := sx.LPWidth(o.LPt)
			pos = append(pos, prefixPos{off, w})
			off += w + len(o.Data)
		case "coll":
			w := sx.LPWidth(o.LPt)
			pos = append(pos, prefixPos{off, w})
			off += w
			for _, it := range o.Items {
				switch o.IKind {
				case "bws", "ows":
					iw := sx.LPWidth(o.ILP)
					pos = append(pos, prefixPos{off, iw})
					off += iw + len(it)
				case "num":
					off += o.IN
				case "obj":
					off += len(it)
				}
			}
		}
	}

	return pos
}

func constChunks(c, n int) string {
	k := n/c + 2
	s := make([]string, k)
	for i := range s {
		s[i] = strconv.Itoa(c)
	}

	return strings.Join(s, ",")
}

func randChunks(rng *hx.Rng, n int) string {
	switch rng.Intn(6) {
	case 0:
		return "-"
	case 1:
		c := make([]int, n+2)
		for i := range c {
			c[i] = 1
		}

		return sx.ShowChunks(c)
	case 2:
		p := hx.Pick(rng, []int{2, 3, 5, 7, 11, 13})
		c := make([]int, n/p+2)
		for i := range c {
			c[i] = p
		}

		return sx.ShowChunks(c)
	default:
		c := make([]int, rng.Range(1, 12))
		for i := range c {
			c[i] = rng.Intn(9)
			if rng.Chance(1, 8) {
				c[i] = rng.Intn(40)
			}
		}

		return sx.ShowChunks(c)
	}
}

// exhaustedLines: see (3b) in main.
func exhaustedLines() []string {
	var out []string
	le32 := func(v uint32) []byte { return []byte{byte(v), byte(v >> 8), byte(v >> 16), byte(v >> 24)} }
	// leaf -> one complete element of it
	items := [][2]string{
		{"n 1", "07"}, {"n 2", "0708"}, {"n 4", "01020304"}, {"n 8", "0102030405060708"}, {"b", "01"}, {"y", "09"},
		{"u", strings.Repeat("11", 32)}, {"t", "0100000000000000"}, {"f 3", "010203"}, {"i 2", "0102"}, {"v u8 0 0", "00"}, {"s u8 0 0", "00"},
		{"v u16 0 0", "0000"}, {"s u32 0 0", "00000000"}, {"k 1", "00"}, {"c d1 1", "01"}, {"c d4 1", "01000000"}, {"l", "00000000"}, {"l l", "0000000000000000"},
		{"p [ ( 3 c d4 3 n 1 ) ]", "00000000"}, {"q u8 0 0 0 0 ( n 1 )", "00"}, {"q u32 0 0 0 0 ( l )", "00000000"},
		{"o d1 [ ( 1 c d1 1 ) ]", "01"}, {"r u8 d1 0 0 0 0 - [ ( 1 c d1 1 n 1 ) ]", "00"}, {"g d1 y", "05"}, {"R n 1", "05"}, {"W 1 0 l", "00000000"},
	}
	for _, it := range items {
		for _, count := range []uint32{1 << 16, 1 << 20} {
			for _, k := range []int{0, 1, 3} {
				for _, val := range []string{"0", "1"} {
					if count == 1<<20 && (k == 1 || val == "1") {
						continue
					}
					data := hx.Hex(le32(count)) + strings.Repeat(it[1], k)
					out = append(out, fmt.Sprintf("d %s q u32 %s 0 0 0 ( %s )", data, val, it[0]))
				}
			}
		}
	}
	// serix: X3 = version byte, uint32 count, elements of two optional fields each (absent = 00000000 each)
	for _, count := range []uint32{1 << 12, 1 << 16, 1 << 20} {
		for _, k := range []int{0, 1, 3} {
			for _, val := range []int{0, 1} {
				data := "2a" + hx.Hex(le32(count)) + strings.Repeat("0000000000000000", k)
				out = append(out, fmt.Sprintf("x X3 %d %s", val, data))
			}
		}
	}

	return out
}

// readerTok is the reader of an "sr" request: a chunk list, now and then a reader that returns io.EOF together with
// its last bytes ("!") or that breaks with another error after K bytes ("@K").
func readerTok(rng *hx.Rng, n int) string {
	t := randChunks(rng, n)
	if rng.Chance(1, 6) {
		t += "!"
	}
	if rng.Chance(1, 8) {
		t += "@" + strconv.Itoa(rng.Intn(n+2))
	}

	return t
}

// seekProg cuts a reader program into runs with Offset / BytesRead / Skip / GoTo calls in between.
func seekProg(rng *hx.Rng, rp []sx.ROp, n int) string {
	var s []string
	for len(rp) > 0 {
		k := rng.Range(1, len(rp))
		s = append(s, "run", "(", sx.ShowR(rp[:k]), ")")
		rp = rp[k:]
		switch rng.Intn(6) {
		case 0:
			s = append(s, "off", "br")
		case 1:
			s = append(s, "skip", strconv.Itoa(rng.Intn(4)), "br")
		case 2:
			s = append(s, "skip", strconv.Itoa(-rng.Intn(6)), "off")
		case 3:
			s = append(s, "goto", strconv.Itoa(hx.Pick(rng, []int{0, rng.Intn(n + 1), n, n + 3, -1})), "br", "off")
		case 4:
			s = append(s, "br")
		}
	}
	s = append(s, "off", "br")

	return strings.Join(strings.Fields(strings.Join(s, " ")), " ")
}

// hostileR derives reader programs that do not match what was written.
func hostileR(rng *hx.Rng, r []sx.ROp) []sx.ROp {
	out := append([]sx.ROp(nil), r...)
	if len(out) == 0 {
		return out
	}
	i := rng.Intn(len(out))
	o := out[i]
	lps := []string{"u8", "u16", "u32", "u64"}
	switch rng.Intn(7) {
	case 0:
		if o.LPt != "" {
			o.LPt = hx.Pick(rng, lps)
		}
	case 1:
		o = sx.ROp{K: "bytes", N: hx.Pick(rng, []int{-1, -1 << 40, 0, 1, 5, 1 << 14, 1<<14 + 1, 1 << 20, 1 << 31, 1 << 40})}
	case 2:
		o = sx.ROp{K: "peek", LPt: hx.Pick(rng, lps)}
	case 3:
		o = sx.ROp{K: "ows", LPt: hx.Pick(rng, lps), From: hx.Pick(rng, []string{"id", "idc", "u64", "a32", "half", "fail"})}
	case 4:
		o = sx.ROp{K: "obj", N: hx.Pick(rng, []int{0, 8, 9, 32, 33, 5}), From: hx.Pick(rng, []string{"id", "u64", "a32", "half"})}
	case 5:
		o = sx.ROp{K: "coll", LPt: hx.Pick(rng, lps), Item: []sx.ROp{{K: hx.Pick(rng, []string{"bws", "num"}), LPt: hx.Pick(rng, lps), N: hx.Pick(rng, []int{1, 2, 4, 8})}}}
	default:
		o = sx.ROp{K: "coll", LPt: hx.Pick(rng, lps), Item: []sx.ROp{{K: "num", N: 1}, {K: "coll", LPt: hx.Pick(rng, lps), Item: []sx.ROp{{K: "bws", LPt: "u8"}}}}}
	}
	out[i] = o

	return out
}

// ---- the oracle -------------------------------------------------------------------------------------

func inputLen(f []string) int {
	h := ""
	switch f[0] {
	case "d":
		h = f[1]
	case "sr":
		h = f[2]
	case "sk":
		h = f[1]
	case "m", "x":
		h = f[3]
	case "tu":
		h = f[2]
	case "nx":
		return (len(f[2]) - 1) / 2
	case "jt", "jx":
		h = f[3]
	default:
		return 0
	}
	if h == "-" {
		return 0
	}

	return len(h) / 2
}

func primKinds(f []string) string {
	seen := map[string]bool{}
	for _, t := range f[1:] {
		if len(t) > 0 && (t[0] < '0' || t[0] > '9') && t != "(" && t != ")" && t != "[" && t != "]" && t != "-" && len(t) <= 5 {
			seen[t] = true
		}
	}
	k := make([]string, 0, len(seen))
	for t := range seen {
		k = append(k, t)
	}
	sort.Strings(k)

	return strings.Join(k, ",")
}

func oracle(r *hx.Run, op string, res result, mut string) {
	f := strings.Fields(op)
	n := inputLen(f)
	site := res.pmsg
	if i := strings.Index(site, ":"); i > 0 {
		site = site[:i]
	}
	short := op
	if len(short) > 600 {
		// long inputs are random data reproducible from the seed and the case number: keep the head (chunks,
		// prefix) and the tail (the program)
		short = short[:400] + " ...(" + strconv.Itoa(len(op)) + " chars)... " + short[len(short)-200:]
	}
	switch {
	case res.answer == "crash" || res.answer == "timeout":
		sg := map[string]string{"oracle": res.answer, "op": f[0], "prims": primKinds(f)}
		if f[0] == "x" && strings.HasPrefix(f[1], "C:") {
			sg = map[string]string{"oracle": res.answer, "trigger": "concurrent-first-use", "api": "serix.API"}
		}
		r.Fail("fatal", fmt.Sprintf("%s: %s; op: %s", res.answer, res.pmsg, short), sg)

		return
	case strings.Contains(res.answer, "panic") || strings.HasPrefix(res.real, "panic"):
		if f[0] == "d" && staticMisuse(f) {
			break // a length-prefix type / type denotation the primitive does not support: caller error, not input
		}
		r.Fail("no-panic", fmt.Sprintf("panic %s; op: %s", res.pmsg, short), map[string]string{"oracle": "panic", "op": f[0], "site": site})

		return
	}
	if strings.HasPrefix(res.pmsg, "MISUSE ") {
		// the chain helpers (Do, AbortIf, WithValidation, GetObjectType) broke their contract as seen by the interpreter
		kind, detail, _ := strings.Cut(res.pmsg[7:], ": ")
		r.Fail(kind, fmt.Sprintf("%s; op: %s", detail, short), map[string]string{"oracle": kind, "op": f[0], "prims": primKinds(f)})
	}
	obs := res.answer
	if f[0] == "x" || f[0] == "jx" {
		obs = res.real
	}
	g := strings.Fields(obs)
	if len(g) >= 2 && f[0] != "sk" && (g[0] == "ok" || (g[0] == "err" && f[0] == "d")) {
		// "d": the offset Done() reports next to an error is a reported count as well
		if c, err := strconv.Atoi(g[1]); err == nil && c > n {
			r.Fail("consumed-le", fmt.Sprintf("reported %d consumed bytes of %d; op: %s", c, n, short), map[string]string{"oracle": "consumed", "op": f[0], "prims": primKinds(f)})
		}
	}
	if f[0] == "x" && strings.HasPrefix(f[1], "C:") {
		// concurrent first use of a shared API: every call must succeed (a runtime abort was reported above as fatal)
		if res.real != "ok 0" {
			r.Fail("concurrent-first-use", fmt.Sprintf("a call on a shared serix.API failed under concurrent first use: %s; op: %s", res.real, short),
				map[string]string{"oracle": "concurrent-call-failed", "api": "serix.API", "op": "x"})
		}

		return
	}
	// zero-width elements: the signature names the trigger and the API instead of the individual request
	trigger, api := "", ""
	switch {
	case f[0] == "x" && strings.HasPrefix(f[1], "Z:"):
		api = "serix.Decode"
		if zTargetOf(strings.Split(f[1], ":")[1]).seq {
			trigger = "zero-width-sequence-elements"
		} else {
			trigger = "zero-width-map-entries"
		}
	case f[0] == "d":
		if p, _ := parseD(f[2:]); zeroSizeSeq(p, false) {
			trigger, api = "zero-width-sequence-elements", "serializer.ReadSequenceOfObjects"
		}
	}
	sig := func(oracle string) map[string]string {
		if trigger != "" {
			return map[string]string{"oracle": oracle, "trigger": trigger, "api": api}
		}

		return map[string]string{"oracle": oracle, "op": f[0], "prims": primKinds(f)}
	}
	// wall time: a decoder call on n bytes that takes more than a second (+ 1 ms per KiB) did not work in
	// proportion to its input
	if lim := timeLimit(n); res.micros > lim {
		r.Fail("time-bound", fmt.Sprintf("the call took %d us for %d input bytes; op: %s", res.micros, n, short), sig("time-bound"))
	}
	// iterations: element decodes counted by the counting zero-width type (serix), item callbacks counted by
	// the interpreter (Deserializer sequences, stream collections): never more than 64 per input byte + 1024
	iters := res.decodes
	if (f[0] == "d" || f[0] == "sr") && len(g) >= 2 {
		idx := 2
		if len(g) > idx {
			if v, err := strconv.ParseInt(g[idx], 10, 64); err == nil {
				iters = v
			}
		}
	}
	if iters > 64*int64(n)+1024 {
		r.Fail("iters-bound", fmt.Sprintf("%d element decodes / item callbacks for %d input bytes (bound %d); op: %s", iters, n, 64*n+1024, short), sig("iters-bound"))
	}
	k := uint64(64)
	switch f[0] {
	case "x", "m", "jt", "jx":
		k = 256 // jt: encoding/json builds the generic tree of the text (an interface value + slice / map header per node)
	case "sr":
		// the stream readers may allocate 5 bytes per byte of data + 16 KiB (C02_stream_alloc_linear); the
		// harness adds the hex of the values read and the answer line (4 per byte): a bound of 16 per byte
		// separates "proportional to the data" from "proportional to a length field" already for a prefix
		// of 1 MiB in front of 16 KiB of data
		k = 16
	}
	if f[0] != "j" && res.alloc > 64<<10+k*uint64(n) {
		o := "alloc"
		if trigger != "" {
			o = "alloc-bound"
		}
		r.Fail("alloc-bound", fmt.Sprintf("allocated %d bytes for %d input bytes (bound %d); op: %s", res.alloc, n, 64<<10+k*uint64(n), short), sig(o))
	}
}

// timeLimit: a decoder call on n bytes that takes more than a second (+ 1 ms per KiB) did not work in proportion to its input
func timeLimit(n int) int64 { return int64(1_000_000) + int64(n)*1000/1024 }

// staticMisuse: the program itself names a length-prefix type (u64) or a type denotation (d0 in
// CheckTypePrefix) that the Deserializer primitive rejects by panicking whatever the input is.
func staticMisuse(f []string) bool {
	for i, t := range f {
		if t == "u64" {
			return true
		}
		if t == "c" && i+1 < len(f) && f[i+1] == "d0" {
			return true
		}
	}

	return false
}

// ---- driver of the run ----------------------------------------------------------------------------

type batch struct {
	r        *hx.Run
	n        int
	total    int
	open     bool
	timeouts int
}

func (b *batch) emit(op, mut string) {
	if !b.open || b.n >= 25 {
		_, sub := b.r.Rng.Fork()
		b.r.Case(sub)
		b.open, b.n = true, 0
	}
	if b.timeouts >= 6 && mut != "corpus" && mut != "replay" {
		// the run already is a violation with failing inputs: every further runaway call would only cost its watchdog time
		b.r.Count("skipped-after-6-timeouts")

		return
	}
	b.n++
	b.total++
	res := runIsolated(op)
	if res.answer == "timeout" {
		b.timeouts++
	}
	if lim := timeLimit(inputLen(strings.Fields(op))); res.micros > lim && res.answer != "timeout" && res.answer != "crash" {
		// wall time on a shared machine: a slow call is measured again (twice) and only the fastest run counts - a
		// decoder that works in proportion to a length field is slow every time, a descheduled process is not
		for i := 0; i < 2 && res.micros > lim; i++ {
			b.r.Count("time-remeasured")
			again := runIsolated(op)
			if again.answer != res.answer {
				break
			}
			if again.micros < res.micros {
				res.micros = again.micros
			}
		}
	}
	b.r.Line(op, res.answer)
	oracle(b.r, op, res, mut)
	f := strings.Fields(op)
	g := strings.Fields(res.answer)
	b.r.Count("op:" + f[0])
	b.r.Count("mut:" + f[0] + ":" + mut)
	b.r.Count("ans:" + f[0] + ":" + g[0])
	if n := inputLen(f); f[0] != "j" {
		switch {
		case n == 0:
			b.r.Count("len:0")
		case n < 16:
			b.r.Count("len:1-15")
		case n < 64:
			b.r.Count("len:16-63")
		default:
			b.r.Count("len:64+")
		}
	}
	nontrivial := false
	switch f[0] {
	case "j", "jt":
		nontrivial = true
	case "x", "jx":
		nontrivial = res.real != "err"
	case "d":
		nontrivial = g[0] == "ok" || (len(g) > 1 && g[1] != "0") || mut == "valid"
	default:
		nontrivial = g[0] == "ok" || (len(g) > 1 && g[1] != "0")
	}
	if nontrivial {
		h := sha256.Sum256([]byte(op))
		b.r.Nontrivial(string(h[:8]))
	}
	if b.n == 25 {
		b.r.Sample(b.r.CaseLines()[:3])
	}
}

var corpus = []string{
	// the defects of the unchanged tree (DESIGN.md section 7), minimised
	"d ffffff3f v u32 0 0",
	"d ffffff3f0102 v u32 0 16",
	"d 05000000aabb s u32 0 2",
	"sr 1,1,1,1,1,1,1,1 03aabbcc bws u8",
	"sr - ffffffffffffffff bws u64",
	"sr - ffffffffffffffff01 peek u64",
	"sr - ffffffffffffffff01 coll u64 ( num 1 )",
	"sr - 0000000001000000aa bws u64",
	"sr - 00 bytes -1",
	"sr 2,2,2,2 0400000001020304 ows u32 id",
	"sr - 00 bytes 1073741824",
	"j J1 0 " + sJ1 + " | { \"62 \"616263 }",
	"j J1 0 " + sJ1 + " | { \"62 N }",
	"j J3 0 " + sJ3 + " | { \"6e756d73 #7 }",
	"j J6 0 " + sJ6 + " | { \"7368 { \"74797065 \"78 } }",
	"j J7 0 " + sJ7 + " | { \"70 \"30783031 }",
	"m 4 8 ffffffff0100000002",
	"m 1 1 0200000005aa05bb", // the same key twice: an error since dde4606
	"m 1 1 0200000005aa06bb",
	"d 02000100 q u8 1 0 0 3 ( n 1 )",
	"d 0201000000aa0300000001 r u8 d1 1 0 0 0 - [ ( 1 c d1 1 l n 1 ) ]",
	"d 0500000003000000aa p [ ( 3 c d4 3 y ) ]",
}

func main() {
	if len(os.Args) > 1 && os.Args[1] == "--child" {
		childLoop()

		return
	}
	r := hx.Start()
	defer func() {
		if theChild != nil {
			theChild.stop()
		}
	}()
	r.Rule = "byte strings: valid encodings written by the repository's own writers (random read programs over the Deserializer primitives, stream writer programs, serix.Encode of catalogue types, SerializableOrderedMap.Encode) " +
		"mutated by bit flips / truncation / extension / splicing / length-field tampering (0..2^32-1 and 2^31..2^64-1 in every recorded prefix position) / window overwrite, plus random bytes; " +
		"JSON: JSONEncode output of 8 catalogue targets with every node replaced by values of every JSON kind, entries deleted, validation on/off; " +
		"non-trivial = the call succeeded or failed after consuming input (byte strings), every JSON document; distinct by sha256 of the request line"
	b := &batch{r: r}
	if lines := r.ReplayLines(); lines != nil {
		for _, l := range lines {
			b.emit(l, "replay")
		}
		r.Finish()

		return
	}
	for _, c := range corpus {
		b.emit(c, "corpus")
	}
	scale := r.Scale

	// (1) Deserializer programs
	var progs [][]prim
	var progStr []string
	for _, c := range dCatalogue {
		p, _ := parseD(strings.Fields(c))
		progs, progStr = append(progs, p), append(progStr, showD(p))
	}
	nD := 9000 * scale
	for i := 0; i < nD; i++ {
		rng, _ := r.Rng.Fork()
		var p []prim
		var ps string
		if rng.Chance(2, 5) {
			k := rng.Intn(len(progs))
			p, ps = progs[k], progStr[k]
		} else {
			ps = randProg(rng)
			p, _ = parseD(strings.Fields(ps))
			ps = showD(p)
		}
		e := &enc{rng: rng}
		e.encodeD(p)
		e2 := &enc{rng: rng}
		e2.encodeD(p)
		var data []byte
		mut := "random"
		if rng.Chance(1, 12) {
			data = rbytes(rng, 0, 40)
		} else {
			data, mut = mutate(rng, e.b, e2.b, e.pos)
		}
		if zeroSizeLoop(p) && len(data) > 0 {
			// keep wide counts over empty items small
			for _, q := range e.pos {
				if q.width == 4 && getLE(data, q.off, 4) > 1<<16 {
					putLE(data, q.off, 4, uint64(rng.Intn(1<<16)))
				}
			}
			if mut != "valid" && mut != "prefix" {
				continue
			}
		}
		b.emit("d "+hx.Hex(data)+" "+ps, mut)
		// every recorded length field set to every large value, now and then
		if i%40 == 0 && !zeroSizeLoop(p) {
			for _, q := range e.pos {
				for _, v := range []uint64{1 << 24, 1 << 28, 1 << 31, 1<<32 - 1} {
					d2 := append([]byte(nil), e.b...)
					putLE(d2, q.off, q.width, v)
					b.emit("d "+hx.Hex(d2)+" "+ps, "prefix-sweep")
				}
			}
		}
	}

	// (2) stream readers over hostile input
	nS := 6000 * scale
	for i := 0; i < nS; i++ {
		rng, _ := r.Rng.Fork()
		ws := randWProg(rng)
		wp := sx.ParseW(strings.Fields(ws))
		buf := newBuf()
		if err := sx.RunW(wp, buf); err != nil {
			continue
		}
		valid, _ := buf.Bytes()
		ws2 := randWProg(rng)
		buf2 := newBuf()
		_ = sx.RunW(sx.ParseW(strings.Fields(ws2)), buf2)
		other, _ := buf2.Bytes()
		rp, _ := sx.ReadOf(wp)
		data, mut := mutate(rng, valid, other, wLayout(wp))
		if rng.Chance(1, 3) {
			rp = hostileR(rng, rp)
			mut += "+prog"
		}
		if rng.Chance(1, 6) {
			// the same calls made by the callback of ReadObjectFromReader
			k := rng.Intn(len(rp) + 1)
			rp = append(append(append([]sx.ROp(nil), rp[:k]...), sx.ROp{K: "ofr", Item: rp[k:]}), []sx.ROp(nil)...)
			mut += "+ofr"
		}
		b.emit("sr "+readerTok(rng, len(data))+" "+hx.Hex(data)+" "+sx.ShowR(rp), mut)
		if i%5 == 0 {
			// the same stream through a stream.ByteReader, the program cut into pieces with Offset / BytesRead / Skip / GoTo in between
			b.emit("sk "+hx.Hex(data)+" "+seekProg(rng, rp, len(data)), mut+"+seek")
		}
		if i%40 == 0 {
			for _, q := range wLayout(wp) {
				vs := []uint64{1 << 24, 1 << 28, 1 << 31, 1<<32 - 1}
				if q.width == 8 {
					vs = hostile64
				}
				for _, v := range vs {
					d2 := append([]byte(nil), valid...)
					putLE(d2, q.off, q.width, v)
					b.emit("sr "+randChunks(rng, len(d2))+" "+hx.Hex(d2)+" "+sx.ShowR(rp), "prefix-sweep")
				}
			}
		}
	}

	// (2b) a length prefix far above what the stream holds, in front of enough real data to get the reader
	// past its first 16 KiB: the allocation must follow the delivered data, not the prefix
	nBig := 240
	if scale > 1 {
		nBig = 720
	}
	for i := 0; i < nBig; i++ {
		rng, _ := r.Rng.Fork()
		denoted := hx.Pick(rng, []int{1 << 20, 1<<20 + 1, 4 << 20, 64 << 20, 1 << 28, 1 << 30})
		actual := hx.Pick(rng, []int{16384, 16385, 20000, 32768, 40000, 65536, 16383, 8000})
		if i%12 == 11 {
			denoted = actual // the honest stream of that size, for contrast
		}
		lp := hx.Pick(rng, []string{"u32", "u64"})
		var data []byte
		var prog string
		switch i % 4 {
		case 0:
			prog = "bytes " + strconv.Itoa(denoted)
		case 1:
			prog = "bws " + lp
			data = make([]byte, sx.LPWidth(lp))
			putLE(data, 0, len(data), uint64(denoted))
		case 2:
			prog = "obj " + strconv.Itoa(denoted) + " id"
		default:
			prog = "ows " + lp + " " + hx.Pick(rng, []string{"id", "id", "half"})
			data = make([]byte, sx.LPWidth(lp))
			putLE(data, 0, len(data), uint64(denoted))
		}
		data = append(data, rbytes(rng, actual, actual)...)
		var chunks string
		switch (i / 4) % 4 {
		case 0:
			chunks = "-"
		case 1:
			if actual > 20000 {
				chunks = constChunks(hx.Pick(rng, []int{2, 3}), len(data))
			} else {
				chunks = constChunks(1, len(data))
			}
		case 2:
			chunks = constChunks(hx.Pick(rng, []int{7, 251, 4099, 16381}), len(data))
		default:
			c := make([]int, rng.Range(4, 40))
			for j := range c {
				c[j] = hx.Pick(rng, []int{0, 1, 5, 100, 4096, 16384, 16385, 30000})
			}
			chunks = sx.ShowChunks(c)
		}
		b.emit("sr "+chunks+" "+hx.Hex(data)+" "+prog, "big-prefix")
	}

	// (3) serix.Decode of catalogue types (oracle only), SerializableOrderedMap, typeutils
	nX := 2500 * scale
	for i := 0; i < nX; i++ {
		rng, _ := r.Rng.Fork()
		name := hx.Pick(rng, []string{"X1", "X1", "X2", "X3", "X4", "X4"})
		valid := xSeed(name, rng)
		data, mut := mutate(rng, valid, xSeed(name, rng), nil)
		b.emit(fmt.Sprintf("x %s %d %s", name, rng.Intn(2), hx.Hex(data)), mut)
	}
	// serix.Encode does not tell where its length fields are: EVERY offset of a valid encoding is overwritten by a huge
	// little-endian value of every prefix width (ff / ffff / ffffff7f / 00000001), so that every count and every length
	// field of the type is hostile once, with the bytes behind it intact
	for _, name := range []string{"X1", "X2", "X3", "X4"} {
		for k := 0; k < 2*scale; k++ {
			rng, _ := r.Rng.Fork()
			valid := xSeed(name, rng)
			for off := 0; off < len(valid); off++ {
				for _, pat := range [][]byte{{0xff}, {0xff, 0xff}, {0xff, 0xff, 0xff, 0x7f}, {0, 0, 0, 1}} {
					if off+len(pat) > len(valid)+1 {
						continue
					}
					d2 := append([]byte(nil), valid...)
					d2 = append(d2[:off], pat...)
					if off+len(pat) < len(valid) {
						d2 = append(d2, valid[off+len(pat):]...)
					}
					b.emit(fmt.Sprintf("x %s %d %s", name, (off+k)%2, hx.Hex(d2)), "offset-sweep")
					if len(pat) == 4 && pat[0] == 0xff && off+len(pat) < len(valid) {
						// the input ENDS behind the hostile value: if it is a count, no element can be decoded from what is left
						b.emit(fmt.Sprintf("x %s %d %s", name, (off+k+1)%2, hx.Hex(d2[:off+len(pat)])), "offset-sweep-cut")
					}
				}
			}
		}
	}
	// every catalogue type and random registered universes of harness/serixgen under the resource oracle
	{
		rng, _ := r.Rng.Fork()
		for _, name := range serixgen.CatalogueNames() {
			if genUniverse(rng, "K:"+name, 1, b.emit) {
				r.Count("universe:catalogue")
			}
		}
		for k := 0; k < 30*scale; k++ {
			if genUniverse(rng, fmt.Sprintf("G:%d:%d", rng.U64(), rng.Range(2, 4)), 1, b.emit) {
				r.Count("universe:generated")
			}
		}
		// the same universes on the JSON side: JSONDecode of kind-mutated JSONEncode texts (no-panic / time / allocation)
		for _, name := range serixgen.CatalogueNames() {
			if genUniverseJSON(rng, "K:"+name, b.emit) {
				r.Count("universe-json:catalogue")
			}
		}
		for k := 0; k < 30*scale; k++ {
			if genUniverseJSON(rng, fmt.Sprintf("G:%d:%d", rng.U64(), rng.Range(2, 4)), b.emit) {
				r.Count("universe-json:generated")
			}
		}
	}
	// (3b) input that ENDS behind a count prefix (or behind a few complete elements) while the count denotes many more:
	// what bounds the element loop is that an element can not be decoded from an exhausted input - every primitive
	// on its own as the element of a sequence, and slices of all-optional structs under serix.Decode
	for _, l := range exhaustedLines() {
		b.emit(l, "exhausted")
	}
	// zero-width element / key / value types, every prefix width, every hostile count (each tier in full)
	for _, t := range zTargets {
		for _, w := range zWidths {
			rng, _ := r.Rng.Fork()
			for _, op := range genZ(rng, t, w) {
				b.emit(op, "zero-width")
			}
		}
	}
	// concurrent first use of fresh serix.APIs: 8 goroutines behind a barrier, each with struct types of its own
	for i := 0; i < 12*scale; i++ {
		b.emit(fmt.Sprintf("x C:25:8 %d -", i%2), "concurrent")
	}
	nM := 1200 * scale
	for i := 0; i < nM; i++ {
		rng, _ := r.Rng.Fork()
		kw, vw := 1, 1
		switch rng.Intn(3) {
		case 1:
			kw, vw = 2, 4
		case 2:
			kw, vw = 4, 8
		}
		n := rng.Range(0, 6)
		var valid []byte
		valid = binary.LittleEndian.AppendUint32(valid, uint32(n))
		valid = append(valid, rbytes(rng, n*(kw+vw), n*(kw+vw))...)
		if i%7 == 0 {
			valid = omapEncode(rng, kw, vw)
		}
		data, mut := mutate(rng, valid, valid, []prefixPos{{0, 4}})
		b.emit(fmt.Sprintf("m %d %d %s", kw, vw, hx.Hex(data)), mut)
	}
	// zero-width key types: whatever the count says, the second empty key is refused as a duplicate
	for _, kv := range []string{"0 0", "0 1"} {
		for _, cnt := range []uint64{0, 1, 2, 3, 0xff, 0x10000, 1 << 24, 1<<31 - 1, 1 << 31, 1<<32 - 1} {
			for _, tail := range []string{"", "00", "0700", "070809"} {
				d := make([]byte, 4)
				putLE(d, 0, 4, cnt)
				b.emit("m "+kv+" "+hx.Hex(append(d, hx.UnHex("00" + tail)[1:]...)), "zero-width-keys")
			}
		}
	}
	for i := 0; i < 300*scale; i++ {
		rng, _ := r.Rng.Fork()
		b.emit("tu "+hx.Pick(rng, []string{"u64", "a32"})+" "+hx.Hex(rbytes(rng, 0, 40)), "random")
	}
	// the string decoders of numbers.go called directly
	for i := 0; i < 1500*scale; i++ {
		rng, _ := r.Rng.Fork()
		b.emit(genNX(rng), "strings")
	}
	// JSONDecode on raw texts: not JSON, not an object, nested beyond the limit, cut / wrapped / doubled valid texts
	{
		rng, _ := r.Rng.Fork()
		genJT(rng, b.emit)
	}

	// (4) JSON documents
	nJ := 7000 * scale // 11 targets
	pl := pool()
	alwaysKind := map[int]bool{}
	seenKind := map[string]bool{}
	for pi, repl := range pl {
		if k := kindOf(repl); !seenKind[k] {
			seenKind[k] = true
			alwaysKind[pi] = true
		}
	}
	emitted := 0
	for emitted < nJ {
		rng, _ := r.Rng.Fork()
		t := &jtargets[rng.Intn(len(jtargets))]
		seed := seedTree(t, rng)
		v := strconv.Itoa(rng.Intn(2))
		line := func(tree any) string {
			return "j " + t.name + " " + v + " " + t.schema + " | " + strings.Join(showTree(tree), " ")
		}
		b.emit(line(seed), "valid")
		emitted++
		var ps [][]any
		paths(seed, nil, &ps)
		for _, p := range ps {
			if len(p) == 0 {
				// the top-level document is an object by the signature of MapDecode: other objects only
				for _, repl := range pl {
					if m, ok := repl.(map[string]any); ok && rng.Chance(1, 3) {
						b.emit(line(m), "kind:top")
						emitted++
					}
				}

				continue
			}
			for pi, repl := range pl {
				// every node is replaced by one value of EVERY JSON kind (null, bool, number, string, array,
				// object); of the other pool values (syntax classes of the strings, shapes of arrays and
				// objects) the quick tier takes a sample per node
				if !alwaysKind[pi] && scale == 1 && !rng.Chance(1, 9) {
					continue
				}
				b.emit(line(replaceAt(seed, p, repl, false)), "kind:"+kindOf(repl))
				emitted++
			}
			if rng.Chance(1, 2) {
				b.emit(line(replaceAt(seed, p, nil, true)), "delete")
				emitted++
			}
		}
	}
	r.Extra["cases_of_25_requests"] = r.Evaluations
	r.Evaluations = b.total
	r.Finish()
}

func kindOf(v any) string {
	switch v.(type) {
	case nil:
		return "null"
	case bool:
		return "bool"
	case float64:
		return "number"
	case string:
		return "string"
	case []any:
		return "array"
	}

	return "object"
}

// omapHistory builds a map by a history of Set / Delete / re-Set / Clear calls (delete the tail, the
// head, a middle entry, everything; delete then encode) rather than by Sets only, and encodes it.
func omapHistory[K comparable, V any](rng *hx.Rng, key func() K, val func() V) []byte {
	m := serializableorderedmap.New[K, V]()
	var keys []K
	for i := rng.Range(0, 8); i > 0; i-- {
		switch x := rng.Intn(10); {
		case x < 6 || len(keys) == 0:
			k := key()
			if len(keys) > 0 && rng.Chance(1, 4) {
				k = hx.Pick(rng, keys) // re-Set keeps the position
			}
			m.Set(k, val())
			keys = append(keys, k)
		case x < 9:
			// delete the tail, the head or any entry
			k := hx.Pick(rng, keys)
			if tk, _, ok := m.Tail(); ok && rng.Bool() {
				k = tk
			} else if hk, _, ok := m.Head(); ok && rng.Chance(1, 3) {
				k = hk
			}
			m.Delete(k)
		default:
			m.Clear()
		}
	}
	if rng.Chance(1, 4) {
		if tk, _, ok := m.Tail(); ok {
			m.Delete(tk) // the entry set last goes, nothing is set afterwards
		}
	}
	b, err := m.Encode(plainAPI)
	if err != nil {
		panic(err)
	}

	return b
}

func omapEncode(rng *hx.Rng, kw, vw int) []byte {
	switch kw {
	case 1:
		return omapHistory(rng, func() uint8 { return uint8(rng.Intn(8)) }, func() uint8 { return uint8(rng.U64()) })
	case 2:
		return omapHistory(rng, func() uint16 { return uint16(rng.Intn(8)) << 8 }, func() uint32 { return uint32(rng.U64()) })
	default:
		return omapHistory(rng, func() uint32 { return uint32(rng.U64()) }, func() uint64 { return rng.U64() })
	}
}
