// C02, serix binary Decode part: hostile inputs for registered types.  Catalogue types and randomly
// generated registered universes (harness/serixgen, shared with C01/C03); every successful encoding is
// mutated (bit flips, truncation, extension, splicing, length-field tampering) and decoded with and
// without validation.  Compared line by line with the Lean serix model (drv_c02b); the oracles
// "Decode never panics" and "consumed <= supplied" are evaluated on the real code by serixgen.Runner.
package main

import "verifharness/serixgen"

func main() {
	serixgen.Main("C02",
		"catalogue types + random registered universes (depth<=4); per value one encoding and 8 mutated inputs (bit flips, truncation, extension, splicing, "+
			"length-prefix tampering), decoded mostly with validation; non-trivial as in C01 (value with a non-empty collection/string, nested struct or non-nil interface); "+
			"distinct by sha256(schema, value, mode)",
		serixgen.Plan{Values: 2, Mutations: 8, RoundTrip: false, BothModes: false}, 500, nil)
}
