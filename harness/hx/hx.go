// Package hx is the shared plumbing of the correspondence harnesses: one PRNG from which every
// random choice derives, the line-aligned ops/impl streams, property-oracle failures and the
// measured input distribution that ends up in the evidence file.
package hx

import (
	"bufio"
	"encoding/hex"
	"encoding/json"
	"flag"
	"fmt"
	"os"
	"path/filepath"
	"sort"
	"strings"
	"sync"
)

// Rng is splitmix64.
type Rng struct{ s uint64 }

func NewRng(seed uint64) *Rng { return &Rng{s: seed} }

func (r *Rng) U64() uint64 {
	r.s += 0x9e3779b97f4a7c15
	z := r.s
	z = (z ^ (z >> 30)) * 0xbf58476d1ce4e5b9
	z = (z ^ (z >> 27)) * 0x94d049bb133111eb

	return z ^ (z >> 31)
}

// Intn returns a number in [0,n).
func (r *Rng) Intn(n int) int {
	if n <= 0 {
		return 0
	}

	return int(r.U64() % uint64(n))
}

// Range returns a number in [lo,hi].
func (r *Rng) Range(lo, hi int) int { return lo + r.Intn(hi-lo+1) }

func (r *Rng) Bool() bool { return r.U64()&1 == 1 }

// Chance is true with probability num/den.
func (r *Rng) Chance(num, den int) bool { return r.Intn(den) < num }

// Fork derives an independent generator (per case), so that a case replays from its sub-seed.
func (r *Rng) Fork() (*Rng, uint64) {
	s := r.U64()

	return NewRng(s), s
}

func Pick[T any](r *Rng, xs []T) T { return xs[r.Intn(len(xs))] }

// Hex prints a byte string the way the line protocol wants it ("-" for empty).
func Hex(b []byte) string {
	if len(b) == 0 {
		return "-"
	}

	return hex.EncodeToString(b)
}

func UnHex(s string) []byte {
	if s == "-" {
		return []byte{}
	}
	b, err := hex.DecodeString(s)
	if err != nil {
		panic(err)
	}

	return b
}

// Finding is a failure of a property oracle evaluated on the real code.
type Finding struct {
	Case      int               `json:"case"`
	Oracle    string            `json:"oracle"`
	Detail    string            `json:"detail"`
	Signature map[string]string `json:"signature"`
}

// Run is one harness execution.
type Run struct {
	Seed    uint64
	Tier    string
	OutDir  string
	Replay  string
	Scale   int // 1 for quick, larger for thorough
	Rng     *Rng
	ops     *bufio.Writer
	impl    *bufio.Writer
	opsF    *os.File
	implF   *os.File
	mu      sync.Mutex
	caseNo  int
	caseBuf []string
	caseOps []string // op lines of the current case (for findings streamed to oracle.partial.jsonl)
	partial *os.File

	Evaluations int
	nontrivial  map[string]struct{}
	Hist        map[string]int
	Samples     []any
	Findings    []Finding
	perSig      map[string]int
	Rule        string
	Extra       map[string]any
	MaxSamples  int
}

// Start parses the common flags and opens the output streams.
func Start() *Run {
	seed := flag.Uint64("seed", 1, "seed")
	tier := flag.String("tier", "quick", "quick|thorough")
	out := flag.String("out", "", "output directory")
	replay := flag.String("replay", "", "replay file with ops lines")
	flag.Parse()
	if *out == "" {
		fmt.Fprintln(os.Stderr, "--out required")
		os.Exit(2)
	}
	if err := os.MkdirAll(*out, 0o755); err != nil {
		panic(err)
	}
	r := &Run{Seed: *seed, Tier: *tier, OutDir: *out, Replay: *replay, Scale: 1, Rng: NewRng(*seed),
		nontrivial: map[string]struct{}{}, Hist: map[string]int{}, Extra: map[string]any{}, MaxSamples: 3}
	if *tier == "thorough" {
		r.Scale = 20
	}
	var err error
	if r.opsF, err = os.Create(filepath.Join(*out, "ops.txt")); err != nil {
		panic(err)
	}
	if r.implF, err = os.Create(filepath.Join(*out, "impl.txt")); err != nil {
		panic(err)
	}
	r.ops = bufio.NewWriterSize(r.opsF, 1<<20)
	r.impl = bufio.NewWriterSize(r.implF, 1<<20)

	return r
}

// Case starts a new case; the header line is echoed verbatim by the Lean driver.
func (r *Run) Case(subseed uint64) int {
	r.caseNo++
	r.Evaluations++
	h := fmt.Sprintf("# case %d %d", r.caseNo, subseed)
	r.mu.Lock()
	fmt.Fprintln(r.ops, h)
	fmt.Fprintln(r.impl, h)
	r.caseBuf = r.caseBuf[:0]
	r.caseOps = append(r.caseOps[:0], h)
	r.mu.Unlock()

	return r.caseNo
}

// Line emits one request and the implementation's canonical answer to it.
func (r *Run) Line(op string, implAnswer string) {
	if strings.ContainsAny(op, "\n") || strings.ContainsAny(implAnswer, "\n") {
		panic("newline in protocol line")
	}
	r.mu.Lock()
	fmt.Fprintln(r.ops, op)
	fmt.Fprintln(r.impl, implAnswer)
	if len(r.caseBuf) < 200 {
		r.caseBuf = append(r.caseBuf, op+" => "+implAnswer)
	}
	if len(r.caseOps) < 2000 {
		r.caseOps = append(r.caseOps, op)
	}
	r.mu.Unlock()
}

// CaseLines returns the lines of the current case (for samples).
func (r *Run) CaseLines() []string { return append([]string(nil), r.caseBuf...) }

// Nontrivial records a canonical key of a case that is non-trivial by the harness's rule.
func (r *Run) Nontrivial(key string) {
	r.nontrivial[key] = struct{}{}
}

func (r *Run) Count(k string) { r.Hist[k]++ }

func (r *Run) CountN(k string, n int) { r.Hist[k] += n }

func (r *Run) Sample(s any) {
	if len(r.Samples) < r.MaxSamples {
		r.Samples = append(r.Samples, s)
	}
}

// Fail records a property-oracle failure observed on the implementation.
func (r *Run) Fail(oracle, detail string, sig map[string]string) {
	r.mu.Lock()
	defer r.mu.Unlock()
	// cap per signature, so that many occurrences of one (possibly known) finding cannot crowd out a rare other one
	keys := make([]string, 0, len(sig))
	for k := range sig {
		keys = append(keys, k)
	}
	sort.Strings(keys)
	var sk strings.Builder
	for _, k := range keys {
		sk.WriteString(k + "=" + sig[k] + ";")
	}
	if r.perSig == nil {
		r.perSig = map[string]int{}
	}
	r.perSig[sk.String()]++
	r.Hist["finding:"+oracle]++
	if r.perSig[sk.String()] == 1 && len(r.perSig) <= 40 {
		// streamed at once (first occurrence of a signature), so that the finding and the op lines that led to it
		// survive a harness that is killed later (run-away allocation, fatal runtime error, hang) and never
		// reaches Finish
		r.streamFinding(Finding{Case: r.caseNo, Oracle: oracle, Detail: detail, Signature: sig})
	}
	if r.perSig[sk.String()] <= 250 && len(r.Findings) < 20000 {
		r.Findings = append(r.Findings, Finding{Case: r.caseNo, Oracle: oracle, Detail: detail, Signature: sig})
	}
}

func (r *Run) streamFinding(f Finding) {
	if r.partial == nil {
		pf, err := os.OpenFile(filepath.Join(r.OutDir, "oracle.partial.jsonl"), os.O_CREATE|os.O_WRONLY|os.O_TRUNC, 0o644)
		if err != nil {
			return
		}
		r.partial = pf
	}
	b, err := json.Marshal(struct {
		Finding
		Ops []string `json:"ops"`
	}{f, append([]string(nil), r.caseOps...)})
	if err != nil {
		return
	}
	r.partial.Write(append(b, '\n'))
}

// Finish flushes everything and writes stats.json and oracle.json.
func (r *Run) Finish() {
	r.ops.Flush()
	r.impl.Flush()
	r.opsF.Close()
	r.implF.Close()
	keys := make([]string, 0, len(r.Hist))
	for k := range r.Hist {
		keys = append(keys, k)
	}
	sort.Strings(keys)
	stats := map[string]any{
		"evaluations":         r.Evaluations,
		"distinct_nontrivial": len(r.nontrivial),
		"rule":                r.Rule,
		"samples":             r.Samples,
		"histogram":           r.Hist,
		"extra":               r.Extra,
	}
	writeJSON(filepath.Join(r.OutDir, "stats.json"), stats)
	if r.Findings == nil {
		r.Findings = []Finding{}
	}
	writeJSON(filepath.Join(r.OutDir, "oracle.json"), r.Findings)
}

func writeJSON(p string, v any) {
	b, err := json.MarshalIndent(v, "", " ")
	if err != nil {
		panic(err)
	}
	if err := os.WriteFile(p, b, 0o644); err != nil {
		panic(err)
	}
}

// ReplayLines returns the op lines of a replay file (one op per line, '#' lines skipped), or nil.
func (r *Run) ReplayLines() []string {
	if r.Replay == "" {
		return nil
	}
	b, err := os.ReadFile(r.Replay)
	if err != nil {
		panic(err)
	}
	var out []string
	for _, l := range strings.Split(string(b), "\n") {
		l = strings.TrimSpace(l)
		if l == "" || strings.HasPrefix(l, "#") {
			continue
		}
		out = append(out, l)
	}

	return out
}

// Safely runs f and reports a recovered panic as a string.
func Safely(f func()) (panicked string) {
	defer func() {
		if e := recover(); e != nil {
			panicked = fmt.Sprint(e)
		}
	}()
	f()

	return ""
}
