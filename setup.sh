#!/bin/bash
# Builds, offline, what the registered checks need: the Lean property modules and drivers of every
# check listed in MANIFEST.json, and the Go harness packages (against /repo's working tree).
set -e
cd "$(dirname "$0")"
export GOFLAGS=-mod=mod GOPROXY=off GOSUMDB=off GOTOOLCHAIN=local
python3 - <<'PY'
import json, os, subprocess, sys
sys.path.insert(0, os.getcwd())
import checklib
man = json.load(open("MANIFEST.json"))
targets, pkgs = [], []
for c in man["checks"]:
    spec = checklib.load_spec(c["property_id"])
    mods = spec["lean_props"] if isinstance(spec["lean_props"], list) else [spec["lean_props"]]
    targets += mods + spec.get("lean_extra", [])
    for part in checklib.parts_of(spec):
        if part.get("driver"): targets.append(part["driver"])
        if part.get("harness"): pkgs.append("./" + part["harness"])
targets = sorted(set(targets)); pkgs = sorted(set(pkgs))
print("lake build", " ".join(targets), flush=True)
subprocess.check_call(["lake", "build"] + targets, cwd="lean")
print("go build", " ".join(pkgs), flush=True)
if len(pkgs) == 1:
    subprocess.check_call(["go", "build", "-tags", "verif", "-o", os.devnull] + pkgs, cwd="harness")
elif pkgs:
    subprocess.check_call(["go", "build", "-tags", "verif"] + pkgs, cwd="harness")  # several main packages: results are discarded, the build cache is warm
subprocess.check_call(["go", "build", "-tags", "verif", "./tools/..."], cwd="harness")
PY
echo setup-ok
