#!/bin/bash
# Builds the Lean library, the drivers and warms the Go build cache. Offline.
set -e
cd "$(dirname "$0")"
export GOFLAGS=-mod=mod GOPROXY=off GOSUMDB=off GOTOOLCHAIN=local
(cd lean && lake build Hive Driver $(grep -o 'drv_c[0-9]*' lakefile.toml | sort -u))
(cd harness && go build -tags verif ./... )
echo setup-ok
