#!/bin/bash
# Builds, offline, what the registered checks need: the Lean property modules and drivers of every
# check listed in MANIFEST.json, and the Go harness packages (against /repo's working tree).
set -e
cd "$(dirname "$0")"
export GOFLAGS=-mod=mod GOPROXY=off GOSUMDB=off GOTOOLCHAIN=local
python3 - <<'PY'
import json, os, subprocess, sys
sys.path.insert(0, os.getcwd())
import checklib
man = json.load(open("MANIFEST.json"))
targets, pkgs = [], []
for c in man["checks"]:
    spec = checklib.load_spec(c["property_id"])
    mods = spec["lean_props"] if isinstance(spec["lean_props"], list) else [spec["lean_props"]]
    targets += mods + spec.get("lean_extra", [])
    if checklib.digest_module(c["property_id"]): targets.append(checklib.digest_module(c["property_id"]))
    for part in checklib.parts_of(spec):
        if part.get("driver"): targets.append(part["driver"])
        if part.get("harness"): pkgs.append("./" + part["harness"])
targets = sorted(set(targets)); pkgs = sorted(set(pkgs))
# The generated Lean files (Hive/Gen/*) are regenerated from /repo's working tree first, exactly as every check does
# before it builds: the proofs that setup compiles are then the ones about the code as it is now.  Nothing below is
# fatal: a proof obligation that no longer holds, or a harness that no longer builds against a changed tree, is
# reported by the check of that property (VIOLATION ...), not by a failing setup.
subprocess.call(["go", "build", "-tags", "verif", "./tools/..."], cwd="harness")
for c in man["checks"]:
    spec = checklib.load_spec(c["property_id"])
    if spec.get("regen") or checklib.digest_module(c["property_id"]):
        ctx = checklib.Ctx(c["property_id"], "quick", 1)
        os.makedirs(ctx.scratch, exist_ok=True)
        try:
            fails = (spec["regen"](ctx) if spec.get("regen") else None) or []
            fails += checklib.regen_digest(ctx)
            if fails: print("setup: regeneration for", c["property_id"], "reported", len(fails), "failure(s) (left to the check)", flush=True)
        except Exception as e:
            print("setup: regeneration for", c["property_id"], "raised", repr(e), "(left to the check)", flush=True)
        finally:
            import shutil; shutil.rmtree(ctx.scratch, ignore_errors=True)
print("lake build", " ".join(targets), flush=True)
if subprocess.call(["lake", "build"] + targets, cwd="lean") != 0:
    print("setup: lake build reported failures; building the targets one by one (the failing ones are left to their checks)", flush=True)
    for t in targets:
        if subprocess.call(["lake", "build", t], cwd="lean", stdout=subprocess.DEVNULL, stderr=subprocess.DEVNULL) != 0:
            print("setup: target does not build:", t, flush=True)
print("go build", " ".join(pkgs), flush=True)
rc = subprocess.call(["go", "build", "-tags", "verif", "-o", os.devnull] + pkgs, cwd="harness") if len(pkgs) == 1 else \
     subprocess.call(["go", "build", "-tags", "verif"] + pkgs, cwd="harness")  # several main packages: results are discarded, the build cache is warm
if rc != 0:
    print("setup: some harness packages do not build against /repo's working tree (left to their checks)", flush=True)
PY
echo setup-ok
